"""C01 case generator: the four date constructors on valid / non-existent / out-of-range / type-extreme
field tuples, accessors, succ/pred and the two orders on boundary dates of every 400-year residue,
plus checksummed day-number ranges (`d.range lo hi`, evaluated inside both runners and recomputed
from the calendar rules by the judge).  thorough = every representable day number."""
from vcheck import case_line, parse_case
from common import *

RULE = ('structured lattice: years {range ends, 0, epoch, i32 extremes} +-2 and all 400 residues (twice, '
        'positive and negative) x months {0..13,255,2^31,u32::MAX} x days {0..2,27..33,...}; ordinals at every '
        'month boundary +-1 and {0,365..368,...}; ISO weeks {0,1,2,51..55,...} x 7 weekdays; day numbers at '
        'range ends, multiples of 146097, i32 extremes, checked_add(365) boundary; adjacent / same-week / '
        'random date pairs for the orders; leap_year / week0 / day number through NaiveDateTime and the panicking constructor twins on the same lattices; seeded random draws; d.range windows (quick: range ends, year '
        'boundary of every residue, epoch, day 0, the whole cycle 1601..2000; thorough: all 191,491,529 day numbers in 4096-day chunks)')

MIN_YEAR, MAX_YEAR = -262143, 262142
CHUNK = 4096


# -- a small proleptic Gregorian calendar, used only to *name* inputs (dates of day numbers) ------
def is_leap(y):
    return (y % 4 == 0 and y % 100 != 0) or y % 400 == 0


def days_before_year(y):
    p = y - 1
    return 365 * p + p // 4 - p // 100 + p // 400


CUM = [0, 31, 59, 90, 120, 151, 181, 212, 243, 273, 304, 334, 365]


def cum(leap, m):      # days before month m (1..13)
    return CUM[m - 1] + (1 if leap and m > 2 else 0)


def yo_of_dn(n):
    y = (n * 400) // 146097 + 1
    while days_before_year(y) >= n:
        y -= 1
    while days_before_year(y + 1) < n:
        y += 1
    return y, n - days_before_year(y)


def md_of_o(leap, o):
    m = 1
    while m < 12 and cum(leap, m + 1) < o:
        m += 1
    return m, o - cum(leap, m)


def iso_of_dn(n):
    wd = (n - 1) % 7
    y, o = yo_of_dn(n - wd + 3)
    return y, (o - 1) // 7 + 1, wd


DN_MIN = days_before_year(MIN_YEAR) + 1
DN_MAX = days_before_year(MAX_YEAR + 1)
assert DN_MAX - DN_MIN + 1 == 191491529


def ndays(y):
    return 366 if is_leap(y) else 365


def date(y, o):
    return [y, o]


def boundary_years():
    ys = around([MIN_YEAR, MAX_YEAR, 0, 1, 4, 100, 400, -400, 1970, 2000, 1900, 2024, I32_MIN, I32_MAX,
                 MIN_YEAR + 400, MAX_YEAR - 400, 262144, -262144], lo=I32_MIN, hi=I32_MAX)
    return ys


def residue_years():
    return list(range(1600, 2000)) + list(range(-800, -400))


def day_cases(n):
    """The individual cases that one day of a d.range chunk stands for."""
    out = [case_line('d.days', n)]
    if DN_MIN <= n <= DN_MAX:
        y, o = yo_of_dn(n)
        m, d = md_of_o(is_leap(y), o)
        iy, iw, wd = iso_of_dn(n)
        out += [case_line('d.acc', date(y, o)), case_line('d.ymd', y, m, d), case_line('d.yo', y, o),
                case_line('d.isoywd', iy, iw, wd), case_line('d.succ', date(y, o)), case_line('d.pred', date(y, o))]
    return out


def range_lines(lo, hi, chunk=CHUNK):
    out = []
    while lo < hi:
        out.append(case_line('d.range', lo, min(hi, lo + chunk)))
        lo += chunk
    return out


def quick_windows():
    w = [(DN_MIN - 40, DN_MIN + 800), (DN_MAX - 800, DN_MAX + 40), (-400, 800),
         (days_before_year(1969) + 330, days_before_year(1970) + 70)]
    for y in list(range(2000, 2400)) + list(range(-400, 0)):       # year boundary of every residue, twice
        b = days_before_year(y)
        w.append((b - 8, b + 9))
    for y in (1900, 2000, 2024, 2100, -4, MIN_YEAR + 1, MAX_YEAR - 1):   # some whole years
        w.append((days_before_year(y) + 1, days_before_year(y + 1) + 1))
    for k in (-1310, -1, 0, 1, 13, 1310):                                   # 400-year cycle seams
        w.append((k * 146097 - 5, k * 146097 + 6))
    w.append((days_before_year(1601) + 1, days_before_year(2001) + 1))      # one whole 400-year cycle
    return w


def structured(tier, rng):
    yb = boundary_years()
    yr = residue_years()
    if tier != 'quick':
        yr = yr + list(range(MIN_YEAR, MIN_YEAR + 401)) + list(range(MAX_YEAR - 400, MAX_YEAR + 1)) + list(range(-400, 401))
    months = list(range(0, 14)) + [255, 2**31, U32_MAX]
    days = [0, 1, 2, 15, 27, 28, 29, 30, 31, 32, 33, 255, 2**31, U32_MAX]
    for y in yb:
        for m in months:
            for d in days:
                yield case_line('d.ymd', y, m, d)
    for y in yr:
        for (m, d) in ((1, 1), (1, 31), (2, 28), (2, 29), (2, 30), (3, 1), (4, 30), (4, 31), (12, 31), (12, 32), (13, 1), (0, 1)):
            yield case_line('d.ymd', y, m, d)
    ords = [0, 1, 2, 59, 60, 61, 364, 365, 366, 367, 368, 511, 512, 4097, 2**28 + 1, 2**31, U32_MAX]
    for y in yb:
        for o in ords:
            yield case_line('d.yo', y, o)
    for y in yr:
        for o in (0, 1, 60, 365, 366, 367):
            yield case_line('d.yo', y, o)
    weeks = [0, 1, 2, 26, 51, 52, 53, 54, 55, 64, 613566757, 2**31, U32_MAX]
    for y in yb:
        for w in weeks:
            for wd in range(7):
                yield case_line('d.isoywd', y, w, wd)
    for y in yr:
        for w in (1, 52, 53):
            for wd in range(7):
                yield case_line('d.isoywd', y, w, wd)
    dns = around([DN_MIN, DN_MAX, 0, 1, 365, 366, 719163, I32_MIN, I32_MAX, I32_MAX - 365, -365, 146097, -146097,
                  146097 * 1310, -146097 * 1310, 36524, 36525, 1461, 1460], (-3, -2, -1, 0, 1, 2, 3), lo=I32_MIN, hi=I32_MAX)
    for k in range(-12, 13):
        dns += around([k * 146097, k * 146097 + 36524 * 3, k * 146097 + 36524], (-1, 0, 1))
    for n in dns:
        yield case_line('d.days', n)
        yield case_line('d.pdays', n)
    # the panicking twins on a reduced lattice
    for y in yb:
        for m in months[::2] + [2, 12, 13]:
            for d in (0, 1, 28, 29, 30, 31, 32, U32_MAX):
                yield case_line('d.pymd', y, m, d)
        for o in ords[:11] + [U32_MAX]:
            yield case_line('d.pyo', y, o)
        for w in (0, 1, 52, 53, 54, U32_MAX):
            for wd in (0, 3, 6):
                yield case_line('d.pisoywd', y, w, wd)
    for y in yr:
        yield case_line('d.pymd', y, 2, 29)
        yield case_line('d.pyo', y, 366)
        yield case_line('d.pisoywd', y, 53, y % 7)
    # accessors at every month boundary, succ/pred at year and February boundaries
    for y in [y for y in yb if MIN_YEAR <= y <= MAX_YEAR] + yr:
        leap = is_leap(y)
        os_ = set()
        for m in range(1, 14):
            for dl in (-1, 0, 1, 2):
                o = cum(leap, m) + dl
                if 1 <= o <= ndays(y):
                    os_.add(o)
        for o in sorted(os_):
            yield case_line('d.acc', date(y, o))
            yield case_line('d.acc2', date(y, o))
        for o in (1, 2, 59, 60, 61, 365, 366):
            if o <= ndays(y):
                yield case_line('d.succ', date(y, o))
                yield case_line('d.pred', date(y, o))
                yield case_line('d.psucc', date(y, o))
                yield case_line('d.ppred', date(y, o))
        # orders: consecutive days across the year boundary and inside the first / last ISO weeks
        if MIN_YEAR < y:
            seq = [date(y - 1, o) for o in range(ndays(y - 1) - 7, ndays(y - 1) + 1)] + [date(y, o) for o in range(1, 9)]
            for a, b in zip(seq, seq[1:]):
                yield case_line('d.cmpiw', a, b)
            yield case_line('d.cmp', seq[7], seq[8])
            yield case_line('d.cmp', seq[8], seq[7])
            yield case_line('d.cmpiw', seq[10], seq[3])
            yield case_line('d.cmp', seq[8], seq[8])
    # a date argument that is not a date must be refused by both decoders
    for a in ([2001, 366], [2000, 367], [MAX_YEAR + 1, 1], [MIN_YEAR - 1, 365], [2000, 0], [2**31, 1]):
        yield case_line('d.acc', a)


def rand_year(rng):
    k = rng.random()
    if k < 0.35:
        return rng.randint(1500, 2500)
    if k < 0.55:
        return rng.randint(-2000, 3000)
    if k < 0.92:
        return rng.randint(MIN_YEAR, MAX_YEAR)
    if k < 0.97:
        return rng.choice([MIN_YEAR, MAX_YEAR]) + rng.randint(-3, 3)
    return rand_i32(rng)


def rand_date(rng):
    y = min(MAX_YEAR, max(MIN_YEAR, rand_year(rng)))
    k = rng.random()
    if k < 0.25:
        o = rng.choice([1, 2, 3, 4, 5, 6, 7, 59, 60, 61, ndays(y) - 6, ndays(y) - 5, ndays(y) - 4, ndays(y) - 3, ndays(y) - 2, ndays(y) - 1, ndays(y)])
    else:
        o = rng.randint(1, ndays(y))
    return date(y, o)


def near(rng, d):
    """a date within a fortnight of d (clamped to the range)"""
    n = days_before_year(d[0]) + d[1] + rng.randint(-14, 14)
    n = min(DN_MAX, max(DN_MIN, n))
    return list(yo_of_dn(n))


def randoms(tier, rng):
    n = 60000 if tier == 'quick' else 1500000
    for _ in range(n):
        r = rng.random()
        if r < 0.16:
            yield case_line('d.ymd', rand_year(rng), rng.choice([rng.randint(1, 12)] * 6 + [0, 13, rng.randint(0, 20)]),
                            rng.choice([rng.randint(1, 28)] * 3 + [28, 29, 30, 31, 0, 32, rng.randint(0, 40)]))
        elif r < 0.28:
            yield case_line('d.yo', rand_year(rng), rng.choice([rng.randint(1, 365)] * 4 + [365, 366, 367, 0, rng.randint(0, 400)]))
        elif r < 0.44:
            yield case_line('d.isoywd', rand_year(rng), rng.choice([rng.randint(1, 52)] * 3 + [1, 52, 53, 53, 54, 0]), rng.randint(0, 6))
        elif r < 0.56:
            k = rng.random()
            nn = rng.randint(DN_MIN, DN_MAX) if k < 0.8 else (rng.choice([DN_MIN, DN_MAX]) + rng.randint(-500, 500) if k < 0.9 else rand_i32(rng))
            yield case_line('d.days', nn)
        elif r < 0.66:
            yield case_line('d.acc', rand_date(rng))
        elif r < 0.70:
            yield case_line('d.acc2', rand_date(rng))
        elif r < 0.78:
            yield case_line(rng.choice(['d.succ', 'd.pred', 'd.succ', 'd.pred', 'd.psucc', 'd.ppred']), rand_date(rng))
        else:
            a = rand_date(rng)
            b = near(rng, a) if rng.random() < 0.7 else rand_date(rng)
            yield case_line(rng.choice(['d.cmp', 'd.cmpiw']), a, b)


def cases(tier, rng):
    plain = list(structured(tier, rng)) + list(randoms(tier, rng))
    if tier == 'quick':
        rl = []
        for lo, hi in quick_windows():
            rl += range_lines(lo, hi, 512)
    else:
        rl = range_lines(DN_MIN - 2 * CHUNK, DN_MAX + 2 * CHUNK)
    # spread the (expensive) range lines evenly over the stream: the orchestrator shards contiguously
    if not rl:
        for c in plain:
            yield c
        return
    step = max(1, len(plain) // len(rl))
    k = 0
    for i, c in enumerate(plain):
        yield c
        if i % step == 0 and k < len(rl):
            yield rl[k]
            k += 1
    for c in rl[k:]:
        yield c


def refine(cases_, impl, model, verdicts, run_both):
    """Orchestrator hook: a d.range chunk whose checksum is rejected by the judge or differs between
    implementation and model is re-run day by day as individual cases (which are then judged,
    compared, shrunk and reported like any other case).  The chunk line itself is dropped when the
    individual cases reproduce a failure, kept otherwise."""
    failed = [i for i, c in enumerate(cases_)
              if c.startswith('d.range ') and (verdicts[i].startswith('bad') or impl[i] != model[i])]
    if not failed:
        return cases_, impl, model, verdicts
    extra = []
    owner = []
    for i in failed[:4]:
        _, (lo, hi) = parse_case(cases_[i])
        for n in range(lo, hi):
            for l in day_cases(n):
                extra.append(l)
                owner.append(i)
    ei, em, ev = run_both(extra)
    reproduced = set(owner[j] for j in range(len(extra)) if ev[j].startswith('bad') or ei[j] != em[j])
    keep = [i for i in range(len(cases_)) if i not in reproduced]
    return (extra + [cases_[i] for i in keep], list(ei) + [impl[i] for i in keep],
            list(em) + [model[i] for i in keep], list(ev) + [verdicts[i] for i in keep])
