"""C05 case generator: zones x instants / wall-clock readings, batched per zone.

Every case line carries the zone twice: the bytes the implementation and the model read (TZif file
contents, or a TZ string with the RFC 8536 extension flag) and the structured zone model ZM the
judge evaluates.  For system zoneinfo files ZM comes from the independent TZif + POSIX-footer reader
below (cross-checked against CPython's zoneinfo loader at generation time), never from chrono; for
synthetic zones the model is invented first and the bytes are written from it (writer of gen/C16.py)."""
import os
import struct
import zlib

from vcheck import case_line
from common import *
import C16 as g16

RULE = ('zones: every distinct TZif file under /usr/share/zoneinfo without leap records (independent '
        'Python TZif/footer reader), synthetic TZif v1/v2/v3 from random zone models (0-40 transitions, '
        'offsets up to +-26 h, equal-offset transitions, closely spaced transitions, optional footer), '
        'random POSIX rules (M/J/n day forms, explicit/negative/>24 h times, both hemispheres, negative '
        'DST, same-month rules); points: every second in +-3 around every transition instant and its two '
        'wall-clock boundaries, +-2 h at 15 min steps around sampled transitions, rule transitions of the '
        'years after the last table transition up to 2100 and of 2500/10000, sparse random points; '
        'each case line is one zone with a batch of points (a lookup per point); public route (TZ=:file, chrono::Local): lz.env on 240 zones, '
        'lz.conv (From / FromStr / SystemTime conversions of DateTime<Local>) at 12 instants per zone, lz.asg (DateTime<Local> += / -= '
        'TimeDelta and core Duration) from instants within +-|d| of table and rule transitions with d in {+-30 min, 1 h, 2 h, ...} so that both '
        'directions cross the transition, far-away controls and a delta that leaves the date range')

ZONEINFO = '/usr/share/zoneinfo'
TS_LO, TS_HI = -8334601228800 + 4 * 86400, 8210266876799 - 4 * 86400


# ------------------------------------------------------------------ independent TZif / footer reader
def read_block(data, off, tsz):
    if data[off:off + 4] != b'TZif':
        raise ValueError('magic')
    isut, isstd, leap, tim, typ, ch = struct.unpack('>6L', data[off + 20:off + 44])
    p = off + 44
    times = list(struct.unpack('>%d%s' % (tim, 'l' if tsz == 4 else 'q'), data[p:p + tim * tsz]))
    p += tim * tsz
    idx = list(data[p:p + tim])
    p += tim
    types = [struct.unpack('>lBB', data[p + 6 * i:p + 6 * i + 6]) for i in range(typ)]
    p += 6 * typ + ch + leap * (tsz + 4) + isstd + isut
    return times, idx, types, leap, p


def read_tzif(data):
    """-> (transition times, type indices, [(utoff, isdst, abbrind)], leap count, footer text or None)"""
    times, idx, types, leap, p = read_block(data, 0, 4)
    if data[4:5] == b'\0':
        return times, idx, types, leap, None
    times, idx, types, leap, p = read_block(data, p, 8)
    if data[p:p + 1] != b'\n':
        raise ValueError('footer')
    q = data.index(b'\n', p + 1)
    return times, idx, types, leap, data[p + 1:q].decode('ascii')


class Scan:
    def __init__(self, s):
        self.s, self.i = s, 0

    def peek(self):
        return self.s[self.i] if self.i < len(self.s) else ''

    def take(self, pred):
        j = self.i
        while j < len(self.s) and pred(self.s[j]):
            j += 1
        r, self.i = self.s[self.i:j], j
        return r

    def expect(self, c):
        if self.peek() != c:
            raise ValueError('expected %r at %d in %r' % (c, self.i, self.s))
        self.i += 1

    def num(self):
        d = self.take(str.isdigit)
        if not d:
            raise ValueError('number at %d in %r' % (self.i, self.s))
        return int(d)

    def name(self):
        if self.peek() == '<':
            self.i += 1
            n = self.take(lambda c: c != '>')
            self.expect('>')
            return n
        return self.take(str.isalpha)

    def hms(self):
        sign = 1
        if self.peek() in '+-' and self.peek():
            sign = -1 if self.peek() == '-' else 1
            self.i += 1
        v = self.num() * 3600
        if self.peek() == ':':
            self.i += 1
            v += self.num() * 60
            if self.peek() == ':':
                self.i += 1
                v += self.num()
        return sign * v

    def day(self):
        if self.peek() == 'M':
            self.i += 1
            m = self.num()
            self.expect('.')
            w = self.num()
            self.expect('.')
            d = self.num()
            day = ('M', m, w, d)
        elif self.peek() == 'J':
            self.i += 1
            day = ('J', self.num())
        else:
            day = ('N', self.num())
        t = 7200
        if self.peek() == '/':
            self.i += 1
            t = self.hms()
        return day, t


def parse_posix(text):
    """POSIX TZ string -> ('F', off) | ('A', std, dst, start day, start time, end day, end time);
    offsets in seconds EAST (POSIX writes them west-positive)."""
    sc = Scan(text)
    sc.name()
    std = -sc.hms()
    if sc.i == len(text):
        return ('F', std)
    sc.name()
    dst = std + 3600
    if sc.peek() != ',':
        dst = -sc.hms()
    sc.expect(',')
    sd, st = sc.day()
    sc.expect(',')
    ed, et = sc.day()
    if sc.i != len(text):
        raise ValueError('trailing text in %r' % text)
    return ('A', std, dst, sd, st, ed, et)


# ------------------------------------------------------------------ calendar (generator side)
# gen/C16.py's helpers port a C++ algorithm written for truncating division and are off by one day
# for years below 0 under Python's floor division; these are the floor-arithmetic versions.
def days_from_civil(y, m, d):
    y -= m <= 2
    era = y // 400
    yoe = y - era * 400
    doy = (153 * ((m + 9) % 12) + 2) // 5 + d - 1
    doe = yoe * 365 + yoe // 4 - yoe // 100 + doy
    return era * 146097 + doe - 719468


def year_of(t):
    z = t // 86400 + 719468
    era = z // 146097
    doe = z - era * 146097
    yoe = (doe - doe // 1460 + doe // 36524 - doe // 146096) // 365
    doy = doe - (365 * yoe + yoe // 4 - yoe // 100)
    mp = (5 * doy + 2) // 153
    return yoe + era * 400 + (mp >= 10)


def rule_day(day, y):
    """days since the epoch of a rule date ('J', n) / ('N', n) / ('M', m, w, d) in year y"""
    jan1 = days_from_civil(y, 1, 1)
    leap = y % 4 == 0 and (y % 100 != 0 or y % 400 == 0)
    if day[0] == 'J':
        n = day[1]
        return jan1 + n - 1 + (1 if leap and n >= 60 else 0)
    if day[0] == 'N':
        return jan1 + day[1]
    _, m, w, d = day
    first = days_from_civil(y, m, 1)
    occ = first + (d - (first + 4) % 7) % 7 + 7 * (w - 1)     # 1970-01-01 was a Thursday; Sunday = 0
    nxt = days_from_civil(y + (m == 12), m % 12 + 1, 1)
    if occ >= nxt:
        occ -= 7
    return occ


# ------------------------------------------------------------------ zone model (generator side)
class ZM:
    """first offset, [(instant, offset from then on)], rule (None | ('F', off) | ('A', ...))"""

    def __init__(self, first, trans, rule):
        self.first, self.trans, self.rule = first, trans, rule
        self._table_spaced = None

    def val(self):
        r = self.rule
        if r is None:
            rv = None
        elif r[0] == 'F':
            rv = ('some', [r[1]])
        else:
            rv = ('some', [r[1], r[2], day_val(r[3]), r[4], day_val(r[5]), r[6]])
        return [self.first, [[t, o] for t, o in self.trans], rv]

    def tagged(self, src):
        """ZM with the checksum that binds it to the zone source of the case line"""
        from vcheck import show_val
        v = self.val()
        return v + [zlib.adler32((show_val(src) + ' ' + show_val(v)).encode('ascii'))]

    def rule_events(self, y):
        """[(instant, offset before, offset after)] of the rule in year y"""
        _, std, dst, sd, st, ed, et = self.rule
        return [(rule_day(sd, y) * 86400 + st - std, std, dst),
                (rule_day(ed, y) * 86400 + et - dst, dst, std)]

    def windows(self):
        cur, ws = self.first, []
        for t, o in self.trans:
            ws.append((t + min(cur, o), t + max(cur, o)))
            cur = o
        return ws

    def rule_regular(self, y):
        """the judge's spacing_rule_self, recomputed here only to route cases"""
        def ev(yy, north):
            e = self.rule_events(yy)
            return e if north else e[::-1]
        s, e = self.rule_events(y)
        north = s[0] < e[0]
        for yy in (y - 1, y + 1):
            s2, e2 = self.rule_events(yy)
            if (s2[0] < e2[0]) != north:
                return False
        ws = [(r + min(b, a), r + max(b, a)) for yy in (y - 1, y, y + 1) for r, b, a in ev(yy, north)]
        return all(ws[k][1] < ws[k + 1][0] for k in range(len(ws) - 1))

    def spaced(self, w):
        """the judge's spacing_ok, recomputed here only to route cases to lz.loc / lz.uloc"""
        if self._table_spaced is None:
            ws = self.windows()
            ok = all(ws[k][1] < ws[k + 1][0] for k in range(len(ws) - 1))
            if ok and self.trans and self.rule and self.rule[0] == 'A':
                tn, on = self.trans[-1]
                p = self.trans[-2][1] if len(self.trans) > 1 else self.first
                y = year_of(tn)
                for yy in (y - 1, y, y + 1):
                    for r, before, after in self.rule_events(yy):
                        lo, hi = r + min(before, after), r + max(before, after)
                        if r == tn:
                            ok = ok and before == p
                        elif r < tn:
                            ok = ok and hi < tn + min(p, on)
                        else:
                            ok = ok and tn + max(p, on) < lo
            self._table_spaced = ok
        if not self._table_spaced:
            return False
        if self.rule and self.rule[0] == 'A':
            return self.rule_regular(year_of(w))
        return True


def day_val(d):
    if d[0] == 'N':
        return [0, d[1]]
    if d[0] == 'J':
        return [1, d[1]]
    return [2, d[1], d[2], d[3]]


def model_of_file(data):
    times, idx, types, leap, footer = read_tzif(data)
    if leap:
        return None
    rule = parse_posix(footer) if footer else None
    return ZM(types[0][0], [(t, types[i][0]) for t, i in zip(times, idx)], rule)


def system_zones():
    """[(relative path, bytes, ZM)] for every distinct file without leap records"""
    out, seen = [], set()
    for dp, dn, fn in sorted(os.walk(ZONEINFO)):
        dn.sort()
        if os.path.relpath(dp, ZONEINFO).split(os.sep)[0] == 'right':
            continue
        for f in sorted(fn):
            p = os.path.join(dp, f)
            try:
                data = open(p, 'rb').read()
            except OSError:
                continue
            if data[:4] != b'TZif' or data in seen:
                continue
            seen.add(data)
            try:
                zm = model_of_file(data)
            except (ValueError, struct.error, IndexError):
                continue
            if zm is not None:
                out.append((os.path.relpath(p, ZONEINFO), data, zm))
    return out


def cross_check_cpython(data, zm):
    """spec validation at generation time: CPython's loader reads the same transitions/offsets"""
    try:
        import io
        from zoneinfo import _common
        trans_idx, trans_utc, utcoff, isdst, abbr, tz_str = _common.load_data(io.BytesIO(data))
    except Exception:
        return True
    return list(trans_utc) == [t for t, _ in zm.trans] and [utcoff[i] for i in trans_idx] == [o for _, o in zm.trans]


# ------------------------------------------------------------------ points of interest
def clip(xs):
    return [x for x in xs if TS_LO <= x <= TS_HI]


def dense(c):
    return [c + d for d in range(-3, 4)]


def coarse(c):
    return [c + 900 * k for k in range(-8, 9)]


def zone_points(zm, rng, wide_every, years, sparse):
    """-> (instants, wall readings)"""
    ins, walls = [], []
    cur = zm.first
    n = len(zm.trans)
    for k, (t, o) in enumerate(zm.trans):
        ins += dense(t)
        walls += dense(t + cur) + dense(t + o)
        if wide_every and (k % wide_every == 0 or k >= n - 2):
            ins += coarse(t)
            walls += coarse(t + cur) + coarse(t + o)
        cur = o
    if zm.rule and zm.rule[0] == 'A':
        for y in years:
            for r, before, after in zm.rule_events(y):
                ins += dense(r) + (coarse(r) if wide_every else [])
                walls += dense(r + before) + dense(r + after)
                if wide_every:
                    walls += coarse(r + before)
    lo = zm.trans[0][0] - 10**8 if zm.trans else -3 * 10**9
    hi = zm.trans[-1][0] + 10**8 if zm.trans else 5 * 10**9
    lo, hi = max(lo, -10**11), min(hi, 10**11)
    for _ in range(sparse):
        x = rng.randint(lo, max(lo, hi))
        ins.append(x)
        walls.append(x)
    for x in (0, -1, 2**31 - 1, 2**31, -2**31, 253402300799, TS_LO, TS_HI, -62135596800):
        ins.append(x)
        walls.append(x)
    return clip(ins), clip(walls)


def rule_years(zm, base):
    ys = set(base)
    if zm.trans:
        y0 = year_of(max(min(zm.trans[-1][0], 10**11), -10**11))
        ys.update([y0 - 1, y0, y0 + 1, y0 + 2])
    return sorted(ys)


def chunks(xs, k):
    for i in range(0, len(xs), k):
        yield xs[i:i + k]


def show(v):
    from vcheck import show_val
    return show_val(v)


def emit(src, zm, ins, walls, batch, rt_share, rng):
    """case lines of one zone; the zone part of the line is rendered once"""
    head = ' ' + show(src) + ' ' + show(zm.tagged(src)) + ' '
    memo = {}

    def spaced(x):
        y = year_of(x) if zm.rule and zm.rule[0] == 'A' else 0
        if y not in memo:
            memo[y] = zm.spaced(x)
        return memo[y]

    def lines(op, xs):
        for c in chunks(xs, batch):
            yield op + head + '(' + ','.join(map(str, c)) + ')'
    if zm.rule and zm.rule[0] == 'A':
        reg = {}

        def regular(t):
            y = year_of(t)
            if y not in reg:
                reg[y] = zm.rule_regular(y)
            return reg[y]
        yield from lines('lz.at', [t for t in ins if regular(t)])
        yield from lines('lz.uat', [t for t in ins if not regular(t)])
    else:
        yield from lines('lz.at', ins)
    sp = [w for w in walls if spaced(w)]
    un = [w for w in walls if not spaced(w)][::3]      # the known-finding class: a third is plenty
    for ws, op, sel in ((sp, 'lz.loc', 'lz.sel'), (un, 'lz.uloc', 'lz.usel')):
        yield from lines(op, ws)
        yield from lines(sel, ws[::4])
    rts = ins if rt_share >= 1 else [x for x in ins if rng.random() < rt_share]
    # the wall reading of an instant is within 26 h of it: classify by the instant
    yield from lines('lz.rt', [t for t in rts if spaced(t)])
    yield from lines('lz.urt', [t for t in rts if not spaced(t)][::3])


# ------------------------------------------------------------------ synthetic zones
def good_name(rng):
    n = rng.randint(3, 6)
    return ''.join(rng.choice(g16.NAMECH[:52]) for _ in range(n))


def wide_off(rng):
    k = rng.random()
    if k < 0.45:
        return rng.randint(-12, 14) * 3600
    if k < 0.75:
        return rng.randint(-26 * 4, 26 * 4) * 900
    if k < 0.9:
        return rng.randint(-93599, 93599)
    return rng.choice([86399, 86400, -86399, -86400, 93599, -93599, 0, 1, -1])


def synth_rule(rng, ext):
    """a footer / TZ-string rule: mostly inside the property's premise, sometimes not"""
    r = g16.rand_rule(rng, ext, tame=rng.random() < 0.7)
    if r.dst is not None and rng.random() < 0.15:
        # both transitions in the same month
        m = rng.randint(2, 11)
        w1, w2 = sorted(rng.sample(range(1, 6), 2))
        r.sd, r.ed = ('M', m, w1, rng.randint(0, 6)), ('M', m, w2, rng.randint(0, 6))
        if rng.random() < 0.5:
            r.sd, r.ed = r.ed, r.sd
    r.std = (r.std[0], 0, good_name(rng))
    if r.dst is not None:
        r.dst = (r.dst[0], 1, good_name(rng))
    return r


def rule_model(r):
    if r.dst is None:
        return ('F', r.std[0])
    return ('A', r.std[0], r.dst[0], r.sd, r.st, r.ed, r.et)


def synth_zone(rng):
    """-> (TZif bytes, ZM)"""
    version = rng.choice([1, 2, 2, 3, 3])
    z = g16.Zone()
    n = rng.choice([0, 1, 1, 2, 3, 5, 8, 13, 21, 40, rng.randint(0, 40)])
    ext = version == 3 and rng.random() < 0.5
    rule = synth_rule(rng, ext) if version >= 2 and rng.random() < 0.6 else None
    ntypes = rng.randint(1, 6)
    z.types = []
    for _ in range(ntypes):
        if z.types and rng.random() < 0.25:
            # same offset, different flag / designation
            z.types.append((rng.choice(z.types)[0], rng.randint(0, 1), good_name(rng)))
        else:
            z.types.append((wide_off(rng), rng.randint(0, 1), good_name(rng)))
    if rule:
        z.types.append(rule.std)
        if rule.dst:
            z.types.append(rule.dst)
    lo, hi = (-2**31, 2**31 - 1) if version == 1 else (-5 * 10**9, 12 * 10**9)
    close = rng.random() < 0.15
    times = set()
    while len(times) < n:
        if times and rng.random() < (0.5 if close else 0.05):
            t = rng.choice(sorted(times)) + rng.choice([1, 2, 60, 900, 1800, 3599, 3600, 3601, 7200, 43200, 86400])
        else:
            t = rng.randint(lo, hi)
        if lo <= t <= hi:
            times.add(t)
    times = sorted(times)
    z.trans = [(t, rng.randrange(len(z.types))) for t in times]
    if rule and z.trans:
        t = z.trans[-1][0]
        if rule.dst and rng.random() < 0.5:
            # the last table transition is a transition of the rule, as in real files
            y = year_of(t)
            s, e = rule.switches(y)
            t2 = rng.choice([s, e])
            if (len(z.trans) < 2 or z.trans[-2][0] < t2) and lo <= t2 <= hi:
                t = t2
        z.trans[-1] = (t, z.types.index(rule.type_at(t)))
    z.rule = rule
    if version >= 2:
        z.footer = g16.fmt_rule(rule, rng.random() < 0.2) if rule else ''
    if rng.random() < 0.3:
        z.isstd = [rng.randint(0, 1) for _ in z.types]
        z.isut = [s & rng.randint(0, 1) for s in z.isstd]
    data, _ = g16.write_tzif(z, version, slim=version >= 2 and rng.random() < 0.3)
    zm = ZM(z.types[0][0], [(t, z.types[i][0]) for t, i in z.trans], rule_model(rule) if rule else None)
    return data, zm


# ------------------------------------------------------------------ last table transition near a year boundary
BOUNDARY_SHIFTS = (-7200, -3601, -3600, -3599, -1, 0, 1, 3599, 3600, 3601, 7200)


def boundary_zone(rng, y, shift, adj_kind):
    """-> (TZif bytes, ZM): a composite zone (table + footer rule with daylight time) whose LAST table
    transition lies [shift] seconds from the start of calendar year y on one of the clocks involved
    (adj_kind: 0 = UTC, 1 = the rule's standard clock, 2 = its daylight clock, 3 = the clock in force
    before the transition); the transition switches to the type the footer prescribes there, as in
    real files, so the zone is continuous and the readings are judged under lz.loc / lz.sel / lz.rt.
    The wall-clock window of that transition then straddles, touches or just misses the year
    boundary (the case of corpus/C05/straddle.case, systematically)."""
    while True:
        r = synth_rule(rng, False)
        if r.dst is not None and r.dst[0] != r.std[0] and abs(r.std[0]) < 86400 and abs(r.dst[0]) < 86400:
            break
    version = rng.choice([2, 3])
    z = g16.Zone()
    k = rng.random()
    if k < 0.5:
        poff = r.std[0] + rng.choice([3600, -3600, 1800, 7200])
    elif k < 0.8:
        poff = r.dst[0] + rng.choice([3600, -3600, 0])
    else:
        poff = rng.randint(-14, 14) * 3600
    poff = max(-86399, min(86399, poff))
    z.types = [(poff, 0, good_name(rng)), (rng.randint(-12, 12) * 3600, 0, good_name(rng)), r.std, r.dst]
    ys = days_from_civil(y, 1, 1) * 86400
    tl = ys + shift - (0, r.std[0], r.dst[0], poff)[adj_kind]
    t0 = tl - rng.choice([86400 * 40, 86400 * 400, rng.randint(10**5, 10**8)])
    z.trans = [(t0 - rng.randint(10**5, 10**7), 1), (t0, 0), (tl, z.types.index(r.type_at(tl)))]
    z.rule = r
    z.footer = g16.fmt_rule(r, False)
    data, _ = g16.write_tzif(z, version, slim=rng.random() < 0.3)
    zm = ZM(z.types[0][0], [(t, z.types[i][0]) for t, i in z.trans], rule_model(r))
    return data, zm, tl


# ------------------------------------------------------------------ cases
def batch_for(nbytes, quick):
    # big zones are expensive to re-read per line: give them longer batches
    return max(32 if quick else 64, min(400, nbytes // 24))


def cases(tier, rng):
    # the runner splits the stream into contiguous shards: interleave cheap and expensive zones
    out = list(ordered_cases(tier, rng))
    rng.shuffle(out)
    return out


def ordered_cases(tier, rng):
    quick = tier == 'quick'
    zones = system_zones()
    for name, data, zm in zones:
        if not cross_check_cpython(data, zm):
            raise RuntimeError('independent TZif reader disagrees with CPython zoneinfo on ' + name)
    base_years = [2037, 2038, 2100, 2500, 10000]
    for k, (name, data, zm) in enumerate(zones):
        years = rule_years(zm, base_years + ([rng.randint(2039, 2099)] if quick else list(range(2039, 2100, 3))))
        ins, walls = zone_points(zm, rng, (24 if quick else 4), years, 6 if quick else 60)
        if quick:
            # every transition of every zone is visited on the thorough tier; quick keeps a rotating
            # sixth of the points (whole +-3 s windows are still covered across neighbouring zones
            # and on every sixth point of each window)
            ins = ins[k % 6::6]
            walls = walls[k % 6::6]
        yield from emit(data, zm, ins, walls, batch_for(len(data), quick), 0.5 if quick else 1, rng)
    # synthetic TZif
    for _ in range(700 if quick else 8000):
        data, zm = synth_zone(rng)
        years = rule_years(zm, [rng.choice([1971, 2000, 2024, 2100, 2500, 10000])])
        ins, walls = zone_points(zm, rng, 3, years, 4)
        yield from emit(data, zm, ins, walls, batch_for(len(data), quick), 1, rng)
    # composite zones whose last table transition sits on a lattice around a year boundary
    byears = [2024] if quick else [1970, 2000, 2023, 2024, 2038, 2100, 2400]
    for y in byears + [rng.choice([1999, 2023, 2037, 2100, 9999])]:
        for shift in BOUNDARY_SHIFTS:
            for adj_kind in range(4):
                data, zm, tl = boundary_zone(rng, y, shift, adj_kind)
                ins, walls = zone_points(zm, rng, 1, rule_years(zm, [y - 1, y, y + 1]), 2)
                near = lambda x: abs(x - tl) <= 3 * 86400
                ins = [x for x in ins if near(x)] + [x for x in ins if not near(x)][::5]
                walls = [x for x in walls if near(x)] + [x for x in walls if not near(x)][::5]
                yield from emit(data, zm, ins, walls, batch_for(len(data), quick), 1, rng)
    # POSIX rules through the TZ-string route
    for _ in range(1000 if quick else 8000):
        ext = rng.random() < 0.4
        r = synth_rule(rng, ext)
        text = g16.fmt_rule(r, rng.random() < 0.2)
        zm = ZM(r.std[0], [], rule_model(r))
        years = [rng.choice([1900, 1970, 1999, 2000, 2024, 2038]), rng.choice([2100, 2400, 2500, 9999, 10000, rng.randint(-2000, 20000)])]
        ins, walls = zone_points(zm, rng, 1, years, 4)
        yield from emit([text, 1 if ext else 0], zm, ins, walls, 32 if quick else 64, 1, rng)
    # the public route
    picks = [zones[i] for i in sorted(rng.sample(range(len(zones)), min(len(zones), 120 if quick else len(zones))))]
    synth = []
    while len(synth) < (120 if quick else 1500):
        data, zm = synth_zone(rng)
        if zm.spaced(0) and zm.spaced(4102444800):
            synth.append(('synthetic', data, zm))
    for name, data, zm in picks + synth:
        ins, walls = zone_points(zm, rng, 0, rule_years(zm, [2100]), 3)
        rng.shuffle(ins)
        rng.shuffle(walls)
        # instants in a year where the rule's start and end swap their order against a neighbouring year
        # belong to the recorded finding (the hook route sends them to lz.uat); the public route leaves them out
        alt = bool(zm.rule and zm.rule[0] == 'A')
        ins0 = [t for t in ins[:20] if not alt or zm.rule_regular(year_of(t))]
        if ins0:
            yield case_line('lz.env', data, zm.tagged(data), 0, ins0)
        ws = [w for w in walls[:40] if zm.spaced(w)][:20]
        if ws:
            yield case_line('lz.env', data, zm.tagged(data), 1, ws)
        # the conversions into / out of DateTime<Local> (From impls, FromStr, SystemTime) at instants
        yield case_line('lz.conv', data, zm.tagged(data), ins[20:32] or ins[:12])
        # DateTime<Local> += / -= across transitions (the zone must be resolved again at the new instant):
        # starting instants within +-2 h of table and rule transitions, deltas that carry them across in both
        # directions, far-away controls, one delta that leaves the date range
        ts = [t for t, _ in zm.trans]
        marks = ts[-2:] + ([ts[0]] if ts else []) + ([rng.choice(ts)] if ts else [])
        if zm.rule and zm.rule[0] == 'A':
            for y in (2100, rng.choice([2037, 2038, 2039, 2500])):
                marks += [r for r, _, _ in zm.rule_events(y)]
        marks = sorted(set(marks))
        for d in (3600, 7200, -1800, rng.choice([1, 59, 900, 5400, 86400, -3600, -7200, 31536000])):
            h = abs(d)
            xs = []
            for t in marks:
                xs += [t - h - 1, t - h, t - h + 1, t - h // 2, t - 1, t, t + 1, t + h // 2, t + h - 1, t + h,
                       t + rng.randint(-7200, 7200), t + 40 * 86400, t - 40 * 86400]
            xs += [0, rng.randint(-10**9, 5 * 10**9)]
            yield case_line('lz.asg', data, zm.tagged(data), d, clip(xs)[:60])
        yield case_line('lz.asg', data, zm.tagged(data), rng.choice([10**13, -10**13, 8 * 10**12]), [0, TS_HI - 5, TS_LO + 5])


def refine(cases, impl, model, verdicts, run_both):
    """A case line is a batch of lookups on one zone, and the judge's domain is decided per lookup.
    Every batch in which the implementation and the model differ, or which the judge rejects, is
    re-run as its individual lookups (one point per line), so that a difference at a point outside
    the property's domain is reported as drift and a rejected point is shrunk and matched on its own."""
    idx = [i for i in range(len(cases)) if impl[i] != model[i] or verdicts[i].startswith('bad')]
    if not idx:
        return cases, impl, model, verdicts
    singles = []
    for i in idx:
        head, pts = cases[i].rsplit(' ', 1)
        inner = pts[1:-1]
        if not inner or ',' not in inner:
            singles.append(cases[i])
            continue
        for p in inner.split(','):
            singles.append(head + ' (' + p + ')')
    si, sm, sv = run_both(singles)
    drop = set(idx)
    keep = [i for i in range(len(cases)) if i not in drop]
    return ([cases[i] for i in keep] + singles, [impl[i] for i in keep] + list(si),
            [model[i] for i in keep] + list(sm), [verdicts[i] for i in keep] + list(sv))
