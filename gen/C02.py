"""C02 case generator: counts of seconds / milliseconds / microseconds / nanoseconds around the epoch,
the day boundary, both ends of the representable range (in every unit), the i64 extremes and the
1677/2262 nanosecond window, crossed with the nanosecond-field classes; date-time values on the same
boundaries for the accessors, the round trips and the SystemTime conversions."""
from vcheck import case_line
from common import *

RULE = ('structured lattice: counts {0,+-1,+-999,+-10^3,+-86399,+-86400, range ends +-2 in all four units, i32-day-number '
        'cast boundaries, i64 extremes +-2, i64-nanosecond window ends, seconds = 59 mod 60} x nanosecond fields '
        '{0,1,10^9-1,10^9,2*10^9-1,2*10^9,u32::MAX}; date-times {range ends, epoch, 1677-09-21/2262-04-11 window, leap days, '
        'year 0/1} x seconds {0,59,60,763,85636,86399..} x fractions {0,1,ms/us boundaries, window fractions, leap}; '
        'offsets {0,+-1,+-3600,+-86399}; SystemTime = UNIX_EPOCH +- Duration on the same lattice; leap-second values '
        '(fraction G, G+1, G+5*10^8, 2G-1 on seconds 59 / 86399 / 43259) before and after the epoch to SystemTime; plus seeded random draws; '
        'thorough adds every second of the days adjacent to both range ends and to the epoch')

SEC_MIN, SEC_MAX = -8334601228800, 8210266876799
NS_MIN, NS_MAX = SEC_MIN * G, SEC_MAX * G + G - 1
UNIX_EPOCH_DAY = 719163
MIN_YEAR, MAX_YEAR = -262143, 262142
NSECS = [0, 1, G - 1, G, 2 * G - 1, 2 * G, U32_MAX]
OFFS = [0, 1, -1, 3600, -3600, 86399, -86399, 19800]


def is_leap(y):
    return (y % 4 == 0 and y % 100 != 0) or y % 400 == 0


def secs_lattice():
    base = [0, 1, -1, 59, -1 - 60, 60, 999, -999, 1000, -1000, 86399, -86399, 86400, -86400, 86400 * 2 - 1,
            SEC_MIN, SEC_MAX, SEC_MIN + 59, SEC_MAX - 60, SEC_MIN + 86400, SEC_MAX - 86400,
            (I32_MAX - UNIX_EPOCH_DAY) * 86400, (I32_MAX - UNIX_EPOCH_DAY + 1) * 86400,
            (I32_MIN - UNIX_EPOCH_DAY) * 86400, (I32_MIN - UNIX_EPOCH_DAY) * 86400 - 1,
            I64_MAX, I64_MIN, I64_MAX // 86400 * 86400, I64_MIN // 86400 * 86400,
            I64_MAX // G, I64_MIN // G, -9223372037, 9223372036, 1431648000, -2208936075, 951782400, -62135596800,
            -62167219200, 253402300799, I64_MAX // 1000, I64_MIN // 1000, I64_MAX // 10**6, I64_MIN // 10**6]
    return around(base, lo=I64_MIN, hi=I64_MAX)


def unit_lattice(per):
    """counts of a unit with `per` units per second"""
    vals = []
    for s in [0, 1, -1, 59, 60, 86399, -86399, 86400, -86400, SEC_MIN, SEC_MAX, SEC_MIN + 1, SEC_MAX + 1, SEC_MIN - 1,
              1431648000, -2208936075, -9223372037, 9223372036, 9223372037, -9223372036]:
        for r in (0, 1, -1, per - 1, per // 2, 999, -999, 1000, -1000):
            vals.append(s * per + r)
    vals += [I64_MAX, I64_MIN, I64_MAX // per * per, I64_MIN // per * per, 999, -999, 1000, -1000, 10**6, -10**6, G, -G,
             NS_MIN // (G // per), NS_MAX // (G // per), 947638923004, 1662921288000000, -2208936075000000,
             1662921288000000000, -2208936075000000000]
    return around([v for v in vals if I64_MIN <= v <= I64_MAX], lo=I64_MIN, hi=I64_MAX)


def dt_lattice():
    dates = [(MIN_YEAR, 1), (MIN_YEAR, 2), (MIN_YEAR, 365), (MIN_YEAR + 1, 1), (MAX_YEAR, 365), (MAX_YEAR, 364), (MAX_YEAR, 1),
             (MAX_YEAR - 1, 365), (1970, 1), (1970, 2), (1969, 365), (1969, 364), (1677, 263), (1677, 264), (1677, 265),
             (2262, 100), (2262, 101), (2262, 102), (0, 1), (0, 366), (1, 1), (-1, 365), (-1, 1), (2000, 60), (2000, 366),
             (1900, 365), (2015, 135), (2038, 19), (1901, 347), (9999, 365), (-9999, 1), (1600, 366), (400, 366), (-400, 366)]
    secs = [0, 1, 59, 60, 119, 743, 763, 764, 3599, 43200, 85636, 85637, 86340, 86398, 86399]
    fracs = [0, 1, 999, 1000, 999999, 1000000, 1000001, 999999999, 145224191, 145224192, 145224193, 854775807, 854775808,
             500000000, G, G + 1, G + G // 2, 2 * G - 1]
    out = []
    for (y, o) in dates:
        for s in secs:
            for f in fracs:
                out.append([y, o, s, f])
    return out


def rand_dt(rng):
    k = rng.random()
    if k < 0.3:
        y = rng.randint(1600, 2400)
    elif k < 0.5:
        y = rng.choice([1677, 2262, 1970, 1969, MIN_YEAR, MAX_YEAR, 0, 1, -1])
    else:
        y = rng.randint(MIN_YEAR, MAX_YEAR)
    n = 366 if is_leap(y) else 365
    o = rng.choice([1, n, rng.randint(1, n), rng.randint(1, n)])
    s = rng.choice([0, 86399, 59, rng.randint(0, 86399), rng.randint(0, 86399), rng.randint(0, 1439) * 60 + 59])
    r = rng.random()
    if r < 0.15:
        f = rng.choice([0, 1, G - 1, 999999, 1000000])
    elif r < 0.9:
        f = rng.randint(0, G - 1)
    else:
        f = rng.randint(G, 2 * G - 1)
    return [y, o, s, f]


def rand_secs(rng):
    k = rng.random()
    if k < 0.15:
        return rng.randint(-200000, 200000)
    if k < 0.35:
        return rng.randint(-10**10, 10**10)
    if k < 0.8:
        return rng.randint(SEC_MIN, SEC_MAX)
    if k < 0.9:
        return rng.choice([SEC_MIN, SEC_MAX]) + rng.randint(-100000, 100000)
    return rand_i64(rng)


def rand_nsecs(rng, secs):
    k = rng.random()
    if k < 0.6:
        return rng.randint(0, G - 1)
    if k < 0.7:
        return rng.choice(NSECS)
    if k < 0.9:
        return rng.randint(G, 2 * G - 1)
    return rng.randint(0, U32_MAX)


def rand_unit(rng, per):
    k = rng.random()
    if per == G:
        if k < 0.3:
            return rng.randint(-10**12, 10**12)
        if k < 0.5:
            return max(I64_MIN, min(I64_MAX, rng.choice([I64_MIN, I64_MAX, 0]) + rng.randint(-10**10, 10**10)))
        return rng.randint(I64_MIN, I64_MAX)
    if k < 0.7:
        s = rand_secs(rng)
        v = s * per + rng.choice([0, 1, per - 1, rng.randint(0, per - 1)])
        if I64_MIN <= v <= I64_MAX:
            return v
    if k < 0.85:
        return rng.choice([NS_MIN // (G // per), NS_MAX // (G // per)]) + rng.randint(-5000, 5000)
    return rand_i64(rng)


FROM2 = ['ts.from', 'ts.rt', 'ts.naive_from', 'ts.naive_opt']
FROM1 = {'ts.fromms': 1000, 'ts.fromus': 10**6, 'ts.fromns': G, 'ts.rtms': 1000, 'ts.rtus': 10**6, 'ts.rtns': G,
         'ts.naive_ms': 1000, 'ts.naive_us': 10**6, 'ts.naive_ns': G}
TZ2 = ['ts.tz', 'ts.tzp']
TZ1 = {'ts.tzms': 1000, 'ts.tzmsp': 1000, 'ts.tzus': 10**6, 'ts.tzns': G}
OFDT = ['ts.of', 'ts.ofns', 'ts.back', 'ts.naive_of', 'ts.naive_ofns']


def sys_lattice():
    secs = around([0, 1, 59, 999, 86399, 86400, SEC_MAX, -SEC_MIN, SEC_MAX + 1, -SEC_MIN - 1, 10**12, 9223372036, 9223372037,
                   1431648000, 2208936075, I64_MAX, 2**63], lo=0, hi=U64_MAX)
    for sg in (0, 1):
        for s in secs:
            for n in (0, 1, 999, 999999, 500000000, G - 1, G):
                yield [sg, s, n]


def cases(tier, rng):
    yield case_line('ts.consts')
    yield case_line('ts.defaults')
    sl = secs_lattice()
    for s in sl:
        for n in NSECS:
            for op in FROM2:
                yield case_line(op, s, n)
            yield case_line('ts.tz', 0, s, n)
    for s in sl[::3]:
        for n in NSECS:
            for o in OFFS[1:]:
                yield case_line('ts.tz', o, s, n)
            yield case_line('ts.tzp', rng.choice(OFFS), s, n)
    for op, per in list(FROM1.items()):
        for v in unit_lattice(per):
            yield case_line(op, v)
    for op, per in TZ1.items():
        for v in unit_lattice(per)[::2]:
            yield case_line(op, rng.choice(OFFS), v)
    yield case_line('ts.tz', 86400, 0, 0)
    yield case_line('ts.tz', -86400, 0, 0)
    dl = dt_lattice()
    for d in dl:
        for op in OFDT:
            yield case_line(op, d)
    for d in dl[::7]:
        for o in OFFS:
            yield case_line('ts.tosys', d + [o])
    # leap-second values (nanosecond field in [G, 2G)) to SystemTime, before and after the epoch
    for (y, o) in [(1969, 365), (1960, 1), (1969, 1), (1970, 1), (2016, 366), (MIN_YEAR, 1), (MAX_YEAR, 365)]:
        for s in (59, 86399, 43259):
            for f in (G, G + 1, G + 5 * 10**8, 2 * G - 1):
                for off in (0, 3600, -3600, 86399, -86399):
                    yield case_line('ts.tosys', [y, o, s, f, off])
    for t in sys_lattice():
        yield case_line('ts.systime', *t)
    yield case_line('ts.systime', 2, 0, 0)
    # random
    n = 200000 if tier == 'quick' else 5000000
    f1 = list(FROM1.items())
    t1 = list(TZ1.items())
    for _ in range(n):
        r = rng.random()
        if r < 0.30:
            s = rand_secs(rng)
            yield case_line(rng.choice(FROM2), s, rand_nsecs(rng, s))
        elif r < 0.50:
            op, per = rng.choice(f1)
            yield case_line(op, rand_unit(rng, per))
        elif r < 0.58:
            s = rand_secs(rng)
            yield case_line(rng.choice(TZ2), rng.choice(OFFS + [rng.randint(-86399, 86399)]), s, rand_nsecs(rng, s))
        elif r < 0.64:
            op, per = rng.choice(t1)
            yield case_line(op, rng.choice(OFFS + [rng.randint(-86399, 86399)]), rand_unit(rng, per))
        elif r < 0.88:
            yield case_line(rng.choice(OFDT), rand_dt(rng))
        elif r < 0.94:
            yield case_line('ts.tosys', rand_dt(rng) + [rng.choice(OFFS + [rng.randint(-86399, 86399)])])
        else:
            k = rng.random()
            s = rng.randint(0, 10**10) if k < 0.5 else (rng.randint(0, -SEC_MIN + 1000) if k < 0.9 else rng.randint(0, I64_MAX))
            yield case_line('ts.systime', rng.randint(0, 1), s, rng.choice([0, 1, G - 1, rng.randint(0, G - 1)]))
    if tier == 'thorough':
        # every second of the days adjacent to both range ends and to the epoch
        for start in (SEC_MIN - 86400, SEC_MIN, SEC_MAX - 86399, SEC_MAX + 1, -86400, 0):
            for s in range(start, start + 86400):
                yield case_line('ts.from', s, 0 if s % 7 else G - 1)
                if s % 60 == 59:
                    yield case_line('ts.from', s, G + s % 1000)
                yield case_line('ts.rtms', s * 1000 + s % 1000)
        for (y, o) in ((MIN_YEAR, 1), (MAX_YEAR, 365), (1970, 1), (1969, 365), (1677, 264), (2262, 101)):
            for s in range(86400):
                yield case_line('ts.of', [y, o, s, (s * 1000003) % G])
