"""C17 case generator: wall-clock stamps placed relative to each span (zero, +-1, halves, multiples +-1,
the ends of the i64-nanosecond window, outside it, chrono's own range ends) x spans (units, primes,
i64 limits, non-positive, TimeDelta::MAX) x offsets; sub-second digits x fraction lattice incl. leap
fractions and carries over second / midnight / the last representable day."""
from vcheck import case_line
from common import *

RULE = ('structured lattice: per span k in {1,2,3,7,10^3,10^9,60e9,86400e9,7d,primes,i64::MAX(+1),0,-1,TimeDelta::MAX,...}: '
        'stamps {0,+-1,+-k/2(+-1),+-k(+-1),m*k(+-1), i64-ns window ends +-1, outside, range ends} x offsets '
        '{0,+-1h,+-23:59:59,...} for naive and zone-aware ops; sub-second: digits {0..11,255,256,65535} x '
        'fraction lattice (ties, carries, leap fractions) x seconds/dates at the carry boundaries; plus seeded random draws')

DAY = 86400 * G
MIN_YEAR, MAX_YEAR = -262143, 262142


def is_leap(y):
    return (y % 4 == 0 and y % 100 != 0) or y % 400 == 0


def days_before_year(y):
    p = y - 1
    return 365 * p + p // 4 - p // 100 + p // 400


EPOCH_DN = days_before_year(1970) + 1
DN_MIN = days_before_year(MIN_YEAR) + 1
DN_MAX = days_before_year(MAX_YEAR + 1)
NS_MIN = (DN_MIN - EPOCH_DN) * DAY
NS_MAX = (DN_MAX - EPOCH_DN) * DAY + DAY - 1


def yo_of_dn(n):
    # year by estimate + correction
    y = (n * 400) // 146097 + 1
    while days_before_year(y) >= n:
        y -= 1
    while days_before_year(y + 1) < n:
        y += 1
    return y, n - days_before_year(y)


def ndt_of_ns(t, leap=False):
    """(year, ordinal, secs, frac) of an instant in ns since the epoch (None when out of chrono's range)."""
    if t < NS_MIN or t > NS_MAX:
        return None
    dn = t // DAY + EPOCH_DN
    y, o = yo_of_dn(dn)
    r = t % DAY
    return [y, o, r // G, r % G + (G if leap else 0)]


def td_of_ns(k):
    return [k // G, k % G]


TD_MAX_NS = (2**63 - 1) * 10**6
SPANS = [1, 2, 3, 7, 10, 999, 1000, 10**6, 10**9, 60 * G, 900 * G, 3600 * G, DAY, 7 * DAY, 365 * DAY,
         1000003, 999999937, 86399999999999, 2**31, 2**32 + 1, 10**18 + 9,
         I64_MAX, I64_MAX - 1, I64_MAX // 2, I64_MAX // 2 + 1, 2**62]
BAD_SPANS = [0, -1, -2, -G, -DAY, I64_MAX + 1, I64_MAX + 2, 2**64, 300 * 365 * DAY, TD_MAX_NS, -TD_MAX_NS, -I64_MAX, I64_MIN, I64_MIN - 1]
OFFSETS = [0, 3600, -3600, 86399, -86399, 1, -1, 19800, -34200, 45 * 60 + 15]
N_OPS = ['rd.trunc', 'rd.round', 'rd.up']
Z_OPS = ['rd.ztrunc', 'rd.zround', 'rd.zup']


def stamps_for(k):
    ka = abs(k) if k != 0 else 1
    base = [0, 1, -1, ka // 2, -(ka // 2), ka // 2 + 1, ka // 2 - 1, -(ka // 2) + 1, -(ka // 2) - 1,
            (ka + 1) // 2, -((ka + 1) // 2), ka, -ka, ka + 1, ka - 1, -ka + 1, -ka - 1,
            2 * ka, -2 * ka, 3 * ka + 1, -3 * ka - 1, 5 * ka - 1, -5 * ka + 1,
            I64_MAX, I64_MAX - 1, I64_MAX + 1, I64_MAX + 2, I64_MIN, I64_MIN + 1, I64_MIN + 2, I64_MIN - 1, I64_MIN - 2,
            I64_MAX // 2, I64_MAX // 2 + 1, I64_MAX // 2 - 1, I64_MIN // 2, I64_MIN // 2 - 1, I64_MIN // 2 + 1,
            NS_MIN, NS_MIN + 1, NS_MAX, NS_MAX - 1, 10**19, -10**19,
            1483228799175500000, 1355336549999000000, -1712868000000000]
    # multiples near the window ends
    for e in (I64_MAX, I64_MIN, 1483228799175500000, -1712868000000000):
        m = e // ka
        base += [m * ka, m * ka + 1, m * ka - 1, (m + 1) * ka, m * ka + ka // 2]
    out, seen = [], set()
    for s in base:
        if NS_MIN <= s <= NS_MAX and s not in seen:
            seen.add(s)
            out.append(s)
    return out


def zoned(wall, off):
    """DateTime argument whose wall clock reads `wall` ns (UTC = wall - off)."""
    u = ndt_of_ns(wall - off * G)
    return None if u is None else u + [off]


FRACS = [0, 1, 4, 5, 9, 10, 49, 50, 51, 499, 500, 84660684, 750500000, 149999999, 150000000, 499999999,
         500000000, 500000001, 949999999, 950000000, 994999999, 995000000, 999499999, 999500000,
         999999494, 999999495, 999999499, 999999500, 999999949, 999999950, 999999994, 999999995, 999999999]
DIGITS = list(range(0, 12)) + [255, 256, 65535, 65534]
SECS = [0, 1, 58, 59, 60, 3599, 43199, 86339, 86398, 86399]


def sub_values(rng=None):
    """(kind, value) pairs for the sub-second ops."""
    dates = [(1970, 1), (1969, 365), (2016, 366), (2017, 1), (MAX_YEAR, 365), (MIN_YEAR, 1), (2000, 60), (-1, 365), (0, 366), (1, 1)]
    fr = FRACS + [f + G for f in FRACS]
    for s in SECS:
        for f in fr:
            yield 1, [s, f]
    for (y, o) in dates:
        for s in (0, 59, 86399, 43260):
            for f in fr:
                yield 2, [y, o, s, f]
    for (y, o) in dates:
        for s in (59, 86399):
            for f in fr[::2]:
                for off in (0, 3600, -86399, 86399):
                    yield 3, [y, o, s, f, off]


def rand_stamp(rng, k):
    r = rng.random()
    if r < 0.35:
        return rng.randint(I64_MIN, I64_MAX)
    if r < 0.5:
        m = rng.randint(-20, 20)
        return m * k + rng.choice([0, 1, -1, k // 2, k // 2 + 1, k // 2 - 1, -(k // 2), (k + 1) // 2, rng.randint(0, max(0, k - 1))])
    if r < 0.7:
        m = rng.randint(I64_MIN // k, I64_MAX // k) if k > 0 else 0
        return m * k + rng.choice([0, 1, -1, k // 2, (k + 1) // 2, k // 2 - 1, rng.randint(0, max(0, k - 1))])
    if r < 0.8:
        return rng.choice([I64_MAX, I64_MIN]) + rng.randint(-5, 5) * rng.choice([1, G, DAY])
    if r < 0.9:
        return rng.randint(-10**13, 10**13)
    return rng.randint(NS_MIN, NS_MAX)


def rand_span(rng):
    r = rng.random()
    if r < 0.3:
        return rng.choice(SPANS)
    if r < 0.4:
        return rng.choice(BAD_SPANS)
    if r < 0.6:
        return rng.randint(1, 10**rng.randint(1, 18))
    if r < 0.8:
        return rng.choice([1, G, 60 * G, 3600 * G, DAY, 10**6, 10**3]) * rng.randint(1, 1000)
    if r < 0.95:
        return rng.randint(1, I64_MAX)
    return rng.randint(-TD_MAX_NS, TD_MAX_NS)


def cases(tier, rng):
    # ---- span operations on the lattice
    for k in SPANS + BAD_SPANS:
        d = td_of_ns(k)
        for s in stamps_for(k):
            n = ndt_of_ns(s)
            for op in N_OPS:
                yield case_line(op, n, d)
            for off in OFFSETS[:5] if k in SPANS[5:] + BAD_SPANS[3:] else OFFSETS:
                z = zoned(s, off)
                if z is not None:
                    for op in Z_OPS:
                        yield case_line(op, z, d)
    # zone-aware values whose wall clock leaves NaiveDateTime's range (UTC near the range ends)
    for u in (NS_MAX, NS_MAX - 1, NS_MAX - 3599 * G, NS_MAX - 3600 * G, NS_MAX - 86399 * G + 1, NS_MIN, NS_MIN + 1, NS_MIN + 3599 * G, NS_MIN + 3600 * G, NS_MIN + 86398 * G):
        for off in (0, 1, -1, 3600, -3600, 86399, -86399, 7200):
            for k in (1, G, DAY, I64_MAX, 0, -1, I64_MAX + 1, TD_MAX_NS):
                for op in Z_OPS:
                    yield case_line(op, ndt_of_ns(u) + [off], td_of_ns(k))
    # leap-second readings (outside the domain of the span ops; model/impl drift only)
    for k in (1, 10, G, 60 * G, DAY):
        for s in (1483228799 * G + 750500000, -1 * G + 5, 59 * G):
            n = ndt_of_ns(s, leap=True)
            for op in N_OPS:
                yield case_line(op, n, td_of_ns(k))
            for op in Z_OPS:
                yield case_line(op, n + [3600], td_of_ns(k))
    # ---- sub-second operations
    for kind, v in sub_values():
        for dg in DIGITS:
            yield case_line('rd.rsub', kind, v, dg)
            yield case_line('rd.tsub', kind, v, dg)
    for dg in (65536, -1, 70000):
        yield case_line('rd.rsub', 1, [0, 5], dg)
        yield case_line('rd.tsub', 2, [1970, 1, 0, 5], dg)
    yield case_line('rd.rsub', 4, [0, 5], 3)
    yield case_line('rd.trunc', [1970, 1, 0, 2 * G], [1, 0])
    yield case_line('rd.trunc', [1970, 1, 0, 0], [1, G])
    yield case_line('rd.ztrunc', [1970, 1, 0, 0, 86400], [1, 0])
    # ---- random
    n = 60000 if tier == 'quick' else 1500000
    for _ in range(n):
        r = rng.random()
        if r < 0.7:
            k = rand_span(rng)
            s = rand_stamp(rng, k if k > 0 else 1)
            s = min(max(s, NS_MIN), NS_MAX)
            d = td_of_ns(k)
            if rng.random() < 0.5:
                yield case_line(rng.choice(N_OPS), ndt_of_ns(s), d)
            else:
                off = rng.choice(OFFSETS) if rng.random() < 0.6 else rng.randint(-86399, 86399)
                z = zoned(s, off)
                if z is None:
                    z = ndt_of_ns(s) + [off]
                yield case_line(rng.choice(Z_OPS), z, d)
        else:
            dg = rng.choice(DIGITS) if rng.random() < 0.8 else rng.randint(0, 65535)
            f = rng.choice(FRACS) if rng.random() < 0.3 else rng.randint(0, G - 1)
            if rng.random() < 0.5:
                # close to a rounding boundary of a random digit count
                sp = 10 ** rng.randint(0, 9)
                f = min(G - 1, max(0, rng.randint(0, G // sp) * sp + rng.choice([0, sp // 2, sp // 2 - 1, sp // 2 + 1, -1, 1, sp - 1])))
            if rng.random() < 0.25:
                f += G
            s = rng.choice(SECS) if rng.random() < 0.5 else rng.randint(0, 86399)
            kind = rng.choice([1, 2, 3])
            if kind == 1:
                v = [s, f]
            else:
                t = rng.choice([NS_MAX, NS_MIN, 0, rng.randint(NS_MIN, NS_MAX), rng.randint(-10**18, 10**18)])
                y, o, _, _ = ndt_of_ns(t)
                v = [y, o, s, f] + ([rng.choice(OFFSETS)] if kind == 3 else [])
            yield case_line(rng.choice(['rd.rsub', 'rd.tsub']), kind, v, dg)
