"""C10 case generator: RFC 3339 strings generated from fields (valid and semantically invalid field
values), per-production mutations (digit count +-1, separators, sign characters incl. U+2212 and
look-alikes, offsets 24:00 / 23:60, empty fraction, leading/trailing bytes, case, multi-byte
characters at every position, all prefixes), arbitrary (valid UTF-8) Unicode strings; date-time
values on a boundary lattice x the five precisions x use-Z for the writer, every expected writer
text fed back to the reader, and the composed round trip."""
from vcheck import case_line
from common import *

RULE = ('grammar-generated strings from field lattices (year/month/day/hour/minute/second classes incl. '
        'out-of-range values, 0..12 fraction digits, 3 separators, Z/z/+/-/U+2212 offsets incl. 23:59, 24:00, '
        '23:60) x per-production mutations (delete/insert/replace at every position, digit count +-1, sign '
        'look-alikes, truncation to every prefix, leading/trailing text, multi-byte characters) + arbitrary '
        'Unicode strings; writer: boundary lattice of (year, ordinal, second, nanosecond incl. leap, offset) x 5 '
        'precisions x use_z, all rendered texts parsed back, composed round trip; seeded random draws')

MINUS = '−'
LOOKALIKES = ['‐', '‑', '‒', '–', '—', '﹣', '－', '➖', '­', '˗', '＋', '±']
ODD_CHARS = [' ', '\t', '\n', '0', '9', 'T', 't', 'Z', 'z', ':', '-', '+', '.', ',', 'a', 'é', '٠', '１',
             '−', '　', '\U0001f600', '\x00', '\x7f', '\u0080', '߿', 'ࠀ', '￿', '\U00010000', '\U0010ffff']


def is_leap(y):
    return (y % 4 == 0 and y % 100 != 0) or y % 400 == 0


def dim(y, m):
    return [31, 29 if is_leap(y) else 28, 31, 30, 31, 30, 31, 31, 30, 31, 30, 31][m - 1]


def fmt_fields(y, mo, d, sep, h, mi, s, frac, zone):
    """frac: string of digits or None; zone: 'Z', 'z' or (signchar, hh, mm)"""
    t = '%04d-%02d-%02d%s%02d:%02d:%02d' % (y, mo, d, sep, h, mi, s)
    if frac is not None:
        t += '.' + frac
    if isinstance(zone, str):
        t += zone
    else:
        t += '%s%02d:%02d' % zone
    return t


YEARS = [0, 1, 4, 99, 100, 400, 1582, 1900, 1969, 1970, 1999, 2000, 2015, 2023, 2024, 2100, 9998, 9999]
FRACS = [None, '0', '5', '00', '123', '000', '999', '1234', '123456', '000001', '1234567', '123456789', '999999999',
         '000000000', '000000001', '1234567891', '9999999999', '0000000009', '123456789123456789', '1' * 25]
ZONES = ['Z', 'z', ('+', 0, 0), ('-', 0, 0), (MINUS, 0, 0), ('+', 1, 0), ('-', 8, 0), (MINUS, 8, 0), ('+', 5, 30), ('-', 3, 30),
         ('+', 23, 59), ('-', 23, 59), (MINUS, 23, 59), ('+', 24, 0), ('-', 24, 0), ('+', 23, 60), ('+', 99, 59), ('+', 0, 99),
         ('+', 12, 45), ('+', 14, 0), ('-', 12, 0), ('+', 0, 1), ('-', 0, 1)]


def rand_fields(rng, valid_bias=0.8):
    y = rng.choice(YEARS) if rng.random() < 0.5 else rng.randint(0, 9999)
    if rng.random() < valid_bias:
        mo = rng.randint(1, 12)
        d = rng.choice([1, 2, 28, dim(y, mo), rng.randint(1, dim(y, mo))])
        h = rng.choice([0, 1, 11, 12, 13, 23, rng.randint(0, 23)])
        mi = rng.choice([0, 1, 30, 59, rng.randint(0, 59)])
        s = rng.choice([0, 1, 30, 58, 59, 59, 60, rng.randint(0, 59)])
    else:
        mo = rng.choice([0, 1, 2, 12, 13, 99, rng.randint(0, 99)])
        d = rng.choice([0, 1, 28, 29, 30, 31, 32, 99, rng.randint(0, 99)])
        h = rng.choice([0, 23, 24, 25, 99, rng.randint(0, 99)])
        mi = rng.choice([0, 59, 60, 61, 99, rng.randint(0, 99)])
        s = rng.choice([0, 59, 60, 61, 62, 99, rng.randint(0, 99)])
    sep = rng.choice(['T', 'T', 'T', 't', ' '])
    frac = rng.choice(FRACS)
    if rng.random() < 0.3:
        frac = ''.join(rng.choice('0123456789') for _ in range(rng.randint(1, 12)))
    zone = rng.choice(ZONES)
    if rng.random() < 0.4:
        zone = (rng.choice(['+', '-', MINUS]), rng.randint(0, 23), rng.randint(0, 59))
    return [y, mo, d, sep, h, mi, s, frac, zone]


def mutations(t, rng, exhaustive=False):
    """per-production mutation operators on a rendered string"""
    out = []
    n = len(t)
    # every prefix (truncation)
    if exhaustive:
        for k in range(n):
            out.append(t[:k])
    else:
        out.append(t[:rng.randint(0, n - 1)])
    # delete / duplicate / replace / insert at positions
    pos = range(n) if exhaustive else [rng.randint(0, n - 1) for _ in range(3)]
    for k in pos:
        out.append(t[:k] + t[k + 1:])
        out.append(t[:k] + t[k] + t[k:])
        c = rng.choice(ODD_CHARS)
        out.append(t[:k] + c + t[k + 1:])
        out.append(t[:k] + c + t[k:])
        if t[k] in '+-' + MINUS:
            for la in (LOOKALIKES if exhaustive else [rng.choice(LOOKALIKES)]):
                out.append(t[:k] + la + t[k + 1:])
            out.append(t[:k] + MINUS + t[k + 1:])
        if t[k] == ':':
            for c2 in ('.', ' ', '', '::', '：'):
                out.append(t[:k] + c2 + t[k + 1:])
        if t[k] == '.':
            for c2 in (',', ':', '', '..'):
                out.append(t[:k] + c2 + t[k + 1:])
        if t[k].isalpha():
            out.append(t[:k] + t[k].swapcase() + t[k + 1:])
    # leading / trailing text
    for c in ([' ', '\n', '0', 'Z', '+', 'é', '　'] if exhaustive else [rng.choice(ODD_CHARS)]):
        out.append(c + t)
        out.append(t + c)
    out.append(t + t[-1])
    out.append(t.upper())
    out.append(t.lower())
    return out


def shape_mutations(f):
    """mutations of the field widths and of the offset/fraction productions"""
    y, mo, d, sep, h, mi, s, frac, zone = f
    out = []
    base = lambda **kw: None
    z = zone if isinstance(zone, str) else '%s%02d:%02d' % zone
    fr = '' if frac is None else '.' + frac
    def mk(ys, mos, ds, hs, mis, ss, frs=fr, zs=z, sp=sep, d1='-', d2='-', c1=':', c2=':'):
        return ys + d1 + mos + d2 + ds + sp + hs + c1 + mis + c2 + ss + frs + zs
    Y, MO, D, H, MI, S = '%04d' % y, '%02d' % mo, '%02d' % d, '%02d' % h, '%02d' % mi, '%02d' % s
    # digit count +-1 per field
    out += [mk(Y[1:], MO, D, H, MI, S), mk('0' + Y, MO, D, H, MI, S), mk(Y + '0', MO, D, H, MI, S), mk('+' + Y, MO, D, H, MI, S), mk('-' + Y, MO, D, H, MI, S)]
    out += [mk(Y, MO[1:], D, H, MI, S), mk(Y, '0' + MO, D, H, MI, S), mk(Y, MO, D[1:], H, MI, S), mk(Y, MO, '0' + D, H, MI, S)]
    out += [mk(Y, MO, D, H[1:], MI, S), mk(Y, MO, D, '0' + H, MI, S), mk(Y, MO, D, H, MI[1:], S), mk(Y, MO, D, H, '0' + MI, S)]
    out += [mk(Y, MO, D, H, MI, S[1:]), mk(Y, MO, D, H, MI, '0' + S), mk(Y, MO, D, H, MI, ''), mk(Y, MO, D, H, MI, S, c2='')]
    # separators
    for sp in ('', '  ', 'T ', '_', 'Z', '\t', '\n', 'TT', '　', ' '):
        out.append(mk(Y, MO, D, H, MI, S, sp=sp))
    out += [mk(Y, MO, D, H, MI, S, d1=MINUS), mk(Y, MO, D, H, MI, S, d1='/', d2='/'), mk(Y, MO, D, H, MI, S, d1='', d2=''), mk(Y, MO, D, H, MI, S, c1='', c2='')]
    # fraction productions
    for frs in ('.', '. ', '.x', ',5', '.5.5', '.-5', '.+5', '. 5', '.٥', '.5 '):
        out.append(mk(Y, MO, D, H, MI, S, frs=frs))
    # offset productions
    if not isinstance(zone, str):
        sg, oh, om = zone
        for zs in ('%s%02d%02d' % zone, '%s%02d' % (sg, oh), '%s%02d:' % (sg, oh), '%s%02d:%d' % (sg, oh, om % 10), '%s%d:%02d' % (sg, oh % 10, om),
                   '%s%02d:%02d:00' % zone, '%s%02d.%02d' % zone, '%s %02d:%02d' % zone, '%s%02d :%02d' % zone, '%s%02d: %02d' % zone,
                   '%02d:%02d' % (oh, om), '%s%s%02d:%02d' % (sg, sg, oh, om), 'Z%s%02d:%02d' % zone, '%s%02d:%02dZ' % zone, '%s%03d:%02d' % zone,
                   '%s%02d:%03d' % zone, 'UTC', 'GMT', '', 'ZZ', 'Zz', ' Z', 'Z ', '+', '-', MINUS, '+Z', '±%02d:%02d' % (oh, om)):
            out.append(mk(Y, MO, D, H, MI, S, zs=zs))
        for la in LOOKALIKES:
            out.append(mk(Y, MO, D, H, MI, S, zs='%s%02d:%02d' % (la, oh, om)))
    else:
        for zs in ('', 'ZZ', 'zz', 'Zz', ' Z', 'Z ', 'z\n', 'Ｚ', 'Z0', 'Z+00:00', '+00:00Z', 'UTC'):
            out.append(mk(Y, MO, D, H, MI, S, zs=zs))
    return out


# ---- writer side ------------------------------------------------------------------------------
def valid_yo(y, o):
    return 1 <= o <= (366 if is_leap(y) else 365)


def days_before_year(y):
    p = y - 1
    return 365 * p + p // 4 - p // 100 + p // 400


def ymd_of(y, o):
    m = 1
    while o > dim(y, m):
        o -= dim(y, m)
        m += 1
    return m, o


def yo_of_dn(n):
    # plain search from an estimate (generator side only)
    y = n // 366
    while days_before_year(y + 1) < n:
        y += 1
    while days_before_year(y) >= n:
        y -= 1
    return y, n - days_before_year(y)


def expected_text(v, sf, uz):
    """independent python rendering of the property's expected writer output (None outside the domain)"""
    y, o, secs, frac, off = v
    if off % 60 != 0:
        return None
    t = secs + off
    ly, lo = yo_of_dn(days_before_year(y) + o + t // 86400)
    if not 0 <= ly <= 9999:
        return None
    ls = t % 86400
    leap = frac >= G
    if leap and secs % 60 != 59:
        return None
    sub = frac - G if leap else frac
    m, d = ymd_of(ly, lo)
    nd = {0: 0, 1: 3, 2: 6, 3: 9}.get(sf)
    if nd is None:
        nd = 0 if sub == 0 else 3 if sub % 10**6 == 0 else 6 if sub % 1000 == 0 else 9
    fr = None if nd == 0 else ('%09d' % sub)[:nd]
    zone = 'Z' if (uz and off == 0) else ('-' if off < 0 else '+', abs(off) // 3600, abs(off) // 60 % 60)
    return fmt_fields(ly, m, d, 'T', ls // 3600, ls // 60 % 60, ls % 60 + (1 if leap else 0), fr, zone)


W_YEARS = [-262143, -10000, -2, -1, 0, 1, 4, 100, 400, 1900, 1970, 2000, 2024, 9998, 9999, 10000, 10001, 262142]
W_SECS = [0, 1, 59, 60, 3599, 3600, 43199, 43200, 86340, 86398, 86399]
W_FRACS = [0, 1, 999, 1000, 1001, 999999, 1000000, 1000001, 120000000, 123000000, 123456000, 123456789, 500000000,
           999000000, 999999000, 999999999, G, G + 1, G + 500000000, G + 999999999, G + 123000, 2 * G - 1]
W_OFFS = [0, 60, -60, 3600, -3600, 19800, -12600, 43200, -43200, 50400, 86340, -86340, 86399, -86399, 1, -1, 30, -30, 59, 3601, 29, -29]


def rand_value(rng):
    k = rng.random()
    if k < 0.6:
        y = rng.choice([0, 1, 1970, 2000, 2024, 9999, rng.randint(0, 9999), rng.randint(0, 9999)])
    elif k < 0.9:
        y = rng.choice(W_YEARS)
    else:
        y = rng.randint(-262143, 262142)
    o = rng.choice([1, 2, 59, 60, 61, 365, 366, rng.randint(1, 365)])
    if not valid_yo(y, o):
        o = 365
    secs = rng.choice(W_SECS + [rng.randint(0, 86399)] * 4)
    frac = rng.choice(W_FRACS + [rng.randint(0, G - 1)] * 6)
    if frac >= G and rng.random() < 0.85:
        secs = secs // 60 * 60 + 59
    if rng.random() < 0.8:
        off = rng.choice([0, 0, rng.randint(-1439, 1439) * 60, rng.randint(-1439, 1439) * 60, 3600, -18000])
    else:
        off = rng.choice(W_OFFS + [rng.randint(-86399, 86399)])
    return [y, o, secs, frac, off]


def cases(tier, rng):
    quick = tier == 'quick'
    # ---- reader: documented examples and the malformed list shapes
    docs = ['1996-12-19T16:39:57-08:00', '1990-12-31T23:59:60Z', '1990-12-31T15:59:60-08:00', '1937-01-01T12:00:27.87+00:20',
            '2015-02-18T23:16:09Z', '2015-02-18T23:59:60.234567+05:00', '2015-02-18t23:16:09z', '2015-02-18 23:16:09Z',
            '0000-01-01T00:00:00Z', '0000-01-01T00:00:00+00:01', '9999-12-31T23:59:59.999999999-23:59', '9999-12-31T23:59:60.999999999Z',
            '2015-02-29T00:00:00Z', '2016-02-29T00:00:00Z', '1900-02-29T00:00:00Z', '2000-02-29T00:00:00Z', '', 'Z', '2015', '2015-02-18',
            '2015-02-18T23:16:09', '2015-02-18T23:16:09+0000', '2015-02-18T23:16:09+00', '2015-02-18T23:16:09.Z', '2015-02-18T23:16:09,5Z',
            '2015-02-18T23:16:09' + MINUS + '08:00', '20150218T231609Z', '2015-02-18T24:00:00Z', '2015-02-18T23:60:00Z', '2015-02-18T23:59:61Z',
            '2015-02-18T23:16:09+24:00', '2015-02-18T23:16:09+23:60', '2015-02-18T23:16:09-00:00', ' 2015-02-18T23:16:09Z', '2015-02-18T23:16:09Z ']
    for t in docs:
        yield case_line('r3.parse', t)
    # exhaustive single-edit neighbourhood of a few representatives
    reps = [[2015, 2, 18, 'T', 23, 16, 9, None, 'Z'], [1996, 12, 19, 't', 16, 39, 57, '5', ('-', 8, 0)],
            [2020, 2, 29, ' ', 23, 59, 60, '123456789', (MINUS, 23, 59)], [9999, 12, 31, 'T', 0, 0, 0, '1234567891', ('+', 0, 0)]]
    for f in reps:
        t = fmt_fields(*f)
        yield case_line('r3.parse', t)
        for m in mutations(t, rng, exhaustive=True):
            yield case_line('r3.parse', m)
        for m in shape_mutations(f):
            yield case_line('r3.parse', m)
    # field lattices: every (month, day) of four year types, every hour/minute/second incl. invalid, every zone
    for y in (1900, 2000, 2023, 2024):
        for mo in range(0, 14):
            for d in (0, 1, 28, 29, 30, 31, 32):
                yield case_line('r3.parse', fmt_fields(y, mo, d, 'T', 12, 0, 0, None, 'Z'))
    for h in range(0, 26):
        yield case_line('r3.parse', fmt_fields(2024, 6, 15, 'T', h, 30, 15, None, ('+', 2, 0)))
    for x in range(0, 100):
        yield case_line('r3.parse', fmt_fields(2024, 6, 15, 'T', 7, x, 15, None, 'Z'))
        yield case_line('r3.parse', fmt_fields(2024, 6, 15, 'T', 7, 8, x, '25', 'Z'))
        yield case_line('r3.parse', fmt_fields(2024, 6, 15, 'T', x, 8, 9, None, 'Z'))
        for sg in ('+', '-', MINUS):
            yield case_line('r3.parse', fmt_fields(2024, 1, 1, 'T', 0, 0, 0, None, (sg, x, 0)))
            yield case_line('r3.parse', fmt_fields(2024, 12, 31, 'T', 23, 59, 59, None, (sg, 23, x)))
            yield case_line('r3.parse', fmt_fields(0, 1, 1, 'T', 0, 0, 0, None, (sg, x % 24, x % 60)))
            yield case_line('r3.parse', fmt_fields(9999, 12, 31, 'T', 23, 59, 60, '9', (sg, x % 24, x % 60)))
    for fr in FRACS:
        for z in ZONES:
            yield case_line('r3.parse', fmt_fields(2001, 9, 9, 'T', 1, 46, 40, fr, z))
    # random fields + mutations
    n = 12000 if quick else 400000
    for _ in range(n):
        f = rand_fields(rng)
        t = fmt_fields(*f)
        yield case_line('r3.parse', t)
        for m in mutations(t, rng):
            yield case_line('r3.parse', m)
        if rng.random() < 0.08:
            for m in shape_mutations(f):
                yield case_line('r3.parse', m)
    # arbitrary unicode
    alphabet = list('0123456789-:.+TtZz ') + ODD_CHARS + LOOKALIKES
    for _ in range(15000 if quick else 500000):
        k = rng.randint(0, 34)
        yield case_line('r3.parse', ''.join(rng.choice(alphabet) for _ in range(k)))

    # ---- writer: lattice, expected texts fed back, round trip
    def wcases(v, sfs, uzs):
        for sf in sfs:
            for uz in uzs:
                yield case_line('r3.write', v, sf, uz)
                yield case_line('r3.rt', v, sf, uz)
                t = expected_text(v, sf, uz)
                if t is not None:
                    yield case_line('r3.parse', t)
        yield case_line('r3.show', v)
    for y in W_YEARS:
        for o in (1, 2, 59, 60, 365, 366):
            if not valid_yo(y, o):
                continue
            for secs in (0, 59, 43200, 86399):
                for frac in (0, 1000, 120000000, 123456789, G + 5, 2 * G - 1):
                    for off in (0, 60, -60, 19800, 86340, -86340, 30):
                        for c in wcases([y, o, secs, frac, off], (4,), (1,)):
                            yield c
    for frac in W_FRACS:
        for secs in (0, 59, 86399):
            for off in (0, -3600, 20700):
                for c in wcases([2024, 60, secs, frac, off], range(5), (0, 1)):
                    yield c
    for off in W_OFFS + [m * 60 for m in range(-1439, 1440, 7 if quick else 1)]:
        for c in wcases([2023, 365, 86399, 999999999, off], (0, 3), (0, 1)):
            yield c
        for c in wcases([0, 1, 0, 0, off], (4,), (0, 1)):
            yield c
        for c in wcases([9999, 365, 86399, G + 1, off], (4,), (0, 1)):
            yield c
    for _ in range(6000 if quick else 300000):
        v = rand_value(rng)
        for c in wcases(v, (rng.randint(0, 4),), (rng.randint(0, 1),)):
            yield c
    # malformed arguments
    yield case_line('r3.write', [2024, 367, 0, 0, 0], 0, 0)
    yield case_line('r3.write', [2024, 1, 86400, 0, 0], 0, 0)
    yield case_line('r3.write', [2024, 1, 0, 2 * G, 0], 0, 0)
    yield case_line('r3.write', [2024, 1, 0, 0, 86400], 0, 0)
    yield case_line('r3.write', [2024, 1, 0, 0, 0], 5, 0)
    yield case_line('r3.write', [2024, 1, 0, 0, 0], 0, 2)
    yield 'r3.parse xff'
    yield 'r3.parse xc080'
    yield 'r3.parse xeda080'
    yield 'r3.parse xf4908080'
    yield 'r3.parse x323031352d30322d31385432333a31363a3039e288'
