"""C03 case generator: date-times as instants (ns since the epoch) at both range ends, year ends, leap
days, 400-year cycle seams and the epoch, crossed with durations from 1 ns to TimeDelta::MIN/MAX
including the exact distance to either range end +-1 ns; dates x day counts up to u64::MAX with the
same-year fast path boundaries (ordinal 1/365/366); iterators near both range ends; plus seeded
random draws.  Values are produced through an independent proleptic-Gregorian day-number routine."""
from vcheck import case_line
from common import *

RULE = ('structured lattice: ~70 anchor instants (range ends +-1ns, year ends, leap days, cycle seams, epoch) x '
        '~60 durations (0, +-1ns .. +-146097d, TimeDelta MIN/MAX, distance to each range end +-1ns), all anchor pairs '
        'for differences, dates with ordinal 1/59/60/365/366 x day counts {0..3,364..367,146097,i32::MAX+-1,2^32,u64::MAX, '
        'distance to range end +-1}, 12 offsets for zone-aware values, iterators started within 25 days/weeks of both '
        'range ends and mid-range with up to 5000 steps; compound-assignment / Duration-assign / reference-subtraction / FixedOffset-operand '
        'forms on the same lattices (offsets 0,+-1s..+-23:59:59 and the exact distance to each range end), provided iterator adaptors '
        '(count, last, len, rev, step_by 1..5000) within 30 steps and 10 years of both range ends; plus seeded random instants/durations/day counts')

DAYNS = 86400 * G
MIN_YEAR, MAX_YEAR = -262143, 262142
EPOCH_DN = 719163
TD_MAX = (2**63 - 1) * 10**6
TD_MIN = -TD_MAX


def is_leap(y):
    return (y % 4 == 0 and y % 100 != 0) or y % 400 == 0


def dby(y):
    p = y - 1
    return 365 * p + p // 4 - p // 100 + p // 400


def dn_of_yo(y, o):
    return dby(y) + o


def yo_of_dn(n):
    # year by estimate + correction (independent of the closed form used by the Coq spec)
    y = (n * 400) // 146097 + 1
    while dby(y) >= n:
        y -= 1
    while dby(y + 1) < n:
        y += 1
    return y, n - dby(y)


DN_MIN = dn_of_yo(MIN_YEAR, 1)
DN_MAX = dn_of_yo(MAX_YEAR, 365)
NS_MIN = (DN_MIN - EPOCH_DN) * DAYNS
NS_MAX = (DN_MAX - EPOCH_DN) * DAYNS + DAYNS - 1


def date_of_dn(n):
    y, o = yo_of_dn(n)
    return [y, o]


def ndt_of_ns(t, leap=False):
    dn = t // DAYNS + EPOCH_DN
    r = t % DAYNS
    y, o = yo_of_dn(dn)
    return [y, o, r // G, r % G + (G if leap else 0)]


def dtz_of_ns(t, off):
    return ndt_of_ns(t) + [off]


def td_of_ns(x):
    return [x // G, x % G]


def ns_of_ymd_hmsn(y, o, s=0, f=0):
    return (dn_of_yo(y, o) - EPOCH_DN) * DAYNS + s * G + f


def anchors():
    out = []
    for t in (NS_MIN, NS_MIN + 1, NS_MIN + G, NS_MIN + DAYNS - 1, NS_MIN + DAYNS, NS_MAX, NS_MAX - 1, NS_MAX - G,
              NS_MAX - DAYNS + 1, NS_MAX - DAYNS, 0, -1, 1, DAYNS - 1):
        out.append(t)
    for y in (MIN_YEAR + 1, -400, -1, 0, 1, 4, 100, 400, 1600, 1900, 1970, 2000, 2019, 2020, 2021, 2100, 2400, MAX_YEAR):
        ny = 366 if is_leap(y) else 365
        out.append(ns_of_ymd_hmsn(y, 1))                        # first instant of the year
        out.append(ns_of_ymd_hmsn(y, ny, 86399, G - 1))         # last instant of the year
        out.append(ns_of_ymd_hmsn(y, 60, 43200, 500000000))     # 29 Feb / 1 Mar at noon
    out.append(ns_of_ymd_hmsn(2020, 59, 86399, G - 1))
    out.append(ns_of_ymd_hmsn(2016, 366, 86399, 0))
    out.append(ns_of_ymd_hmsn(1969, 365, 86399, 999999999))
    seen, res = set(), []
    for t in out:
        if NS_MIN <= t <= NS_MAX and t not in seen:
            seen.add(t)
            res.append(t)
    return res


BASE_DURS = [0, 1, G - 1, G, G + 1, 59 * G, 86399 * G + G - 1, DAYNS, DAYNS + 1, DAYNS - G, 2 * DAYNS - 1, 7 * DAYNS,
             365 * DAYNS, 366 * DAYNS, 146096 * DAYNS, 146097 * DAYNS, 146097 * DAYNS + DAYNS - 1, 146098 * DAYNS,
             (2**31 - 1) * DAYNS, 2**31 * DAYNS, NS_MAX - NS_MIN, NS_MAX - NS_MIN + 1, TD_MAX, TD_MAX - 1, 500000000]


def durations_for(t):
    out = []
    for d in BASE_DURS:
        out += [d, -d]
    for e in (NS_MAX - t, NS_MIN - t):
        out += [e - 1, e, e + 1, -e, -e - 1, -e + 1]
    seen, res = set(), []
    for d in out:
        if TD_MIN <= d <= TD_MAX and d not in seen:
            seen.add(d)
            res.append(d)
    return res


OFFSETS = [0, 1, -1, 3600, -3600, 19800, -16200, 43200, -43200, 86399, -86399, 50400]

DAY_COUNTS = [0, 1, 2, 3, 6, 7, 8, 28, 31, 59, 60, 364, 365, 366, 367, 730, 731, 1461, 36524, 36525, 146096, 146097, 146098,
              2 * 146097, I32_MAX - 1, I32_MAX, I32_MAX + 1, 2**32 - 1, 2**32, 2**32 + 1, 2**63, U64_MAX - 1, U64_MAX]


def date_anchors():
    out = []
    for y in (MIN_YEAR, MIN_YEAR + 1, -401, -400, -399, -101, -100, -5, -4, -1, 0, 1, 3, 4, 5, 99, 100, 101, 399, 400, 401,
              1899, 1900, 1901, 1999, 2000, 2001, 2019, 2020, 2021, 2023, 2024, MAX_YEAR - 1, MAX_YEAR):
        ny = 366 if is_leap(y) else 365
        for o in (1, 2, 31, 32, 59, 60, 61, 182, 364, 365, 366):
            if o <= ny:
                out.append(dn_of_yo(y, o))
    return out


def rand_ns(rng):
    k = rng.random()
    if k < 0.25:
        return rng.randint(NS_MIN, NS_MAX)
    if k < 0.4:
        return rng.randint(NS_MIN, NS_MIN + 3 * 366 * DAYNS)
    if k < 0.55:
        return rng.randint(NS_MAX - 3 * 366 * DAYNS, NS_MAX)
    if k < 0.8:
        # around a year boundary
        y = rng.choice([rng.randint(MIN_YEAR + 1, MAX_YEAR), rng.randint(-500, 2500), rng.choice([0, 400, 2000, 1900, 2100, -400])])
        t = ns_of_ymd_hmsn(y, 1) + rng.randint(-3 * DAYNS, 3 * DAYNS)
        return min(max(t, NS_MIN), NS_MAX)
    return rng.randint(-80 * 366 * DAYNS, 120 * 366 * DAYNS)


def rand_dur(rng, t=None):
    k = rng.random()
    if k < 0.15:
        return rng.randint(-2 * G, 2 * G)
    if k < 0.35:
        return rng.randint(-2 * DAYNS, 2 * DAYNS)
    if k < 0.5:
        return rng.randint(-800 * DAYNS, 800 * DAYNS)
    if k < 0.6:
        return rng.randint(-2 * 146097 * DAYNS, 2 * 146097 * DAYNS)
    if k < 0.7:
        return rng.choice([1, -1]) * rng.randint(0, 3000) * DAYNS + rng.choice([0, 1, -1, G - 1, DAYNS - 1])
    if k < 0.85 and t is not None:
        e = rng.choice([NS_MAX - t, NS_MIN - t])
        return max(TD_MIN, min(TD_MAX, e + rng.choice([0, 1, -1, rng.randint(-DAYNS, DAYNS), rng.randint(-G, G)])))
    if k < 0.95:
        return rng.randint(NS_MIN - NS_MAX, NS_MAX - NS_MIN)
    return rng.randint(TD_MIN, TD_MAX)


def rand_dn(rng):
    k = rng.random()
    if k < 0.3:
        return rng.randint(DN_MIN, DN_MAX)
    if k < 0.45:
        return rng.randint(DN_MIN, DN_MIN + 800)
    if k < 0.6:
        return rng.randint(DN_MAX - 800, DN_MAX)
    if k < 0.85:
        y = rng.choice([rng.randint(MIN_YEAR + 1, MAX_YEAR), rng.randint(-500, 2500)])
        return min(max(dn_of_yo(y, 1) + rng.randint(-4, 4), DN_MIN), DN_MAX)
    return rng.randint(dn_of_yo(1900, 1), dn_of_yo(2100, 1))


def rand_days(rng, dn=None):
    k = rng.random()
    if k < 0.35:
        return rng.randint(0, 800)
    if k < 0.5:
        return rng.randint(0, 300000)
    if k < 0.7 and dn is not None:
        return max(0, rng.choice([DN_MAX - dn, dn - DN_MIN]) + rng.randint(-2, 2))
    if k < 0.85:
        return rng.randint(0, DN_MAX - DN_MIN + 5)
    if k < 0.95:
        return rng.choice([I32_MAX, I32_MAX + 1, I32_MAX - 1, 2**32, U64_MAX, 2**63])
    return rng.randint(0, U64_MAX)


N_TD = ['ar.nadd', 'ar.nsub', 'ar.opnadd', 'ar.opnsub']
Z_TD = ['ar.zadd', 'ar.zsub', 'ar.opzadd', 'ar.opzsub', 'ar.opzaddasg', 'ar.opzsubasg']
D_TD = ['ar.dadds', 'ar.dsubs', 'ar.opdadds', 'ar.opdsubs']
D_DAYS = ['ar.dadd', 'ar.dsub', 'ar.opdadd', 'ar.opdsub']


def std_args(x):
    return x // G, x % G


OFF_ARGS = [0, 1, -1, 59, 60, 3600, -3600, 19800, -16200, 43200, -43200, 86398, 86399, -86399, -86398]


def surface_cases(tier, rng, anc, dan):
    for t in anc:
        a = ndt_of_ns(t)
        ds = durations_for(t)
        for d in ds[::2] + ds[-12:]:
            for sg in (1, -1):
                yield case_line('ar.opnasg', a, sg, td_of_ns(d))
            if d >= 0:
                yield case_line('ar.stdasg', a, rng.choice([1, -1]), *std_args(d))
                yield case_line('ar.zstdasg', dtz_of_ns(t, rng.choice(OFFSETS)), rng.choice([1, -1]), *std_args(d))
        for off in OFF_ARGS + [(NS_MAX - t) // G, (NS_MAX - t) // G + 1, -((t - NS_MIN) // G), -((t - NS_MIN) // G) - 1]:
            if -86400 < off < 86400:
                for sg in (1, -1):
                    yield case_line('ar.noff', a, sg, off)
                    yield case_line('ar.opnoff', a, sg, off)
                    yield case_line('ar.opzoff', dtz_of_ns(t, rng.choice(OFFSETS)), sg, off)
    for t in anc[::9]:
        for s_ in (TD_MAX // G, TD_MAX // G + 1, 2**63, U64_MAX):
            for n in (0, 807000000, 807000001, G - 1):
                yield case_line('ar.stdasg', ndt_of_ns(t), rng.choice([1, -1]), s_, n)
                yield case_line('ar.zstdasg', dtz_of_ns(t, -3600), rng.choice([1, -1]), s_, n)
    for x in anc[::3]:
        for y in anc[::4]:
            yield case_line('ar.opzdiffref', dtz_of_ns(x, rng.choice(OFFSETS)), dtz_of_ns(y, rng.choice(OFFSETS)))
    # order of zone-aware values with different offsets: equal instants, neighbours, and pairs whose
    # wall-clock order is the reverse of their instant order
    for x in anc[::2]:
        for (o1, o2) in ((0, 3600), (3600, 0), (-43200, 43200), (86399, -86399), (19800, -16200), (1, -1), (0, 0)):
            for d in (0, 1, -1, G, -G, (o1 - o2) * G // 2, (o2 - o1) * G // 2, (o1 - o2) * G, (o1 - o2) * G - 1, (o1 - o2) * G + 1):
                y = x + d
                if NS_MIN <= y <= NS_MAX:
                    yield case_line('ar.zord', dtz_of_ns(x, o1), dtz_of_ns(y, o2))
    tds = [0, 1, -1, DAYNS - 1, DAYNS, -DAYNS, -DAYNS + 1, 366 * DAYNS, -366 * DAYNS, 146097 * DAYNS, TD_MAX, TD_MIN]
    for dn in dan[::3] + [DN_MIN, DN_MAX]:
        extra = [(DN_MAX - dn) * DAYNS + e for e in (-1, 0, DAYNS - 1, DAYNS)] + [(DN_MIN - dn) * DAYNS + e for e in (-DAYNS, -DAYNS + 1, 0, 1)]
        for x in tds + extra:
            if TD_MIN <= x <= TD_MAX:
                for sg in (1, -1):
                    yield case_line('ar.opdasg', date_of_dn(dn), sg, td_of_ns(x))
    # adaptors that run to the end: count / last, within ten years of the end in the driven direction
    for j in list(range(0, 30)) + [35, 70, 71, 365, 366, 700, 3287]:
        for start, dr in ((DN_MAX - j, 0), (DN_MIN + j, 1)):
            for op in ('it.dcount', 'it.wcount', 'it.dlast', 'it.wlast'):
                yield case_line(op, date_of_dn(start), dr)
    yield case_line('it.dcount', [2021, 1], 0)       # outside the accepted window: bad args on both sides
    # len (forward), rev(), step_by
    for j in list(range(0, 26)) + [30, 100, 366, 1000, 7001]:
        for start in (DN_MAX - j, DN_MIN + j):
            for k in (0, 1, 2, 3, 10, 24, 25, 26, 101, 1001):
                yield case_line('it.dlen', date_of_dn(start), k)
                yield case_line('it.wlen', date_of_dn(start), k)
            for k in (0, 1, 2, 5, 25, 26):
                for dr in (0, 1):
                    yield case_line('it.drev', date_of_dn(start), k, dr, 40)
                    yield case_line('it.wrev', date_of_dn(start), k, dr, 12)
            for st in (1, 2, 3, 7, 25, 26, 365, 5000):
                for dr in (0, 1):
                    yield case_line('it.dstep', date_of_dn(start), dr, st, 12)
                    yield case_line('it.wstep', date_of_dn(start), dr, st, 6)
    for dn in dan[::4]:
        for k in (0, 1, 7, 400, 5000):
            yield case_line('it.dlen', date_of_dn(dn), k)
            yield case_line('it.wlen', date_of_dn(dn), k)
        for st in (1, 2, 31, 366):
            yield case_line('it.dstep', date_of_dn(dn), rng.choice([0, 1]), st, 5)
            yield case_line('it.wstep', date_of_dn(dn), rng.choice([0, 1]), st, 5)
        yield case_line('it.drev', date_of_dn(dn), rng.choice([0, 1, 9]), rng.choice([0, 1]), 3)
        yield case_line('it.wrev', date_of_dn(dn), rng.choice([0, 1, 9]), rng.choice([0, 1]), 3)
    yield case_line('it.dstep', [2021, 1], 0, 0, 3)    # step_by(0): bad args
    # random
    n = 12000 if tier == 'quick' else 400000
    for _ in range(n):
        r = rng.random()
        if r < 0.25:
            t = rand_ns(rng)
            yield case_line('ar.opnasg', ndt_of_ns(t), rng.choice([1, -1]), td_of_ns(rand_dur(rng, t)))
        elif r < 0.4:
            t = rand_ns(rng)
            x = abs(rand_dur(rng, t))
            if rng.random() < 0.5:
                yield case_line('ar.stdasg', ndt_of_ns(t), rng.choice([1, -1]), *std_args(x))
            else:
                yield case_line('ar.zstdasg', dtz_of_ns(t, rng.choice(OFFSETS)), rng.choice([1, -1]), *std_args(x))
        elif r < 0.5:
            dn = rand_dn(rng)
            yield case_line('ar.opdasg', date_of_dn(dn), rng.choice([1, -1]), td_of_ns(rand_dur(rng, (dn - EPOCH_DN) * DAYNS)))
        elif r < 0.75:
            t = rand_ns(rng)
            off = rng.choice(OFF_ARGS + [rng.randint(-86399, 86399)])
            op = rng.choice(['ar.noff', 'ar.opnoff', 'ar.opzoff'])
            a = dtz_of_ns(t, rng.choice(OFFSETS + [rng.randint(-86399, 86399)])) if op == 'ar.opzoff' else ndt_of_ns(t)
            yield case_line(op, a, rng.choice([1, -1]), off)
        elif r < 0.77:
            x = rand_ns(rng)
            o1, o2 = rng.randint(-86399, 86399), rng.randint(-86399, 86399)
            y = x + rng.choice([0, 1, -1, (o1 - o2) * G // 2, (o1 - o2) * G + rng.randint(-2, 2), rng.randint(-DAYNS, DAYNS)])
            y = min(max(y, NS_MIN), NS_MAX)
            yield case_line('ar.zord', dtz_of_ns(x, o1), dtz_of_ns(y, o2))
        elif r < 0.8:
            yield case_line('ar.opzdiffref', dtz_of_ns(rand_ns(rng), rng.randint(-86399, 86399)), dtz_of_ns(rand_ns(rng), rng.randint(-86399, 86399)))
        elif r < 0.88:
            dr = rng.choice([0, 1])
            start = DN_MAX - rng.randint(0, 3300) if dr == 0 else DN_MIN + rng.randint(0, 3300)
            yield case_line(rng.choice(['it.dcount', 'it.wcount', 'it.dlast', 'it.wlast']), date_of_dn(start), dr)
        else:
            dn = rand_dn(rng)
            op = rng.choice(['it.dlen', 'it.wlen', 'it.drev', 'it.wrev', 'it.dstep', 'it.wstep'])
            if op in ('it.dlen', 'it.wlen'):
                yield case_line(op, date_of_dn(dn), rng.choice([0, 1, rng.randint(0, 900)]))
            elif op in ('it.drev', 'it.wrev'):
                yield case_line(op, date_of_dn(dn), rng.choice([0, 1, 2, rng.randint(0, 60)]), rng.choice([0, 1]), rng.choice([0, 1, 5, 50]))
            else:
                yield case_line(op, date_of_dn(dn), rng.choice([0, 1]), rng.randint(1, 40), rng.randint(0, 8))


def cases(tier, rng):
    anc = anchors()
    # ---- date-time +- duration, all anchors x all durations
    for t in anc:
        a = ndt_of_ns(t)
        for d in durations_for(t):
            for op in N_TD:
                yield case_line(op, a, td_of_ns(d))
            if d >= 0:
                yield case_line('ar.addstd', a, 1, *std_args(d))
                yield case_line('ar.addstd', a, -1, *std_args(d))
    # core Duration beyond the TimeDelta range
    for t in anc[::9]:
        for s in (TD_MAX // G, TD_MAX // G + 1, 2**63, U64_MAX):
            for n in (0, 807000000, 807000001, G - 1):
                yield case_line('ar.addstd', ndt_of_ns(t), rng.choice([1, -1]), s, n)
                yield case_line('ar.zaddstd', dtz_of_ns(t, 3600), rng.choice([1, -1]), s, n)
    # ---- differences, round trip, order: all anchor pairs
    for x in anc:
        for y in anc:
            a, b = ndt_of_ns(x), ndt_of_ns(y)
            yield case_line('ar.ndiff', a, b)
            yield case_line('ar.nrt', a, b)
            yield case_line('ar.nord', a, b)
    for x in anc[::3]:
        for y in anc[::4]:
            yield case_line('ar.opndiff', ndt_of_ns(x), ndt_of_ns(y))
            yield case_line('ar.zdiff', dtz_of_ns(x, rng.choice(OFFSETS)), dtz_of_ns(y, rng.choice(OFFSETS)))
            yield case_line('ar.opzdiff', dtz_of_ns(x, rng.choice(OFFSETS)), dtz_of_ns(y, rng.choice(OFFSETS)))
    # ---- zone-aware +- duration: every offset on a reduced lattice
    for t in anc[::2]:
        ds = durations_for(t)
        for off in OFFSETS:
            for d in ds[::3] + ds[-12:]:
                yield case_line(rng.choice(Z_TD), dtz_of_ns(t, off), td_of_ns(d))
        for d in ds[::5]:
            if d >= 0:
                yield case_line('ar.zaddstd', dtz_of_ns(t, rng.choice(OFFSETS)), rng.choice([1, -1]), *std_args(d))
    # ---- Days on date-times (naive and zone-aware)
    for t in anc:
        dn = t // DAYNS + EPOCH_DN
        ns = DAY_COUNTS + [max(0, DN_MAX - dn + e) for e in (-1, 0, 1)] + [max(0, dn - DN_MIN + e) for e in (-1, 0, 1)]
        for n in ns:
            for sg in (1, -1):
                yield case_line('ar.ndays', ndt_of_ns(t), sg, n)
                yield case_line('ar.opndays', ndt_of_ns(t), sg, n)
                off = rng.choice(OFFSETS)
                yield case_line('ar.zdays', dtz_of_ns(t, off), sg, n)
                yield case_line('ar.opzdays', dtz_of_ns(t, rng.choice(OFFSETS)), sg, n)
    # zone-aware Days where the local reading is beyond the date range
    for t in (NS_MIN, NS_MIN + 1, NS_MIN + 3600 * G, NS_MIN + DAYNS - 1, NS_MIN + DAYNS, NS_MAX, NS_MAX - 3600 * G, NS_MAX - DAYNS + 1, NS_MAX - DAYNS):
        for off in OFFSETS:
            for n in (0, 1, 2, 365, 366):
                for sg in (1, -1):
                    yield case_line('ar.zdays', dtz_of_ns(t, off), sg, n)
                    yield case_line('ar.opzdays', dtz_of_ns(t, off), sg, n)
    # ---- dates x day counts
    dan = date_anchors()
    for dn in dan:
        ns = DAY_COUNTS + [max(0, DN_MAX - dn + e) for e in (-1, 0, 1)] + [max(0, dn - DN_MIN + e) for e in (-1, 0, 1)]
        for n in ns:
            for op in D_DAYS:
                yield case_line(op, date_of_dn(dn), n)
    # dates x durations (truncation toward zero)
    tds = []
    for k in (0, 1, 2, 365, 366, 146097, I32_MAX, I32_MAX + 1, DN_MAX - DN_MIN, DN_MAX - DN_MIN + 1):
        for e in (-1, 0, 1, DAYNS - 1, -(DAYNS - 1), G):
            for sg in (1, -1):
                x = sg * k * DAYNS + e
                if TD_MIN <= x <= TD_MAX:
                    tds.append(x)
    tds += [TD_MIN, TD_MAX, TD_MIN + 1, TD_MAX - 1]
    tds = sorted(set(tds))
    for dn in dan[::3] + [DN_MIN, DN_MAX]:
        extra = [(DN_MAX - dn) * DAYNS + e for e in (-1, 0, 1, DAYNS - 1, DAYNS)] + [(DN_MIN - dn) * DAYNS + e for e in (-DAYNS, -DAYNS + 1, -1, 0, 1)]
        for x in tds + extra:
            for op in D_TD:
                yield case_line(op, date_of_dn(dn), td_of_ns(x))
    for x in dan[::2] + [DN_MIN, DN_MAX]:
        for y in dan[::5] + [DN_MIN, DN_MAX]:
            yield case_line('ar.ddiff', date_of_dn(x), date_of_dn(y))
            yield case_line('ar.opddiff', date_of_dn(y), date_of_dn(x))
    # ---- iterators
    for j in list(range(0, 26)) + [30, 100, 366, 1000]:
        for start in (DN_MAX - j, DN_MIN + j):
            for k in (0, 1, 2, 3, 4, 5, 10, 24, 25, 26, 101):
                for dr in (0, 1):
                    yield case_line('it.days', date_of_dn(start), k, dr, 40)
                    yield case_line('it.dhint', date_of_dn(start), k, dr)
    for j in list(range(0, 30)) + [35, 70, 71, 700, 7001]:
        for start in (DN_MAX - j, DN_MIN + j):
            for k in (0, 1, 2, 3, 4, 5, 10, 11, 101, 1001):
                for dr in (0, 1):
                    yield case_line('it.weeks', date_of_dn(start), k, dr, 12)
                    yield case_line('it.whint', date_of_dn(start), k, dr)
    # nth / nth_back (provided adaptor methods): jumps inside the range, onto the last item, one past
    # it and far beyond (huge usize counts), near both range ends in both directions
    for j in list(range(0, 12)) + [30, 100, 366]:
        for start, dr in ((DN_MAX - j, 0), (DN_MIN + j, 1), (DN_MAX - j, 1), (DN_MIN + j, 0)):
            near_end = (dr == 0 and start == DN_MAX - j) or (dr == 1 and start == DN_MIN + j)
            ns = [0, 1, 2, 5, 40, 365] if not near_end else \
                 sorted(set([0, 1, 2, max(j - 2, 0), max(j - 1, 0), j, j + 1, j + 2, 400, 2**31, 2**32 + 1, 2**63, U64_MAX]))
            for n in ns:
                yield case_line('it.dnth', date_of_dn(start), n, dr, 40)
    for j in list(range(0, 16)) + [35, 70, 71, 700]:
        for start, dr in ((DN_MAX - j, 0), (DN_MIN + j, 1), (DN_MAX - j, 1), (DN_MIN + j, 0)):
            near_end = (dr == 0 and start == DN_MAX - j) or (dr == 1 and start == DN_MIN + j)
            w = j // 7
            ns = [0, 1, 2, 5, 52] if not near_end else \
                 sorted(set([0, 1, max(w - 1, 0), w, w + 1, w + 2, 200, 2**31, 2**32 + 1, U64_MAX]))
            for n in ns:
                yield case_line('it.wnth', date_of_dn(start), n, dr, 12)
    for dn in dan[::4]:
        for k in (0, 1, 7, 400, 5000):
            for dr in (0, 1):
                yield case_line('it.days', date_of_dn(dn), k, dr, 3)
                yield case_line('it.weeks', date_of_dn(dn), k, dr, 3)
                yield case_line('it.dhint', date_of_dn(dn), k, dr)
                yield case_line('it.whint', date_of_dn(dn), k, dr)
    # ---- the rest of the operator surface: compound assignment, Duration on the assign forms,
    # reference subtraction, FixedOffset operands; provided iterator adaptors
    yield from surface_cases(tier, rng, anc, dan)
    # ---- leap-second operands (outside the property's domain: reported as drift only) and bad args
    for t in anc[::6]:
        a = ndt_of_ns(t - t % G, leap=True)
        yield case_line('ar.nadd', a, td_of_ns(G))
        yield case_line('ar.ndiff', a, ndt_of_ns(0))
    yield case_line('ar.nadd', [2021, 366, 0, 0], [0, 0])
    yield case_line('ar.dadd', [MAX_YEAR + 1, 1], 0)
    yield case_line('ar.zadd', [2021, 1, 0, 0, 86400], [0, 0])
    yield case_line('it.days', [2021, 1], 5001, 0, 1)
    # ---- random
    n = 60000 if tier == 'quick' else 2500000
    for _ in range(n):
        r = rng.random()
        if r < 0.3:
            t = rand_ns(rng)
            yield case_line(rng.choice(N_TD), ndt_of_ns(t), td_of_ns(rand_dur(rng, t)))
        elif r < 0.42:
            x, y = rand_ns(rng), rand_ns(rng)
            yield case_line(rng.choice(['ar.ndiff', 'ar.nrt', 'ar.nord', 'ar.opndiff']), ndt_of_ns(x), ndt_of_ns(y))
        elif r < 0.55:
            t = rand_ns(rng)
            off = rng.choice(OFFSETS + [rng.randint(-86399, 86399)])
            yield case_line(rng.choice(Z_TD), dtz_of_ns(t, off), td_of_ns(rand_dur(rng, t)))
        elif r < 0.6:
            x, y = rand_ns(rng), rand_ns(rng)
            yield case_line(rng.choice(['ar.zdiff', 'ar.opzdiff']), dtz_of_ns(x, rng.randint(-86399, 86399)), dtz_of_ns(y, rng.randint(-86399, 86399)))
        elif r < 0.7:
            t = rand_ns(rng)
            dn = t // DAYNS + EPOCH_DN
            op = rng.choice(['ar.ndays', 'ar.opndays', 'ar.zdays', 'ar.zdays', 'ar.opzdays'])
            a = ndt_of_ns(t) if op in ('ar.ndays', 'ar.opndays') else dtz_of_ns(t, rng.choice(OFFSETS + [rng.randint(-86399, 86399)]))
            yield case_line(op, a, rng.choice([1, -1]), rand_days(rng, dn))
        elif r < 0.82:
            dn = rand_dn(rng)
            yield case_line(rng.choice(D_DAYS), date_of_dn(dn), rand_days(rng, dn))
        elif r < 0.9:
            dn = rand_dn(rng)
            x = rand_dur(rng, (dn - EPOCH_DN) * DAYNS)
            yield case_line(rng.choice(D_TD), date_of_dn(dn), td_of_ns(x))
        elif r < 0.93:
            yield case_line(rng.choice(['ar.ddiff', 'ar.opddiff']), date_of_dn(rand_dn(rng)), date_of_dn(rand_dn(rng)))
        elif r < 0.96:
            t = rand_ns(rng)
            x = abs(rand_dur(rng, t))
            if rng.random() < 0.5:
                yield case_line('ar.addstd', ndt_of_ns(t), rng.choice([1, -1]), *std_args(x))
            else:
                yield case_line('ar.zaddstd', dtz_of_ns(t, rng.choice(OFFSETS)), rng.choice([1, -1]), *std_args(x))
        else:
            dn = rand_dn(rng)
            op = rng.choice(['it.days', 'it.weeks', 'it.dhint', 'it.whint'])
            k = rng.choice([0, 1, 2, rng.randint(0, 60), rng.randint(0, 900)])
            if op in ('it.days', 'it.weeks'):
                yield case_line(op, date_of_dn(dn), k, rng.choice([0, 1]), rng.choice([0, 1, 5, 50]))
            else:
                yield case_line(op, date_of_dn(dn), k, rng.choice([0, 0, 0, 1]))
