"""C20 case generator: every value lattice of C09 (year-shape classes x days, times with every fraction
class and leap seconds on and off second 59, whole-minute offsets and offsets with seconds, both ends of
the range with offsets pushing the wall clock across it), of C06 (durations around zero and both range
ends) and of C02 (instants around the epoch, the i64-nanosecond window and the range ends) through
serde_json and bincode; for the sixteen ts_* modules the integers {0, +-1, unit powers, the ends of the
representable range in each unit +-2, the i64 / u64 extremes, 2^63 +-2} through every way an integer can
reach visit_i64 / visit_u64 (JSON by sign, bincode i64, direct hand-over)."""
from vcheck import case_line
from common import *
import C09 as g9
import C06 as g6

RULE = ('sd.rt: C09 lattices (year classes x boundary days, key years x all days, time lattice x fraction classes x '
        'leap seconds, whole-minute offsets sampled (thorough: all) + offsets with seconds, range ends x offsets '
        'crossing them) and C06 duration lattice, each through both formats and, for zone-aware values, the three '
        'target types; sd.ts: 16 modules x 2 formats x instants at the epoch, unit boundaries, the i64-ns window '
        'ends +-1 ns, the range ends, year classes, leap seconds (outside); sd.tsread: 16 modules x integer lattice '
        '(0, +-1, +-10^k, range ends per unit +-2, i64/u64 extremes, 2^63 +-2) x every (format, visitor) route; '
        'sd.tdread: secs x nanos boundary lattice x 2 formats; seeded random draws of all of these')

YMIN, YMAX = g9.YMIN, g9.YMAX
SEC_MIN, SEC_MAX = -8334601228800, 8210266876799
NS_MIN, NS_MAX = SEC_MIN * G, SEC_MAX * G + G - 1
UNITS = [G, 10**6, 10**3, 1]          # ns per unit of u = 0 s, 1 ms, 2 us, 3 ns


def days_before_year(y):
    p = y - 1
    return 365 * p + p // 4 - p // 100 + p // 400


EPOCH_DN = days_before_year(1970) + 1


def ndt_of_ns(t):
    """(year, ordinal, second of day, nanosecond) of an instant in ns (proleptic Gregorian)"""
    secs, f = divmod(t, G)
    days, s = divmod(secs, 86400)
    n = days + EPOCH_DN
    # year by estimate and correction
    y = n // 366 + 1 if n > 0 else (n - 365) // 365
    y = (n * 400) // 146097 + 1
    while days_before_year(y) >= n:
        y -= 1
    while days_before_year(y + 1) < n:
        y += 1
    return [y, n - days_before_year(y), s, f]


def ts_instants(rng, n_rand):
    out = []
    for t in around([0, G, -G, 10**6, -10**6, 1000, -1000, 86400 * G, -86400 * G, I64_MAX, I64_MIN, I64_MAX - 10**9,
                     I64_MIN + 10**9, NS_MIN + 2, NS_MAX - 2, 1431648000 * G, -62135596800 * G, 253402300799 * G + 999999999,
                     951782400 * G + 123456789, -1 * G + 999000000, -1 * G + 999999000, -1000 * G + 1],
                    (-2, -1, 0, 1, 2), lo=NS_MIN, hi=NS_MAX):
        out.append(ndt_of_ns(t))
    for t in (I64_MAX + 10**6, I64_MAX + 10**9, I64_MIN - 10**6, I64_MIN - 10**9, I64_MAX + 999, I64_MIN - 999):
        out.append(ndt_of_ns(t))
    for _ in range(n_rand):
        k = rng.random()
        if k < 0.3:
            t = rng.randint(-10**12, 10**12)
        elif k < 0.6:
            t = rng.randint(I64_MIN, I64_MAX)
        elif k < 0.8:
            t = rng.choice([I64_MIN, I64_MAX]) + rng.randint(-10**10, 10**10)
        else:
            t = rng.randint(NS_MIN, NS_MAX)
        out.append(ndt_of_ns(t))
    return out


def routes(n):
    """(fmt, kind) ways integer n can reach a visitor"""
    r = []
    if n < 0:
        if n >= I64_MIN:
            r += [(0, 0), (1, 0), (2, 0)]
    else:
        if n <= U64_MAX:
            r += [(0, 1), (2, 1)]
        if n <= I64_MAX:
            r += [(1, 0), (2, 0)]
    return r


def int_lattice(u):
    unit = UNITS[u]
    lo, hi = -(-NS_MIN // unit), NS_MAX // unit
    base = [0, 1, -1, 59, 60, 999, 1000, 1001, -999, -1000, -1001, 10**6, -10**6, 10**6 + 1, -10**6 - 1, G, -G, G + 1, -G - 1,
            999999999, -999999999, 86400, -86400, 86399 * unit, 1431648000, 1431648000 * 1000, -62135596800,
            lo, hi, -hi, -lo, I64_MAX, I64_MIN, 2**63, U64_MAX, 2**31, -2**31, 2**32, 2**53, -2**53,
            SEC_MIN, SEC_MAX, SEC_MIN * 1000, SEC_MAX * 1000 + 999, SEC_MIN * 10**6, SEC_MAX * 10**6 + 999999]
    return around(base, (-2, -1, 0, 1, 2), lo=I64_MIN, hi=U64_MAX)


def rand_int(rng, u):
    unit = UNITS[u]
    lo, hi = -(-NS_MIN // unit), NS_MAX // unit
    k = rng.random()
    if k < 0.25:
        return rng.randint(-10**6, 10**6)
    if k < 0.5:
        return rng.randint(max(lo, I64_MIN), min(hi, U64_MAX))
    if k < 0.65:
        return rng.choice([lo, hi]) + rng.randint(-5000, 5000)
    if k < 0.85:
        return rng.randint(I64_MIN, I64_MAX)
    return rng.randint(0, U64_MAX)


def cases(tier, rng):
    quick = tier == 'quick'
    fm = [0, 1]
    ys = g9.years()
    k = 0

    def both(ty, v):
        yield case_line('sd.rt', 0, ty, v)
        yield case_line('sd.rt', 1, ty, v)

    def one(ty, v):
        nonlocal k
        k += 1
        yield case_line('sd.rt', k % 2, ty, v)

    # ---- NaiveDate
    for y in ys:
        if not quick or y in g9.KEY_YEARS:
            ords = range(1, g9.ylen(y) + 1)
        else:
            ords = [o for o in g9.BOUND_ORD if o <= g9.ylen(y)]
        for o in ords:
            if o in g9.BOUND_ORD:
                yield from both(0, [y, o])
            else:
                yield from one(0, [y, o])
    for v in ([YMIN - 1, 1], [YMAX + 1, 1], [2023, 0], [2023, 366], [2023], 5):
        yield from both(0, v)
    # ---- NaiveTime (leap seconds on second 59: in domain; elsewhere: the documented limitation)
    tl = g9.times(rng, 300 if quick else 20000)
    for t in tl:
        yield from both(1, t)
    for v in ([86400, 0], [0, 2 * G], [-1, 0], [0]):
        yield from both(1, v)
    # ---- NaiveDateTime
    tsub = tl[::7] + [[86399, 999999999 + G], [86399, G], [59, G + 1000000], [58, G + 5]]
    for y in ys:
        for o in (1, 60, g9.ylen(y)):
            for t in (tsub if not quick else tsub[::5]):
                yield from one(2, [y, o] + t)
    for y in g9.KEY_YEARS:
        for t in tsub[::11]:
            yield from both(2, [y, 1] + t)
    # ---- DateTime<FixedOffset>: whole-minute offsets and offsets with seconds, three target types
    offs_all = g9.minute_offsets()
    offs = offs_all if not quick else sorted(set(rng.sample(offs_all, 150) + [0, 60, -60, 86340, -86340, 3600, -3600, 19800, -12600, 35940, -35940]))
    base_dt = [[2023, 1, 0, 0], [2023, 365, 86399, 999999999], [2024, 60, 43200, 500000000], [0, 1, 0, 0], [-1, 365, 86399, 1000],
               [9999, 365, 86399, 0], [10000, 1, 0, 0], [1, 1, 0, 123000000], [2016, 366, 86399, G + 500000000], [1972, 182, 86399, G],
               [2015, 181, 86399 - 3600, G + 1]]
    for off in offs:
        for b in base_dt:
            yield from one(3, b + [off])
        yield from one(8, rng.choice(base_dt) + [off])
        yield from one(9, rng.choice(base_dt) + [off])
    sec_offs = [1, -1, 15, 29, 30, 31, 45, 59, -29, -30, -31, -59, 61, 3601, -3599, 19815, 3650, -13236, 86399, -86399, 86370, -86370, 1800 + 15]
    for off in sec_offs:
        for b in base_dt:
            yield from both(3, b + [off])
            yield from one(8, b + [off])
            yield from one(9, b + [off])
    for off in (86400, -86400, 2**31 - 1, -2**31):
        yield from both(3, base_dt[0] + [off])
    # both ends of the range, offsets pushing the wall clock across the year boundary and the range
    for (y, o) in ((YMAX, 365), (YMAX, 364), (YMIN, 1), (YMIN, 2), (9999, 365), (10000, 1), (-1, 365), (0, 1), (-10000, 1), (-9999, 1)):
        for s, f in ((0, 0), (1, 0), (3599, 0), (3600, 1000000), (43200, 0), (82800, 0), (86399, 999999999), (86399, G + 1), (86340, 0), (59, G)):
            for off in (0, 60, -60, 3600, -3600, 7200, -7200, 86340, -86340, 43200, -43200, 1, -1, 30, -30):
                yield from one(3, [y, o, s, f, off])
                if off in (60, -60, 7200, -7200, 1):
                    yield from both(3, [y, o, s, f, off])
                    yield from one(8, [y, o, s, f, off])
                    yield from one(9, [y, o, s, f, off])
            yield from both(4, [y, o, s, f, 0])
    # ---- DateTime<Utc>
    for y in ys:
        for o in (1, 59, g9.ylen(y)):
            for t in (tsub[::5] if quick else tsub[::2]):
                yield from one(4, [y, o] + t + [0])
    yield from both(4, [2023, 1, 0, 0, 3600])
    # ---- TimeDelta
    for d in g6.td_lattice():
        yield from both(5, d)
    for v in ([0, G], [0, -1], [g6.MAXS, g6.MAXN + 1], [g6.MINS, g6.MINN - 1], [0], 3):
        yield from both(5, v)
    # ---- Weekday / Month
    for w in range(-1, 9):
        yield from both(6, w)
    for m in range(-1, 15):
        yield from both(7, m)
    for ty in (-1, 10, 100):
        yield from both(ty, 0)
    yield case_line('sd.rt', 2, 0, [2023, 1])
    yield case_line('sd.rt', -1, 0, [2023, 1])
    # ---- sd.read: names in the spellings FromStr takes / refuses, a few other strings (not judged)
    names = ['Mon', 'mon', 'MON', 'Monday', 'monday', 'Mond', 'Mo', '', 'Tues', 'Tuesday', 'Thu', 'Thur', 'Thursday', 'Sun ', ' Sun',
             'January', 'Jan', 'jan', 'JANUARY', 'Janu', 'May', 'Mayy', 'Sept', 'sept', 'Sep', 'September', 'Septembe', 'December ', 'Dec']
    for t in names:
        for ty in (6, 7):
            for f in fm:
                yield case_line('sd.read', f, ty, t)
    texts = {0: ['2014-07-24', '+262143-01-01', '2014-7-4', '2014-07-32', ''],
             1: ['12:34:56', '23:59:60', '12:34', '24:00:00', '12:34:56.5 '],
             2: ['2014-07-24T12:34:56', '2014-07-24 12:34:56', '2014-07-24T12:34:60'],
             3: ['2014-07-24T12:34:06Z', '2014-07-24T13:57:06+01:23', '2014-07-32T12:34:06Z', '2014-07-24 12:34:06 +01:00', '2014-07-24T12:34:06',
                 '+262143-01-01T01:59:59.999999999+02:00', '2014-07-24T12:34:06+05:30:15'],
             4: ['2014-07-24T12:34:06Z', '2014-07-24T13:57:06+01:23', '2014-07-24T12:34:06 UTC'],
             8: ['2014-07-24T13:57:06+01:23'], 9: ['2014-07-24T13:57:06+01:23', '2014-07-24T12:34:06Z'], 5: ['x']}
    for ty, l in texts.items():
        for t in l:
            for f in fm:
                yield case_line('sd.read', f, ty, t)
    yield case_line('sd.read', 0, 0, b'\xff')
    # ---- sd.ts: sixteen modules x two formats
    inst = ts_instants(rng, 60 if quick else 3000)
    yearly = []
    for y in ys:
        for o in (1, g9.ylen(y)):
            for t in ([0, 0], [86399, 999999999], [43200, 123456789], [1, 500000], [86399, G + 999999999], [30, G]):
                yearly.append([y, o] + t)
    vals = inst + (yearly if not quick else yearly[::3])
    for m in range(16):
        for f in fm:
            for v in vals:
                yield case_line('sd.ts', m, f, ('some', v) if m % 2 else v)
            if m % 2:
                yield case_line('sd.ts', m, f, None)
            yield case_line('sd.ts', m, f, [2023, 0, 0, 0])
    for m in (-1, 16):
        yield case_line('sd.ts', m, 0, [2023, 1, 0, 0])
    yield case_line('sd.ts', 0, 2, [2023, 1, 0, 0])
    yield case_line('sd.ts', 0, 0, None)
    yield case_line('sd.ts', 0, 0, ('some', [2023, 1, 0, 0]))
    yield case_line('sd.ts', 1, 0, [2023, 1, 0, 0])
    # ---- sd.tsread
    for m in range(16):
        u = (m % 8) // 2
        ints = int_lattice(u) + [rand_int(rng, u) for _ in range(150 if quick else 20000)]
        for n in ints:
            for (f, kind) in routes(n):
                yield case_line('sd.tsread', m, f, kind, n)
        # routes that do not exist / out of the integer type
        for (f, kind, n) in ((0, 0, 5), (0, 1, -5), (1, 1, 5), (2, 1, -1), (2, 0, 2**63), (0, 1, 2**64), (0, 0, -2**63 - 1), (3, 0, 0), (2, 2, 0)):
            yield case_line('sd.tsread', m, f, kind, n)
    # ---- sd.tsnone
    for m in range(-1, 17):
        for f in (0, 1, 2, 3):
            for kind in (0, 1, 2):
                yield case_line('sd.tsnone', m, f, kind)
    # ---- sd.tdread
    secs_l = around([0, 1, -1, g6.MAXS, g6.MINS, I64_MAX, I64_MIN, 2**31, -2**31, 86400, -86400], lo=I64_MIN, hi=I64_MAX)
    nanos_l = around([0, G, g6.MAXN, g6.MINN, I32_MAX, I32_MIN, 500000000], lo=I32_MIN, hi=I32_MAX)
    for s in secs_l:
        for n in nanos_l:
            for f in fm:
                yield case_line('sd.tdread', f, s, n)
    for (f, s, n) in ((2, 0, 0), (0, 2**63, 0), (0, 0, 2**31), (0, 0, -2**31 - 1), (1, -2**63 - 1, 0)):
        yield case_line('sd.tdread', f, s, n)
    for _ in range(400 if quick else 50000):
        yield case_line('sd.tdread', rng.randint(0, 1), rng.choice([rng.randint(g6.MINS - 3, g6.MAXS + 3), rand_i64(rng)]),
                        rng.choice([rng.randint(-5, G + 5), rand_i32(rng), rng.randint(0, G - 1)]))
    # ---- seeded random values through sd.rt
    n = 9000 if quick else 400000
    for _ in range(n):
        ty = rng.choice([0, 1, 2, 2, 3, 3, 3, 4, 4, 5, 8, 9])
        f = rng.randint(0, 1)
        if ty == 0:
            v = g9.rand_date(rng)
        elif ty == 1:
            v = g9.rand_time(rng)
        elif ty == 2:
            v = g9.rand_date(rng) + g9.rand_time(rng)
        elif ty in (3, 8, 9):
            v = g9.rand_date(rng) + g9.rand_time(rng) + [g9.rand_offset(rng)]
        elif ty == 4:
            v = g9.rand_date(rng) + g9.rand_time(rng) + [0]
        else:
            v = g6.rand_td(rng)
        yield case_line('sd.rt', f, ty, v)
