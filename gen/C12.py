"""C12 case generator: every documented strftime specifier x every padding modifier x boundary
lattices of dates / times / offsets, for the five formattable kinds (NaiveDate, NaiveTime,
NaiveDateTime, DateTime<FixedOffset>, DateTime<Utc>), the item lists of all specifiers, and random
format strings assembled from specifiers, literals, multi-byte text, white space and stray '%'."""
from vcheck import case_line
from common import *

RULE = ('structured: (specifier x modifier) x boundary lattice of years {-262143,-10000,-9999,-100,-99,-1,0,1,99,100,999,1000,'
        '9999,10000,30000,262142,...} x ordinals around month ends / first and last week x times {00:00:00,12:00:00,'
        '23:59:59, leap seconds, fractions 0/1/999/10^6/10^9-1} x offsets {0,+-1s,+-29..31s,+-59s,+-30min,+-12h,+-23:59:59}; '
        'all days of 8 years for week numbering; sf.items for every specifier/modifier/lenient flag; '
        'the deprecated free functions format / format_item (sf.dfmt / sf.dfmti) on every specifier x modifier of every kind, the zone lattice and a tenth of the random strings; '
        'seeded random format strings (specifiers, literals, multi-byte, unicode white space, stray %)')

YEARS = [-262143, -262142, -100000, -10000, -9999, -1000, -999, -401, -400, -101, -100, -99, -5, -1, 0, 1, 4, 9, 10, 70, 99,
         100, 400, 999, 1000, 1582, 1900, 1969, 1970, 1999, 2000, 2001, 2012, 2024, 2100, 9999, 10000, 12345, 30000,
         99999, 100000, 262141, 262142]
YEARS_SMALL = [-262143, -10000, -9999, -100, -99, -1, 0, 1, 99, 100, 999, 1000, 2001, 9999, 10000, 30000, 262142]


def leap(y):
    return (y % 4 == 0 and y % 100 != 0) or y % 400 == 0


def ndays(y):
    return 366 if leap(y) else 365


ORDS = [1, 2, 3, 4, 5, 6, 7, 8, 28, 29, 30, 31, 32, 58, 59, 60, 61, 90, 91, 92, 120, 121, 122, 151, 152, 153, 181, 182, 183,
        189, 212, 213, 214, 243, 244, 245, 273, 274, 275, 304, 305, 306, 334, 335, 336, 358, 359, 360, 361, 362, 363, 364, 365, 366]
ORDS_SMALL = [1, 2, 7, 59, 60, 61, 189, 359, 365, 366]

FRACS = [0, 1, 999, 1000, 999999, 10**6, 10**6 + 1, 26490000, 123456789, 500000000, 999000000, 999999000, 10**9 - 1]
LEAPS = [10**9, 10**9 + 1, 10**9 + 999, 10**9 + 10**6, 10**9 + 26490000, 2 * 10**9 - 1]
SECS = [0, 1, 59, 60, 3599, 3600, 2094, 35999, 36000, 43199, 43200, 43201, 46800, 82800, 86340, 86399]
OFFS = [0, 1, -1, 29, -29, 30, -30, 31, -31, 59, -59, 60, -60, 89, 90, -90, 1800, -1800, 3599, -3599, 3600, -3600, 12600,
        34200, -34200, 35999, 36000, -36000, 43200, -43200, 50400, 86340, 86369, 86370, -86370, 86399, -86399]

DATE_SPECS = ['Y', 'C', 'y', 'q', 'm', 'b', 'B', 'h', 'd', 'e', 'a', 'A', 'w', 'u', 'U', 'W', 'G', 'g', 'V', 'j', 'D', 'x', 'F', 'v']
TIME_SPECS = ['H', 'k', 'I', 'l', 'P', 'p', 'M', 'S', 'f', '.f', '.3f', '.6f', '.9f', '3f', '6f', '9f', 'R', 'T', 'X', 'r']
ZONE_SPECS = ['Z', 'z', ':z', '::z', ':::z', '#z', '+', 'c', 's']
SPECIAL = ['t', 'n', '%']
ALL_SPECS = DATE_SPECS + TIME_SPECS + ZONE_SPECS + SPECIAL
MODS = ['', '-', '_', '0']
JUNK_SPECS = ['Q', 'E', 'O', 'i', 'J', 'K', 'L', 'N', 'o', '1', '2', '3', '6', '9', '3x', '.', '.x', '.3', '.3x', '.4f', ':', '::', ':::',
              '::::z', ':x', '#', '#Y', '#:z', '-', '_', '0', '--d', '-#z', 'é', '\U0001f63d', ' ', '-é', '.é', '3é']


def dates(years, ords):
    for y in years:
        for o in ords:
            if o <= ndays(y):
                yield [y, o]


def times_all():
    out = []
    for s in SECS:
        for f in (0, 1, 26490000, 10**9 - 1):
            out.append([s, f])
    for f in FRACS:
        out.append([2094, f])
        out.append([86399, f])
    for f in LEAPS:
        out.append([86399, f])
        out.append([2094, f])
        out.append([59, f])
    return out


def b(s):
    return s.encode('utf-8')


PIECES_LIT = ['a', 'T', ':', '-', '/', ' ', '  ', '\t', '\n', ' \t', 'hello', '100', '|', 'é', 'ß中', '\U0001f63d',
              '　', ' ', ' ', '\u0085', 'x y', '%%', "'", '"', '\\', 'Z', '+', '#', '.']


def rand_fmt(rng, errors):
    n = rng.choice([1, 1, 2, 2, 3, 4, 5, 8])
    out = []
    for _ in range(n):
        k = rng.random()
        if k < 0.5:
            out.append('%' + rng.choice(ALL_SPECS))
        elif k < 0.62:
            out.append('%' + rng.choice(['-', '_', '0']) + rng.choice(ALL_SPECS))
        elif k < 0.9:
            out.append(rng.choice(PIECES_LIT))
        elif errors:
            out.append('%' + rng.choice(JUNK_SPECS))
        else:
            out.append(rng.choice(PIECES_LIT))
    s = ''.join(out)
    if errors and rng.random() < 0.08:
        s += '%'
    return b(s)


def rand_date(rng):
    k = rng.random()
    if k < 0.3:
        y = rng.choice(YEARS)
    elif k < 0.7:
        y = rng.randint(-300, 2300)
    elif k < 0.9:
        y = rng.randint(-12000, 12000)
    else:
        y = rng.randint(-262143, 262142)
    o = rng.choice([1, ndays(y), rng.randint(1, ndays(y)), rng.randint(1, ndays(y)), rng.choice(ORDS_SMALL[:-1])])
    return [y, o]


def rand_time(rng):
    s = rng.choice([rng.choice(SECS), rng.randint(0, 86399), rng.randint(0, 86399)])
    f = rng.choice([0, rng.choice(FRACS), rng.choice(LEAPS), rng.randint(0, 10**9 - 1), rng.randint(0, 999) * 10**6,
                    rng.randint(0, 999999) * 1000, rng.randint(10**9, 2 * 10**9 - 1)])
    return [s, f]


def rand_off(rng):
    return rng.choice([0, rng.choice(OFFS), rng.randint(-86399, 86399), rng.randint(-14, 14) * 3600, rng.randint(-56, 56) * 900])


def rand_value(rng, kind=None):
    if kind is None:
        kind = rng.choice([0, 1, 2, 2, 3, 3, 3, 4])
    if kind == 0:
        return 0, rand_date(rng)
    if kind == 1:
        return 1, rand_time(rng)
    if kind == 2:
        return 2, rand_date(rng) + rand_time(rng)
    if kind == 3:
        return 3, rand_date(rng) + rand_time(rng) + [rand_off(rng)]
    return 4, rand_date(rng) + rand_time(rng)


def cases(tier, rng):
    thorough = tier != 'quick'
    # --- item lists: every specifier x modifier x lenient, junk specifiers, composites in context
    for lenient in (0, 1):
        for sp in ALL_SPECS + JUNK_SPECS:
            for m in MODS + ['#']:
                yield case_line('sf.items', b('%' + m + sp), lenient)
                yield case_line('sf.items', b('a%' + m + sp + ' b'), lenient)
        for s in ['', '%', 'a%', ' ', '  ', 'a', 'é', ' é ', '　x　', '100%%', '%%PDF', '%Y-%m-%dT%H:%M:%S%.f%:z',
                  '%c%c', '%D%F%R%T%v%x%X%r%+', '%-%Y', '%-%', '%_', '%:', '%::', '%.', '%.3', '%3', '%#', '%-:z', '%0.3f',
                  '%Y%', '%Q%Y', 'x%Qy', '%-D', '%_c', '%0T %Y', '\U0001f63d%\U0001f63d']:
            yield case_line('sf.items', b(s), lenient)
    yield case_line('sf.items', b'\xff', 0)
    yield case_line('sf.items', b'\xc3', 0)
    yield case_line('sf.items', b'ab\x80', 1)
    yield case_line('sf.items', b'%Y', 2)
    yield case_line('sf.fmt', 0, [2001, 189], b'\xe9')
    yield case_line('sf.fmt', 0, [2001, 367], b'%Y')
    yield case_line('sf.fmt', 0, [262143, 1], b'%Y')
    yield case_line('sf.fmt', 1, [86400, 0], b'%H')
    yield case_line('sf.fmt', 1, [0, 2 * 10**9], b'%H')
    yield case_line('sf.fmt', 3, [2001, 189, 0, 0, 86400], b'%z')
    yield case_line('sf.fmt', 5, [2001, 189], b'%Y')

    small_dates = list(dates(YEARS_SMALL, ORDS_SMALL))
    all_dates = list(dates(YEARS, ORDS))
    times = times_all()
    # --- date specifiers x modifiers x dates
    for sp in DATE_SPECS:
        for m in MODS:
            f = b('%' + m + sp)
            for d in small_dates:
                yield case_line('sf.fmt', 0, d, f)
    # every year of the lattice with %C %y %Y and friends, all modifiers in one string
    yfmt = b('%C|%-C|%_C|%0C|%y|%-y|%_y|%Y|%-Y|%_Y|%0Y|%G|%-G|%_G|%g|%-g')
    for d in all_dates:
        yield case_line('sf.fmt', 0, d, yfmt)
    dfmt = b('%Y-%m-%d %a %A %b %B %h %e %j %q %u %w %U %W %G-%V %g|%D|%F|%v|%x')
    dfmt2 = b('%-m/%-d %_m %_d %-j %_j %0e %-U %_U %-W %_W %-V %_V %0q %_u %-w')
    for d in all_dates:
        yield case_line('sf.fmt', 0, d, dfmt)
        yield case_line('sf.fmt', 0, d, dfmt2)
    # all days of some years: week numbering and names
    wfmt = b('%U %W %V %G %g %u %w %a %j %e %b %q')
    full_years = [1999, 2000, 2001, 2004, 2010, 2015, 2020, 2021, 0, -1, -4, 9999, 10000, 262142, -262143] if thorough else \
                 [2000, 2001, 2004, 2015, 2020, 0, -1, 9999]
    for y in full_years:
        for o in range(1, ndays(y) + 1):
            yield case_line('sf.fmt', 0, [y, o], wfmt)
    # --- time specifiers x modifiers x times
    for sp in TIME_SPECS:
        for m in MODS:
            f = b('%' + m + sp)
            for t in times:
                yield case_line('sf.fmt', 1, t, f)
    tfmt = b('%H:%M:%S %k %l %I %p %P|%f|%.f|%.3f|%.6f|%.9f|%3f|%6f|%9f|%R|%T|%X|%r|%-H %_M %-S %_S %-f %_f %-I %0k %0l')
    for s in range(0, 86400, 3600 if not thorough else 600):
        for f in (0, 5 * 10**8, 10**9 + 5):
            yield case_line('sf.fmt', 1, [s, f], tfmt)
            yield case_line('sf.fmt', 1, [s + 59, f], tfmt)
            yield case_line('sf.fmt', 1, [s + 3599, f], tfmt)
    # --- zone-aware and naive date-times
    zdates = [[-262143, 1], [-9999, 365], [-1, 365], [0, 366], [1969, 365], [1970, 1], [2001, 189], [2024, 60], [9999, 365], [10000, 1], [262142, 365]]
    ztimes = [[0, 0], [2094, 26490000], [43200, 0], [86399, 999999999], [86399, 10**9 + 5], [2094, 10**9 + 26490000]]
    for sp in ZONE_SPECS + ['Y-%m-%dT%H:%M:%S', 'c|%+|%Z|%z|%:z|%::z|%:::z|%s|%0s|%_s|%-s']:
        for m in (MODS if sp in ('s', 'c', 'Z', 'z', ':z', '+') else ['']):
            f = b('%' + m + sp)
            for d in zdates:
                for t in ztimes:
                    for off in OFFS:
                        yield case_line('sf.fmt', 3, d + t + [off], f)
                    yield case_line('sf.fmt', 4, d + t, f)
                    yield case_line('sf.fmt', 2, d + t, f)
                    if m == '':
                        # the deprecated free functions format / format_item on the same values
                        off = OFFS[(d[0] + t[0] + len(sp)) % len(OFFS)]
                        yield case_line('sf.dfmt', 3, d + t + [off], f)
                        yield case_line('sf.dfmti', 3, d + t + [off], f)
                        yield case_line('sf.dfmt', 4, d + t, f)
                        yield case_line('sf.dfmti', 2, d + t, f)
    allfmt = b('%a %b %e %T %Y %C %y %G %g %V %U %W %j %f %.f %s %p %I|%c|%D|%F|%v|%r')
    for d in small_dates:
        for t in ([0, 0], [86399, 10**9 + 999999999], [43200, 1000]):
            yield case_line('sf.fmt', 2, d + t, allfmt)
            yield case_line('sf.fmt', 3, d + t + [rng.choice(OFFS)], allfmt)
    # --- every specifier (all modifiers) on one value of every kind: present and missing fields
    for sp in ALL_SPECS + JUNK_SPECS:
        for m in MODS + ['#']:
            f = b('%' + m + sp)
            yield case_line('sf.fmt', 0, [2001, 189], f)
            yield case_line('sf.fmt', 1, [2094, 26490000], f)
            yield case_line('sf.fmt', 2, [2001, 189, 2094, 26490000], f)
            yield case_line('sf.fmt', 3, [2001, 189, 2094, 26490000, 34200], f)
            yield case_line('sf.fmt', 4, [2001, 189, 2094, 26490000], f)
            yield case_line('sf.fmtl', 3, [2001, 189, 2094, 26490000, 34200], f)
            for dop in ('sf.dfmt', 'sf.dfmti'):
                yield case_line(dop, 0, [2001, 189], f)
                yield case_line(dop, 1, [2094, 26490000], f)
                yield case_line(dop, 2, [2001, 189, 2094, 26490000], f)
                yield case_line(dop, 3, [2001, 189, 2094, 26490000, 34200], f)
                yield case_line(dop, 4, [2001, 189, 2094, 26490000], f)
            yield case_line('sf.fmtl', 0, [-99, 1], b('x' + '%' + m + sp + 'y'))
    # --- random format strings
    n = 30000 if not thorough else 1200000
    for _ in range(n):
        r = rng.random()
        if r < 0.25:
            yield case_line('sf.items', rand_fmt(rng, rng.random() < 0.4), rng.choice([0, 0, 1]))
        elif r < 0.8:
            k, v = rand_value(rng)
            yield case_line('sf.fmt', k, v, rand_fmt(rng, rng.random() < 0.15))
        elif r < 0.9:
            k, v = rand_value(rng)
            yield case_line(rng.choice(['sf.dfmt', 'sf.dfmti']), k, v, rand_fmt(rng, rng.random() < 0.15))
        else:
            k, v = rand_value(rng)
            yield case_line('sf.fmtl', k, v, rand_fmt(rng, rng.random() < 0.3))
