"""C14 case generator: field sets for format::Parsed.

Fields are derived from a real local date-time (boundary lattice: year ends, week 53, leap days,
negative years, years 0..99, the 1969/1970/2000/2069/2070 pivot years, both ends of the
supported range) with probability 1/2 per field, else drawn independently (in range / boundary /
out of range / i64 extremes); subsets are biased to sizes 2-6 and to the documented sufficient
combinations, with every year-group form (full year, century + two-digit, two-digit alone, all
three); leap seconds; offsets; the timestamp path; direct field writes (pz.raw) for states the
setters refuse; setter sequences with repeated fields (pz.setseq)."""
from vcheck import case_line
from common import *

RULE = ('documented sufficient combinations x boundary dates x year-group forms x extra consistent / one corrupted field; '
        'random subsets (size bias 2-6) with per-field 1/2 derived-from-a-real-value else independent '
        '(in range / boundary / out of range / i64 extremes); timestamp path incl. leap seconds and range ends; '
        'direct field writes; setter sequences with repeats')

MIN_YEAR, MAX_YEAR = -262143, 262142


def is_leap(y):
    return (y % 4 == 0 and y % 100 != 0) or y % 400 == 0


def dby(y):
    p = y - 1
    return 365 * p + p // 4 - p // 100 + p // 400


CUM = [0, 31, 59, 90, 120, 151, 181, 212, 243, 273, 304, 334, 365]


def cum(leap, m):
    return CUM[m - 1] + (1 if leap and m > 2 else 0)


def yo_of_dn(n):
    n0 = n - 1
    q400, r = divmod(n0, 146097)
    c = min(r // 36524, 3)
    r2 = r - c * 36524
    q4, r3 = divmod(r2, 1461)
    y1 = min(r3 // 365, 3)
    return 400 * q400 + 100 * c + 4 * q4 + y1 + 1, r3 - 365 * y1 + 1


EPOCH_DN = dby(1970) + 1
DN_MIN = dby(MIN_YEAR) + 1
DN_MAX = dby(MAX_YEAR + 1)
TS_MIN = (DN_MIN - EPOCH_DN) * 86400
TS_MAX = (DN_MAX - EPOCH_DN) * 86400 + 86399


class Real:
    """a local date-time (dn, secs, nano, leap) with an offset; all 21 fields"""

    def __init__(self, dn, secs, nano, leap, off):
        self.dn, self.secs, self.nano, self.leap, self.off = dn, secs, nano, leap, off
        y, o = yo_of_dn(dn)
        lp = is_leap(y)
        m = 12
        while cum(lp, m) >= o:
            m -= 1
        d = o - cum(lp, m)
        wd = (dn - 1) % 7
        th = dn - wd + 3
        iy, io = yo_of_dn(th)
        iw = (io - 1) // 7 + 1
        h = secs // 3600
        self.y, self.o, self.m, self.d, self.wd, self.iy, self.iw = y, o, m, d, wd, iy, iw
        ts = (dn - EPOCH_DN) * 86400 + secs - off
        self.f = {
            0: y, 1: y // 100 if y >= 0 else None, 2: y % 100 if y >= 0 else None,
            3: iy, 4: iy // 100 if iy >= 0 else None, 5: iy % 100 if iy >= 0 else None,
            6: (m - 1) // 3 + 1, 7: m, 8: (o - (wd + 1) % 7 + 6) // 7, 9: (o - wd + 6) // 7,
            10: iw, 11: wd, 12: o, 13: d, 14: h // 12, 15: h % 12, 16: secs // 60 % 60,
            17: secs % 60 + (1 if leap else 0), 18: nano, 19: ts, 20: off,
        }

    def setter_value(self, k):
        """argument for setter k (22 setters) reproducing this value's field; None if the field does not exist"""
        if k <= 14:
            return self.f[k]
        if k == 15:
            return self.f[15] if self.f[15] != 0 else 12
        if k == 16:
            return self.secs // 3600
        return self.f[k - 1]


BOUNDARY_YEARS = [MIN_YEAR, MIN_YEAR + 1, -401, -400, -101, -100, -99, -5, -4, -1, 0, 1, 4, 69, 70, 99, 100, 400,
                  1582, 1899, 1900, 1969, 1970, 1999, 2000, 2004, 2005, 2012, 2015, 2016, 2020, 2024, 2069, 2070, 2100,
                  9999, 10000, MAX_YEAR - 1, MAX_YEAR]


def boundary_dns():
    out = []
    for y in BOUNDARY_YEARS:
        n = 366 if is_leap(y) else 365
        for o in (1, 2, 3, 4, 5, 6, 7, 8, 31, 32, 59, 60, 61, 90, 91, 92, 181, 182, 183, 273, 274, 275,
                  n - 7, n - 6, n - 5, n - 4, n - 3, n - 2, n - 1, n):
            out.append(dby(y) + o)
    return out


def rand_dn(rng):
    k = rng.random()
    if k < 0.3:
        return rng.randint(dby(1900) + 1, dby(2101))
    if k < 0.5:
        y = rng.choice(BOUNDARY_YEARS)
        return dby(y) + rng.choice([1, 2, 3, 7, 59, 60, 61, 359, 360, 361, 362, 363, 364, 365, 366 if is_leap(y) else 365,
                                    rng.randint(1, 365)])
    if k < 0.7:
        return rng.randint(dby(-200) + 1, dby(300))
    if k < 0.8:
        return rng.choice([DN_MIN, DN_MIN + 1, DN_MAX - 1, DN_MAX, DN_MIN + rng.randint(0, 800), DN_MAX - rng.randint(0, 800)])
    return rng.randint(DN_MIN, DN_MAX)


OFFS = [0, 0, 0, 1, -1, 60, 3600, -3600, 19800, 34200, -43200, 50400, 86399, -86399]


def rand_off(rng, valid_only=True):
    k = rng.random()
    if k < 0.7:
        return rng.choice(OFFS)
    if k < 0.9 or valid_only:
        return rng.randint(-86399, 86399)
    return rng.choice([86400, -86400, 90000, I32_MAX, I32_MIN, I32_MAX - 1, rng.randint(I32_MIN, I32_MAX)])


def rand_real(rng, dn=None):
    if dn is None:
        dn = rand_dn(rng)
    k = rng.random()
    if k < 0.25:
        secs = rng.choice([0, 1, 59, 60, 3599, 3600, 43199, 43200, 43201, 86340, 86398, 86399])
    else:
        secs = rng.randint(0, 86399)
    nano = rng.choice([0, 0, 1, 999999999, 500000000, rng.randint(0, 999999999)])
    leap = secs % 60 == 59 and rng.random() < 0.35
    return Real(dn, secs, nano, leap, rand_off(rng))


# documented ranges per setter (lo, hi)
RANGES = {0: (I32_MIN, I32_MAX), 1: (0, I32_MAX), 2: (0, 99), 3: (I32_MIN, I32_MAX), 4: (0, I32_MAX), 5: (0, 99),
          6: (1, 4), 7: (1, 12), 8: (0, 53), 9: (0, 53), 10: (1, 53), 11: (0, 6), 12: (1, 366), 13: (1, 31),
          14: (0, 1), 15: (1, 12), 16: (0, 23), 17: (0, 59), 18: (0, 60), 19: (0, 999999999),
          20: (I64_MIN, I64_MAX), 21: (I32_MIN, I32_MAX)}
TYPICAL = {0: (-300, 2300), 1: (0, 30), 3: (-300, 2300), 4: (0, 30), 20: (-4 * 10**9, 4 * 10**9), 21: (-86399, 86399)}


def rand_value(rng, k):
    lo, hi = RANGES[k]
    r = rng.random()
    if k in (11, 14):
        return rng.randint(lo, hi)
    if r < 0.55:
        a, b = TYPICAL.get(k, (lo, hi))
        return rng.randint(a, b)
    if r < 0.75:
        return rng.choice([lo, hi, lo + 1, hi - 1, (lo + hi) // 2])
    if r < 0.9:
        v = rng.choice([lo - 1, hi + 1, lo - 2, hi + 2, -1, 100, 2**32, 2**32 + 8, 2**31, -2**31 - 1])
        return max(I64_MIN, min(I64_MAX, v))
    return rng.choice([I64_MIN, I64_MAX, I64_MIN + 1, I64_MAX - 1, rng.randint(I64_MIN, I64_MAX), I32_MAX, I32_MIN, TS_MIN, TS_MAX,
                       TS_MIN - 1, TS_MAX + 1])


YEAR_FORMS = [[0], [1, 2], [2], [0, 1, 2], [0, 2], [0, 1], [1]]
ISO_FORMS = [[3], [4, 5], [5], [3, 4, 5], [3, 5], [3, 4], [4]]
DATE_COMBOS = [('y', [7, 13]), ('y', [12]), ('y', [8, 11]), ('y', [9, 11]), ('i', [10, 11])]
TIME_COMBOS = [[16, 17], [16, 17, 18], [16, 17, 18, 19], [14, 15, 17], [14, 15, 17, 18, 19], [14, 16, 17], [16], [15, 17], [17, 18], [16, 17, 19]]
DATE_SETTERS = list(range(0, 14))
TIME_SETTERS = [14, 15, 16, 17, 18, 19]


def pairs_from(real, setters):
    out = []
    for k in setters:
        v = real.setter_value(k)
        if v is not None:
            out.append([k, v])
    return out


def pick_target(rng, has_time=True):
    return rng.choice([0, 0, 1, 2, 2, 3, 3, 4, 4, 5] if has_time else [0, 0, 0, 2, 3, 4])


def emit(op, target, fields, off_local, off_tz):
    if target == 2:
        return case_line(op, target, fields, off_local)
    if target == 4:
        return case_line(op, target, fields, off_tz)
    return case_line(op, target, fields)


def state_from_pairs(ps):
    """the field state the setters would produce when all are accepted (first value wins)"""
    st = [None] * 21
    for k, v in ps:
        if k <= 14:
            if st[k] is None:
                st[k] = v
        elif k == 15:
            if st[15] is None:
                st[15] = v % 12
        elif k == 16:
            if st[14] is None:
                st[14] = v // 12
            if st[15] is None:
                st[15] = v % 12
        else:
            if st[k - 1] is None:
                st[k - 1] = v
    return st


def raw_state(st):
    return [None if v is None else ('some', v) for v in st]


def structured(tier, rng):
    dns = boundary_dns()
    if tier == 'quick':
        dns = dns[::3] + [DN_MIN, DN_MAX]
    for dn in dns:
        real = Real(dn, rng.choice([0, 86399, 43200, rng.randint(0, 86399)]), 0, False, 0)
        for gsel, combo in DATE_COMBOS:
            forms = YEAR_FORMS if gsel == 'y' else ISO_FORMS
            for form in forms:
                base = pairs_from(real, form + combo)
                yield case_line('pz.resolve', 0, base)
                # one extra consistent field, then the same field corrupted
                k = rng.choice(DATE_SETTERS)
                v = real.setter_value(k)
                if v is not None:
                    yield case_line('pz.resolve', 0, base + [[k, v]])
                    lo, hi = RANGES[k]
                    w = v + rng.choice([-1, 1])
                    if lo <= w <= hi:
                        yield case_line('pz.resolve', 0, [[k, w]] + base)
        # the other year group in every form next to a sufficient combination
        for form in ISO_FORMS:
            yield case_line('pz.resolve', 0, pairs_from(real, [0, 7, 13] + form))
        for form in YEAR_FORMS:
            yield case_line('pz.resolve', 0, pairs_from(real, [3, 10, 11] + form))
    # times: every combination x boundary times, with and without leap
    for secs in (0, 1, 59, 60, 3599, 3600, 43199, 43200, 46800, 86340, 86399):
        for leap in (False, True):
            if leap and secs % 60 != 59:
                continue
            real = Real(EPOCH_DN, secs, 123456789, leap, 0)
            for combo in TIME_COMBOS:
                yield case_line('pz.resolve', 1, pairs_from(real, combo))
    # timestamp path: range ends, leap seconds, offsets
    for ts in around([TS_MIN, TS_MAX, 0, -1, 86399, 86400, 1341100799, 1341100800, -62167219200, 951782400, I64_MAX, I64_MIN, TS_MIN + 59, TS_MIN + 60, TS_MAX - 59],
                     (-2, -1, 0, 1, 2), lo=I64_MIN, hi=I64_MAX):
        for off in (0, 1, -1, 60, -60, 3600, 86399, -86399, I32_MAX, I32_MIN):
            for extra in ([], [[18, 60]], [[18, 59]], [[18, 0]], [[19, 5]], [[18, 60], [17, 59]], [[16, 0], [17, 0]], [[12, 1]], [[0, MIN_YEAR]], [[0, MAX_YEAR]],
                          [[1, 20]], [[4, 20]], [[2, 70]], [[11, 3]]):
                f = [[20, ts]] + extra
                yield case_line('pz.resolve', 2, f, off)
                if -86400 < off < 86400:
                    yield case_line('pz.resolve', 4, f, off)
                    yield case_line('pz.resolve', 3, f + [[21, off]])
        yield case_line('pz.resolve', 3, [[20, ts]])
        yield case_line('pz.resolve', 3, [[20, ts], [18, 60]])
    # date and time fields with a timestamp to cross-check, incl. leap seconds (own count and one above)
    for dn in [EPOCH_DN, EPOCH_DN - 1, dby(2012) + 182, dby(2016) + 366, DN_MIN, DN_MAX, dby(0) + 1, dby(-1) + 365]:
        for secs, leap in ((86399, True), (86399, False), (0, False), (3599, True), (43259, True), (59, True)):
            for off in (0, 1, -1, 3600, -86399, 86399, 59, 2699):
                real = Real(dn, secs, 0, leap, off)
                base = pairs_from(real, [0, 12, 16, 17, 18])
                for dt in (-2, -1, 0, 1, 2):
                    f = base + [[20, real.f[19] + dt]]
                    yield case_line('pz.resolve', 2, f, off)
                    yield case_line('pz.resolve', 3, f + [[21, off]])
                    yield case_line('pz.resolve', 4, f, off)
    # offsets
    for o in around([0, 86399, 86400, -86399, -86400, I32_MAX, I32_MIN, I64_MAX, I64_MIN], lo=I64_MIN, hi=I64_MAX):
        yield case_line('pz.resolve', 5, [[21, o]])
        yield case_line('pz.resolve', 3, [[0, 2000], [7, 1], [13, 1], [16, 0], [17, 0], [21, o]])
    yield case_line('pz.resolve', 5, [])
    # year-group arithmetic at the i32 limits
    for q in around([0, 21474836, 21474837, I32_MAX, 2621, 2622], lo=0, hi=I32_MAX):
        for r in (0, 47, 48, 99):
            yield case_line('pz.resolve', 0, [[1, q], [2, r], [7, 1], [13, 1]])
            yield case_line('pz.resolve', 0, [[4, q], [5, r], [10, 1], [11, 0]])
    for y in around([I32_MIN, I32_MAX, MIN_YEAR, MAX_YEAR, 0], lo=I32_MIN, hi=I32_MAX):
        yield case_line('pz.resolve', 0, [[0, y], [7, 1], [13, 1]])
        yield case_line('pz.resolve', 0, [[0, y], [12, 366]])
        yield case_line('pz.resolve', 0, [[0, y], [8, 53], [11, 6]])
        yield case_line('pz.resolve', 0, [[0, y], [9, 0], [11, 0]])
        yield case_line('pz.resolve', 0, [[3, y], [10, 53], [11, 6]])
        yield case_line('pz.resolve', 0, [[3, y], [10, 1], [11, 0]])
        yield case_line('pz.resolve', 0, [[3, y], [10, 52], [11, 6]])
    # week numbers 0 and 52/53 with every weekday in years starting on every weekday
    for y in (2012, 2015, 2016, 2017, 2018, 2019, 2020, 2021, 2022, 2023, 2024, 2000, 1970, -1, 0, MIN_YEAR, MAX_YEAR):
        for w in (0, 1, 2, 51, 52, 53):
            for wd in range(7):
                yield case_line('pz.resolve', 0, [[0, y], [8, w], [11, wd]])
                yield case_line('pz.resolve', 0, [[0, y], [9, w], [11, wd]])
                if w:
                    yield case_line('pz.resolve', 0, [[3, y], [10, w], [11, wd]])
    # every single setter over its boundary values, alone and twice
    for k in range(22):
        lo, hi = RANGES[k]
        vals = around([lo, hi, 0, 12, 2**32, I64_MIN, I64_MAX], (-1, 0, 1), lo=I64_MIN, hi=I64_MAX)
        for v in vals:
            if k in (11, 14) and not lo <= v <= hi:
                continue
            yield case_line('pz.setseq', [[k, v]])
            for w in (v, lo, hi):
                yield case_line('pz.setseq', [[k, v], [k, w]])
                yield case_line('pz.setseq', [[k, w], [k, v]])
    # 24-hour / 12-hour / am-pm interplay, exhaustively
    for h in range(0, 24):
        for h12 in range(1, 13):
            yield case_line('pz.setseq', [[15, h12], [16, h]])
            yield case_line('pz.setseq', [[16, h], [15, h12]])
        for ap in (0, 1):
            yield case_line('pz.setseq', [[14, ap], [16, h]])
            yield case_line('pz.setseq', [[16, h], [14, ap]])
            for h12 in (1, 11, 12):
                yield case_line('pz.setseq', [[15, h12], [16, h], [14, ap]])
                yield case_line('pz.resolve', 1, [[14, ap], [15, h12], [17, 30]])
        for h2 in (0, 11, 12, 23, h):
            yield case_line('pz.setseq', [[16, h], [16, h2]])


def random_cases(n, rng):
    for _ in range(n):
        r = rng.random()
        real = rand_real(rng)
        off_tz = real.off if rng.random() < 0.8 else rand_off(rng)
        off_local = real.off if rng.random() < 0.8 else rand_off(rng, valid_only=False)
        if r < 0.30:
            # a documented sufficient combination + random extras
            gsel, combo = rng.choice(DATE_COMBOS)
            form = rng.choice(YEAR_FORMS[:5] if gsel == 'y' else ISO_FORMS[:5]) if rng.random() < 0.9 else rng.choice(YEAR_FORMS if gsel == 'y' else ISO_FORMS)
            setters = list(form + combo)
            has_time = rng.random() < 0.7
            if has_time:
                setters += rng.choice(TIME_COMBOS[:6])
            for _ in range(rng.choice([0, 0, 1, 1, 2, 3])):
                setters.append(rng.choice(DATE_SETTERS + TIME_SETTERS + [20, 21, 21]))
            if has_time and rng.random() < 0.4:
                setters.append(21)
            if rng.random() < 0.25:
                setters.append(20)
            rng.shuffle(setters)
            ps = pairs_from(real, setters)
            # corrupt one field with probability 0.4
            if ps and rng.random() < 0.4:
                i = rng.randrange(len(ps))
                k = ps[i][0]
                ps[i] = [k, rand_value(rng, k)] if rng.random() < 0.5 else [k, ps[i][1] + rng.choice([-1, 1])]
                if k in (11, 14):
                    ps[i][1] %= (7 if k == 11 else 2)
                ps[i][1] = max(I64_MIN, min(I64_MAX, ps[i][1]))
            yield emit('pz.resolve', pick_target(rng, has_time), ps, off_local, off_tz)
        elif r < 0.62:
            # random subset, size bias 2-6, each field 1/2 derived else independent
            size = rng.choice([1, 2, 2, 3, 3, 4, 4, 5, 5, 6, 6, 7, 8, 10, 12])
            setters = [rng.randrange(22) for _ in range(size)]
            ps = []
            for k in setters:
                v = real.setter_value(k) if rng.random() < 0.5 else None
                if v is None:
                    v = rand_value(rng, k)
                ps.append([k, v])
            yield emit('pz.resolve', pick_target(rng), ps, off_local, off_tz)
        elif r < 0.74:
            # timestamp path
            setters = [20] + [rng.choice(DATE_SETTERS + TIME_SETTERS + [21]) for _ in range(rng.choice([0, 1, 1, 2, 3, 4]))]
            if rng.random() < 0.3:
                setters += [18]
            ps = pairs_from(real, setters)
            if rng.random() < 0.25:
                i = rng.randrange(len(ps))
                k = ps[i][0]
                ps[i] = [k, rand_value(rng, k)]
                if k in (11, 14):
                    ps[i][1] %= (7 if k == 11 else 2)
            if rng.random() < 0.1:
                ps.append([18, 60])
            rng.shuffle(ps)
            yield emit('pz.resolve', rng.choice([2, 2, 3, 4, 4]), ps, off_local, off_tz)
        elif r < 0.88:
            # direct field writes: derived or typed-but-out-of-range values
            size = rng.choice([2, 3, 4, 5, 6, 7, 9])
            st = [None] * 21
            base = state_from_pairs(pairs_from(real, list(range(22))))
            for _ in range(size):
                f = rng.randrange(21)
                if rng.random() < 0.6 and base[f] is not None:
                    st[f] = base[f]
                else:
                    if f <= 5 or f == 20:
                        st[f] = rng.choice([I32_MIN, I32_MAX, -1, 0, 99, 100, 150, rng.randint(-3000, 3000), rng.randint(I32_MIN, I32_MAX)])
                    elif f == 11:
                        st[f] = rng.randint(0, 6)
                    elif f == 19:
                        st[f] = rng.choice([TS_MIN, TS_MAX, TS_MIN - 1, TS_MAX + 1, I64_MIN, I64_MAX, rng.randint(-4 * 10**9, 4 * 10**9)])
                    else:
                        lo, hi = RANGES[f if f <= 14 else f + 1] if f != 15 else (0, 11)
                        st[f] = rng.choice([0, 1, hi, hi + 1, hi + 2, 2, 12, 24, 60, 61, 10**9, 2 * 10**9, U32_MAX, U32_MAX - 1, 2**31, 2**31 - 1, rng.randint(0, max(hi, 1))])
            if rng.random() < 0.5:
                # make it resolvable more often
                for f in rng.choice([[0, 7, 13], [0, 12], [0, 8, 11], [3, 10, 11], [14, 15, 16], [14, 15, 16, 17], [19]]):
                    if st[f] is None:
                        st[f] = base[f]
            yield emit('pz.raw', pick_target(rng), raw_state(st), off_local, off_tz)
        else:
            # setter sequences with repeats
            fields = [rng.randrange(22) for _ in range(rng.choice([1, 2, 3]))]
            ps = []
            for _ in range(rng.choice([2, 3, 4, 5, 6, 8])):
                k = rng.choice(fields + [14, 15, 16] if rng.random() < 0.3 else fields)
                v = real.setter_value(k) if rng.random() < 0.6 else None
                if v is None:
                    v = rand_value(rng, k)
                ps.append([k, v])
            yield case_line('pz.setseq', ps)


def malformed(rng):
    yield case_line('pz.resolve', 0, [[22, 1]])
    yield case_line('pz.resolve', 0, [[-1, 1]])
    yield case_line('pz.resolve', 0, [[11, 7]])
    yield case_line('pz.resolve', 0, [[14, 2]])
    yield case_line('pz.resolve', 0, [[0, 2**63]])
    yield case_line('pz.resolve', 6, [])
    yield case_line('pz.resolve', 2, [])
    yield case_line('pz.resolve', 0, [], 0)
    yield case_line('pz.resolve', 2, [], 2**31)
    yield case_line('pz.resolve', 4, [], 86400)
    yield case_line('pz.resolve', 4, [[0, 2**31]], 86400)
    yield case_line('pz.setseq', [[0, 1]], 0)
    yield case_line('pz.raw', 0, [None] * 20)
    yield case_line('pz.raw', 0, [None] * 22)
    yield case_line('pz.raw', 0, [('some', 2**31)] + [None] * 20)
    yield case_line('pz.raw', 0, [None] * 6 + [('some', -1)] + [None] * 14)
    yield case_line('pz.raw', 0, [None] * 11 + [('some', 7)] + [None] * 9)


ZONES = [(7200, 3600), (3600, 7200), (0, 3600), (3600, 0), (-18000, -14400), (-14400, -18000), (19800, 20700),
         (34200, 37800), (-3600, 16200), (45900, 49500), (0, 0), (86399, -86399), (-86399, 86399), (1, -1)]
ZONE_TS = [1635642000, 1616893200, 0, -1, 86400 * 365, -2208988800, 4102444800, TS_MIN + 90000, TS_MAX - 90000]


def zone_cases(tier, rng):
    """to_datetime_with_timezone on a zone with one transition: wall clocks before, inside and after the
    repeated / skipped interval, with the offset field naming either candidate, neither, or absent, and
    the timestamp field of either candidate"""
    n = 1 if tier == 'quick' else 6
    for t in ZONE_TS + [rng.randint(-4 * 10**9, 4 * 10**9) for _ in range(6 * n)]:
        for (a, b) in ZONES:
            lo, hi = t + min(a, b), t + max(a, b)
            ws = {lo - 2, lo - 1, lo, lo + 1, (lo + hi) // 2, hi - 1, hi, hi + 1, hi + 3600, lo - 86400}
            ws |= {rng.randint(lo - 5, hi + 5) for _ in range(2 * n)}
            for w in sorted(ws):
                dn = EPOCH_DN + w // 86400
                if not (DN_MIN + 2 <= dn <= DN_MAX - 2):
                    continue
                y, o = yo_of_dn(dn)
                sod = w % 86400
                base = [None] * 21
                base[0], base[12] = y, o
                base[14], base[15], base[16], base[17] = sod // 43200, (sod // 3600) % 12, (sod // 60) % 60, sod % 60
                for off in (None, a, b, a + 1, 0):
                    for ts in (None, w - a, w - b):
                        if ts is not None and rng.random() < 0.5:
                            continue
                        st = list(base)
                        st[20] = off
                        st[19] = ts
                        if rng.random() < 0.2:
                            st[18] = rng.choice([0, 1, 999999999])
                        if rng.random() < 0.1:
                            st[17] = None          # second absent (defaults to 0)
                        if ts is not None and rng.random() < 0.3:
                            st[0] = st[12] = st[14] = st[15] = st[16] = st[17] = None    # timestamp only
                        yield case_line('pz.zone', raw_state(st), t, a, b)
    yield case_line('pz.zone', raw_state([None] * 21), 0, 86400, 0)     # bad zone: BADARGS on both sides
    yield case_line('pz.zone', raw_state([None] * 21), 2**63, 0, 0)


def cases(tier, rng):
    for c in structured(tier, rng):
        yield c
    for c in zone_cases(tier, rng):
        yield c
    for c in malformed(rng):
        yield c
    n = 260000 if tier == 'quick' else 3000000
    for c in random_cases(n, rng):
        yield c
