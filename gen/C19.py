"""C19 case generator: all 7 weekdays, 12 months, 128 weekday sets and all pairs of sets exhaustively;
integers of every accepted source type on a lattice that contains every value aliasing a valid number
under a narrowing cast (n = k + m * 2^8/16/32/64); names in every ASCII case pattern, their prefixes,
extensions, single-byte mutations, Unicode look-alikes, plus a malformed (non UTF-8) stream; iterator
schedules of next/next_back from every start day."""
import itertools

from vcheck import case_line
from common import *

RULE = ('exhaustive: 7 weekdays, 12 months, 256 u8 values, 128 sets x 7 days, 128^2 set pairs x 5 binary ops, '
        '128 sets x 7 starts x schedules (quick: all of length <= 3 + drain both ways + random; thorough: all of '
        'length <= 8); integers: lattice of type extremes, -2..14, 2^k +- small and all aliases k + m*2^bits of '
        'valid numbers, plus seeded random; strings: every case mask of every short/long name, prefixes, '
        'extensions, all single-byte substitutions in the first three bytes, look-alikes, random, malformed UTF-8')

WD_LONG = ['Monday', 'Tuesday', 'Wednesday', 'Thursday', 'Friday', 'Saturday', 'Sunday']
MO_LONG = ['January', 'February', 'March', 'April', 'May', 'June', 'July', 'August', 'September', 'October',
           'November', 'December']

INT_TYPES = {
    'i8': (-2**7, 2**7 - 1), 'u8': (0, 2**8 - 1), 'i16': (-2**15, 2**15 - 1), 'u16': (0, 2**16 - 1),
    'i32': (I32_MIN, I32_MAX), 'u32': (0, U32_MAX), 'i64': (I64_MIN, I64_MAX), 'u64': (0, U64_MAX),
    'isize': (I64_MIN, I64_MAX), 'usize': (0, U64_MAX), 'i128': (-2**127, 2**127 - 1), 'u128': (0, 2**127 - 1),
}


def int_lattice():
    base = list(range(-3, 16))
    for b in (7, 8, 15, 16, 31, 32, 33, 63, 64, 65, 126, 127):
        for k in range(-3, 15):
            base.append(2**b + k)
            base.append(-2**b + k)
    for m in (2, 3, 255, 256, 65535):
        for bits in (8, 16, 32, 64):
            for k in range(0, 14):
                base.append(k + m * 2**bits)
                base.append(k - m * 2**bits)
    for lo, hi in INT_TYPES.values():
        for d in range(-2, 3):
            base.append(lo + d)
            base.append(hi + d)
    return sorted(set(base))


def rand_int(rng, lo, hi):
    k = rng.random()
    if k < 0.25:
        v = rng.randint(-2, 14)
    elif k < 0.7:
        # an alias of a small number under a narrowing cast
        v = rng.randint(0, 13) + rng.choice([1, -1]) * rng.randint(0, 2**rng.choice([1, 8, 31, 32, 33, 64])) * 2**rng.choice([8, 16, 32, 64])
    else:
        v = rng.randint(lo, hi)
    return min(max(v, lo), hi)


def case_masks(name, limit=None):
    n = len(name)
    masks = range(2**n) if limit is None or 2**n <= limit else None
    if masks is None:
        return None
    out = []
    for m in masks:
        out.append(''.join(c.upper() if m >> i & 1 else c.lower() for i, c in enumerate(name)))
    return out


def name_strings(longs, rng, tier):
    out = []
    seen = set()

    def add(b):
        if isinstance(b, str):
            b = b.encode('utf-8')
        if b not in seen:
            seen.add(b)
            out.append(b)

    for nm in longs:
        short = nm[:3]
        for s in case_masks(short):
            add(s)
        cm = case_masks(nm, 512 if tier == 'quick' else 4096)
        if cm is None:
            cm = [''.join(c.upper() if rng.random() < 0.5 else c.lower() for c in nm) for _ in range(200)]
        for s in cm:
            add(s)
        for v in (nm, nm.lower(), nm.upper(), short, short.lower(), short.upper()):
            # prefixes, extensions, surroundings
            for k in range(len(v) + 1):
                add(v[:k])
                add(v[k:])
            for extra in (' ', 's', 'x', '.', ',', '\0', '\n', 'day', 'y', 'e', 'â', '́', '1'):
                add(v + extra)
                add(extra + v)
            add(v + v)
            for k in range(len(v)):
                add(v[:k] + v[k + 1:])           # one letter dropped
                add(v[:k] + v[k] + v[k:])        # one letter doubled
        # every byte value in each of the first three positions, and in the last position
        for base in (short.lower(), nm.lower()):
            bb = base.encode()
            for pos in sorted(set([0, 1, 2, len(bb) - 1, 3 if len(bb) > 3 else 0])):
                for x in range(256):
                    add(bb[:pos] + bytes([x]) + bb[pos + 1:])
        # cross products: short name of one, long suffix of another
        for other in longs:
            add(short + other[3:])
            add(other[:3] + nm[3:].upper())
    # Unicode look-alikes and case-folding traps
    for s in ('ſun', 'ſat', 'ſaturday', 'Sundaу', 'ＭON', 'mоn', 'Mon​', '​Mon',
              'Juł', 'Juli', 'juṅ', 'Ĵan', 'jаn', 'MAʀ', 'Deč', 'Kan', 'fri̇',
              'TÜe', 'tué', 'Wed ', 'thü', 'Åpr', 'Març', 'oсt', 'Noν', 'Maÿ'):
        add(s)
    for s in ('', ' ', 'm', 'mo', 'thurs', 'septem', 'Augustin', 'any day', 'sept', 'tues', 'weds', 'thur', 'mon day',
              'monday ', ' monday', 'mon\t', '0', '1', 'jan1', 'Jänner', 'mai', 'maybe', 'ma', 'marc', 'juneau',
              'julyy', 'jul', 'june', 'ju', 'decembe', 'novembre', 'february\0'):
        add(s)
    return out


def rand_name_string(rng, longs):
    k = rng.random()
    nm = rng.choice(longs)
    if k < 0.35:
        s = nm if rng.random() < 0.5 else nm[:3]
        s = ''.join(c.upper() if rng.random() < 0.5 else c.lower() for c in s)
        return s.encode()
    if k < 0.6:
        s = nm[:rng.randint(0, len(nm))] + rng.choice(longs)[rng.randint(0, 4):]
        return ''.join(c.upper() if rng.random() < 0.3 else c.lower() for c in s).encode()
    if k < 0.85:
        b = bytearray((nm if rng.random() < 0.6 else nm[:3]).encode())
        for _ in range(rng.randint(1, 2)):
            op = rng.random()
            pos = rng.randint(0, len(b))
            if op < 0.4 and pos < len(b):
                b[pos] = rng.choice([b[pos] ^ 32, b[pos] | 32, b[pos] & ~32 & 255, b[pos] ^ 64, b[pos] ^ 128, rng.randint(0, 127)])
            elif op < 0.7:
                b.insert(pos, rng.choice(b'aeiounrstdy. \x00') if rng.random() < 0.8 else rng.randint(0, 127))
            elif pos < len(b):
                del b[pos]
        return bytes(b)
    alphabet = 'abdefhijlmnoprstuvwyADFJMNOSTW '
    return ''.join(rng.choice(alphabet) for _ in range(rng.randint(0, 10))).encode()


MALFORMED = [b'\xff', b'mon\xff', b'\xc0\xafmon', b'ma\xe2\x28\xa1', b'\xed\xa0\x80', b'jan\xf4\x90\x80\x80', b'\x80mon',
             b'mo\xc3', b'sat\xe2\x82', b'\xf0\x9f\x98', b'mon\xc3\x28', b'\xe0\x80\x80', b'su\xee']


def schedules(maxlen):
    for n in range(maxlen + 1):
        for t in itertools.product('fb', repeat=n):
            yield ''.join(t)


def cases(tier, rng):
    thorough = tier != 'quick'
    W = list(range(7))
    M = list(range(1, 13))
    # ---- Weekday / Month: finite parts, exhaustively (plus out-of-domain codes for the BADARGS path)
    for w in W + [-1, 7, 8, 255]:
        for op in ('wd.succ', 'wd.pred', 'wd.nfm', 'wd.nfs', 'wd.ndfm', 'wd.ndfs', 'wd.disp', 'ws.single'):
            yield case_line(op, w)
    for a in W + [7]:
        for b in W + [-1]:
            yield case_line('wd.since', a, b)
    for m in M + [0, 13, -1, 255]:
        for op in ('mo.succ', 'mo.pred', 'mo.num', 'mo.name'):
            yield case_line(op, m)
    for a in M + [0]:
        for b in M + [13]:
            yield case_line('mo.cmp', a, b)
    for n in range(-1, 258):
        yield case_line('wd.try', n)
        yield case_line('mo.try', n)
    # ---- numeric conversions
    lat = int_lattice()
    for ty, (lo, hi) in INT_TYPES.items():
        for n in lat:
            if max(lo - 1, -2**127) <= n <= min(hi + 1, 2**127 - 1):
                yield case_line('wd.f' + ty, n)
                yield case_line('mo.f' + ty, n)
    nrand = 1500 if not thorough else 60000
    for ty, (lo, hi) in INT_TYPES.items():
        for _ in range(nrand):
            n = rand_int(rng, lo, hi)
            yield case_line('wd.f' + ty, n)
            yield case_line('mo.f' + ty, n)
    # ---- text
    for s in name_strings(WD_LONG, rng, tier):
        yield case_line('wd.parse', s)
    for s in name_strings(MO_LONG, rng, tier):
        yield case_line('mo.parse', s)
    # each parser also sees the other family's names
    for nm in MO_LONG:
        yield case_line('wd.parse', nm.encode())
        yield case_line('wd.parse', nm[:3].encode())
    for nm in WD_LONG:
        yield case_line('mo.parse', nm.encode())
        yield case_line('mo.parse', nm[:3].encode())
    for s in MALFORMED:
        yield case_line('wd.parse', s)
        yield case_line('mo.parse', s)
    for _ in range(6000 if not thorough else 300000):
        yield case_line('wd.parse', rand_name_string(rng, WD_LONG))
        yield case_line('mo.parse', rand_name_string(rng, MO_LONG))
    # ---- WeekdaySet
    yield case_line('ws.consts')
    S = list(range(128))
    for s in S + [-1, 128, 255]:
        for op in ('ws.single_day', 'ws.first', 'ws.last', 'ws.empty', 'ws.len', 'ws.disp'):
            yield case_line(op, s)
        for w in W + ([7] if s in (0, 127, 128) else []):
            for op in ('ws.insert', 'ws.remove', 'ws.contains'):
                yield case_line(op, s, w)
    for a in S:
        for b in S:
            for op in ('ws.subset', 'ws.inter', 'ws.union', 'ws.symdiff', 'ws.diff'):
                yield case_line(op, a, b)
    yield case_line('ws.union', 128, 1)
    yield case_line('ws.subset', 1, -1)
    # arrays / iterators of weekdays (with repetitions, any order)
    for l in ([], [0], [6], [0, 0], [6, 0], [0, 1, 2, 3, 4, 5, 6], [6, 5, 4, 3, 2, 1, 0], [3, 3, 3, 3, 3, 3, 3, 3, 3],
              [0, 7], [1, -1]):
        yield case_line('ws.fromarr', l)
        yield case_line('ws.collect', l)
    for s in S:
        l = [i for i in W if s >> i & 1]
        yield case_line('ws.fromarr', l)
        yield case_line('ws.collect', l[::-1])
    for _ in range(2000 if not thorough else 50000):
        l = [rng.randint(0, 6) for _ in range(rng.randint(0, 14))]
        yield case_line('ws.fromarr', l)
        yield case_line('ws.collect', l)
    # iteration: schedules of next ('f') / next_back ('b')
    fixed = list(schedules(3 if not thorough else 8)) + ['f' * 9, 'b' * 9, 'fb' * 5, 'bf' * 5, 'ffffbbbb', 'bbbbffff']
    for s in S:
        for start in W:
            for sc in fixed:
                yield case_line('ws.iter', s, start, sc.encode())
            for _ in range(12 if not thorough else 40):
                sc = ''.join(rng.choice('fb') for _ in range(rng.randint(4, 10)))
                yield case_line('ws.iter', s, start, sc.encode())
    for s in S:
        for start in W:
            for k in (0, 1, 2, 3, 6, 7, 9):
                yield case_line('ws.adapt', s, start, k)
    yield case_line('ws.adapt', 127, 0, 10)
    yield case_line('ws.iter', 127, 0, b'fxb')
    yield case_line('ws.iter', 128, 0, b'f')
    yield case_line('ws.iter', 1, 7, b'f')
