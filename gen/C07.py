"""C07 case generator: times of day as (secs, frac) with the leap representation on any second,
durations around every boundary of the leap rules, every op of the NaiveTime arithmetic API."""
from vcheck import case_line
from common import *

RULE = ('structured lattice: secs {0,1,58,59,60,3599,3600,43199,43200,86340,86398,86399} x frac '
        '{0,1,10^9-1,10^9,10^9+1,1.5*10^9,2*10^9-1} x durations {0,+-1ns,+-(10^9-frac)+-1,+-(2*10^9-frac)+-1,'
        '+-0.5s,+-1s,+-59/60/61s,+-86399/86400/86401s,+-172800s,TimeDelta MIN/MAX}; all pairs of lattice times for '
        'differences; constructor/field arguments {0..61, 10^9+-1, 2*10^9+-1, u32::MAX}; core Durations incl. '
        'multiples of 86400/172800 and u64::MAX; NaiveDate::and_hms* on dates {range ends, leap day, year ends, epoch, non-existent}; offsets {0,+-1,+-3599,+-3600,+-86399}; plus seeded random draws; '
        'thorough: all 86400 seconds x 7 fracs, each with 6 of 40 fixed durations in rotation (every duration meets every second-of-minute and every frac), add and sub alternating; date-times (range ends, leap years) x leap/non-leap times for ndt.add/ndt.sub')

MAXS, MAXN = 9223372036854775, 807000000
MINS, MINN = -9223372036854776, 193000000

SECS = [0, 1, 58, 59, 60, 3599, 3600, 43199, 43200, 86340, 86398, 86399]
FRACS = [0, 1, G - 1, G, G + 1, 3 * G // 2, 2 * G - 1]


def td_of_ns(n):
    return [n // G, n % G]


def dur_lattice(frac):
    """nanosecond counts around every boundary of the leap rules for a time with this frac"""
    base = [0, 1, G - frac, 2 * G - frac, frac, frac - G, G // 2, G, 2 * G, 59 * G, 60 * G, 61 * G,
            86399 * G, 86400 * G, 86401 * G, 172800 * G, 43200 * G, 3600 * G, G - 1, G + 1,
            86400 * G - frac, 86400 * G + G - frac, 86400 * G + 2 * G - frac]
    out = []
    seen = set()
    for b in base:
        for sign in (1, -1):
            for e in (-1, 0, 1):
                v = sign * b + e
                if v not in seen:
                    seen.add(v)
                    out.append(v)
    return out


DUR40 = None


def dur40():
    """the fixed 40 durations of the thorough sweep"""
    global DUR40
    if DUR40 is None:
        ns = [0, 1, -1, G // 2, -G // 2, G - 1, -(G - 1), G, -G, G + 1, -G - 1, 3 * G // 2, -3 * G // 2, 2 * G - 1,
              -(2 * G - 1), 2 * G, -2 * G, 59 * G, -59 * G, 60 * G, -60 * G, 61 * G, -61 * G, 86399 * G, -86399 * G,
              86400 * G, -86400 * G, 86401 * G, -86401 * G, 86400 * G - G // 2, -(86400 * G - G // 2),
              172800 * G, -172800 * G, 43200 * G + 7, -43200 * G - 7, 999999999999, -999999999999]
        DUR40 = [td_of_ns(n) for n in ns] + [[MAXS, MAXN], [MINS, MINN], [MAXS // 86400 * 86400, 0]]
    return DUR40


def rand_time(rng):
    k = rng.random()
    if k < 0.3:
        s = rng.choice(SECS)
    elif k < 0.5:
        s = rng.randint(0, 1439) * 60 + 59
    else:
        s = rng.randint(0, 86399)
    k = rng.random()
    if k < 0.35:
        f = rng.choice(FRACS)
    elif k < 0.7:
        f = rng.randint(0, G - 1)
    else:
        f = rng.randint(G, 2 * G - 1)
    return [s, f]


def rand_dur(rng, frac):
    k = rng.random()
    if k < 0.25:
        return td_of_ns(rng.choice(dur_lattice(frac)))
    if k < 0.5:
        return td_of_ns(rng.randint(-3 * G, 3 * G))
    if k < 0.75:
        return td_of_ns(rng.randint(-200000 * G, 200000 * G))
    if k < 0.8:
        return td_of_ns(rng.randint(-3, 3) * 86400 * G + rng.randint(-2, 2))
    if k < 0.97:
        s = rng.randint(MINS + 1, MAXS - 1)
        return [s, rng.choice([0, 1, G - 1, rng.randint(0, G - 1)])]
    return rng.choice([[MAXS, MAXN], [MINS, MINN], [MAXS, 0], [MINS + 1, 0]])


STD_SECS = [0, 1, 2, 59, 60, 61, 86399, 86400, 86401, 172799, 172800, 172801, 259200, 345600, 345601, 2 * 172800 + 86399,
            MAXS, MAXS + 1, 2**63 - 1, 2**63, U64_MAX, U64_MAX - 1, U64_MAX // 172800 * 172800, U64_MAX // 86400 * 86400]
OFFS = [0, 1, -1, 59, -59, 60, -60, 3599, -3599, 3600, -3600, 43200, -43200, 86398, -86398, 86399, -86399, 13236, -13236]
FIELD = list(range(0, 62)) + [G - 1, G, G + 1, 2 * G - 1, 2 * G, 2 * G + 1, U32_MAX, U32_MAX - 1, 2**31 - 1, 2**31]


# dates for NaiveDate::and_hms*: range ends, a leap day, year ends, the epoch, and two that do not exist
PDATES = [[-262143, 1], [262142, 365], [2024, 60], [2023, 365], [1970, 1], [0, 366], [2024, 366], [2023, 366], [262143, 1]]


def cases(tier, rng):
    times = [[s, f] for s in SECS for f in FRACS]
    # ---- constructors
    hs = [0, 1, 11, 12, 23, 24, 25, U32_MAX]
    ms = [0, 1, 58, 59, 60, 61, U32_MAX]
    ss = [0, 1, 58, 59, 60, 61, U32_MAX]
    for h in hs:
        for m in ms:
            for s in ss:
                yield case_line('t.hms', h, m, s)
                yield case_line('t.phms', h, m, s)
                yield case_line('ndt.phms', PDATES[(h + m + s) % len(PDATES)], h, m, s)
    subs = {
        't.hms_milli': [0, 1, 999, 1000, 1001, 1999, 2000, 2001, 4294, 4295, U32_MAX, 2147, 2148],
        't.hms_micro': [0, 1, 999999, 1000000, 1000001, 1999999, 2000000, 2000001, 4294967, 4294968, U32_MAX],
        't.hms_nano': [0, 1, G - 1, G, G + 1, 2 * G - 1, 2 * G, 2 * G + 1, U32_MAX, 2**31 - 1, 2**31],
    }
    for op, xs in subs.items():
        for h in (0, 23, 24):
            for m in (0, 59, 60):
                for s in (0, 58, 59, 60):
                    for x in xs:
                        yield case_line(op, h, m, s, x)
                        yield case_line(op.replace('t.hms', 't.phms'), h, m, s, x)
                        yield case_line(op.replace('t.hms', 'ndt.phms'), PDATES[(h + m + s + x) % len(PDATES)], h, m, s, x)
    for s in around([0, 59, 60, 119, 3599, 3600, 86339, 86399, 86400, 86459, U32_MAX], lo=0, hi=U32_MAX):
        for n in [0, 1, G - 1, G, G + 1, 2 * G - 1, 2 * G, 2 * G + 1, U32_MAX]:
            yield case_line('t.nsfm', s, n)
            yield case_line('t.pnsfm', s, n)
    # ---- accessors and replacement
    for t in times:
        yield case_line('t.acc', t)
        for v in FIELD:
            for op in ('t.with_hour', 't.with_minute', 't.with_second', 't.with_nano'):
                yield case_line(op, t, v)
    for h in range(24):
        yield case_line('t.acc', [h * 3600 + 1234 % 3600, 5])
        yield case_line('ndt.tacc', [2024, 60, h * 3600 + 1234 % 3600, 5])
    # the same through impl Timelike for NaiveDateTime (dates: range ends, a leap day, year ends)
    ndates = [[-262143, 1], [262142, 365], [2024, 60], [2023, 365], [1970, 1], [0, 366]]
    for i, t in enumerate(times):
        d = ndates[i % len(ndates)]
        yield case_line('ndt.tacc', d + t)
        for v in FIELD[::2] + FIELD[-1:]:
            for which in range(4):
                yield case_line('ndt.twith', which, d + t, v)
    # ---- addition / subtraction of durations
    for t in times:
        durs = [td_of_ns(n) for n in dur_lattice(t[1])] + [[MAXS, MAXN], [MINS, MINN], [MAXS, 0], [MINS + 1, 0],
                                                           [MAXS // 86400 * 86400, 0], [-(MAXS // 86400 * 86400), 0]]
        for d in durs:
            yield case_line('t.add', t, d)
            yield case_line('t.sub', t, d)
        for d in durs[::3]:
            for op in ('t.opadd', 't.opsub', 't.opadd_assign', 't.opsub_assign'):
                yield case_line(op, t, d)
    # ---- differences: all pairs
    for a in times:
        for b in times:
            yield case_line('t.diff', a, b)
    for a in times[::2]:
        for b in times[::3]:
            yield case_line('t.opdiff', a, b)
    # ---- core::time::Duration
    for t in times:
        for ds in STD_SECS:
            for dn in (0, 1, G - 1, G // 2, max(0, 2 * G - t[1] - 1) % G, (2 * G - t[1]) % G):
                yield case_line('t.addstd', t, ds, dn)
                yield case_line('t.substd', t, ds, dn)
    for t in times[::5]:
        for ds in STD_SECS[::2]:
            yield case_line('t.addstd_assign', t, ds, 0)
            yield case_line('t.substd_assign', t, ds, 1)
    # ---- offsets
    for t in times:
        for o in OFFS:
            for op in ('t.addoff', 't.suboff', 't.addoffd', 't.suboffd'):
                yield case_line(op, t, o)
    # ---- date-times with (and without) a leap operand: the carry goes to the date
    dates = [[2015, 181], [2016, 366], [2016, 1], [2015, 365], [2015, 1], [1970, 1], [0, 1], [-1, 365],
             [262142, 365], [262142, 364], [-262143, 1], [-262143, 2], [2000, 60], [1900, 59]]
    ntimes = [[s, f] for s in (0, 59, 3599, 43200, 86340, 86398, 86399) for f in (0, G - 1, G, 3 * G // 2, 2 * G - 1)]
    for dt in dates:
        for t in ntimes:
            durs = [td_of_ns(n) for n in dur_lattice(t[1])[::2]] + [[MAXS, MAXN], [MINS, MINN]]
            for d in durs:
                yield case_line('ndt.add', dt + t, d)
                yield case_line('ndt.sub', dt + t, d)
            for d in durs[::7]:
                yield case_line('ndt.opadd', dt + t, d)
                yield case_line('ndt.opsub', dt + t, d)
    # ---- the same with a core::time::Duration (whole days, days + a rest, beyond the largest TimeDelta)
    stds = [(0, 0), (0, 1), (0, G - 1), (1, 0), (59, 0), (60, 0), (86399, 0), (86399, G - 1), (86400, 0), (86400, 1),
            (86400, G // 2), (86401, 0), (2 * 86400, 0), (3 * 86400, 700000000), (366 * 86400, 0), (146097 * 86400, 0),
            (MAXS, MAXN), (MAXS, MAXN + 1), (MAXS + 1, 0), (2**63, 0), (2**64 - 1, G - 1)]
    for dt in dates:
        for t in ntimes[::2] + [[86399, G + 300000000], [11160, G + 300000000]]:
            for (ds, dn) in stds:
                yield case_line('ndt.addstd', dt + t, ds, dn)
                yield case_line('ndt.substd', dt + t, ds, dn)
            for (ds, dn) in stds[::4]:
                yield case_line('ndt.addstd_assign', dt + t, ds, dn)
                yield case_line('ndt.substd_assign', dt + t, ds, dn)
    yield case_line('ndt.addstd', [2016, 366, 11160, G + 300000000], 86400, 0)
    # invalid arguments (must be BADARGS on both sides)
    yield case_line('t.add', [86400, 0], [0, 0])
    yield case_line('t.add', [0, 2 * G], [0, 0])
    yield case_line('t.add', [0, 0], [0, G])
    yield case_line('t.addoff', [0, 0], 86400)
    yield case_line('t.addstd', [0, 0], 0, G)
    # ---- random
    n = 60000 if tier == 'quick' else 1200000
    for _ in range(n):
        r = rng.random()
        t = rand_time(rng)
        if r < 0.08:
            y = rng.choice([rng.randint(-262143, 262142), rng.randint(1900, 2100), 262142, -262143])
            o = rng.choice([1, 2, 59, 60, 365, rng.randint(1, 365)])
            k = rng.random()
            d = rand_dur(rng, t[1]) if k < 0.7 else td_of_ns(rng.randint(-2, 2) * 86400 * G * rng.choice([1, 365, 146097]) + rng.randint(-3 * G, 3 * G))
            yield case_line(rng.choice(['ndt.add', 'ndt.sub', 'ndt.add', 'ndt.sub', 'ndt.opadd', 'ndt.opsub']), [y, o] + t, d)
        elif r < 0.4:
            yield case_line(rng.choice(['t.add', 't.sub', 't.add', 't.sub', 't.opadd', 't.opsub']), t, rand_dur(rng, t[1]))
        elif r < 0.6:
            u = rand_time(rng)
            if rng.random() < 0.3:
                u = [t[0], u[1]]
            yield case_line(rng.choice(['t.diff', 't.diff', 't.opdiff']), t, u)
        elif r < 0.72:
            k = rng.random()
            ds = rng.choice(STD_SECS) if k < 0.3 else (rng.randint(0, 400000) if k < 0.7 else rng.randint(0, U64_MAX))
            if rng.random() < 0.2:
                ds = ds // 86400 * 86400
            dn = rng.choice([0, 0, 1, G - 1, rng.randint(0, G - 1)])
            yield case_line(rng.choice(['t.addstd', 't.substd']), t, ds, dn)
        elif r < 0.8:
            yield case_line(rng.choice(['t.addoff', 't.suboff', 't.addoffd', 't.suboffd']), t, rng.randint(-86399, 86399))
        elif r < 0.88:
            op = rng.choice(['t.with_hour', 't.with_minute', 't.with_second', 't.with_nano'])
            v = rng.choice([rng.randint(0, 70), rng.randint(0, 70), rng.randint(0, 2 * G + 10), rng.randint(0, U32_MAX)])
            yield case_line(op, t, v)
        elif r < 0.9:
            yield case_line('t.acc', t)
        elif r < 0.92:
            d = rng.choice([[-262143, 1], [262142, 365], [2024, 60], [rng.randint(-262143, 262142), rng.randint(1, 365)]])
            if rng.random() < 0.3:
                yield case_line('ndt.tacc', d + t)
            else:
                v = rng.choice([rng.randint(0, 70), rng.randint(0, 70), rng.randint(0, 2 * G + 10), rng.randint(0, U32_MAX)])
                yield case_line('ndt.twith', rng.randint(0, 3), d + t, v)
        elif r < 0.96:
            op = rng.choice(['t.hms_milli', 't.hms_micro', 't.hms_nano'])
            scale = {'t.hms_milli': 10**6, 't.hms_micro': 10**3, 't.hms_nano': 1}[op]
            x = rng.choice([rng.randint(0, 2 * G // scale + 3), rng.randint(0, G // scale), rng.randint(0, U32_MAX)])
            yield case_line(op, rng.randint(0, 25), rng.randint(0, 62), rng.choice([59, 59, rng.randint(0, 62)]), x)
        elif r < 0.98:
            yield case_line('t.hms', rng.randint(0, 25), rng.randint(0, 62), rng.randint(0, 62))
        else:
            yield case_line('t.nsfm', rng.choice([rng.randint(0, 86500), rng.randint(0, 1440) * 60 + 59]),
                            rng.choice([rng.randint(0, 2 * G + 5), rng.randint(G, 2 * G - 1), rng.randint(0, U32_MAX)]))
    if tier == 'thorough':
        d40 = dur40()
        for s in range(86400):
            for f in FRACS:
                t = [s, f]
                i0 = (s * 7 + FRACS.index(f)) * 6
                for j in range(6):
                    d = d40[(i0 + j) % 40]
                    yield case_line('t.add' if (s + j) % 2 == 0 else 't.sub', t, d)
