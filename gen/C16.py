"""C16 case generator: TZif files (every system zoneinfo file, a model-driven conforming writer,
structured mutations, random bytes), POSIX TZ strings (grammar + mutations) and lookups on the
resulting zones (extreme i64 instants, wall times around every transition)."""
import calendar
import glob
import os
import struct

from vcheck import case_line
from common import *

RULE = ('every distinct TZif file under /usr/share/zoneinfo (incl. right/ with leap records); model-driven '
        'conforming writer (v1/v2/v3, 0-40 transitions, footer on/off, leap records with and without footer, indicator arrays, times at the i32/i64 ends); '
        'structured mutations (each header count +-1/x2/extremes in both headers, truncation at and around every '
        'block boundary, index bytes, isdst/indicator bytes, version bytes incl. mismatched second header, unsorted '
        'times, footer edits); random bytes with and without a valid header; TZ strings from the POSIX grammar '
        '(+ RFC 8536 extension) with per-production mutations; lookups batched per zone: i64 extremes, +-2 s around '
        'every transition instant and wall time, rule boundaries of sampled years, year-range ends; raw blocks with '
        'utoff = -2^31 (and +-1) on named / empty-designation / unused types in either block of v1-v3 files, designation '
        'tables without final NUL with an index into the unterminated tail')

ZONEINFO = '/usr/share/zoneinfo'
NAMECH = 'ABCDEFGHIJKLMNOPQRSTUVWXYZabcdefghijklmnopqrstuvwxyz0123456789+-'


# ------------------------------------------------------------------ calendar helpers (generator side)
def days_from_civil(y, m, d):
    y -= m <= 2
    era = (y if y >= 0 else y - 399) // 400
    yoe = y - era * 400
    doy = (153 * (m + (-3 if m > 2 else 9)) + 2) // 5 + d - 1
    doe = yoe * 365 + yoe // 4 - yoe // 100 + doy
    return era * 146097 + doe - 719468


def is_leap(y):
    return y % 4 == 0 and (y % 100 != 0 or y % 400 == 0)


def rule_day(day, y):
    """days since epoch of a rule date ('J', n) / ('N', n) / ('M', m, w, d) in year y"""
    jan1 = days_from_civil(y, 1, 1)
    if day[0] == 'J':
        n = day[1]
        return jan1 + n - 1 + (1 if is_leap(y) and n >= 60 else 0)
    if day[0] == 'N':
        return jan1 + day[1]
    _, m, w, d = day
    first = days_from_civil(y, m, 1)
    wd_first = (first + 4) % 7          # 1970-01-01 was a Thursday; Sunday = 0
    occ = first + (d - wd_first) % 7 + 7 * (w - 1)
    dim = calendar.monthrange(2000 if is_leap(y) else 2001, m)[1]
    if occ - first + 1 > dim:
        occ -= 7
    return occ


def year_of(t):
    d = t // 86400
    # civil_from_days
    z = d + 719468
    era = (z if z >= 0 else z - 146096) // 146097
    doe = z - era * 146097
    yoe = (doe - doe // 1460 + doe // 36524 - doe // 146096) // 365
    y = yoe + era * 400
    doy = doe - (365 * yoe + yoe // 4 - yoe // 100)
    mp = (5 * doy + 2) // 153
    m = mp + (3 if mp < 10 else -9)
    return y + (m <= 2)


def yo_of_days(d):
    y = year_of(d * 86400)
    return y, d - days_from_civil(y, 1, 1) + 1


def ndt_of_local(t):
    """canonical naive date-time of a local timestamp, or None outside chrono's range"""
    d, s = divmod(t, 86400)
    y, o = yo_of_days(d)
    if not (-262143 <= y <= 262142):
        return None
    return [y, o, s, 0]


class Rule:
    def __init__(self, std, dst=None, sd=None, st=7200, ed=None, et=7200):
        self.std, self.dst, self.sd, self.st, self.ed, self.et = std, dst, sd, st, ed, et

    def switches(self, y):
        s = rule_day(self.sd, y) * 86400 + self.st - self.std[0]
        e = rule_day(self.ed, y) * 86400 + self.et - self.dst[0]
        return s, e

    def type_at(self, t):
        if self.dst is None:
            return self.std
        y = year_of(t)
        ev = []
        for yy in (y - 1, y, y + 1):
            s, e = self.switches(yy)
            ev += [(s, 1), (e, 0)]
        ev.sort()
        cur = None
        for tt, k in ev:
            if tt <= t:
                cur = k
        if cur is None:
            cur = 0
        return self.dst if cur else self.std


def fmt_name(n):
    return n if n.isalpha() else '<' + n + '>'


def fmt_hms(v, full=False, signed=True):
    s = ''
    if v < 0:
        s, v = '-', -v
    h, m, sec = v // 3600, v // 60 % 60, v % 60
    if sec or full:
        return '%s%d:%02d:%02d' % (s, h, m, sec)
    if m:
        return '%s%d:%02d' % (s, h, m)
    return '%s%d' % (s, h)


def fmt_day(d):
    if d[0] == 'J':
        return 'J%d' % d[1]
    if d[0] == 'N':
        return '%d' % d[1]
    return 'M%d.%d.%d' % d[1:]


def fmt_rule(r, full=False):
    s = fmt_name(r.std[2]) + fmt_hms(-r.std[0], full)
    if r.dst is None:
        return s
    s += fmt_name(r.dst[2])
    if full or r.dst[0] != r.std[0] + 3600:
        s += fmt_hms(-r.dst[0], full)
    s += ',' + fmt_day(r.sd)
    if full or r.st != 7200:
        s += '/' + fmt_hms(r.st, full)
    s += ',' + fmt_day(r.ed)
    if full or r.et != 7200:
        s += '/' + fmt_hms(r.et, full)
    return s


def rand_name(rng, lo=3, hi=6):
    n = rng.randint(lo, hi)
    if rng.random() < 0.7:
        return ''.join(rng.choice(NAMECH[:52]) for _ in range(n))
    return ''.join(rng.choice(NAMECH) for _ in range(n))


def rand_off(rng):
    k = rng.random()
    if k < 0.5:
        return rng.randint(-12, 14) * 3600
    if k < 0.8:
        return rng.randint(-24 * 4, 24 * 4) * 900
    return rng.randint(-89999, 89999)


def rand_day(rng):
    k = rng.random()
    if k < 0.6:
        return ('M', rng.randint(1, 12), rng.randint(1, 5), rng.randint(0, 6))
    if k < 0.8:
        return ('J', rng.choice([1, 59, 60, 61, 365, rng.randint(1, 365)]))
    return ('N', rng.choice([0, 58, 59, 60, 364, 365, rng.randint(0, 365)]))


def rand_rule(rng, ext=False, tame=False):
    std = (rand_off(rng), 0, rand_name(rng))
    if rng.random() < 0.25:
        return Rule(std)
    k = rng.random()
    if k < 0.6:
        doff = std[0] + 3600
    elif k < 0.8:
        doff = std[0] - 3600          # negative DST
    elif k < 0.9:
        doff = std[0]
    else:
        doff = rand_off(rng)
    doff = max(-89999, min(89999, doff))
    dst = (doff, 1, rand_name(rng))
    if tame:
        a, b = sorted(rng.sample(range(2, 12), 2))
        sd, ed = ('M', a, rng.randint(1, 4), rng.randint(0, 6)), ('M', b, rng.randint(1, 4), rng.randint(0, 6))
        if rng.random() < 0.5:
            sd, ed = ed, sd
    else:
        sd, ed = rand_day(rng), rand_day(rng)

    def tm():
        if ext and rng.random() < 0.5:
            return rng.choice([-604799, 604799, -3600, -7200, 90000, rng.randint(-604799, 604799)])
        return rng.choice([0, 3600, 7200, 10800, 86400, 86399, rng.randint(0, 86400)])
    return Rule(std, dst, sd, tm(), ed, tm())


# ------------------------------------------------------------------ TZif writer (generator side)
class Zone:
    def __init__(self):
        self.trans = []      # (time, type index)
        self.types = []      # (off, isdst, name)
        self.leaps = []      # (time, corr)
        self.footer = None   # text or None (v2+: '' = empty footer)
        self.isstd = None
        self.isut = None
        self.rule = None


def block(ver, tsz, z, trans):
    names = []
    table = b''
    idx = {}
    for (_, _, n) in z.types:
        if n not in idx:
            idx[n] = len(table)
            table += n.encode('latin-1') + b'\0'
    isstd = z.isstd if z.isstd is not None else []
    isut = z.isut if z.isut is not None else []
    f = '>l' if tsz == 4 else '>q'
    leaps = z.leaps if tsz == 8 else [l for l in z.leaps if -2**31 <= l[0] < 2**31]
    out = b'TZif' + ver + b'\0' * 15
    out += struct.pack('>6L', len(isut), len(isstd), len(leaps), len(trans), len(z.types), len(table))
    parts = [b''.join(struct.pack(f, t) for t, _ in trans), bytes(i for _, i in trans),
             b''.join(struct.pack('>lBB', o, d, idx[n]) for (o, d, n) in z.types), table,
             b''.join(struct.pack(f, t) + struct.pack('>l', c) for t, c in leaps), bytes(isstd), bytes(isut)]
    return out + b''.join(parts), [len(out)] + [len(p) for p in parts]


def write_tzif(z, version, slim=False):
    """returns (bytes, list of block boundary offsets)"""
    ver = {1: b'\0', 2: b'2', 3: b'3'}[version]
    if version == 1:
        b, lens = block(ver, 4, z, z.trans)
        bounds = cum(lens)
        return b, bounds
    if slim:
        z1 = Zone()
        z1.types = [(0, 0, '')]
        b1, l1 = block(ver, 4, z1, [])
    else:
        b1, l1 = block(ver, 4, z, [t for t in z.trans if -2**31 <= t[0] < 2**31])
    b2, l2 = block(ver, 8, z, z.trans)
    foot = b'\n' + (z.footer or '').encode('latin-1') + b'\n'
    return b1 + b2 + foot, cum(l1 + l2 + [len(foot)])


def cum(lens):
    out, s = [], 0
    for l in lens:
        s += l
        out.append(s)
    return out


def rand_zone(rng, version):
    z = Zone()
    n = rng.choice([0, 0, 1, 1, 2, 3, 5, 8, 13, 40, rng.randint(0, 40)])
    footer = version >= 2 and rng.random() < 0.7
    ext = version == 3
    rule = rand_rule(rng, ext and rng.random() < 0.5, tame=rng.random() < 0.8) if footer else None
    ntypes = rng.randint(1, 6)
    z.types = [(rand_off(rng), rng.randint(0, 1), rng.choice([rand_name(rng), rand_name(rng), rand_name(rng), rand_name(rng, 3, 7), 'LMT', ''])) for _ in range(ntypes)]
    if rule:
        z.types.append(rule.std)
        if rule.dst:
            z.types.append(rule.dst)
    k = rng.random()
    if version == 1:
        lo, hi = -2**31, 2**31 - 1
    elif k < 0.15:
        lo, hi = -2**63, 2**63 - 1
    else:
        lo, hi = -5 * 10**9, 12 * 10**9
    times = set()
    while len(times) < n:
        r = rng.random()
        if r < 0.1:
            times.add(rng.choice([lo, lo + 1, lo + 10, hi, hi - 1, hi - 10]))
        elif r < 0.3 and times:
            t = rng.choice(sorted(times)) + rng.choice([1, 2, 1800, 3600, 86400, 7200])
            if lo <= t <= hi:
                times.add(t)
        else:
            times.add(rng.randint(lo, hi))
    times = sorted(times)
    z.trans = [(t, rng.randrange(len(z.types))) for t in times]
    if rule and z.trans:
        t = z.trans[-1][0]
        want = rule.type_at(t) if -10**12 < t < 10**12 else rule.std
        z.trans[-1] = (t, z.types.index(want))
    z.rule = rule
    if version >= 2:
        z.footer = fmt_rule(rule, rng.random() < 0.2) if rule else ''
    if rng.random() < 0.15 and (not rule or rng.random() < 0.5):
        t, c, lp = rng.choice([0, 78796800, 10**6]), 0, []
        for _ in range(rng.randint(1, 5)):
            c += rng.choice([1, 1, 1, -1])
            lp.append((t, c))
            t += rng.choice([2419199, 2419200, 31536000, 15724800])
        z.leaps = lp
        if rule and z.trans:
            # leap records together with a footer (as in the right/ files): the reader compares the rule with the
            # last transition after taking off the correction of the last leap record before it
            t = z.trans[-1][0]
            u = t - ([0] + [c for lt, c in lp if lt < t])[-1]
            want = rule.type_at(u) if -10**12 < u < 10**12 else rule.std
            z.trans[-1] = (t, z.types.index(want))
    if rng.random() < 0.4:
        z.isstd = [rng.randint(0, 1) for _ in z.types]
        if rng.random() < 0.6:
            z.isut = [s & rng.randint(0, 1) for s in z.isstd]
    return z


# ------------------------------------------------------------------ mutations
def header_offsets(data):
    """offsets of the TZif headers in a well-formed file"""
    offs = [0]
    if len(data) >= 44 and data[4:5] in (b'2', b'3'):
        c = struct.unpack('>6L', data[20:44])
        second = 44 + c[3] * 5 + c[4] * 6 + c[5] + c[2] * 8 + c[1] + c[0]
        if data[second:second + 4] == b'TZif':
            offs.append(second)
    return offs


def layout(data, off, tsz):
    c = struct.unpack('>6L', data[off + 20:off + 44])
    isut, isstd, leap, tim, typ, ch = c
    p = off + 44
    seg = {}
    for name, ln in (('times', tim * tsz), ('idx', tim), ('types', typ * 6), ('chars', ch), ('leaps', leap * (tsz + 4)),
                     ('isstd', isstd), ('isut', isut)):
        seg[name] = (p, ln)
        p += ln
    seg['end'] = (p, 0)
    return c, seg


def mutations(data, rng, heavy):
    """structured edits of a well-formed file"""
    out = []
    offs = header_offsets(data)

    def put(pos, bs):
        return data[:pos] + bs + data[pos + len(bs):]
    for hi, off in enumerate(offs):
        tsz = 4 if hi == 0 else 8
        try:
            counts, seg = layout(data, off, tsz)
        except struct.error:
            continue
        # magic and version
        out.append(put(off, b'TZiF'))
        out.append(put(off, b'\0Zif'))
        for v in (b'\0', b'1', b'2', b'3', b'4', b'\xff'):
            out.append(put(off + 4, v))
        out.append(put(off + 5, b'\x01' * 15))          # reserved bytes are ignored
        # each count
        for k in range(6):
            pos = off + 20 + 4 * k
            v = counts[k]
            alts = {v + 1, max(v - 1, 0), v * 2, 0, 1, 0xffffffff, 0x80000000, 0x7fffffff, 0x10000, 255, 256}
            alts.discard(v)
            for a in sorted(alts) if heavy else rng.sample(sorted(alts), 5):
                out.append(put(pos, struct.pack('>L', a & 0xffffffff)))
        # truncations at and around every block boundary, and extensions
        for name, (p, ln) in seg.items():
            for q in (p - 1, p, p + 1):
                if 0 <= q < len(data):
                    out.append(data[:q])
        out.append(data[:off + 4])
        out.append(data[:off + 5])
        out.append(data[:off + 20])
        out.append(data[:off + 43])
        # indices and flags
        p, ln = seg['idx']
        if ln:
            j = rng.randrange(ln)
            out.append(put(p + j, bytes([counts[4]])) if counts[4] < 256 else data)
            out.append(put(p + j, b'\xff'))
        p, ln = seg['types']
        for j in range(0, ln, 6):
            if heavy or rng.random() < 0.5:
                out.append(put(p + j + 4, b'\x02'))
                out.append(put(p + j + 5, bytes([min(counts[5], 255)])))
                out.append(put(p + j + 5, bytes([max(counts[5] - 1, 0)])))
                out.append(put(p + j, b'\x80\0\0\0'))
                out.append(put(p + j, struct.pack('>l', rng.choice([2**31 - 1, -2**31 + 1, 0, 90000]))))
        p, ln = seg['chars']
        if ln:
            out.append(put(p + ln - 1, b'A'))            # no terminator for the last name
            out.append(put(p, b'\0'))
            out.append(put(p, b' '))
            out.append(put(p + rng.randrange(ln), bytes([rng.choice([0, 32, 95, 128, 255, 65])])))
            out.append(put(p, b'\0' * ln))
            out.append(put(p, b'A' * ln))
        p, ln = seg['times']
        if ln >= 2 * tsz:
            j = rng.randrange(ln // tsz - 1) * tsz
            a, b = data[p + j:p + j + tsz], data[p + j + tsz:p + j + 2 * tsz]
            out.append(put(p + j, b + a))                # unsorted
            out.append(put(p + j, b + b))                # equal
        if ln:
            j = rng.randrange(ln // tsz) * tsz
            for ext in (b'\x7f' + b'\xff' * (tsz - 1), b'\x80' + b'\0' * (tsz - 1), b'\x7f' + b'\xff' * (tsz - 2) + b'\xf5',
                        b'\x80' + b'\0' * (tsz - 2) + b'\x0a'):
                out.append(put(p + j, ext))
        p, ln = seg['leaps']
        for j in range(0, ln, tsz + 4):
            out.append(put(p + j + tsz, struct.pack('>l', rng.choice([0, 2, -2, 2**31 - 1, -2**31]))))
            out.append(put(p + j, struct.pack('>l' if tsz == 4 else '>q', rng.choice([-1, 0, 1, 2**31 - 1]))))
        for name in ('isstd', 'isut'):
            p, ln = seg[name]
            if ln:
                out.append(put(p, bytes([rng.choice([0, 1, 2, 255])]) * ln))
                out.append(put(p + rng.randrange(ln), bytes([rng.choice([0, 1, 2])])))
    # footer edits
    if len(offs) == 2:
        try:
            _, seg = layout(data, offs[1], 8)
            fp = seg['end'][0]
            foot = data[fp:]
            body = foot[1:-1]
            for f in (b'', b'\n', b'\n\n', body + b'\n', b'\n' + body, b'\n:' + body + b'\n', b'\n' + body + b'\0\n',
                      b'\n' + body + b'\xff\n', b'\n \t' + body + b' \r\n', b'\n' + body + b'\n\n', b'\n' + body[:-1] + b'\n',
                      b'\n' + body + b'x\n', b'\nUTC0\n', b'\n<+01>-1\n', b'\nEST5EDT\n', b'\nEST5EDT,M3.2.0,M11.1.0\n',
                      b'\nXXX5YYY,M3.2.0/-1,M11.1.0/25\n', b'\n\xc3\xa9\n', b'\n\xed\xa0\x80\n', b'\n\xf4\x90\x80\x80\n', b'\n\xc0\x80\n',
                      b'\n\xe0\x80\x80\n', b'\n' + body.replace(b',', b';') + b'\n', foot + foot, b'\n' * 3):
                out.append(data[:fp] + f)
        except struct.error:
            pass
    out.append(data + b'\0')
    out.append(data + data)
    out.append(data[:len(data) // 2])
    if data:
        j = rng.randrange(len(data))
        out.append(data[:j] + bytes([data[j] ^ (1 << rng.randrange(8))]) + data[j + 1:])
    return out


def rand_bytes(rng):
    k = rng.random()
    n = rng.choice([0, 1, 3, 4, 5, 20, 43, 44, 45, 50, 100, rng.randint(0, 300)])
    body = bytes(rng.getrandbits(8) for _ in range(n))
    if k < 0.3:
        return body
    ver = rng.choice([b'\0', b'2', b'3', b'\0'])
    if k < 0.6:
        return b'TZif' + ver + body
    # plausible header with small counts followed by random data
    c = [rng.choice([0, 1, 2, 3]) for _ in range(6)]
    if rng.random() < 0.7:
        c[4] = max(c[4], 1)
        c[5] = max(c[5], 1)
        c[0] = rng.choice([0, c[4]])
        c[1] = rng.choice([0, c[4]])
    need = c[3] * 5 + c[4] * 6 + c[5] + c[2] * 8 + c[1] + c[0]
    data = bytes(rng.choice([0, 0, 0, 1, 65, 66, 67, rng.getrandbits(8)]) for _ in range(need + rng.choice([0, 0, 0, 1, -1])) if need > 0) if need > 0 else b''
    return b'TZif' + ver + b'\0' * 15 + struct.pack('>6L', *c) + data + (body if rng.random() < 0.3 else b'')


# ------------------------------------------------------------------ TZ strings
def tz_strings(rng, n):
    fixed = ['UTC0', 'EST5', 'HST10', 'EST5EDT,M3.2.0,M11.1.0', 'CET-1CEST,M3.5.0,M10.5.0/3', 'NZST-12NZDT,M9.5.0,M4.1.0/3',
             'IST-1GMT0,M10.5.0,M3.5.0/1', '<-03>3<-02>,M3.5.0/-2,M10.5.0/-1', 'EST5EDT,0/0,J365/25', '<+1030>-10:30<+11>-11,M10.1.0,M4.1.0',
             'NZST-12:00:00NZDT-13:00:00,M10.1.0/02:00:00,M3.3.0/02:00:00', 'EST5EDT', 'EST5EDT4', 'EST5EDT,M3.2.0', 'EST', '5', '', ',', 'EST5,',
             'AAA24:59:59', 'AAA25', 'AAA-24:59:59BBB,J1,J365', 'AAA0BBB,J0,J365', 'AAA0BBB,J1,J366', 'AAA0BBB,365,366', 'AAA0BBB,M0.1.0,M1.1.0',
             'AAA0BBB,M13.1.0,M1.1.0', 'AAA0BBB,M1.0.0,M1.1.0', 'AAA0BBB,M1.6.0,M1.1.0', 'AAA0BBB,M1.1.7,M1.1.0', 'AAA0BBB,M1.1.0/167:59:59,M2.1.0/-167:59:59',
             'AAA0BBB,M1.1.0/168,M2.1.0', 'AAA0BBB,M1.1.0/24:59:59,M2.1.0', 'AAA0BBB,M1.1.0/24:60,M2.1.0', 'AAA0BBB,M1.1.0/+2,M2.1.0/+3',
             'AA0', 'AAAAAAA0', 'AAAAAAAA0', '<AA>0', '<AAAAAAA>0', '<AAAAAAAA>0', '<AA_A>0', '<AAA0', 'AAA0<BBB', '<>0', 'A1A0', 'AAA+0', 'AAA-0', 'AAA--1',
             'AAA00000000000000000000005', 'AAA0BBB,M000000003.2.0,M11.1.0', 'AAA0BBB,M256.1.0,M1.1.0', 'AAA0BBB,J65536,J1', 'AAA0BBB,65535,1',
             'AAA4294967296', 'AAA2147483648', 'AAA2147483647', 'AAA1:2147483647', 'AAA1:1:2147483648', 'AAA0BBB,M1.1.0/2147483648,M2.1.0',
             'AAA5:', 'AAA5:3:', 'AAA5:03:07', 'AAA0BBB,M3.2.0/,M11.1.0', 'AAA0BBB,M3.2.0,M11.1.0/', 'AAA0BBB,M3.2.0,M11.1.0,', 'AAA0BBB,M3.2.0,M11.1.0 ',
             ' AAA0', 'AAA0 ', 'AAA0\n', ':AAA0', 'AAA0\0', 'AAA\xff0', '\xc3\xa9\xc3\xa9\xc3\xa90', 'AAA0BBB,M3..0,M11.1.0', 'AAA0BBB,M3.2,M11.1.0',
             'AAA0BBB,J,J1', 'AAA0BBB,,', 'AAA0BBB-1,J1,J2', 'AAA0BBB+25,J1,J2', 'AAA-24BBB,J1,J2', 'AAA24BBB,J1,J2']
    for s in fixed:
        for ext in (0, 1):
            yield s.encode('latin-1'), ext
    for _ in range(n):
        ext = rng.randint(0, 1)
        r = rand_rule(rng, bool(ext))
        s = fmt_rule(r, rng.random() < 0.3)
        k = rng.random()
        if k < 0.5:
            yield s.encode('latin-1'), ext
            if r.dst is not None and rng.random() < 0.3:
                yield s.encode('latin-1'), 1 - ext
            continue
        b = bytearray(s.encode('latin-1'))
        m = rng.random()
        if m < 0.25 and b:
            del b[rng.randrange(len(b))]
        elif m < 0.5:
            b.insert(rng.randrange(len(b) + 1), rng.choice(b',/.:<>+-0123456789JMAz \0\xff\n'))
        elif m < 0.75 and b:
            b[rng.randrange(len(b))] = rng.choice(b',/.:<>+-0123456789JMAz_ \0')
        elif m < 0.85:
            b = b[:rng.randrange(len(b) + 1)]
        else:
            # blow up one number
            digs = [i for i, c in enumerate(b) if 48 <= c <= 57]
            if digs:
                i = rng.choice(digs)
                b[i:i + 1] = rng.choice([b'99', b'256', b'65536', b'4294967296', b'00', b'366', b'168', b'60', b'25', b'7', b'13', b'6'])
        yield bytes(b), ext


# ------------------------------------------------------------------ lookups
I64 = [I64_MIN, I64_MIN + 1, I64_MIN + 10, I64_MAX, I64_MAX - 1, I64_MAX - 10, 0, -1, 1,
       -67768100567971200, 67767976233532799, -67768100567971201, 67767976233532800,   # year i32 limits
       -67768040609740800, 67768036191676799, -67768040609740801, 67768036191676800,
       -8334601228800, 8210266876799, -8334601228801, 8210266876800,                    # chrono's date range
       2**31, -2**31, 2**32, 951868800, 951868799, I64_MIN + 951868800, I64_MIN + 951868799]
NDT_EXT = [[-262143, 1, 0, 0], [262142, 365, 86399, 0], [262142, 365, 86399, 1999999999], [1970, 1, 0, 0], [1969, 365, 86399, 0],
           [2000, 60, 0, 0], [2000, 366, 86399, 0], [2020, 1, 0, 0], [0, 1, 0, 0], [-1, 365, 86399, 0], [2037, 365, 0, 0], [2038, 19, 11647, 0]]


def lookup_cases(op_at, op_local, src, trans_offs, rng, rule=None, years=(), extra=()):
    """trans_offs: list of (instant, offset before, offset after)"""
    ts = list(I64)
    ns = [list(x) for x in NDT_EXT]
    pts = list(trans_offs)
    if len(pts) > 24:
        pts = pts[:4] + pts[-8:] + rng.sample(pts[4:-8], 12)
    for (t, a, b) in pts:
        for d in (-2, -1, 0, 1, 2):
            if I64_MIN <= t + d <= I64_MAX:
                ts.append(t + d)
        for w in {t + a, t + b}:
            for d in (-1, 0, 1):
                n = ndt_of_local(w + d)
                if n:
                    ns.append(n)
    if rule is not None and rule.dst is not None:
        for y in years:
            try:
                s, e = rule.switches(y)
            except Exception:
                continue
            for (t, a, b) in ((s, rule.std[0], rule.dst[0]), (e, rule.dst[0], rule.std[0])):
                for d in (-1, 0, 1):
                    if I64_MIN <= t + d <= I64_MAX:
                        ts.append(t + d)
                for w in {t + a, t + b}:
                    for d in (-1, 0, 1):
                        n = ndt_of_local(w + d)
                        if n:
                            ns.append(n)
            for dd in (0, 1, 58, 59, 60, 364, 365):
                n = ndt_of_local((days_from_civil(y, 1, 1) + dd) * 86400 + rng.choice([0, 7199, 7200, 7201, 86399]))
                if n:
                    ns.append(n)
    for _ in range(6):
        ts.append(rand_i64(rng))
        n = ndt_of_local(rng.randint(-8334601228800, 8210266876799))
        if n:
            n[3] = rng.choice([0, 0, 999999999, 1500000000])
            ns.append(n)
    ts += list(extra)
    yield case_line(op_at, *src, ts)
    yield case_line(op_local, *src, ns)


def parse_system(data):
    """transitions with offsets of a well-formed system file (second block if present)"""
    try:
        offs = header_offsets(data)
        off = offs[-1]
        tsz = 8 if len(offs) == 2 else 4
        c, seg = layout(data, off, tsz)
        p, ln = seg['times']
        f = '>l' if tsz == 4 else '>q'
        times = [struct.unpack(f, data[p + i:p + i + tsz])[0] for i in range(0, ln, tsz)]
        p, ln = seg['idx']
        idx = list(data[p:p + ln])
        p, ln = seg['types']
        offs_ = [struct.unpack('>l', data[p + i:p + i + 4])[0] for i in range(0, ln, 6)]
        out = []
        prev = offs_[0] if offs_ else 0
        for t, i in zip(times, idx):
            o = offs_[i] if i < len(offs_) else 0
            out.append((t, prev, o))
            prev = o
        return out
    except Exception:
        return []


def system_files():
    seen = {}
    for p in sorted(glob.glob(os.path.join(ZONEINFO, '**', '*'), recursive=True)):
        if os.path.isfile(p):
            try:
                b = open(p, 'rb').read()
            except OSError:
                continue
            if b[:4] == b'TZif' and b not in seen:
                seen[b] = p
    return list(seen.keys())


def raw_block(ver, tsz, types, table, trans=(), isstd=b'', isut=b''):
    """types: (utoff as unsigned 32-bit, isdst byte, designation index byte); table: bytes as they are"""
    f = '>l' if tsz == 4 else '>q'
    out = b'TZif' + ver + b'\0' * 15
    out += struct.pack('>6L', len(isut), len(isstd), 0, len(trans), len(types), len(table))
    out += b''.join(struct.pack(f, t) for t, _ in trans) + bytes(i for _, i in trans)
    out += b''.join(struct.pack('>LBB', o & 0xffffffff, d, i) for (o, d, i) in types) + table + isstd + isut
    return out


def raw_file(version, types, table, trans=(), footer=b'\n\n', first=None):
    if version == 1:
        return raw_block(b'\0', 4, types, table, trans)
    ver = {2: b'2', 3: b'3'}[version]
    b1 = raw_block(ver, 4, [(0, 0, 0)], b'\0') if first is None else raw_block(ver, 4, *first)
    return b1 + raw_block(ver, 8, types, table, trans) + footer


def range_cases(rng):
    MIN = 0x80000000
    tables = [
        # (table, [(types, transitions)])
        (b'LMT\0EST\0EDT\0', [
            ([(MIN, 0, 0)], []),                                  # named type, the only type
            ([(MIN, 0, 3)], []),                                  # empty designation (index on a NUL), only type
            ([(MIN, 1, 7)], []),
            ([(MIN, 0, 11)], []),                                 # the final NUL
            ([(-18000, 0, 4), (MIN, 1, 8)], [(100, 1)]),          # named, second type
            ([(-18000, 0, 4), (MIN, 0, 3)], [(100, 1)]),          # empty designation, second type
            ([(MIN, 0, 3), (-18000, 0, 4)], [(100, 1)]),          # empty designation, first type
            ([(MIN, 0, 0), (-18000, 0, 4), (-14400, 1, 8)], [(0, 1), (100, 2)]),
            ([(-18000, 0, 4), (-14400, 1, 8), (MIN, 0, 7)], [(0, 1), (100, 0)]),   # unused type
            ([(MIN + 1, 0, 0)], []), ([(MIN + 1, 0, 3)], []), ([(MIN - 1, 0, 3)], []),   # neighbours: accepted
            ([(MIN, 2, 3)], []), ([(MIN, 0, 12)], []), ([(MIN, 0, 255)], []),      # other defects first
        ]),
        (b'\0', [([(MIN, 0, 0)], []), ([(MIN, 1, 0)], []), ([(0, 0, 0), (MIN, 0, 0)], [(5, 1)]), ([(0, 0, 0)], [])]),
        # designation tables WITHOUT a final NUL; the index selects the unterminated tail
        (b'LMT\0EST\0EDT', [
            ([(-18000, 0, 8)], []), ([(-18000, 0, 4), (-14400, 1, 8)], [(100, 1)]),
            ([(-18000, 0, 9)], []), ([(-18000, 0, 10)], []), ([(-18000, 0, 4)], []), ([(-18000, 0, 7)], []),
            ([(MIN, 0, 8)], []), ([(-18000, 0, 4), (MIN, 0, 8)], [(100, 1)]),
        ]),
        (b'UTC', [([(0, 0, 0)], []), ([(0, 0, 2)], []), ([(MIN, 0, 0)], [])]),
        (b'E', [([(0, 0, 0)], []), ([(MIN, 0, 0)], [])]),
    ]
    for table, recs in tables:
        for types, trans in recs:
            for version in (1, 2, 3):
                files = [raw_file(version, types, table, trans)]
                if version != 1:
                    # the same defect in the 32-bit block of a v2+ file is skipped by the reader
                    files.append(raw_file(version, [(0, 0, 0)], b'\0', (), first=(types, table, trans)))
                    files.append(raw_file(version, types, table, trans, first=(types, table, trans)))
                for data in files:
                    yield case_line('tz.parse', data)
                    yield case_line('tz.at', data, [0, 99, 100, 101, -2**31, 2**31, I64_MIN, I64_MAX])
                    yield case_line('tz.atlocal', data, [ndt_of_local(t) for t in (0, 100, 86400 * 365)])
    # writer-made zones with the offset on a named / unnamed type and a footer rule
    for version in (1, 2, 3):
        for names in (('STD', 'DST'), ('', 'DST'), ('STD', ''), ('', '')):
            for which in (0, 1):
                z = Zone()
                offs = [3600, 7200]
                offs[which] = -2**31
                z.types = [(offs[0], 0, names[0]), (offs[1], 1, names[1])]
                z.trans = [(rng.randint(-10**9, 10**9), 1)]
                z.footer = ''
                data, _ = write_tzif(z, version, slim=rng.random() < 0.5)
                yield case_line('tz.parse', data)
                yield case_line('tz.at', data, [z.trans[0][0] - 1, z.trans[0][0], z.trans[0][0] + 1])


def cases(tier, rng):
    quick = tier == 'quick'
    sysf = system_files()
    # 1. every distinct system file
    for b in sysf:
        yield case_line('tz.parse', b)
    # 2. lookups on system files
    pick = sysf if not quick else rng.sample(sysf, min(len(sysf), 160))
    for b in pick:
        yield from lookup_cases('tz.at', 'tz.atlocal', [b], parse_system(b), rng)
    # 3. writer output, mutations of it, lookups on it
    nz = 1500 if quick else 20000
    for k in range(nz):
        version = rng.choice([1, 2, 2, 3, 3])
        z = rand_zone(rng, version)
        data, bounds = write_tzif(z, version, slim=rng.random() < 0.5)
        yield case_line('tz.parse', data)
        if k % 2 == 0:
            tr = []
            prev = z.types[0][0]
            for t, i in z.trans:
                tr.append((t, prev, z.types[i][0]))
                prev = z.types[i][0]
            yield from lookup_cases('tz.at', 'tz.atlocal', [data], tr, rng, z.rule, [rng.choice([1969, 1970, 2000, 2023, 2100, 2400, 1583, 1, 9999])])
        if k % (4 if quick else 10) == 0:
            for m in mutations(data, rng, heavy=k % 40 == 0):
                yield case_line('tz.parse', m)
    # 4. mutations of system files
    for b in rng.sample(sysf, 12 if quick else 200):
        small = b
        for m in mutations(small, rng, heavy=False):
            yield case_line('tz.parse', m)
    # 5. hand-made extremes: accepted files with transitions at the i64 ends (lookup overflow regression)
    for version in (2, 3):
        for times in ([I64_MAX - 10], [I64_MIN + 10], [I64_MIN + 10, I64_MAX - 10], [I64_MIN, I64_MAX], [I64_MIN], [I64_MAX],
                      [I64_MIN, I64_MIN + 1], [I64_MAX - 1, I64_MAX], [-2**31 - 1, 2**31]):
            for offs in ((0, 3600), (3600, 0), (-3600, 7200), (2**31 - 1, -2**31 + 1), (-2**31 + 1, 2**31 - 1), (-93600, 93600)):
                z = Zone()
                z.types = [(offs[0], 0, 'STD'), (offs[1], 1, 'DST')]
                z.trans = [(t, (i + 1) % 2) for i, t in enumerate(times)]
                z.footer = ''
                data, _ = write_tzif(z, version, slim=True)
                yield case_line('tz.parse', data)
                tr = [(t, offs[i % 2], offs[(i + 1) % 2]) for i, t in enumerate(times)]
                yield from lookup_cases('tz.at', 'tz.atlocal', [data], tr, rng)
    # leap records with extreme corrections / times
    for lp in ([(0, 1)], [(0, -1)], [(0, 1), (2419199, 2)], [(0, 1), (2419198, 2)], [(0, 1), (2419199, 3)], [(-1, 1)], [(0, 2)],
               [(0, 1), (I64_MAX, 2)], [(I64_MAX, 1)], [(I64_MAX, -1)], [(0, 1), (2419199, 0), (2 * 2419199, -1)],
               [(10, 1), (10 + 2419199, 2), (10 + 2 * 2419199, 3), (10**10, 4)]):
        for tt in ([], [(100, 0)], [(I64_MAX, 0)], [(I64_MIN, 0)], [(I64_MIN + 1, 0), (5, 0)]):
            z = Zone()
            z.types = [(0, 0, 'UTC')]
            z.trans = tt
            z.leaps = lp
            z.footer = ''
            for version in (1, 2):
                if version == 1 and any(not -2**31 <= t < 2**31 for t, _ in tt + lp):
                    continue
                data, _ = write_tzif(z, version, slim=True)
                yield case_line('tz.parse', data)
                ex = [t + d for t, _ in lp for d in (-2, -1, 0, 1, 2) if I64_MIN <= t + d <= I64_MAX] + [I64_MAX - c for _, c in lp] + [I64_MIN - c for _, c in lp if c < 0]
                yield from lookup_cases('tz.at', 'tz.atlocal', [data], [(t, 0, 0) for t, _ in tt], rng, extra=[e for e in ex if I64_MIN <= e <= I64_MAX])
    # 5b. out-of-range offset (RFC 8536 3.2: utoff MUST NOT be -2^31) and unterminated designations:
    #     raw blocks so that the designation index can point anywhere in the table
    yield from range_cases(rng)
    # 6. random bytes
    for _ in range(6000 if quick else 200000):
        yield case_line('tz.parse', rand_bytes(rng))
    # 7. TZ strings
    for s, ext in tz_strings(rng, 20000 if quick else 400000):
        yield case_line('tz.rule', s, ext)
    # 8. rule lookups
    for k in range(1500 if quick else 30000):
        ext = rng.randint(0, 1)
        r = rand_rule(rng, bool(ext), tame=rng.random() < 0.5)
        s = fmt_rule(r).encode('latin-1')
        years = [rng.choice([1970, 2000, 2023, 2024, 1900, 2100, 1, 0, -1, 9999, -262143, 262142, -262142, 262141, rng.randint(-262143, 262142)]) for _ in range(2)]
        yield from lookup_cases('tz.rat', 'tz.ratlocal', [s, ext], [], rng, r, years)
    # malformed argument shapes (both sides answer BADARGS)
    yield 'tz.parse 5'
    yield 'tz.rule x41414130 2'
    yield 'tz.at x (0) 1'
    yield 'tz.atlocal x41 ((2020,366,0,0))'
    yield 'tz.atlocal x41 ((2021,366,0,0))'
    yield 'tz.rat x41414130 0 (9223372036854775808)'
