"""C04 case generator: UTC date-times at and near both ends of the supported range (second and
nanosecond granularity, midnights, leap-second representations) and mid-range calendar corners,
crossed with offsets in (-24h, +24h) and with every op of the z.* family."""
from vcheck import case_line
from common import *

RULE = ('structured lattice: UTC date-times {range ends +- up to 2 days at s/ns granularity, midnights, leap '
        'seconds, calendar corners} x offsets {0,+-1s,+-59s,+-1min,+-30min,+-1h,+-2h,+-12h,+-23:59:59,...} x every z.* op '
        '(constructors, accessors incl. the provided Datelike/Timelike methods, From conversions, setters with boundary arguments, with_time, '
        'day/month stepping in checked and operator form, eq/cmp/partial_cmp/hash pairs), utc_minus_local, east/west arguments +-86399/+-86400/i32 extremes, plus seeded random draws')

MIN_YEAR, MAX_YEAR = -262143, 262142
DAY = 86400


def is_leap(y):
    return (y % 4 == 0 and y % 100 != 0) or y % 400 == 0


def days_before_year(y):
    p = y - 1
    return 365 * p + p // 4 - p // 100 + p // 400


def yo_of_dn(n):
    # year by estimate + correction
    y = (n * 400) // 146097 + 1
    while days_before_year(y) >= n:
        y -= 1
    while days_before_year(y + 1) < n:
        y += 1
    return y, n - days_before_year(y)


DN_MIN = days_before_year(MIN_YEAR) + 1
DN_MAX = days_before_year(MAX_YEAR + 1)
TMIN = DN_MIN * DAY
TMAX = DN_MAX * DAY + DAY - 1


def naive(t, f=0):
    """(y, o, secs, frac) of second count t (seconds since day number 0)"""
    y, o = yo_of_dn(t // DAY)
    return [y, o, t % DAY, f]


def zval(t, f, off):
    return naive(t, f) + [off]


def dn_of_ymd(y, m, d):
    cum = [0, 31, 59, 90, 120, 151, 181, 212, 243, 273, 304, 334]
    return days_before_year(y) + cum[m - 1] + (1 if (m > 2 and is_leap(y)) else 0) + d


OFFS_CORE = [0, 1, -1, 59, -59, 60, -60, 1800, -1800, 3600, -3600, 7200, -7200, 43200, -43200, 86399, -86399]
OFFS_MORE = [86398, -86398, 12345, -12345, 19800, -34200, 50400, -39600, 61, -3599, 86340, -86340]
FRACS = [0, 1, 999999999, 1000000000, 1999999999, 500000000]
END_DELTAS = [0, 1, 2, 59, 60, 61, 3599, 3600, 3601, 7199, 7200, 7201, 43199, 43200, 86339, 86398, 86399, 86400,
              86401, 90000, 172799, 172800, 172801]
TIMES = [[0, 0], [1, 0], [59, 0], [3599, 999999999], [3600, 0], [7199, 0], [7200, 0], [7201, 0], [43200, 0],
         [79199, 0], [79200, 0], [82800, 0], [86399, 0], [86399, 999999999], [86399, 1999999999], [86340, 1000000000],
         [3600, 1500000000]]


def end_instants():
    out = []
    for d in END_DELTAS:
        out.append(TMIN + d)
        out.append(TMAX - d)
    return out


def mid_instants():
    out = []
    for (y, m, d) in [(1970, 1, 1), (2000, 2, 29), (2000, 3, 1), (1999, 12, 31), (2024, 12, 31), (2023, 1, 1), (1, 1, 1),
                      (0, 12, 31), (0, 2, 29), (-1, 1, 1), (1900, 2, 28), (2100, 3, 1), (2020, 12, 28), (2021, 1, 3),
                      (2015, 6, 30), (-262143, 12, 31), (262142, 1, 1), (-262142, 1, 1), (262141, 12, 31), (9999, 12, 31),
                      (10000, 1, 1), (-4, 2, 29), (2016, 1, 31), (2016, 3, 31), (2015, 1, 31), (400, 12, 31)]:
        dn = dn_of_ymd(y, m, d)
        for s in (0, 1, 43200, 86399, 3599, 82800):
            out.append(dn * DAY + s)
    return out


def rand_instant(rng):
    k = rng.random()
    if k < 0.3:
        return rng.choice([TMIN + rng.randint(0, 3 * DAY), TMAX - rng.randint(0, 3 * DAY)])
    if k < 0.4:
        return rng.choice([TMIN + rng.randint(0, 800 * DAY), TMAX - rng.randint(0, 800 * DAY)])
    if k < 0.8:
        return rng.randint(dn_of_ymd(1600, 1, 1) * DAY, dn_of_ymd(2400, 1, 1) * DAY)
    return rng.randint(TMIN, TMAX)


def rand_frac(rng):
    k = rng.random()
    if k < 0.5:
        return rng.choice(FRACS)
    if k < 0.9:
        return rng.randint(0, G - 1)
    return rng.randint(G, 2 * G - 1)


def rand_off(rng):
    k = rng.random()
    if k < 0.4:
        return rng.choice(OFFS_CORE + OFFS_MORE)
    if k < 0.6:
        return rng.randint(-14, 14) * 3600 + rng.choice([0, 0, 1800, 900])
    return rng.randint(-86399, 86399)


def rand_z(rng):
    return zval(rand_instant(rng), rand_frac(rng), rand_off(rng))


def field_args(field, z, rng=None):
    """boundary arguments for with_<field> on value z = [y,o,s,f,off]"""
    y = z[0]
    if field == 0:
        return [y, y + 1, y - 1, 2020, 2000, 2001, 0, -1, MIN_YEAR, MIN_YEAR - 1, MAX_YEAR, MAX_YEAR + 1, I32_MIN, I32_MAX,
                y + 4, y - 4]
    if field == 1:
        return [0, 1, 2, 3, 4, 6, 11, 12, 13, U32_MAX]
    if field == 2:
        return [0, 1, 2, 3, 10, 11, 12, U32_MAX]
    if field == 3:
        return [0, 1, 2, 15, 28, 29, 30, 31, 32, U32_MAX]
    if field == 4:
        return [0, 1, 14, 27, 28, 29, 30, 31, U32_MAX]
    if field == 5:
        return [0, 1, 2, 59, 60, 200, 364, 365, 366, 367, U32_MAX]
    if field == 6:
        return [0, 1, 58, 59, 200, 363, 364, 365, 366, U32_MAX]
    if field == 7:
        return [0, 1, 2, 5, 12, 21, 22, 23, 24, U32_MAX]
    if field in (8, 9):
        return [0, 1, 30, 58, 59, 60, U32_MAX]
    return [0, 1, 999999999, G, 1999999999, 2 * G, U32_MAX]


SPAN_D = DN_MAX - DN_MIN          # days between the first and the last supported date
SPAN_M = (MAX_YEAR - MIN_YEAR) * 12 + 11
DAYS_N = [0, 1, 2, 28, 29, 30, 31, 364, 365, 366, 367, 730, 146097, SPAN_D - 1, SPAN_D, SPAN_D + 1, SPAN_D + 2, I32_MAX,
          I32_MAX + 1, U64_MAX, 2**32]
MONTHS_N = [0, 1, 2, 11, 12, 13, 24, 4800, SPAN_M - 1, SPAN_M, SPAN_M + 1, SPAN_M + 2, I32_MAX, I32_MAX + 1, U32_MAX]
UNARY = ['z.nutc', 'z.nlocal', 'z.acc', 'z.time', 'z.datenaive', 'z.fixed', 'z.toutc', 'z.prov', 'z.conv']


def cases(tier, rng):
    quick = tier == 'quick'
    # offsets
    for s in around([0, 86399, 86400, -86399, -86400, I32_MAX, I32_MIN, 3600, -3600], (-2, -1, 0, 1, 2), lo=I32_MIN, hi=I32_MAX):
        yield case_line('z.east', s)
        yield case_line('z.west', s)
        yield case_line('z.uml', s)
        yield case_line('z.peast', s)
        yield case_line('z.pwest', s)
    ends = end_instants()
    mids = mid_instants()
    offs = OFFS_CORE + (OFFS_MORE if not quick else OFFS_MORE[:4])
    if not quick:
        offs = offs + [o for o in range(-86399, 86400, 1801)]
    end_fracs = FRACS if not quick else [0, 999999999, 1000000000]
    # ---- values at the range ends x offsets: every unary op, constructors, setters
    end_z = []
    for t in ends:
        for f in end_fracs:
            for off in offs:
                end_z.append((t, f, off))
    mid_z = []
    for t in mids:
        for f in (0, 1500000000):
            for off in OFFS_CORE[:13] + [86399, -86399]:
                mid_z.append((t, f, off))
    for (t, f, off) in end_z + mid_z:
        z = zval(t, f, off)
        for op in UNARY:
            yield case_line(op, z)
        yield case_line('z.show', z, 0)
        yield case_line('z.show', z, 1)
        yield case_line('z.fromutc', off, naive(t, f))
        yield case_line('z.mk', off, naive(t, f))
        yield case_line('z.pfromlocal', off, naive(t, f))
        # the wall clock as a local input (when it is a nominal NaiveDateTime), and the UTC reading as one
        yield case_line('z.fromlocal', off, naive(t, f))
        w = t + off
        if TMIN <= w <= TMAX:
            yield case_line('z.fromlocal', off, naive(w, f))
            yield case_line('z.pfromlocal', off, naive(w, f))
    # conversions between zones
    for (t, f, off) in end_z[::7] + mid_z[::5]:
        for off2 in (0, 1, -3600, 86399, -86399, 19800):
            yield case_line('z.withtz', zval(t, f, off), off2)
    # invalid offsets as arguments (BADARGS on both sides)
    for off in (86400, -86400, I32_MAX, I32_MIN):
        yield case_line('z.fromutc', off, naive(TMIN))
        yield case_line('z.withtz', zval(TMIN, 0, 0), off)
    # ---- setters: all fields x boundary arguments
    step = 3          # every third value of the lattice (the thorough lattice has ~20x more values)
    for (t, f, off) in end_z[::step] + mid_z[::step]:
        z = zval(t, f, off)
        zl = naive(t + off, f) if TMIN <= t + off <= TMAX else z
        for field in range(11):
            fa = field_args(field, zl)
            if quick:
                fa = fa[::2] + fa[-1:]
            for x in fa:
                yield case_line('z.with', field, z, x)
    for (t, f, off) in end_z[::2] + mid_z[::4]:
        z = zval(t, f, off)
        for tm in (TIMES[::2] if quick else TIMES):
            yield case_line('z.withtime', z, tm)
        # the wall clock's own time of day and its neighbours
        sod = (t + off) % DAY
        for s2 in (sod, (sod + 1) % DAY, (sod - 1) % DAY):
            yield case_line('z.withtime', z, [s2, f])
    for (t, f, off) in end_z[::step] + mid_z[::step]:
        z = zval(t, f, off)
        for n in (DAYS_N[::2] if quick else DAYS_N):
            yield case_line('z.days', z, 1, n)
            yield case_line('z.days', z, -1, n)
            yield case_line('z.opdays', z, 1, n)
            yield case_line('z.opdays', z, -1, n)
        for n in (MONTHS_N[::2] if quick else MONTHS_N):
            yield case_line('z.months', z, 1, n)
            yield case_line('z.months', z, -1, n)
            yield case_line('z.opmonths', z, 1, n)
            yield case_line('z.opmonths', z, -1, n)
    # ---- operator / checked day stepping on leap-second wall clocks (fraction >= 10^9) and at both range
    #      ends seen through non-zero offsets, small counts and one year
    for t in ends[::2] + mids[:12]:
        for f in (1000000000, 1500000000, 1999999999, 500000000):
            for off in (3600, -3600, 7200, -7200, 86399, -86399, 19800, 0):
                z = zval(t, f, off)
                for n in (0, 1, 2, 365, 366):
                    yield case_line('z.opdays', z, 1, n)
                    yield case_line('z.opdays', z, -1, n)
                    if n in (0, 1, 366):
                        yield case_line('z.days', z, 1, n)
                        yield case_line('z.days', z, -1, n)
    # ---- eq / cmp / hash: pairs with equal and neighbouring instants under different offsets
    pool = []
    for t in ends[:12] + mids[:18]:
        for f in (0, 1, 1000000000):
            pool.append((t, f))
    for i, (t, f) in enumerate(pool):
        for (t2, f2) in [(t, f), (t + 1, f), (t - 1, f), (t, f + 1), (t + 1, 0), (t + DAY, f), pool[(i * 7 + 3) % len(pool)]]:
            if not (TMIN <= t2 <= TMAX and 0 <= f2 < 2 * G):
                continue
            for (o1, o2) in ((0, 0), (3600, -3600), (86399, -86399), (1, 0), (-43200, 43200)):
                for op in ('z.eq', 'z.cmp', 'z.hasheq', 'z.pcmp'):
                    yield case_line(op, zval(t, f, o1), zval(t2, f2, o2))
    # ---- with_ymd_and_hms
    for off in (0, 1, -1, 3600, -3600, 7200, -7200, 86399, -86399):
        for (y, m, d) in [(MIN_YEAR, 1, 1), (MIN_YEAR, 1, 2), (MIN_YEAR - 1, 12, 31), (MAX_YEAR, 12, 31), (MAX_YEAR, 12, 30),
                          (MAX_YEAR + 1, 1, 1), (2000, 2, 29), (2001, 2, 29), (1970, 1, 1), (2024, 13, 1), (2024, 0, 1),
                          (2024, 4, 31), (2024, 12, 0), (I32_MAX, 1, 1), (I32_MIN, 1, 1), (0, 2, 29), (1900, 2, 29)]:
            for (h, mi, s) in [(0, 0, 0), (23, 59, 59), (1, 0, 0), (2, 0, 0), (22, 0, 0), (24, 0, 0), (0, 60, 0), (0, 0, 60),
                               (12, 30, 15), (U32_MAX, 0, 0), (1, 59, 59), (21, 59, 59)]:
                yield case_line('z.ymdhms', off, y, m, d, h, mi, s)
    # z.prov mid-range: every month of a leap, a common and a century year, every hour of the day
    for y in (2023, 2024, 1900, 2000, 0, -1, 1, -4):
        for m in range(1, 13):
            for d in (1, 15, 28):
                t0 = dn_of_ymd(y, m, d) * DAY + ((m * 2 + d) % 24) * 3600 + 59
                yield case_line('z.prov', zval(t0, 0, rng.choice(OFFS_CORE)))
    for h in range(24):
        yield case_line('z.prov', zval(dn_of_ymd(2024, 2, 29) * DAY + h * 3600 + 1800, 7, 0))
    for s in range(-86399, 86400, 3557):
        yield case_line('z.uml', s)
    # ---- random
    n = 30000 if quick else 2000000
    for _ in range(n):
        r = rng.random()
        z = rand_z(rng)
        if r < 0.17:
            yield case_line(rng.choice(UNARY), z)
        elif r < 0.2:
            yield case_line('z.show', z, rng.choice([0, 1]))
        elif r < 0.3:
            off = rand_off(rng)
            k = rng.random()
            t = rand_instant(rng)
            yield case_line(rng.choice(['z.fromlocal', 'z.fromlocal', 'z.pfromlocal']), off, naive(t, rand_frac(rng)))
        elif r < 0.35:
            yield case_line(rng.choice(['z.fromutc', 'z.mk']), rand_off(rng), naive(rand_instant(rng), rand_frac(rng)))
        elif r < 0.4:
            yield case_line('z.withtz', z, rand_off(rng))
        elif r < 0.6:
            field = rng.randint(0, 10)
            if rng.random() < 0.7:
                x = rng.choice(field_args(field, z))
            elif field == 0:
                x = rng.choice([rng.randint(-3000, 3000), rng.randint(MIN_YEAR - 2, MAX_YEAR + 2), rand_i32(rng)])
            else:
                x = rng.choice([rng.randint(0, 70), rng.randint(0, 400), rng.randint(0, 2 * G + 5), rng.randint(0, U32_MAX)])
            yield case_line('z.with', field, z, x)
        elif r < 0.7:
            yield case_line('z.withtime', z, [rng.randint(0, DAY - 1), rand_frac(rng)])
        elif r < 0.8:
            n_ = rng.choice([rng.randint(0, 40), rng.randint(0, 800), rng.randint(0, 200000000), rng.choice(DAYS_N)])
            yield case_line(rng.choice(['z.days', 'z.opdays']), z, rng.choice([1, -1]), n_)
        elif r < 0.9:
            n_ = rng.choice([rng.randint(0, 40), rng.randint(0, 5000), rng.randint(0, 6300000), rng.choice(MONTHS_N)])
            yield case_line(rng.choice(['z.months', 'z.opmonths']), z, rng.choice([1, -1]), n_)
        elif r < 0.97:
            k = rng.random()
            if k < 0.4:
                z2 = z[:4] + [rand_off(rng)]
            elif k < 0.7:
                t2 = (dn_of_yo(z[0], z[1]) * DAY + z[2]) + rng.choice([1, -1, DAY, -DAY, 60])
                z2 = zval(min(max(t2, TMIN), TMAX), z[3], rand_off(rng))
            else:
                z2 = rand_z(rng)
            yield case_line(rng.choice(['z.eq', 'z.cmp', 'z.hasheq', 'z.pcmp']), z, z2)
        else:
            y = rng.choice([rng.randint(1900, 2100), rng.randint(MIN_YEAR - 1, MAX_YEAR + 1), MIN_YEAR, MAX_YEAR])
            yield case_line('z.ymdhms', rand_off(rng), y, rng.randint(0, 13), rng.randint(0, 32), rng.randint(0, 24),
                            rng.randint(0, 60), rng.randint(0, 60))


def dn_of_yo(y, o):
    return days_before_year(y) + o
