"""C08 case generator: month stepping, field replacement, week helpers, n-th weekday, years elapsed,
quarter / common-era year / month length.  Dates are (year, ordinal) pairs."""
from vcheck import case_line
from common import *

RULE = ('structured lattice: every day of the four year types (common, leap, century-common, century-leap) and '
        'of the range-end years x month counts {0,1,11,12,13,4800,i32::MAX,i32::MAX+1,u32::MAX,...}; every '
        'setter x ~50 arguments (whole valid range, 0, end+1, type extremes) on the month-end/leap-day lattice; '
        'all 7 first weekdays on every day; n-th weekday over months 0..13 x n in {0..6,255}; date pairs around '
        'the anniversary; operator month stepping and the provided Datelike methods on naive date-times, week equality/hash on '
        'neighbouring days and first weekdays; plus seeded random draws over the whole range (thorough: all 146097 days of a 400-year cycle)')

MIN_YEAR, MAX_YEAR = -262143, 262142
FIELDS = ['year', 'month', 'month0', 'day', 'day0', 'ordinal', 'ordinal0']
CUM = [0, 31, 59, 90, 120, 151, 181, 212, 243, 273, 304, 334]


def is_leap(y):
    return (y % 4 == 0 and y % 100 != 0) or y % 400 == 0


def ylen(y):
    return 366 if is_leap(y) else 365


def mlen(y, m):
    if m == 2:
        return 29 if is_leap(y) else 28
    return 30 if m in (4, 6, 9, 11) else 31


def yo(y, m, d):
    return [y, CUM[m - 1] + (1 if (m > 2 and is_leap(y)) else 0) + d]


def all_days(y):
    return [[y, o] for o in range(1, ylen(y) + 1)]


def edge_days(y):
    """month starts and ends, the days around the leap day, year ends"""
    out = []
    for m in range(1, 13):
        n = mlen(y, m)
        for d in sorted(set([1, 2, 15, 27, 28, 29, 30, 31])):
            if d <= n:
                out.append(yo(y, m, d))
    return out


YEAR_TYPES = [2023, 2024, 1900, 2000]
RANGE_YEARS = [MIN_YEAR, MIN_YEAR + 1, MAX_YEAR - 1, MAX_YEAR]
OTHER_YEARS = [0, 1, -1, -4, -100, -400, 4, 100, 400, 1970, 1600, 2100, 9999, 10000, -9999, 262140, -262140, 131071, -131072]

NS = [0, 1, 2, 11, 12, 13, 23, 24, 25, 4799, 4800, 4801, 12 * 262142, 12 * 262143, 12 * 524285, 12 * 524286,
      I32_MAX - 1, I32_MAX, I32_MAX + 1, I32_MAX + 2, U32_MAX - 1, U32_MAX, 2**31 - 12, 3145704, 3145716, 6291420, 6291431, 6291432]


def setter_args(field, y, thorough_pick=None):
    big = [I32_MAX - 1, I32_MAX, I32_MAX + 1, U32_MAX - 1, U32_MAX, 2**16, 2**9, 2**13, 255, 256]
    if field == 'year':
        a = around([0, MIN_YEAR, MAX_YEAR, I32_MIN, I32_MAX, y, 2000, 2023, 2024, 1900, 2100, -4, -100, -400, 400, 262144 * 2], lo=I32_MIN, hi=I32_MAX)
        a += [y + 4, y - 4, y + 400, y - 400, 8191, 8192, -8192, 2**18, -2**18, 2**19, -2**19 - 1]
        return [x for x in a if I32_MIN <= x <= I32_MAX]
    if field in ('month', 'month0'):
        return list(range(0, 18)) + [31, 32, 63, 64] + big
    if field in ('day', 'day0'):
        return list(range(0, 36)) + [63, 64] + big
    # ordinal, ordinal0
    return list(range(0, 4)) + [31, 32, 58, 59, 60, 61, 181, 182, 200, 363, 364, 365, 366, 367, 368, 511, 512, 1023, 1024] + big


def rand_date(rng):
    k = rng.random()
    if k < 0.35:
        y = rng.randint(1583, 2400)
    elif k < 0.6:
        y = rng.randint(-10000, 10000)
    elif k < 0.9:
        y = rng.randint(MIN_YEAR, MAX_YEAR)
    else:
        y = rng.choice(RANGE_YEARS)
    j = rng.random()
    if j < 0.5:
        o = rng.randint(1, ylen(y))
    elif j < 0.8:
        m = rng.randint(1, 12)
        n = mlen(y, m)
        o = yo(y, m, rng.choice([1, n, n - 1, min(28, n), min(29, n), min(30, n)]))[1]
    else:
        o = rng.choice([1, 2, 59, 60, 61, ylen(y) - 1, ylen(y)])
    return [y, o]


def rand_n(rng):
    k = rng.random()
    if k < 0.4:
        return rng.randint(0, 50)
    if k < 0.6:
        return rng.randint(0, 100000)
    if k < 0.8:
        return rng.randint(0, 12 * 524290)
    if k < 0.9:
        return rng.randint(0, U32_MAX)
    return rng.choice(NS)


def rand_time(rng):
    s = rng.choice([0, 1, 43200, 86398, 86399, rng.randint(0, 86399), rng.randint(0, 86399)])
    f = rng.choice([0, 1, 999999999, 1000000000, 1999999999, rng.randint(0, 1999999999)])
    return s, f


def rand_off(rng):
    return rng.choice([0, 0, 3600, -3600, 86399, -86399, 1, -1, 19800, rng.randint(-86399, 86399)])


def week_cases(d, ops=('d8.wfirst', 'd8.wlast', 'd8.week')):
    for w in range(7):
        for op in ops:
            yield case_line(op, d, w)


def cases(tier, rng):
    thorough = tier != 'quick'
    lat_years = YEAR_TYPES + RANGE_YEARS
    full = []
    for y in lat_years:
        full += all_days(y)
    edges = []
    for y in lat_years + OTHER_YEARS:
        edges += edge_days(y)

    # ---- month stepping
    small_ns = [0, 1, 11, 12, 13]
    for d in full:
        for n in small_ns:
            yield case_line('d8.addm', d, n)
            yield case_line('d8.subm', d, n)
    for d in edges:
        for n in NS:
            yield case_line('d8.addm', d, n)
            yield case_line('d8.subm', d, n)
    # exactly reaching / leaving the range from either side
    for d in edge_days(MIN_YEAR) + edge_days(MAX_YEAR) + edge_days(0)[::5] + edge_days(2024)[::5]:
        y = d[0]
        for target in (MIN_YEAR, MAX_YEAR):
            for k in range(-13, 14):
                n = abs((target - y) * 12 + k)
                if 0 <= n <= U32_MAX:
                    yield case_line('d8.addm', d, n)
                    yield case_line('d8.subm', d, n)
    for d in edges[::7]:
        for n in (0, 1, 12, 13, 12 * 524286, I32_MAX, I32_MAX + 1, U32_MAX):
            yield case_line('d8.opaddm', d, n)
            yield case_line('d8.opsubm', d, n)
        s, f = rand_time(rng)
        nd = d + [s, f]
        for n in (0, 1, 11, 12, 13, 4800, I32_MAX, I32_MAX + 1, U32_MAX):
            yield case_line('d8.ndt.addm', nd, n)
            yield case_line('d8.ndt.subm', nd, n)
            yield case_line('d8.ndt.opaddm', nd, n)
            yield case_line('d8.ndt.opsubm', nd, n)

    # ---- field replacement
    lat_edges = []
    for y in lat_years:
        lat_edges += edge_days(y)
    for d in lat_edges + edges[len(lat_edges)::4]:
        for f in FIELDS:
            for x in setter_args(f, d[0]):
                yield case_line('d8.with', f, d, x)
    for d in edges[::11]:
        s, fr = rand_time(rng)
        for f in FIELDS:
            for x in setter_args(f, d[0])[::3]:
                yield case_line('d8.ndt.with', f, d + [s, fr], x)

    # ---- weeks
    for d in full:
        for c in week_cases(d):
            yield c
    ends = [[MIN_YEAR, o] for o in range(1, 15)] + [[MAX_YEAR, o] for o in range(ylen(MAX_YEAR) - 13, ylen(MAX_YEAR) + 1)]
    for d in ends + edges[::13]:
        for c in week_cases(d, ('d8.wfirstp', 'd8.wlastp', 'd8.wdaysp')):
            yield c

    # ---- n-th weekday of a month
    for y in lat_years + OTHER_YEARS + [MIN_YEAR - 1, MAX_YEAR + 1, I32_MIN, I32_MAX]:
        for m in list(range(0, 15)) + [U32_MAX, 255, 256]:
            for w in range(7):
                for n in (0, 1, 2, 3, 4, 5, 6, 7, 37, 128, 254, 255):
                    if m > 13 and n not in (0, 1, 255):
                        continue
                    yield case_line('d8.nthwd', y, m, w, n)
                    if (w + n) % 3 == 0:
                        yield case_line('d8.pnthwd', y, m, w, n)

    # ---- whole years elapsed
    bases = edge_days(2024)[::2] + edge_days(2023)[::4] + [[MIN_YEAR, 1], [MAX_YEAR, 365], [0, 60], [2000, 60]]
    for b in bases:
        y, o = b
        for dy in (-2, -1, 0, 1, 4, 5, 100):
            yy = y + dy
            if not MIN_YEAR <= yy <= MAX_YEAR:
                continue
            for oo in around([o, 59, 60, 61], (-1, 0, 1), lo=1, hi=ylen(yy)) + [1, ylen(yy)]:
                yield case_line('d8.years', [yy, oo], b)
                yield case_line('d8.years', b, [yy, oo])
    for a in ([MIN_YEAR, 1], [MAX_YEAR, 365], [MAX_YEAR, 1], [MIN_YEAR, 365]):
        for b in ([MIN_YEAR, 1], [MAX_YEAR, 365], [MAX_YEAR, 1], [MIN_YEAR, 365], [0, 1]):
            yield case_line('d8.years', a, b)
    for b in bases[::3]:
        y, o = b
        for off in (0, 3600, -3600, 86399, -86399):
            for sb, fb in ((0, 0), (43200, 500), (86399, 1999999999)):
                for dy in (0, 1, 3):
                    for do in (-1, 0, 1):
                        oo = o + do
                        yy = y + dy
                        if not (1 <= oo <= ylen(yy)) or not MIN_YEAR <= yy <= MAX_YEAR:
                            continue
                        for sa, fa in ((sb, fb), (max(sb - 1, 0), fb), (min(sb + 1, 86399), fb), (sb, max(fb - 1, 0)), (sb, fb + 1), (0, 0), (86399, 0)):
                            if fa >= 2000000000:
                                continue
                            yield case_line('d8.dtyears', [yy, oo, sa, fa, off], [y, o, sb, fb, off])
    # the ends of the representable range: wall clock beyond the last/first date
    for a in ([MAX_YEAR, 365, 86399, 0, 86399], [MAX_YEAR, 365, 3600, 0, 86399], [MIN_YEAR, 1, 0, 0, -86399], [MIN_YEAR, 1, 0, 0, 0]):
        for b in ([MAX_YEAR, 365, 86399, 0, 86399], [MIN_YEAR, 1, 0, 0, -86399], [2024, 60, 0, 0, 0], [MAX_YEAR - 1, 365, 86399, 0, 86399]):
            yield case_line('d8.dtyears', a, b)
            yield case_line('d8.dtyears', b, a)

    # ---- quarter, common-era year, month lengths
    for d in full + edges:
        yield case_line('d8.quarter', d)
        yield case_line('d8.dim', d)
    for d in edges[::3] + [[y, 1] for y in range(-3, 4)]:
        yield case_line('d8.yce', d)
    for m in range(0, 14):
        for y in around(lat_years + OTHER_YEARS + [I32_MIN, I32_MAX, MIN_YEAR - 400, MAX_YEAR + 400], (-1, 0, 1), lo=I32_MIN, hi=I32_MAX):
            yield case_line('d8.mdays', m, y)

    # ---- operator month stepping on naive date-times reaching / leaving the range; Months accessor
    for d in edge_days(MIN_YEAR)[::3] + edge_days(MAX_YEAR)[::3] + edge_days(2024)[::7]:
        y = d[0]
        s, f = rand_time(rng)
        for target in (MIN_YEAR, MAX_YEAR):
            for k in (-13, -12, -1, 0, 1, 11, 12, 13):
                n = abs((target - y) * 12 + k)
                if 0 <= n <= U32_MAX:
                    yield case_line('d8.ndt.opaddm', d + [s, f], n)
                    yield case_line('d8.ndt.opsubm', d + [s, f], n)
    for n in NS:
        yield case_line('d8.months_u32', n)
    # ---- provided Datelike methods on naive date-times
    for d in lat_edges + edges[len(lat_edges)::4] + [[y, 1] for y in range(-3, 4)]:
        s, f = rand_time(rng)
        yield case_line('d8.ndt.prov', d + [s, f])
    # ---- equality / hashing of weeks: same week through another member day or another first weekday,
    # neighbouring weeks, at both range ends
    for d in full[::5] + ends:
        y, o = d
        for w1 in range(7):
            for do in (0, 1, -1, 6, -6, 7, -7):
                oo = o + do
                if not 1 <= oo <= ylen(y):
                    continue
                yield case_line('d8.weq', d, w1, [y, oo], w1)
                yield case_line('d8.weq', d, w1, [y, oo], (w1 + 1 + (o % 6)) % 7)

    # ---- thorough: every day of one 400-year cycle, a rotating slice of the argument lists per day
    if thorough:
        k = 0
        for y in range(2000, 2400):
            for o in range(1, ylen(y) + 1):
                d = [y, o]
                k += 1
                for n in (1, 12, NS[k % len(NS)]):
                    yield case_line('d8.addm', d, n)
                    yield case_line('d8.subm', d, n)
                for f in FIELDS:
                    args = setter_args(f, y)
                    for j in range(3):
                        yield case_line('d8.with', f, d, args[(k * 3 + j) % len(args)])
                w = k % 7
                yield case_line('d8.wfirst', d, w)
                yield case_line('d8.wlast', d, (w + 3) % 7)
                yield case_line('d8.week', d, (w + 5) % 7)
                yield case_line('d8.quarter', d)
                yield case_line('d8.dim', d)
                yield case_line('d8.years', d, [2000 + (k * 7) % 400, 1 + (k * 13) % 365])

    # ---- random
    n = 40000 if not thorough else 600000
    for _ in range(n):
        r = rng.random()
        d = rand_date(rng)
        if r < 0.2:
            yield case_line(rng.choice(['d8.addm', 'd8.subm']), d, rand_n(rng))
        elif r < 0.55:
            f = rng.choice(FIELDS)
            args = setter_args(f, d[0])
            x = rng.choice(args) if rng.random() < 0.7 else (rng.randint(I32_MIN, I32_MAX) if f == 'year' else rng.randint(0, U32_MAX))
            if f == 'year' and rng.random() < 0.5:
                x = rng.randint(MIN_YEAR - 3, MAX_YEAR + 3)
            yield case_line('d8.with', f, d, x)
        elif r < 0.7:
            yield case_line(rng.choice(['d8.wfirst', 'd8.wlast', 'd8.week']), d, rng.randint(0, 6))
        elif r < 0.8:
            yield case_line('d8.nthwd', rng.choice([d[0], rng.randint(I32_MIN, I32_MAX)]), rng.choice([rng.randint(1, 12), rng.randint(0, 14)]), rng.randint(0, 6), rng.choice([1, 2, 3, 4, 5, 6, rng.randint(0, 255)]))
        elif r < 0.9:
            b = rand_date(rng)
            if rng.random() < 0.5:
                b = [min(max(d[0] + rng.randint(-3, 3), MIN_YEAR), MAX_YEAR), d[1] if d[1] < 365 else 1]
                b[1] = min(max(b[1] + rng.randint(-1, 1), 1), ylen(b[0]))
            yield case_line('d8.years', d, b)
        elif r < 0.95:
            b = [min(max(d[0] + rng.randint(-3, 3), MIN_YEAR), MAX_YEAR), d[1] if d[1] < 365 else 1]
            off = rand_off(rng)
            off2 = off if rng.random() < 0.8 else rand_off(rng)
            sa, fa = rand_time(rng)
            sb, fb = rand_time(rng) if rng.random() < 0.5 else (sa, fa)
            yield case_line('d8.dtyears', d + [sa, fa, off], b + [sb, fb, off2])
        elif r < 0.97:
            yield case_line(rng.choice(['d8.quarter', 'd8.yce', 'd8.dim']), d)
        elif r < 0.98:
            s_, f_ = rand_time(rng)
            if rng.random() < 0.6:
                yield case_line(rng.choice(['d8.ndt.opaddm', 'd8.ndt.opsubm']), d + [s_, f_], rand_n(rng))
            else:
                yield case_line('d8.ndt.prov', d + [s_, f_])
        else:
            b = [d[0], min(max(d[1] + rng.randint(-8, 8), 1), ylen(d[0]))] if rng.random() < 0.8 else rand_date(rng)
            yield case_line('d8.weq', d, rng.randint(0, 6), b, rng.randint(0, 6))
