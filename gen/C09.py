"""C09 case generator: values of the eight types on boundary lattices -- every year-shape class
(sign / digit count) x every day of the year, times with every fraction class and second 59/60,
offsets (all whole minutes in +-23:59, offsets with seconds, the range ends) -- through tx.show and
tx.rt in both forms; and a malformed stream for tx.parse: the printed forms and per-production
mutations of them (field widths, signs, separators, case, white space, Unicode, truncation)."""
from vcheck import case_line
from common import *

RULE = ('year-shape classes (-262143, -10000, -9999, -1000, -999, -1, 0, 1, 999, 1000, 9999, 10000, 99999, 262142, '
        '+-1 each) x all days of the year; times: second-of-day lattice x fraction classes (0, ms, us, ns, trailing '
        'zeros) x leap second on second 59 (in domain) and elsewhere (outside); offsets: all whole minutes in '
        '+-23:59 (thorough: all, quick: sampled) + offsets with seconds + range ends; date-times at both ends of '
        'the range with offsets pushing the wall clock across it; both forms; weekdays/months exhaustively; '
        'tx.parse: printed forms x mutations (digit count +-1, sign, separators, case, white space, Unicode, '
        'truncation, trailing text) + arbitrary UTF-8 strings; seeded random draws')

MINUS = '−'
ODD_CHARS = [' ', '\t', '\n', '0', '9', 'T', 't', 'Z', 'z', ':', '-', '+', '.', ',', 'a', 'U', 'u', 'é', '٠',
             '１', MINUS, '　', '\U0001f600', '\x00', '\x7f', '\u0080', '߿', 'ࠀ', '￿',
             '\U00010000', '\U0010ffff', ' ', ' ', '\u0085']
WDN = ['Mon', 'Tue', 'Wed', 'Thu', 'Fri', 'Sat', 'Sun']
WDL = ['Monday', 'Tuesday', 'Wednesday', 'Thursday', 'Friday', 'Saturday', 'Sunday']
MON = ['January', 'February', 'March', 'April', 'May', 'June', 'July', 'August', 'September', 'October',
       'November', 'December']

YMIN, YMAX = -262143, 262142
YEAR_CLASSES = [YMIN, -100000, -99999, -10000, -9999, -1000, -999, -100, -99, -10, -9, -1, 0, 1, 9, 10, 99, 100, 999,
                1000, 9999, 10000, 99999, 100000, YMAX]
KEY_YEARS = [YMIN, -10000, -9999, -1, 0, 1, 2000, 2023, 9999, 10000, YMAX]


def is_leap(y):
    return (y % 4 == 0 and y % 100 != 0) or y % 400 == 0


def ylen(y):
    return 366 if is_leap(y) else 365


def md(y, o):
    ml = [31, 29 if is_leap(y) else 28, 31, 30, 31, 30, 31, 31, 30, 31, 30, 31]
    m = 0
    while o > ml[m]:
        o -= ml[m]
        m += 1
    return m + 1, o


def years():
    out = []
    for y in YEAR_CLASSES:
        for d in (-1, 0, 1):
            if YMIN <= y + d <= YMAX and y + d not in out:
                out.append(y + d)
    return out


BOUND_ORD = [1, 2, 9, 10, 31, 32, 59, 60, 61, 100, 181, 182, 244, 274, 305, 335, 364, 365, 366]
FRACS = [0, 1, 9, 10, 100, 999, 1000, 1001, 10000, 999999, 1000000, 1000001, 10000000, 100000000, 120000000,
         123000000, 123400000, 123456000, 123456700, 123456789, 500000000, 999000000, 999999000, 999999999,
         1000, 5000000, 50000, 700]
SECS = [0, 1, 9, 10, 59, 60, 61, 119, 599, 600, 3599, 3600, 3601, 3659, 35999, 36000, 43199, 43200, 46799, 82799,
        82800, 86339, 86340, 86398, 86399]


def times(rng, n_rand=0):
    out = []
    for s in SECS:
        for f in FRACS:
            out.append([s, f])
            if s % 60 == 59:
                out.append([s, f + G])
    # leap fraction away from second 59 (outside the domain), and the extremes
    for s in (0, 58, 60, 86398):
        for f in (G, G + 1, G + 500000000, 2 * G - 1):
            out.append([s, f])
    for _ in range(n_rand):
        out.append(rand_time(rng))
    return out


def rand_time(rng):
    s = rng.choice([rng.randint(0, 86399), rng.randint(0, 1439) * 60 + 59, rng.choice(SECS)])
    k = rng.random()
    if k < 0.25:
        f = 0
    elif k < 0.45:
        f = rng.randint(0, 999) * 1000000
    elif k < 0.65:
        f = rng.randint(0, 999999) * 1000
    elif k < 0.9:
        f = rng.randint(0, G - 1)
    else:
        f = rng.choice(FRACS)
    if s % 60 == 59 and rng.random() < 0.3:
        f += G
    elif rng.random() < 0.02:
        f += G
    return [s, f]


def rand_date(rng):
    k = rng.random()
    if k < 0.4:
        y = rng.choice(years())
    elif k < 0.7:
        y = rng.randint(-10500, 10500)
    else:
        y = rng.randint(YMIN, YMAX)
    o = rng.choice([1, ylen(y), rng.randint(1, ylen(y)), rng.randint(1, ylen(y)), rng.choice(BOUND_ORD)])
    return [y, min(o, ylen(y))]


def minute_offsets():
    return [m * 60 for m in range(-1439, 1440)]


def rand_offset(rng):
    k = rng.random()
    if k < 0.75:
        return rng.randint(-1439, 1439) * 60
    if k < 0.85:
        return rng.choice([0, 3600, -3600, 19800, 20700, -34200, 86340, -86340, 43200, 50400, -43200, 60, -60, 35940])
    return rng.randint(-86399, 86399)


# ---- python renderings (only to build tx.parse inputs; the expected values come from the judge) ----
def year_s(y):
    if 0 <= y <= 9999:
        return '%04d' % y
    return ('-' if y < 0 else '+') + '%04d' % abs(y)


def date_s(y, o):
    m, d = md(y, o)
    return '%s-%02d-%02d' % (year_s(y), m, d)


def time_s(s, f):
    leap = f >= G
    sub = f - G if leap else f
    t = '%02d:%02d:%02d' % (s // 3600, s // 60 % 60, s % 60 + (1 if leap else 0))
    if sub == 0:
        return t
    if sub % 1000000 == 0:
        return t + '.%03d' % (sub // 1000000)
    if sub % 1000 == 0:
        return t + '.%06d' % (sub // 1000)
    return t + '.%09d' % sub


def off_s(off):
    a = abs(off)
    t = ('-' if off < 0 else '+') + '%02d:%02d' % (a // 3600, a // 60 % 60)
    if a % 60:
        t += ':%02d' % (a % 60)
    return t


def mutations(t, rng, exhaustive=False):
    out = []
    n = len(t)
    if n == 0:
        return [' ', '0']
    if exhaustive:
        for k in range(n):
            out.append(t[:k])
    else:
        out.append(t[:rng.randint(0, n - 1)])
    pos = range(n) if exhaustive else [rng.randint(0, n - 1) for _ in range(3)]
    for k in pos:
        out.append(t[:k] + t[k + 1:])
        out.append(t[:k] + t[k] + t[k:])
        c = rng.choice(ODD_CHARS)
        out.append(t[:k] + c + t[k + 1:])
        out.append(t[:k] + c + t[k:])
        out.append(t[:k] + ' ' + t[k:])
        out.append(t[:k] + '0' + t[k:])
        if t[k] in '+-':
            out.append(t[:k] + MINUS + t[k + 1:])
            out.append(t[:k] + ('+' if t[k] == '-' else '-') + t[k + 1:])
            out.append(t[:k] + t[k + 1:])
        if t[k] == ':':
            for c2 in ('.', ' ', '', '::', '：', ' : ', ':\t'):
                out.append(t[:k] + c2 + t[k + 1:])
        if t[k] == '.':
            for c2 in (',', ':', '', '..', ' .', '. '):
                out.append(t[:k] + c2 + t[k + 1:])
        if t[k] in ' T':
            for c2 in ('T', 't', ' ', '  ', '', '_', '\t', 'T ', ' T', '　', ' '):
                out.append(t[:k] + c2 + t[k + 1:])
        if t[k].isalpha():
            out.append(t[:k] + t[k].swapcase() + t[k + 1:])
    for c in ([' ', '\n', '0', 'Z', '+', 'é', '　', 'x'] if exhaustive else [rng.choice(ODD_CHARS), ' ']):
        out.append(c + t)
        out.append(t + c)
    out.append(t + t[-1])
    out.append(t.upper())
    out.append(t.lower())
    out.append(' ' + t + ' ')
    return out


def text_forms(ty, v):
    """python rendering of value v of type ty in both forms (and a few accepted variants)"""
    if ty == 0:
        return [date_s(*v)]
    if ty == 1:
        return [time_s(*v)]
    if ty == 2:
        return [date_s(v[0], v[1]) + 'T' + time_s(v[2], v[3]), date_s(v[0], v[1]) + ' ' + time_s(v[2], v[3])]
    if ty in (3, 4):
        # wall clock: only used for in-range walls (the generator avoids the range ends here)
        y, o, s, f, off = v
        t = s + off
        if t < 0:
            t += 86400
            o -= 1
            if o < 1:
                y -= 1
                o = ylen(y)
        elif t >= 86400:
            t -= 86400
            o += 1
            if o > ylen(y):
                y += 1
                o = 1
        d, tm = date_s(y, o), time_s(t, f)
        if ty == 4:
            return [d + 'T' + tm + 'Z', d + ' ' + tm + ' UTC', d + ' ' + tm + 'Z', d + 'T' + tm + '+00:00', d + 't' + tm + ' utc']
        z = off_s(off)
        return [d + 'T' + tm + z, d + ' ' + tm + ' ' + z, d + ' ' + tm + z.replace(':', ''), d + 'T' + tm + ' ' + z.replace(':', ' ')]
    if ty == 5:
        return [off_s(v), off_s(v).replace(':', ''), off_s(v).replace(':', ' ')]
    if ty == 6:
        return [WDN[v], WDL[v]]
    if ty == 7:
        return [MON[v - 1], MON[v - 1][:3]]
    return []


def emit_value(ty, v, forms=(0, 1)):
    for form in forms:
        yield case_line('tx.show', ty, form, v)
        yield case_line('tx.rt', ty, form, v)


def cases(tier, rng):
    quick = tier == 'quick'
    ys = years()
    # ---- NaiveDate: every year class x every day of the year (quick: key years all days, others boundary days)
    for y in ys:
        ords = range(1, ylen(y) + 1) if (not quick or y in KEY_YEARS) else [o for o in BOUND_ORD if o <= ylen(y)]
        for o in ords:
            yield from emit_value(0, [y, o], forms=(0, 1) if o in BOUND_ORD else (0,))
    # invalid date arguments
    for v in ([YMIN - 1, 1], [YMAX + 1, 1], [2023, 0], [2023, 366], [2024, 367], [2023], [2023, 1, 1], 5):
        yield case_line('tx.show', 0, 0, v)
        yield case_line('tx.rt', 0, 1, v)
    # ---- NaiveTime
    tl = times(rng, 500 if quick else 20000)
    for t in tl:
        yield from emit_value(1, t)
    for v in ([86400, 0], [0, 2 * G], [-1, 0], [0, -1], [0], 7):
        yield case_line('tx.show', 1, 0, v)
        yield case_line('tx.rt', 1, 1, v)
    # ---- NaiveDateTime: year classes x boundary days x a spread of times
    tsub = tl[::7] + [[86399, 999999999 + G], [86399, G], [59, G + 1000000]]
    for y in ys:
        for o in (1, 60, ylen(y)):
            for t in (tsub if not quick else tsub[::6]):
                yield from emit_value(2, [y, o] + t)
    # ---- DateTime<FixedOffset>
    offs_all = minute_offsets()
    offs = offs_all if not quick else sorted(set(rng.sample(offs_all, 400) + [0, 60, -60, 86340, -86340, 3600, -3600, 19800, -12600, 35940, -35940]))
    base_dt = [[2023, 1, 0, 0], [2023, 365, 86399, 999999999], [2024, 60, 43200, 500000000], [0, 1, 0, 0], [-1, 365, 86399, 1000],
               [9999, 365, 86399, 0], [10000, 1, 0, 0], [1, 1, 0, 123000000], [2016, 366, 86399, G + 500000000], [1972, 182, 86399, G]]
    for off in offs:
        for b in (base_dt if not quick else base_dt[:6] + base_dt[8:]):
            yield from emit_value(3, b + [off])
    # offsets with seconds (outside the domain), invalid offsets
    for off in (1, -1, 59, -59, 61, 3601, -3599, 19815, 86399, -86399, 30, 1800 + 15):
        for b in base_dt[:3]:
            yield from emit_value(3, b + [off])
    for off in (86400, -86400, 2**31 - 1, -2**31):
        yield case_line('tx.show', 3, 0, base_dt[0] + [off])
        yield case_line('tx.rt', 3, 1, base_dt[0] + [off])
    # both ends of the range, offsets pushing the wall clock across the year boundary and the range
    for (y, o) in ((YMAX, 365), (YMAX, 364), (YMIN, 1), (YMIN, 2), (9999, 365), (10000, 1), (-1, 365), (0, 1), (-10000, 1), (-9999, 1)):
        for s, f in ((0, 0), (1, 0), (3599, 0), (3600, 1000000), (43200, 0), (82800, 0), (86399, 999999999), (86399, G + 1), (86340, 0), (59, G)):
            for off in (0, 60, -60, 3600, -3600, 86340, -86340, 43200, -43200, 1, -1):
                yield from emit_value(3, [y, o, s, f, off])
            if (y, o) in ((YMAX, 365), (YMIN, 1), (9999, 365), (0, 1)):
                yield from emit_value(4, [y, o, s, f, 0])
    # ---- DateTime<Utc>
    for y in ys:
        for o in (1, 59, ylen(y)):
            for t in (tsub[::5] if quick else tsub[::2]):
                yield from emit_value(4, [y, o] + t + [0])
    yield case_line('tx.show', 4, 0, [2023, 1, 0, 0, 3600])
    yield case_line('tx.rt', 4, 1, [2023, 1, 0, 0, 60])
    # ---- FixedOffset: every whole minute, seconds, the ends
    for off in offs_all:
        yield from emit_value(5, off, forms=(0, 1) if off % 3600 == 0 else (0,))
    for off in (1, -1, 59, -59, 61, -61, 3601, 86399, -86399, 86400, -86400, 30, 19815, -19815, 2**31, -2**31 - 1):
        yield from emit_value(5, off)
    for _ in range(300 if quick else 20000):
        yield from emit_value(5, rng.randint(-86399, 86399), forms=(rng.randint(0, 1),))
    # ---- Weekday / Month
    for w in range(-1, 9):
        for form in (0, 1, 2, -1):
            yield case_line('tx.show', 6, form, w)
            yield case_line('tx.rt', 6, form, w)
    for m in range(-1, 15):
        for form in (0, 1, 2):
            yield case_line('tx.show', 7, form, m)
            yield case_line('tx.rt', 7, form, m)
    for ty in (-1, 8, 100):
        yield case_line('tx.show', ty, 0, 0)
        yield case_line('tx.rt', ty, 0, 0)
        yield case_line('tx.parse', ty, '0')
    # ---- tx.parse: printed forms, accepted variants, mutations
    seeds = []
    for y in (YMIN, -10000, -9999, -1, 0, 1, 999, 2023, 9999, 10000, 99999, YMAX):
        for o in (1, 60, ylen(y)):
            seeds.append((0, [y, o]))
    for t in tl[::9]:
        seeds.append((1, t))
    for y in (-10000, -1, 0, 2023, 9999, 10000, 262000):
        for t in tl[::41]:
            seeds.append((2, [y, 60] + t))
            seeds.append((3, [y, 60] + t + [rng.choice([0, 3600, -3600, 19800, -34200, 86340, -86340, 60, 1815])]))
            seeds.append((4, [y, 60] + t + [0]))
    for off in (0, 60, -60, 3600, -3600, 19800, -34200, 86340, -86340, 1815, -1, 35940):
        seeds.append((5, off))
    for w in range(7):
        seeds.append((6, w))
    for m in range(1, 13):
        seeds.append((7, m))
    for ty, v in seeds:
        forms = text_forms(ty, v)
        for t in forms:
            yield case_line('tx.parse', ty, t)
        ex = (not quick) or ty in (5, 6, 7) or rng.random() < 0.04
        for t in forms[:2]:
            for mt in mutations(t, rng, exhaustive=ex):
                yield case_line('tx.parse', ty, mt)
    # hand-picked shapes: optional seconds, relaxed white space, signs, widths, the doc examples
    hand = {
        0: ['2015-09-18', '+12345-6-7', 'foo', '', '2015-9-18', '2015 - 09 - 18', ' 2015-09-18', '2015-09-18 ', '02015-09-18', '12345-06-07',
            '+2015-09-18', '-2015-09-18', '-0-1-1', '+0000-01-01', '-0000-01-01', '2015-09-31', '2015-02-29', '2016-02-29', '2015-13-01',
            '2015-00-10', '2015-01-00', '2015-001-01', '2015-01-001', '+262142-12-31', '+262143-01-01', '-262143-01-01', '-262144-12-31',
            '+2147483647-01-01', '+2147483648-01-01', '-2147483648-01-01', '-2147483649-01-01', '+9223372036854775807-01-01',
            '+9223372036854775808-01-01', '-9223372036854775808-01-01', '2015−09−18', '2015-09-18T', '2015-09-18　', '　2015-09-18'],
        1: ['23:56:04', '23:56:4.012345678', '23:59:60.23456789', '23:56', 'foo', '', '23:56:', '23:56: 04', '23 : 56 : 04', '23:56:04 ', ' 23:56:04',
            '23:56:04.', '23:56:04.x', '23:56:04.1234567891', '23:56:60', '23:56:61', '24:00:00', '23:60:00', '7:8:9', '007:08:09', '23:56:004',
            '23:56 ', '23:56 x', '23:56:x', '23:56:04.5 ', '23:56:04 .5', '23:56:04.5x', '12:34:56.x', '12:34:5x', '12:34:56:78', '0:0', '00:00:60',
            '23:59:60', '23:59:60.999999999', '1:2:3.4', '12:34　', '12:34:56,5'],
        2: ['2015-09-18T23:56:04', '+12345-6-7T7:59:60.5', 'foo', '2012-12-12 12:12:12', '2012-12-12t12:12:12', '2015-09-18T23:56', '2015-09-18T23:56:04 ',
            '2015-09-18 T23:56:04', '2015-09-18T 23:56:04', '2015-09-18T23:56:04.123456789', '2015-09-18T23:56:04Z', '2015-09-18T23:59:60', '2015-02-30T00:00:00',
            '+262142-12-31T23:59:60.999999999', '-262143-01-01T00:00:00'],
        3: ['2012-12-12T12:12:12Z', '2012-12-12 12:12:12Z', '2012-  12-12T12:  12:12Z', '2012-12-12 12:12:12+0000', '2012-12-12 12:12:12+00:00', '2012-12-12 12:12:12 UTC',
            '2012-12-12 12:12:12 utc', '2012-12-12 12:12:12 UT', '2012-12-12 12:12:12 UTCx', '2012-12-12 12:12:12 UTC ', '2012-12-12T12:12:12', '2012-12-12T12:12:12 ',
            '2012-12-12T12:12:12+09', '2012-12-12T12:12:12+09:', '2012-12-12T12:12:12+09:3', '2012-12-12T12:12:12+09:30:15', '2012-12-12T12:12:12+24:00', '2012-12-12T12:12:12+23:60',
            '2012-12-12T12:12:12-00:00', '2012-12-12T12:12:12−09:30', '2012-12-12T12:12:12 +09 30', '2012-12-12T12:12:12z', '2012-12-12  12:12:12Z', '2012-12-12TT12:12:12Z',
            '+262143-01-01T00:30:00+01:00', '+262142-12-31T23:30:00-01:00', '-262144-12-31T23:30:00-01:00', '-262143-01-01T00:30:00+01:00', '+262142-12-31T23:59:59+00:00',
            '2012-12-12T12:12:60Z', '2012-12-12T12:12:60.5+00:30', '2012-12-12T23:59:60+00:01', '2012-12-12T12:12:12.Z', '2012-12-12T12:12:12.5 Z', '2012-12-12T12:12:12UTC+01:00'],
        5: ['+09:30', '-09:30', '+0930', '+09 30', '+09:30:15', '+09', '+09:', '09:30', 'Z', 'z', 'UTC', '+24:00', '+23:59', '-23:59', '+99:59', '+00:60', '−09:30',
            '+9:30', '+09:3', '', '+', '-', '+09:30 ', ' +09:30', '+09::30', '+09: :30', '+00:00', '-00:00', '+09:30x'],
        6: ['Mon', 'mon', 'MON', 'Monday', 'monday', 'Mond', 'Mo', 'M', '', 'Tues', 'Tuesday', 'Thur', 'Thurs', 'Thursday', 'Sun ', ' Sun', 'Sunday ', 'Wednesda', 'Wednesdayx', 'Saté', 'éSat'],
        7: ['January', 'Jan', 'jan', 'JANUARY', 'Janu', 'Ja', '', 'May', 'Mayy', 'Sept', 'September', 'Septembe', 'December ', ' December', 'Decé', 'Marz', 'Juni', 'Febr'],
    }
    hand[4] = hand[3]
    for ty, l in hand.items():
        for t in l:
            yield case_line('tx.parse', ty, t)
            if ty in (2, 3, 4) and not quick:
                for mt in mutations(t, rng, exhaustive=False):
                    yield case_line('tx.parse', ty, mt)
    # cross-type: every seed text through every reader (quick: sampled)
    for ty, v in seeds[::(9 if quick else 2)]:
        for t in text_forms(ty, v)[:2]:
            for ty2 in range(8):
                if ty2 != ty:
                    yield case_line('tx.parse', ty2, t)
    # arbitrary UTF-8 strings and non-UTF-8 bytes
    alphabet = list('0123456789-+:. TtZzUTCutc') + ODD_CHARS
    for _ in range(1500 if quick else 60000):
        n = rng.randint(0, 24)
        t = ''.join(rng.choice(alphabet) for _ in range(n))
        yield case_line('tx.parse', rng.randint(0, 7), t)
    for b in (b'\xff', b'2015-09-18\xc3', b'\xc3\x28', b'12:34\xe2\x88', b'\xed\xa0\x80', b'\xf4\x90\x80\x80', b'\xc0\x80'):
        for ty in range(8):
            yield case_line('tx.parse', ty, b)
    # ---- seeded random values
    n = 12000 if quick else 500000
    for _ in range(n):
        ty = rng.choice([0, 1, 2, 2, 3, 3, 3, 4, 4])
        form = rng.randint(0, 1)
        if ty == 0:
            v = rand_date(rng)
        elif ty == 1:
            v = rand_time(rng)
        elif ty == 2:
            v = rand_date(rng) + rand_time(rng)
        elif ty == 3:
            v = rand_date(rng) + rand_time(rng) + [rand_offset(rng)]
        else:
            v = rand_date(rng) + rand_time(rng) + [0]
        yield case_line(rng.choice(['tx.rt', 'tx.rt', 'tx.show']), ty, form, v)
