"""C06 case generator: durations as (secs, nanos) pairs around zero, one second, both range ends
(with the asymmetric MIN representation) and the i64 extremes; every op of the TimeDelta API."""
from vcheck import case_line
from common import *

RULE = ('structured lattice: (secs,nanos) boundary pairs x ops, all pairs of ~60 boundary durations for '
        'add/sub/cmp, multipliers/divisors {0,+-1,+-2,+-3,+-7,+-10^9,i32 extremes}, plus seeded random draws')

MAXS, MAXN = 9223372036854775, 807000000
MINS, MINN = -9223372036854776, 193000000


def valid(s, n):
    ns = s * G + n
    return 0 <= n < G and -(2**63 - 1) * 10**6 <= ns <= (2**63 - 1) * 10**6


def td_lattice():
    out = []
    for s in around([0, 1, -1, 59, 60, 86399, 86400, MAXS, MINS, MAXS // 2, MINS // 2, 4611686018427387, -4611686018427388, 2**31, -2**31, 9223372036, -9223372037]):
        for n in (0, 1, 999, 1000, 999999, 500000000, 999999999, MAXN - 1, MAXN, MAXN + 1, MINN - 1, MINN, MINN + 1, 100000000, 120000000):
            if valid(s, n):
                out.append([s, n])
    # durations whose nanosecond count sits at the i64 boundary (num_nanoseconds() Some / None edge:
    # a fast path through i64 nanoseconds meets i64::MIN / -1 exactly here)
    for ns in around([2**63 - 1, -2**63], (-1, 0, 1)):
        if [ns // G, ns % G] not in out:
            out.append([ns // G, ns % G])
    return out


def rand_td(rng):
    k = rng.random()
    if k < 0.3:
        s = rng.randint(-100, 100)
    elif k < 0.6:
        s = rng.randint(-10**9, 10**9)
    elif k < 0.9:
        s = rng.randint(MINS, MAXS)
    else:
        s = rng.choice([MINS, MAXS, MINS + 1, MAXS - 1, 0, -1])
    if rng.random() < 0.15:
        # a multiple of a unit (in the floor-seconds representation), give or take a second
        u = rng.choice([60, 3600, 86400, 604800])
        s = rng.randint(-2000, 2000) * u + rng.choice([-1, 0, 0, 1])
    n = rng.choice([0, 1, 999999999, 500000000, rng.randint(0, G - 1), rng.randint(0, G - 1), rng.randint(0, 999) * 1000000])
    if not valid(s, n):
        return [0, n]
    return [s, n]


def cases(tier, rng):
    lat = td_lattice()
    ks = around([0, 1, -1, 2, -2, 3, -3, 7, -7, 10, 1000, G, -G, I32_MAX, I32_MIN, 1000003, -65536], (0,)) + [I32_MIN + 1, I32_MAX - 1]
    # constructors
    for s in around([0, MAXS, MINS, I64_MAX, I64_MIN, 1, -1], lo=I64_MIN, hi=I64_MAX):
        for n in around([0, G, MAXN, MINN, U32_MAX, 2 * G], lo=0, hi=U32_MAX):
            yield case_line('td.new', s, n)
    units = {'td.weeks': 604800, 'td.days': 86400, 'td.hours': 3600, 'td.minutes': 60, 'td.seconds': 1}
    for op, per in units.items():
        for z in around([0, MAXS // per, MINS // per, -(MAXS // per), I64_MAX // per, I64_MIN // per, I64_MAX, I64_MIN, 1, -1], (-2, -1, 0, 1, 2), lo=I64_MIN, hi=I64_MAX):
            yield case_line(op, z)
            yield case_line(op.replace('td.', 'td.p'), z)     # the panicking constructor
    for z in around([0, MAXS * 1000, MINS * 1000, I64_MAX, I64_MIN, 999, -999], lo=I64_MIN, hi=I64_MAX):
        yield case_line('td.pmillis', z)
    for op in ('td.millis', 'td.micros', 'td.nanos'):
        for z in around([0, 1, -1, 999, 1000, -999, -1000, 10**6, -10**6, G, -G, I64_MAX, I64_MIN, -I64_MAX, 10**15 + 7, -10**15 - 7], lo=I64_MIN, hi=I64_MAX):
            yield case_line(op, z)
    # accessors at every unit boundary: +-k units, one second / one nanosecond either side (the
    # floor-seconds representation makes negative values just short of a unit multiple special)
    for u in (1, 60, 3600, 86400, 604800, 1000, 1000000):
        for k in (1, 2, 3, 7, 52, 1000):
            for sgn in (1, -1):
                for ds in (-1, 0, 1):
                    for nn in (0, 1, 500000000, G - 1):
                        s0 = sgn * k * u + ds
                        if valid(s0, nn):
                            for op in ('td.acc', 'td.neg', 'td.abs', 'td.tostd', 'td.disp'):
                                yield case_line(op, [s0, nn])
    # accessors, unary ops, display
    for d in lat:
        for op in ('td.acc', 'td.neg', 'td.abs', 'td.tostd', 'td.disp'):
            yield case_line(op, d)
    # binary ops over all pairs of a reduced lattice
    red = [d for i, d in enumerate(lat) if i % 5 == 0 or abs(d[0]) in (MAXS, -MINS, 0, 1)]
    red = red[:70]
    for a in red:
        for b in red:
            for op in ('td.add', 'td.sub', 'td.cmp'):
                yield case_line(op, a, b)
    for a in red[::3]:
        for b in red[::3]:
            for op in ('td.opadd', 'td.opsub', 'td.opaddasg', 'td.opsubasg'):
                yield case_line(op, a, b)
    for d in lat:
        for k in ks:
            yield case_line('td.mul', d, k)
            yield case_line('td.div', d, k)
    for d in red:
        for k in ks[::2]:
            yield case_line('td.opmul', d, k)
            yield case_line('td.opdiv', d, k)
    for s in around([0, MAXS, U64_MAX, I64_MAX, 2**63], lo=0, hi=U64_MAX):
        for n in (0, 1, MAXN - 1, MAXN, MAXN + 1, G - 1):
            yield case_line('td.fromstd', s, n)
    yield case_line('td.sum', [])
    for a in red[::7]:
        for b in red[::7]:
            yield case_line('td.sum', [a, b, [1, 0]])
            yield case_line('td.sumv', [a, b, [1, 0]])
    yield case_line('td.sumv', [])
    yield case_line('td.consts')
    # random
    n = 40000 if tier == 'quick' else 1500000
    ops2 = ['td.add', 'td.sub', 'td.cmp', 'td.opadd', 'td.opsub', 'td.opaddasg', 'td.opsubasg']
    opsk = ['td.mul', 'td.div', 'td.opmul', 'td.opdiv']
    ops1 = ['td.acc', 'td.neg', 'td.abs', 'td.tostd', 'td.disp']
    for _ in range(n):
        r = rng.random()
        if r < 0.35:
            yield case_line(rng.choice(ops2), rand_td(rng), rand_td(rng))
        elif r < 0.65:
            yield case_line(rng.choice(opsk), rand_td(rng), rand_i32(rng))
        elif r < 0.85:
            yield case_line(rng.choice(ops1), rand_td(rng))
        elif r < 0.9:
            yield case_line('td.new', rand_i64(rng), rng.choice([0, 1, G - 1, G, rng.randint(0, U32_MAX), rng.randint(0, G)]))
        elif r < 0.97:
            yield case_line(rng.choice(list(units) + ['td.millis', 'td.micros', 'td.nanos', 'td.pweeks', 'td.pdays',
                                       'td.phours', 'td.pminutes', 'td.pseconds', 'td.pmillis']), rand_i64(rng))
        else:
            yield case_line(rng.choice(['td.sum', 'td.sumv']), [rand_td(rng) for _ in range(rng.randint(0, 5))])
