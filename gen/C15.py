"""C15 case generator (cross-cutting): the union of all properties' ops plus the c15.* ops.

Four streams:
 A  owners' streams: every other property's generator (its quick tier) is loaded and sampled per op: the first
    OWNER_HEAD cases of every op -- the boundary lattices come first -- plus a seeded fraction of the rest
    (4 % quick, 50 % thorough; the owners' own checks run their full streams);
 B  extremes: for up to TEMPLATES distinct sample cases of EVERY op, every integer argument (top level and
    inside value tuples) is replaced by every integer extreme (i32/u32/i64/u64 MIN/MAX +-2, 0, +-1, 2^31,
    2^32, 2^63, ...), and every value tuple by the extreme values of every kind of its arity (dates /
    times / durations at the range ends, naive date-times and zone-aware date-times at MIN_UTC / MAX_UTC
    with offsets up to +-23:59:59);
 C  text: arbitrary Unicode for every parser (multi-byte characters at every position of well-formed
    texts, truncation at every character boundary, combining marks, NUL, Unicode white space, 10^4-byte
    strings) and arbitrary format strings for every op that takes one (every specifier x modifier,
    truncated specifiers, a multi-byte character after every prefix of a specifier, random valid UTF-8
    decoded from random bytes, 10^4-byte strings); every format string is also counted
    (sf.items, c15.itemcount, c15.sfparse, c15.sfowned; strict and lenient);
 D  the c15.* ops on their own lattices, and the inputs named in DESIGN.md section 8 / the task."""
import importlib.util
import json
import os
import random
import sys

from vcheck import case_line, parse_case
from common import *

HERE = os.path.dirname(os.path.abspath(__file__))
ROOT = os.path.dirname(HERE)

RULE = ('union stream: (A) per-op sample of every other property\'s generator (first 250 cases of each op + seeded fraction), '
        '(B) integer extremes {i32,u32,i64,u64 MIN/MAX +-2, 0, +-1, 2^31, 2^32, 2^63} in every integer position and '
        'range-end values of every kind in every value position of template cases of every op, '
        '(C) arbitrary Unicode texts and format strings (multi-byte at every position, truncation at every char boundary, '
        'truncated specifiers, random valid UTF-8, 10^4-byte strings) for every parser / formatter / item iterator, '
        '(D) c15.* lattices and the named regression inputs')

OWNERS = ['C01', 'C02', 'C03', 'C04', 'C06', 'C07', 'C08', 'C09', 'C10', 'C11', 'C12', 'C13', 'C14', 'C16', 'C17', 'C19']
# not sampled: C05 / C18 (Local zone, environment and clock dependent), d.range (checksummed sweeps with
# their own refine hook in C01)
SKIP_OPS = {'d.range'}
OWNER_HEAD = 250
OWNER_FRAC = {'quick': 0.04, 'thorough': 0.5}
TEMPLATES = 3

INT_EXTREMES = sorted(set(around([I32_MIN, I32_MAX, 0, U32_MAX, I64_MIN, I64_MAX, U64_MAX, 2**31, 2**32, 2**63],
                                 lo=I64_MIN - 2, hi=U64_MAX + 2) + [86399, 86400, -86399, -86400, 10**9, 2 * 10**9, 2 * 10**9 - 1,
                                                                   255, 256, 65535, 65536, 59, 60, 23, 24, 12, 13, 31, 32, 366, 367]))
NESTED_EXTREMES = [I32_MIN, I32_MAX, -1, 0, 1, U32_MAX, I64_MIN, I64_MAX, U64_MAX, 86399, 86400, 2 * 10**9 - 1, 2 * 10**9,
                   262142, 262143, -262143, -262144, 365, 366, 367]

MINY, MAXY = -262143, 262142
DATES_X = [[MINY, 1], [MINY, 2], [MINY, 365], [MAXY, 365], [MAXY, 364], [MAXY, 1], [0, 1], [0, 366], [1, 1], [-1, 365],
           [1970, 1], [2024, 60], [9999, 365], [10000, 1], [-1, 1], [-9999, 1]]
TIMES_X = [[0, 0], [0, 1], [86399, 0], [86399, 999999999], [86399, 1000000000], [86399, 1999999999], [59, 1999999999],
           [43200, 0], [86340, 1500000000], [1, 999999999]]
TD_MAXS, TD_MAXN = 9223372036854775, 807000000
TD_MINS, TD_MINN = -9223372036854776, 193000000
TDS_X = [[TD_MAXS, TD_MAXN], [TD_MINS, TD_MINN], [TD_MAXS, 0], [TD_MINS + 1, 0], [0, 0], [0, 1], [-1, 999999999], [1, 0], [-1, 0],
         [86400, 0], [-86400, 0], [86399, 999999999], [604800, 0], [3600, 0], [0, 1000], [0, 1000000], [2**31, 0], [-2**31, 0],
         [9223372036, 854775807], [-9223372037, 145224193], [TD_MAXS // 2, 0], [TD_MINS // 2, 0], [8334601228800 * 2, 0]]
NDTS_X = [d + t for d in DATES_X[:8] for t in TIMES_X[:6]]
OFFS_X = [0, 1, -1, 3600, -3600, 7200, -7200, 86399, -86399, 43200, -43200, 1800, 12600, 59, -59]
DTZS_X = [n + [o] for n in (NDTS_X[:6] + NDTS_X[18:24] + [[2020, 1, 0, 0], [0, 1, 0, 0], [9999, 365, 86399, 0], [10000, 1, 0, 0], [-1, 365, 86399, 0]])
          for o in OFFS_X]


# ------------------------------------------------------------------------------------------------
def load_owner(pid):
    path = os.path.join(HERE, pid + '.py')
    spec = importlib.util.spec_from_file_location('gen_owner_' + pid, path)
    mod = importlib.util.module_from_spec(spec)
    spec.loader.exec_module(mod)
    return mod


def owner_stream(tier, rng, templates):
    frac = OWNER_FRAC[tier]
    for pid in OWNERS:
        mod = load_owner(pid)
        sub = random.Random(rng.getrandbits(64))
        pick = random.Random(rng.getrandbits(64))
        seen = {}
        for line in mod.cases('quick', sub):
            op = line.split(' ', 1)[0]
            if op in SKIP_OPS:
                continue
            k = seen.get(op, 0)
            seen[op] = k + 1
            if len(line) < 400:
                t = templates.setdefault(op, [])
                # templates: the first case, then cases spread over the stream
                if len(t) < TEMPLATES and (k == 0 or (k % 97 == 0 and line not in t)):
                    t.append(line)
            if k < OWNER_HEAD or pick.random() < frac:
                yield line


def subst(v, path, new):
    if not path:
        return new
    out = list(v)
    out[path[0]] = subst(v[path[0]], path[1:], new)
    return out


def int_positions(v, path=()):
    """paths of the integers inside a (nested list) value, depth <= 2"""
    if isinstance(v, bool):
        return
    if isinstance(v, int):
        yield path
    elif isinstance(v, list) and len(path) < 2 and len(v) <= 8:
        for k, x in enumerate(v):
            for p in int_positions(x, path + (k,)):
                yield p


def tuple_positions(args):
    for k, a in enumerate(args):
        if isinstance(a, list) and a and all(isinstance(x, int) and not isinstance(x, bool) for x in a):
            yield k, len(a)


def extremes_stream(templates, rng):
    for op in sorted(templates):
        for line in templates[op]:
            try:
                _, args = parse_case(line)
            except Exception:
                continue
            for k, a in enumerate(args):
                for p in int_positions(a):
                    for e in (INT_EXTREMES if not p else NESTED_EXTREMES):
                        yield case_line(op, *(args[:k] + [subst(a, list(p), e)] + args[k + 1:]))
            for k, n in tuple_positions(args):
                pool = {2: DATES_X + TIMES_X + TDS_X, 4: NDTS_X, 5: DTZS_X}.get(n)
                if not pool:
                    continue
                for v in pool:
                    yield case_line(op, *(args[:k] + [v] + args[k + 1:]))
            # two value positions at their extremes together (binary ops at both range ends)
            tp = list(tuple_positions(args))
            if len(tp) >= 2:
                (k1, n1), (k2, n2) = tp[0], tp[1]
                p1 = {2: DATES_X[:4] + TIMES_X[:4] + TDS_X[:4], 4: NDTS_X[:3] + NDTS_X[18:21], 5: DTZS_X[::9]}.get(n1, [])
                p2 = {2: DATES_X[:4] + TIMES_X[:4] + TDS_X[:4], 4: NDTS_X[:3] + NDTS_X[18:21], 5: DTZS_X[::9]}.get(n2, [])
                for v in p1:
                    for w in p2:
                        a2 = list(args)
                        a2[k1] = v
                        a2[k2] = w
                        yield case_line(op, *a2)


# ------------------------------------------------------------------------------------------------
# text
SPEC_LETTERS = list('YCyqmbBhdeaAwuUWGgVjDxFvHkIlPpMSfRTXrZzcs+tn%') + ['.f', '.3f', '.6f', '.9f', '3f', '6f', '9f', ':z', '::z', ':::z', '#z']
MODS = ['', '-', '_', '0']
TRUNCATED = ['%', '%-', '%_', '%0', '%#', '%:', '%::', '%:::', '%.', '%.3', '%.6', '%.9', '%3', '%6', '%9', '%-:', '%#:', '%::::', '%.1', '%1']
MULTI = ['é', 'ß', '中', '\U0001f63d', 'é', '́', ' ', '　', ' ', '\x00', '\u0085', '﻿', '\U0010ffff', '߿', 'ࠀ', '￿']
LITS = ['a', ':', '-', ' ', '\t', '\n', 'T', 'Z', '%%', '1', '9', '+', '.', ',', '/'] + MULTI

GOOD_TEXTS = {
    'r3': ['2020-01-01T00:00:00Z', '1996-12-19T16:39:57-08:00', '2015-02-18T23:16:09.153+00:00', '9999-12-31T23:59:60.999999999+23:59',
           '0000-01-01t00:00:00z', '2020-02-30T00:00:00Z', '+262142-12-31T23:59:59Z', '2020-01-01 00:00:00 +01:00'],
    'r2': ['Tue, 1 Jul 2003 10:52:37 +0200', 'Wed, 18 Feb 2015 23:16:09 GMT', '1 Jan 70 00:00 EST', 'Fri, 31 Dec 9999 23:59:60 -0000',
           'Thu, 22 Mar 2012 14:53:18 +0000 (UTC (nested) \\) x)', 'Mon, 1 Jan 0000 00:00:00 Z', 'Sun, 06 Nov 94 08:49:37 GMT'],
    'tx0': ['2020-01-01', '+262142-12-31', '-262143-01-01', '0-1-1', '2020-02-30', '  2020-1-9'],
    'tx1': ['00:00:00', '23:59:60.999999999', '12:34', '9:9:9', '23:59:59.5'],
    'tx2': ['2020-01-01T00:00:00', '2015-09-18T23:56:04', '+262142-12-31T23:59:60.999999999', '2020-01-01 00:00:00'],
    'tx3': ['2020-01-01T00:00:00Z', '2015-02-18 23:16:09 UTC', '2014-11-28T21:00:09+09:00', '2015-02-18T23:59:60.234567+05:00',
            '-262143-01-01T00:00:00+23:59', '2020-01-01T00:00:00 +00:00'],
    'tx5': ['+09:00', '-0530', '+00:00:00', 'Z', '+23:59', '-24:00', '+9', '−05:00'],
    'tx6': ['Mon', 'monday', 'SUNDAY', 'tues', 'Thu', 'thursday', 'sat', 'wednesda'],
    'tx7': ['Jan', 'january', 'SEPTEMBER', 'sept', 'may', 'Decembe', 'mar'],
}
PARSE_FMTS = {
    0: ['%Y-%m-%d', '%F', '%D', '%x', '%v', '%A, %d %B %Y', '%G-W%V-%u', '%Y%j', '%C%y%m%d', '%e %b %Y', '%Y-%U-%w'],
    1: ['%H:%M:%S', '%T', '%R', '%X', '%r', '%I:%M:%S%.f %p', '%H%M%S%.3f', '%l:%M %P', '%H:%M:%S%.f', '%k%M'],
    2: ['%Y-%m-%dT%H:%M:%S', '%c', '%s', '%Y-%m-%d %H:%M:%S%.f', '%F %T', '%s%.f', '%d/%m/%y %I%p', '%Y%m%d%H%M%S%9f'],
    3: ['%+', '%Y-%m-%dT%H:%M:%S%z', '%c %z', '%s %:z', '%a, %d %b %Y %H:%M:%S %z', '%F %T%.f %#z', '%Y-%m-%d %H:%M:%S %::z', '%s%:::z', '%FT%T%Z%z'],
}
PARSE_TEXTS = {
    0: ['2020-01-01', '01/02/20', '1-Jan-2020', 'Wednesday, 01 January 2020', '2020-W01-3', '2020366', '20200101', ' 1 Jan 2020', '2020-00-3',
        '+262142-12-31', '-262143-01-01', '99999-01-01'],
    1: ['00:00:00', '23:59:60', '12:34', '11:59:59 PM', '11:59:59.5 am', '235959.999', ' 1:05 pm', '23:59:59.999999999', '2359'],
    2: ['2020-01-01T00:00:00', 'Wed Jan  1 00:00:00 2020', '1577836800', '2020-01-01 00:00:00.5', '-8334601228800', '8210266876799',
        '9223372036854775807', '-9223372036854775808', '01/01/20 12AM', '20200101000000123456789'],
    3: ['2020-01-01T00:00:00+00:00', '2020-01-01T00:00:00Z', '2020-01-01T00:00:00+0000', 'Wed Jan  1 00:00:00 2020 +0000', '1577836800 +09:30',
        'Wed, 01 Jan 2020 00:00:00 +0000', '2020-01-01 00:00:00.5 +09', '2020-01-01 00:00:00 +09:30:15', '0+00:00:00',
        '2020-01-01T00:00:00UTC+0000', '+262142-12-31T23:59:59-23:59', '-262143-01-01T00:00:00+23:59'],
}


# (specifier, value kind, (format, text) before, (format, text) after, tokens): name-like items whose scanners
# compare bytes case-insensitively and then slice by the matched length
TOKEN_ITEMS = [
    ('%p', 1, ('%I:%M ', '11:59 '), ('', ''), ['am', 'PM', 'Am', 'pm']),
    ('%P', 1, ('%I:%M ', '01:00 '), ('', ''), ['am', 'pm', 'AM']),
    ('%p', 1, ('', ''), (' %I', ' 11'), ['am', 'pm']),
    ('%a', 0, ('', ''), (' %Y-%m-%d', ' 2020-01-01'), ['Wed', 'wed', 'WED', 'Wednesday']),
    ('%A', 0, ('', ''), (' %Y-%m-%d', ' 2020-01-01'), ['Wednesday', 'Wed', 'wednesday', 'Thu']),
    ('%b', 0, ('%Y %d ', '2020 01 '), ('', ''), ['Jan', 'jan', 'JAN', 'January', 'May', 'Sept']),
    ('%B', 0, ('%Y %d ', '2020 01 '), ('', ''), ['January', 'september', 'May', 'Dec']),
    ('%h', 0, ('%Y %d ', '2020 01 '), ('', ''), ['Feb', 'mar']),
    ('%z', 3, ('%Y-%m-%dT%H:%M:%S', '2020-01-01T00:00:00'), ('', ''), ['+0930', '-09:30', 'Z', 'z', '+09', 'UTC', '−05:00']),
    ('%:z', 3, ('%Y-%m-%dT%H:%M:%S', '2020-01-01T00:00:00'), ('', ''), ['+09:30', '-0930', '+09 : 30']),
    ('%#z', 3, ('%Y-%m-%dT%H:%M:%S', '2020-01-01T00:00:00'), ('', ''), ['+09', '+0930', '-09:30']),
    ('%Z', 3, ('%Y-%m-%dT%H:%M:%S%z ', '2020-01-01T00:00:00+0000 '), ('', ''), ['UTC', 'CEST', 'utc']),
    ('%+', 3, ('', ''), ('', ''), ['2020-01-01T00:00:00Z', '2020-01-01t00:00:00+09:30']),
    ('%.f', 1, ('%H:%M:%S', '23:59:59'), ('', ''), ['.5', '.123456789', '.']),
    ('%3f', 1, ('%H:%M:%S', '23:59:59'), ('', ''), ['123', '12']),
    ('%c', 2, ('', ''), ('', ''), ['Wed Jan  1 00:00:00 2020']),
    ('%v', 0, ('', ''), ('', ''), [' 1-Jan-2020']),
    ('%r', 1, ('', ''), ('', ''), ['11:59:59 PM', '11:59:59 am']),
]


def b(s):
    return s.encode('utf-8')


def char_boundaries(s):
    return range(len(s) + 1)


def text_mutations(s, rng, full):
    """multi-byte characters at every position, truncation at every character boundary, deletions"""
    yield s
    for i in char_boundaries(s):
        yield s[:i]
        yield s[i:]
        for m in (MULTI if full else rng.sample(MULTI, 3)):
            yield s[:i] + m + s[i:]
            if i < len(s):
                yield s[:i] + m + s[i + 1:]
    for i in range(len(s)):
        yield s[:i] + s[i + 1:]


def rand_unicode(rng, n):
    out = []
    for _ in range(n):
        k = rng.random()
        if k < 0.25:
            out.append(rng.choice('0123456789'))
        elif k < 0.45:
            out.append(rng.choice(' \t\n:-+./,TZzWwaApPmM%'))
        elif k < 0.6:
            out.append(chr(rng.randint(0x20, 0x7e)))
        elif k < 0.7:
            out.append(rng.choice(MULTI))
        elif k < 0.8:
            out.append(chr(rng.randint(0x80, 0x7ff)))
        elif k < 0.9:
            c = rng.randint(0x800, 0xffff)
            out.append(chr(c) if not 0xd800 <= c <= 0xdfff else '�')
        elif k < 0.97:
            out.append(chr(rng.randint(0x10000, 0x10ffff)))
        else:
            out.append(chr(rng.randint(0, 0x1f)))
    return ''.join(out)


def rand_utf8_from_bytes(rng, n):
    """random bytes, invalid sequences dropped: an arbitrary valid UTF-8 string"""
    raw = bytes(rng.choice([rng.randint(0, 255), rng.randint(0, 127), 0x25, rng.randint(0xc2, 0xf4), rng.randint(0x80, 0xbf)]) for _ in range(n))
    return raw.decode('utf-8', 'ignore')


def rand_fmt(rng):
    n = rng.choice([1, 1, 2, 3, 4, 6, 10])
    out = []
    for _ in range(n):
        k = rng.random()
        if k < 0.45:
            out.append('%' + rng.choice(MODS) + rng.choice(SPEC_LETTERS))
        elif k < 0.6:
            out.append(rng.choice(LITS))
        elif k < 0.7:
            out.append(rng.choice(TRUNCATED))
        elif k < 0.8:
            out.append(rng.choice(TRUNCATED) + rng.choice(MULTI))
        elif k < 0.9:
            out.append('%' + rng.choice(MODS) + chr(rng.randint(0x21, 0x7e)))
        else:
            out.append(rand_unicode(rng, rng.randint(1, 4)))
    return ''.join(out)


def format_strings(tier, rng):
    """the format strings of stream C (as str)"""
    out = []
    for m in MODS:
        for sp in SPEC_LETTERS:
            out.append('%' + m + sp)
    out += TRUNCATED
    for t in TRUNCATED:
        for mb in MULTI:
            out.append(t + mb)
            out.append(t + mb + 'Y')
    for t in TRUNCATED:
        out.append('%Y' + t)
        out.append(t + ' %Y')
        out.append('é' + t)
    out += ['', '%%', '%%%', '%c%c', '%c' * 40, '%+%+', '%D%T%F%R%r%x%X%v', 'é%Yé', '%\x00', '\x00', '%%%Q', '%Y%Q%m', '%-', '%-Y%-',
            '%é%Y', '% Y', '%\n', '%\t%Y', '100%', '%::::z', '%:::::z', '%#:z', '%.10f', '%33f', '%.3', '%.3 f', '%.f.', '%..f']
    # 10^4-byte strings
    # (the model's item list / output text are built by list appends: the number of ITEMS is kept below 10^4)
    out += ['%c' * 600 + 'a' * 8800, 'é' * 5000, '%' * 10000, '%Y-%m-%d ' * 1111, '%-' * 5000, '\U0001f63d' * 2500, ' ' * 10000, '%:' * 5000,
            'a' * 9999 + '%', '%.3' * 3333, '%é' * 3333, 'a' * 8800 + '%+%c' * 300]
    n = 3000 if tier == 'quick' else 20000
    for _ in range(n):
        k = rng.random()
        if k < 0.6:
            out.append(rand_fmt(rng))
        elif k < 0.8:
            out.append(rand_utf8_from_bytes(rng, rng.choice([1, 2, 3, 5, 8, 16, 40])))
        else:
            out.append(rand_unicode(rng, rng.choice([1, 2, 3, 6, 12])))
    if tier != 'quick':
        out.append(rand_utf8_from_bytes(rng, 20000))
        out.append(rand_unicode(rng, 4000))
    return out


VALUES = {
    0: [[2020, 1], [MINY, 1], [MAXY, 365], [-1, 365], [0, 1], [9999, 365], [10000, 1], [2024, 60]],
    1: [[0, 0], [86399, 999999999], [86399, 1999999999], [43200, 500000000], [3661, 1]],
    2: [[2020, 1, 0, 0], [MINY, 1, 0, 0], [MAXY, 365, 86399, 999999999], [MAXY, 365, 86399, 1999999999], [1969, 365, 86399, 0], [-1, 365, 1, 1]],
    3: [[2020, 1, 0, 0, 0], [MINY, 1, 0, 0, -86399], [MAXY, 365, 86399, 999999999, 86399], [MAXY, 365, 86399, 0, 7200], [MINY, 1, 0, 0, -7200],
        [2020, 1, 0, 0, 34230], [-1, 365, 86399, 0, 1], [9999, 365, 86399, 1999999999, 3600]],
    4: [[2020, 1, 0, 0], [MINY, 1, 0, 0], [MAXY, 365, 86399, 1999999999]],
}


def text_stream(tier, rng):
    full = tier != 'quick'
    fmts = format_strings(tier, rng)
    long_fmt = [f for f in fmts if len(f) > 2000]
    # (3) item counting for every format string
    for f in fmts:
        for l in (0, 1):
            yield case_line('sf.items', b(f), l)
            yield case_line('c15.itemcount', b(f), l)
            if len(f) <= 2000 or l == 0:
                yield case_line('c15.sfparse', b(f), l)
        yield case_line('c15.sfowned', b(f), rng.randint(0, 1))
    # formatting every value kind with every format string
    for i, f in enumerate(fmts):
        if len(f) > 2000 and i % 3:
            continue
        for kind in range(5):
            vs = VALUES[kind]
            v = vs[i % len(vs)]
            op = ('sf.fmt', 'sf.fmtl', 'c15.writeto', 'c15.writeto', 'fp.fmt')[(i + kind) % 5]
            if op == 'c15.writeto':
                yield case_line(op, kind, v, b(f), (i // 5) % 2)
            elif op == 'fp.fmt':
                if kind < 4:
                    yield case_line(op, kind, v, b(f))
            else:
                yield case_line(op, kind, v, b(f))
        kind = i % 4
        v = VALUES[kind][(i // 4) % len(VALUES[kind])]
        if len(f) <= 2000:
            yield case_line('fp.rt', kind, v, b(f))
            yield case_line('fp.rem', kind, v, b(f), b(rng.choice(MULTI + ['', 'x', '1', ' '])))
    # parsers with a format string: arbitrary text x arbitrary format
    short = [f for f in fmts if len(f) <= 64]
    for kind in range(4):
        for f in PARSE_FMTS[kind]:
            for t in PARSE_TEXTS[kind]:
                yield case_line('fp.parse', kind, b(t), b(f))
                yield case_line('c15.rem', kind, b(t), b(f))
        for t in PARSE_TEXTS[kind]:
            muts = list(text_mutations(t, rng, full))
            if not full:
                muts = muts[:1] + rng.sample(muts, min(len(muts), 40))
            for f in (PARSE_FMTS[kind] if full else rng.sample(PARSE_FMTS[kind], 3)):
                for m in muts:
                    yield case_line('c15.rem', kind, b(m), b(f))
                    yield case_line('fp.parse', kind, b(m), b(f))
    # byte-index slicing only after an ASCII match (scan.rs names / offsets, parse.rs AM/PM): every prefix of every
    # token of a name-like item, continued or cut short by a multi-byte character
    for spec, kind, lead, trail, tokens in TOKEN_ITEMS:
        for tok in tokens:
            for k in range(len(tok) + 1):
                for m in MULTI:
                    for text in (tok[:k] + m, tok[:k] + m + tok[k + 1:], tok[:k] + m + tok[k:]):
                        yield case_line('c15.rem', kind, b(lead[1] + text + trail[1]), b(lead[0] + spec + trail[0]))
                    yield case_line('fp.parse', kind, b(lead[1] + tok[:k] + m + trail[1]), b(lead[0] + spec + trail[0]))
    n = 6000 if tier == 'quick' else 40000
    for _ in range(n):
        kind = rng.randint(0, 3)
        f = rng.choice(short) if rng.random() < 0.6 else rng.choice(PARSE_FMTS[kind])
        k = rng.random()
        if k < 0.4:
            t = rng.choice(PARSE_TEXTS[kind])
            i = rng.randint(0, len(t))
            t = t[:i] + rng.choice(MULTI + ['', '9', ' ', '-', '+']) + t[i + rng.randint(0, 1):]
        elif k < 0.7:
            t = rand_unicode(rng, rng.choice([0, 1, 2, 4, 8, 20]))
        else:
            t = rand_utf8_from_bytes(rng, rng.choice([1, 3, 8, 24]))
        yield case_line(rng.choice(['c15.rem', 'fp.parse']), kind, b(t), b(f))
    # 10^4-byte texts
    big = ['9' * 10000, ' ' * 10000, 'é' * 5000, '2020-01-01' + ' ' * 9990, '2020-01-01' + '　' * 3000, '+' + '0' * 9999, '(' * 10000]
    for t in big:
        for kind in range(4):
            yield case_line('c15.rem', kind, b(t), b(PARSE_FMTS[kind][0]))
            yield case_line('fp.parse', kind, b(t), b(PARSE_FMTS[kind][0] + ' '))
        yield case_line('r3.parse', b(t))
        yield case_line('r2.parse', b(t))
        for ty in range(8):
            yield case_line('tx.parse', ty, b(t))
    for f in long_fmt[:4]:
        yield case_line('fp.parse', 0, b('2020-01-01'), b(f))
    # parsers without a format string
    for key, op, pre in (('r3', 'r3.parse', ()), ('r2', 'r2.parse', ()), ('tx0', 'tx.parse', (0,)), ('tx1', 'tx.parse', (1,)),
                         ('tx2', 'tx.parse', (2,)), ('tx3', 'tx.parse', (3,)), ('tx3', 'tx.parse', (4,)), ('tx5', 'tx.parse', (5,)),
                         ('tx6', 'tx.parse', (6,)), ('tx7', 'tx.parse', (7,)), ('tx6', 'wd.parse', ()), ('tx7', 'mo.parse', ())):
        for t in GOOD_TEXTS[key]:
            muts = list(text_mutations(t, rng, full))
            if not full:
                muts = muts[:1] + rng.sample(muts, min(len(muts), 60))
            for m in muts:
                yield case_line(op, *(list(pre) + [b(m)]))
        for _ in range(300 if tier == 'quick' else 3000):
            t = rand_unicode(rng, rng.choice([0, 1, 2, 3, 5, 10, 30])) if rng.random() < 0.6 else rand_utf8_from_bytes(rng, rng.choice([1, 2, 4, 9, 30]))
            yield case_line(op, *(list(pre) + [b(t)]))
    # explicit item lists with arbitrary text
    items_pool = [[0, b('é')], [0, b('-')], [1, b(' ')], [1, b('　')], [4]] + [[2, k, p] for k in range(21) for p in range(3)] + \
                 [[3, k] for k in list(range(19)) + [100, 101, 102, 103]]
    for _ in range(4000 if tier == 'quick' else 30000):
        items = [rng.choice(items_pool) for _ in range(rng.choice([0, 1, 1, 2, 3, 5]))]
        kind = rng.randint(0, 3)
        k = rng.random()
        if k < 0.5:
            t = rng.choice(PARSE_TEXTS[kind])
            i = rng.randint(0, len(t))
            t = t[:i] + rng.choice(MULTI + ['']) + t[i:]
        else:
            t = rand_unicode(rng, rng.choice([0, 1, 3, 8]))
        yield case_line('c15.prem', b(t), items)
        yield case_line('fp.iparse', kind, b(t), items)


# ------------------------------------------------------------------------------------------------
def own_stream(tier, rng):
    u32x = around([0, 23, 24, 59, 60, 61, 999, 1000, 1999, 2000, 999999, 10**6, 1999999, 2 * 10**6, 10**9 - 1, 10**9, 2 * 10**9 - 1, 2 * 10**9,
                   2**31, U32_MAX], (-1, 0, 1), lo=0, hi=U32_MAX)
    dates = DATES_X[:6] + [[2020, 1]]
    for d in dates:
        for h in (0, 23, 24, U32_MAX):
            for m in (0, 59, 60, U32_MAX):
                for s in (0, 59, 60, U32_MAX):
                    yield case_line('c15.d.hms', d, h, m, s)
        for x in u32x:
            for (h, m, s) in ((23, 59, 59), (0, 0, 0), (23, 59, 60), (12, 30, 58), (24, 0, 0), (U32_MAX, U32_MAX, U32_MAX)):
                yield case_line('c15.d.hmsm', d, h, m, s, x)
                yield case_line('c15.d.hmsu', d, h, m, s, x)
                yield case_line('c15.d.hmsn', d, h, m, s, x)
    offs = around([0, 86399, -86399, 86400, -86400, 3600, -3600, I32_MIN, I32_MAX, 43200], (-1, 0, 1), lo=I32_MIN, hi=I32_MAX)
    ndts = NDTS_X + [[2020, 1, 0, 0], [2020, 1, 86399, 1999999999], [MINY, 2, 0, 0], [MAXY, 364, 86399, 0]]
    for n in ndts:
        for o in offs:
            for op in ('c15.ndt.addoff', 'c15.ndt.suboff', 'c15.ndt.andtz'):
                yield case_line(op, n, o)
            yield case_line('c15.offlocal', o, n)
        for f in (7, 8, 9, 10):
            for x in u32x[::2] + [U32_MAX]:
                yield case_line('c15.ndt.witht', f, n, x)
    for t in ([], [0], [I64_MIN], [I64_MAX], [1, 2], [I64_MIN, I64_MAX], [I64_MAX, I64_MIN], [0, 0]):
        yield case_line('c15.mlt', t)
    # Display / Debug of the error types (every value of every type; out-of-domain selectors are BADARGS on both sides),
    # Debug of IsoWeek (range ends, the 0 / 9999 / 10000 / -1 year boundaries, ISO years that differ from the calendar year)
    # and of WeekdaySet (all 128 sets)
    for w in range(-1, 11):
        for v in range(-1, 9):
            yield case_line('c15.errtext', w, v)
    for d in DATES_X + [[0, 2], [9999, 362], [9999, 363], [10000, 2], [-1, 362], [2020, 366], [2021, 1], [2021, 3], [2021, 4], [2018, 365],
                        [2019, 1], [MINY, 3], [MAXY, 363], [999, 1], [1000, 1], [99, 200], [-10000, 1], [100000, 100]]:
        yield case_line('c15.isoweek.dbg', d)
    for _ in range(300 if tier == 'quick' else 5000):
        y = rng.choice([rng.randint(MINY, MAXY), rng.randint(-20, 10020), rng.randint(1900, 2100)])
        yield case_line('c15.isoweek.dbg', [y, rng.choice([1, 2, 3, 4, 5, 6, 7, 359, 360, 361, 362, 363, 364, 365, rng.randint(1, 365)])])
    for bits in range(-2, 131):
        yield case_line('c15.wdset.dbg', bits)
    # named inputs (DESIGN.md section 8, task list): all must return by value
    yield case_line('d.isoywd', I32_MIN, 1, 0)
    yield case_line('d.isoywd', I32_MAX, 53, 6)
    for sf in range(5):
        for z in (0, 1):
            for v in DTZS_X:
                yield case_line('r3.write', v, sf, z)
                yield case_line('r3.rt', v, sf, z)
    for v in DTZS_X:
        yield case_line('r3.show', v)
        yield case_line('z.withtime', v, [43200, 0])
        yield case_line('z.withtime', v, [86399, 1999999999])
        for td in TDS_X:
            for op in ('rd.ztrunc', 'rd.zround', 'rd.zup', 'ar.zadd', 'ar.zsub'):
                yield case_line(op, v, td)
        for n in (0, 1, 2, 365, 366, 2**31, U32_MAX, U64_MAX, 2**63, I64_MAX):
            for sg in (1, -1):
                yield case_line('z.days', v, sg, n)
                yield case_line('ar.zdays', v, sg, n)
                if n <= U32_MAX:
                    yield case_line('z.months', v, sg, n)
    for n in NDTS_X:
        for td in TDS_X:
            for op in ('rd.trunc', 'rd.round', 'rd.up', 'ar.nadd', 'ar.nsub'):
                yield case_line(op, n, td)
    for d in DATES_X:
        for n in (0, 1, 12, 2**31 - 1, 2**31, U32_MAX):
            yield case_line('d8.addm', d, n)
            yield case_line('d8.subm', d, n)
        for n in (0, 1, 2**31, U32_MAX, 2**63, U64_MAX):
            yield case_line('ar.dadd', d, n)
            yield case_line('ar.dsub', d, n)
    for s in around([I32_MIN, I32_MAX, 0, 86399, -86399, 86400, -86400], lo=I32_MIN, hi=I32_MAX):
        yield case_line('z.east', s)
        yield case_line('z.west', s)
    for x in around([I64_MIN, I64_MAX, 0], lo=I64_MIN, hi=I64_MAX):
        for op in ('ts.fromms', 'ts.fromus', 'ts.fromns', 'ts.naive_ms', 'ts.naive_us', 'ts.naive_ns', 'td.weeks', 'td.days', 'td.hours',
                   'td.minutes', 'td.seconds', 'td.millis', 'td.micros', 'td.nanos'):
            yield case_line(op, x)
        for nn in (0, 999999999, 10**9, U32_MAX):
            yield case_line('ts.from', x, nn)
            yield case_line('ts.naive_opt', x, nn)
            yield case_line('td.new', x, nn)
            for o in (0, 86399, -86399):
                yield case_line('ts.tz', o, x, nn)
    for o in (0, 1, -1, 86399, -86399):
        for y in (I32_MIN, I32_MAX, MINY, MAXY, MINY - 1, MAXY + 1, 0):
            for (mo, dd) in ((1, 1), (12, 31), (2, 29), (0, 0), (U32_MAX, U32_MAX), (13, 1)):
                for (h, mi, s) in ((0, 0, 0), (23, 59, 59), (23, 59, 60), (24, 0, 0), (U32_MAX, U32_MAX, U32_MAX)):
                    yield case_line('z.ymdhms', o, y, mo, dd, h, mi, s)
    # Parsed with the minimum timestamp and second 60 (fixed: dd0e5ce)
    for off in (0, 1, -1, 86399, -86399, I32_MIN, I32_MAX):
        for ts in (-8334601228800, 8210266876799, I64_MIN, I64_MAX, 0):
            yield case_line('pz.resolve', 2, [[20, ts], [18, 60]], off)
            yield case_line('pz.resolve', 2, [[20, ts], [18, 59], [19, 999999999]], off)


def cases(tier, rng):
    templates = {}
    out = list(owner_stream(tier, rng, templates))
    own = list(own_stream(tier, rng))
    for l in own:
        out.append(l)
        op = l.split(' ', 1)[0]
        t = templates.setdefault(op, [])
        if len(t) < 1 and len(l) < 400:
            t.append(l)
    out += extremes_stream(templates, rng)
    out += text_stream(tier, rng)
    # the runners shard the stream into contiguous chunks: spread the expensive (long text) cases evenly
    random.Random(rng.getrandbits(64)).shuffle(out)
    return out


def extra_coverage():
    """coverage.inventory of the evidence: the fallible public entry points found in the Rust sources now,
    and the ops / theorems that cover each (gen/C15_inventory.json)."""
    sys.path.insert(0, os.path.join(ROOT, 'tools'))
    import c15_inventory
    table = json.load(open(os.path.join(HERE, 'C15_inventory.json')))
    repo = os.environ.get('VERIF_REPO', '/repo')
    return {'inventory': c15_inventory.report(repo, table)}
