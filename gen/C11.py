"""C11 case generator: RFC 2822 date-time strings generated from fields (current and obsolete forms:
optional day of week, 1-2 digit day, month names in any case, years of 2 / 3 / 4 / 5+ digits around
every boundary of the year-length rule, optional seconds incl. :60, numeric / named / military zones,
runs of folding white space, nested comments with escapes and multi-byte text), semantically invalid
field values, per-production mutations, byte-level mutations, arbitrary (valid UTF-8) text; date-time
values on a boundary lattice for the writer, every expected writer text fed back to the reader, and
the composed round trip.

`python3 gen/C11.py --validate [n]` runs the *spec validation* of DESIGN.md section 2.5: grammar
strings of the common sub-language are read by CPython's email.utils.parsedate_to_datetime and the
result is judged by the extracted Coq judge (ocaml/build/C11/modelrun judge); differences are
printed (they are differences between two readings of the RFC, not findings about chrono)."""
import os
import sys

if __name__ == '__main__':
    sys.path.insert(0, os.path.join(os.path.dirname(os.path.abspath(__file__)), '..', 'tools'))
    sys.path.insert(0, os.path.dirname(os.path.abspath(__file__)))
from vcheck import case_line
from common import *

RULE = ('grammar-generated RFC 2822 strings from field lattices (day of week none/right/wrong, day 0..32 with '
        'and without leading zero, 12 month names x case mixtures, years 00/49/50/99, 000/099/100/999, 0000..9999, '
        '5+ digits up to the library range, hours/minutes/seconds incl. 24/60/61 and omitted seconds, numeric zones '
        'incl. -0000/+2359/+2400/+9959/+0060, UT GMT Z EST..PDT in any case, 25 military letters, J, unknown names) '
        'x white-space runs (SP, HTAB, CRLF folding, Unicode spaces) x trailing comments (nesting depth <= 6 and deeper, '
        'escapes, multi-byte text, unbalanced) x per-production mutations (comma, colons, digit counts, separators, '
        'comments between tokens) x byte-level mutations (delete/insert/replace/duplicate at every position, all '
        'prefixes) + arbitrary Unicode strings; writer: boundary lattice of (year, ordinal, second, nanosecond incl. '
        'leap, offset) for to_rfc2822, the RFC2822 formatting item and the composed round trip, all expected texts '
        'parsed back; seeded random draws')

DAYN = ['Mon', 'Tue', 'Wed', 'Thu', 'Fri', 'Sat', 'Sun']
MONN = ['Jan', 'Feb', 'Mar', 'Apr', 'May', 'Jun', 'Jul', 'Aug', 'Sep', 'Oct', 'Nov', 'Dec']
LONG_DAYN = ['Monday', 'Tuesday', 'Wednesday', 'Thursday', 'Friday', 'Saturday', 'Sunday']
LONG_MONN = ['January', 'February', 'March', 'April', 'May', 'June', 'July', 'August', 'September', 'October',
             'November', 'December']
ZONE_NAMES = {'UT': 0, 'GMT': 0, 'EST': -5, 'EDT': -4, 'CST': -6, 'CDT': -5, 'MST': -7, 'MDT': -6, 'PST': -8, 'PDT': -7}
MILITARY = [c for c in 'ABCDEFGHIKLMNOPQRSTUVWXYZ']
UNKNOWN_ZONES = ['J', 'j', 'UTC', 'Zulu', 'ZULU', 'HAS', 'CET', 'EEST', 'AKST', 'GMTX', 'UTX', 'ZZ', 'AA', 'Jz']
WS1 = [' ', ' ', ' ', ' ', '  ', '\t', ' \t', '\t ', '   ', '\r\n ', '\r\n\t', ' \r\n ', ' \r\n \r\n ', '\t\t', '      ']
WS_ODD = ['\n', '\r', '\r\n', '\n ', ' \n', '\x0b', '\x0c', ' ', ' ', '　', ' ', '\u0085', '   ', '​', '﻿']
ODD_CHARS = [' ', '\t', '\n', '0', '9', ':', '-', '+', '.', ',', '(', ')', '\\', 'a', 'Z', 'é', '٠', '１', '−', '　',
             '\U0001f600', '\x00', '\x7f', '\u0080', '߿', 'ࠀ', '￿', '\U00010000', '\U0010ffff']
CTEXT = ['', 'a', 'UTC', 'Newfoundland Time', ' ', '\t', ' x ', '123', ',;:+-', 'é', '日本', '\U0001f600', ' ', '\r\n ', 'A wonderful',
         '+0000', 'GMT', '"', "'", '<>', '@', '\x7f', '\x01']
ESCAPED = ['(', ')', '\\', 'a', ' ', 'é', '日', '\U0001f600', '0', '\t']


def is_leap(y):
    return (y % 4 == 0 and y % 100 != 0) or y % 400 == 0


def dim(y, m):
    return [31, 29 if is_leap(y) else 28, 31, 30, 31, 30, 31, 31, 30, 31, 30, 31][m - 1]


def days_before_year(y):
    p = y - 1
    return 365 * p + p // 4 - p // 100 + p // 400


def ordinal(y, m, d):
    return sum(dim(y, k) for k in range(1, m)) + d


def weekday(y, m, d):
    return (days_before_year(y) + ordinal(y, m, d) - 1) % 7


def valid_yo(y, o):
    return 1 <= o <= (366 if is_leap(y) else 365)


def ymd_of(y, o):
    m = 1
    while o > dim(y, m):
        o -= dim(y, m)
        m += 1
    return m, o


def yo_of_dn(n):
    y = n // 366
    while days_before_year(y + 1) < n:
        y += 1
    while days_before_year(y) >= n:
        y -= 1
    return y, n - days_before_year(y)


def year_value(ystr):
    v = int(ystr)
    if len(ystr) == 2:
        return v + (2000 if v <= 49 else 1900)
    if len(ystr) == 3:
        return v + 1900
    return v


def mixcase(s, rng):
    k = rng.random()
    if k < 0.55:
        return s
    if k < 0.7:
        return s.upper()
    if k < 0.85:
        return s.lower()
    return ''.join(c.upper() if rng.random() < 0.5 else c.lower() for c in s)


def gen_comment(rng, depth=1, maxdepth=6):
    items = []
    for _ in range(rng.choice([0, 1, 1, 2, 3, 4])):
        k = rng.random()
        if k < 0.45:
            items.append(rng.choice(CTEXT))
        elif k < 0.65:
            items.append('\\' + rng.choice(ESCAPED))
        elif depth < maxdepth:
            items.append(gen_comment(rng, depth + 1, maxdepth))
    return '(' + ''.join(items) + ')'


def gen_comments(rng):
    k = rng.random()
    if k < 0.55:
        return ''
    out = ''
    for _ in range(rng.choice([1, 1, 1, 2, 3])):
        out += rng.choice(['', ' ', ' ', '  ', '\t', '\r\n ']) + gen_comment(rng)
    return out


YEAR_STRS = ['00', '01', '24', '48', '49', '50', '51', '69', '70', '99', '000', '001', '049', '050', '099', '100', '124', '999',
             '0000', '0001', '0049', '0050', '0099', '0100', '0999', '1000', '1582', '1899', '1900', '1969', '1970', '1999',
             '2000', '2015', '2024', '2049', '2050', '2100', '9998', '9999', '02024', '00099', '00049', '10000', '12345',
             '99999', '262142', '262143', '262144', '999999', '0000002024', '2147483647', '2147483648', '9223372036854775807',
             '9223372036854775808', '99999999999999999999']
NUM_ZONES = ['+0000', '-0000', '+0100', '-0100', '+0200', '-0800', '+0530', '-0330', '+0545', '+1200', '-1200', '+1400', '+2359',
             '-2359', '+2400', '-2400', '+9959', '-9959', '+0059', '+0060', '+0099', '-0060', '+0001', '-0001', '+1234', '-1234']


def rand_fields(rng, valid_bias=0.85):
    """returns dict of string pieces + the semantic values"""
    k = rng.random()
    if k < 0.55:
        ystr = '%04d' % rng.choice([1900, 1970, 1999, 2000, 2015, 2024, rng.randint(0, 9999), rng.randint(1900, 2100)])
    elif k < 0.7:
        ystr = '%02d' % rng.randint(0, 99)
    elif k < 0.8:
        ystr = '%03d' % rng.randint(0, 999)
    else:
        ystr = rng.choice(YEAR_STRS)
    y = year_value(ystr)
    if rng.random() < valid_bias:
        mo = rng.randint(1, 12)
        dmax = dim(y, mo)
        d = rng.choice([1, 2, 9, 10, 28, dmax, rng.randint(1, dmax)])
        h = rng.choice([0, 1, 11, 12, 13, 23, rng.randint(0, 23)])
        mi = rng.choice([0, 1, 30, 59, rng.randint(0, 59)])
        s = rng.choice([None, None, 0, 1, 30, 58, 59, 59, 60, rng.randint(0, 59)])
    else:
        mo = rng.randint(1, 12)
        d = rng.choice([0, 1, 28, 29, 30, 31, 32, 99, rng.randint(0, 99)])
        h = rng.choice([0, 23, 24, 25, 99, rng.randint(0, 99)])
        mi = rng.choice([0, 59, 60, 61, 99, rng.randint(0, 99)])
        s = rng.choice([None, 0, 59, 60, 61, 62, 99, rng.randint(0, 99)])
    dstr = ('%d' % d) if rng.random() < 0.5 else ('%02d' % d)
    k = rng.random()
    if k < 0.5:
        zone = rng.choice(NUM_ZONES) if rng.random() < 0.5 else '%s%02d%02d' % (rng.choice('+-'), rng.randint(0, 23), rng.randint(0, 59))
    elif k < 0.75:
        zone = mixcase(rng.choice(list(ZONE_NAMES)), rng)
    elif k < 0.92:
        zone = mixcase(rng.choice(MILITARY), rng)
    else:
        zone = rng.choice(UNKNOWN_ZONES)
    k = rng.random()
    wd = None
    if k < 0.6:
        try:
            wd = weekday(y, mo, d) if 1 <= d <= dim(y, mo) and -10**6 < y < 10**6 else rng.randint(0, 6)
        except Exception:
            wd = rng.randint(0, 6)
        if rng.random() < 0.12:
            wd = (wd + rng.randint(1, 6)) % 7
    return dict(wd=wd, dstr=dstr, mo=mo, ystr=ystr, h=h, mi=mi, s=s, zone=zone)


def render(f, rng, ws=None, comments=None, **over):
    """over: replacement strings for the separators / tokens (per-production mutations)"""
    w1 = (lambda: rng.choice(WS1)) if ws is None else (lambda: ws)
    g = dict(f)
    g.update(over)
    lead = over.get('lead', rng.choice(['', '', '', ' ', '\t', '\r\n ']) if ws is None else '')
    out = lead
    if g['wd'] is not None:
        name = over.get('wdname', mixcase(DAYN[g['wd']], rng))
        out += name + over.get('comma', ',') + over.get('aftercomma', rng.choice(['', ' ', ' ', ' ', '  ', '\t', '\r\n ']) if ws is None else ws)
    out += g['dstr'] + over.get('sep1', w1())
    out += over.get('moname', mixcase(MONN[g['mo'] - 1], rng)) + over.get('sep2', w1())
    out += g['ystr'] + over.get('sep3', w1())
    colon = (lambda: ':' if rng.random() < 0.85 else rng.choice([' :', ': ', ' : ', '\t:', ':\r\n ', '  :  '])) if ws is None else (lambda: ':')
    out += over.get('hstr', '%02d' % g['h']) + over.get('colon1', colon()) + over.get('mistr', '%02d' % g['mi'])
    if g['s'] is not None:
        out += over.get('colon2', colon()) + over.get('sstr', '%02d' % g['s'])
    out += over.get('sep4', w1()) + g['zone']
    out += gen_comments(rng) if comments is None else comments
    return out


def production_mutations(f, rng):
    """mutations of single productions of the grammar (most leave the claimed grammar)"""
    out = []
    R = lambda **kw: out.append(render(f, rng, ws=' ', comments='', **kw))
    if f['wd'] is not None:
        for kw in (dict(comma=''), dict(comma=' ,'), dict(comma=';'), dict(comma=',,'), dict(comma='.'), dict(wdname=LONG_DAYN[f['wd']]),
                   dict(wdname=DAYN[f['wd']][:2]), dict(wdname=DAYN[f['wd']] + 'x'), dict(wdname='Xyz'), dict(wdname='Di'),
                   dict(wdname=DAYN[(f['wd'] + 1) % 7]), dict(wdname=DAYN[(f['wd'] + 6) % 7]), dict(aftercomma=''), dict(aftercomma=' '),
                   dict(wdname=DAYN[f['wd']] + ' '), dict(wdname='(c)' + DAYN[f['wd']]), dict(comma=',(c)')):
            R(**kw)
    for kw in (dict(dstr=''), dict(dstr='0' + f['dstr']), dict(dstr=f['dstr'] + '0'), dict(dstr='+' + f['dstr']), dict(dstr='-1'),
               dict(dstr='1st'), dict(sep1=''), dict(sep1='-'), dict(sep1='(c)'), dict(sep1=' (c) '), dict(sep1=' '), dict(sep1='\n'),
               dict(moname=LONG_MONN[f['mo'] - 1]), dict(moname='%02d' % f['mo']), dict(moname=MONN[f['mo'] - 1][:2]),
               dict(moname=MONN[f['mo'] - 1] + '.'), dict(moname='Avr'), dict(moname='Mär'), dict(sep2=''), dict(sep2='-'), dict(sep2=' (c) '),
               dict(ystr=f['ystr'][:1]), dict(ystr='+' + f['ystr']), dict(ystr='-' + f['ystr']), dict(ystr=f['ystr'] + 'x'), dict(ystr="'" + f['ystr'][-2:]),
               dict(ystr=''), dict(sep3=''), dict(sep3='T'), dict(sep3=' (c) '), dict(sep3=','), dict(sep3=' at '),
               dict(hstr='%d' % (f['h'] % 10)), dict(hstr='0%02d' % f['h']), dict(hstr=' %02d' % f['h']), dict(colon1=' :'), dict(colon1=': '),
               dict(colon1=' : '), dict(colon1='.'), dict(colon1=''), dict(colon1='::'), dict(colon1='：'), dict(colon1=':(c)'),
               dict(mistr='%d' % (f['mi'] % 10)), dict(mistr='%03d' % f['mi']), dict(sep4=''), dict(sep4='(c)'), dict(sep4=' (c) '), dict(sep4=' '),
               dict(zone=''), dict(zone=f['zone'] + ' '), dict(zone=f['zone'] + '\t'), dict(zone=f['zone'] + 'x'), dict(zone=f['zone'] + '0')):
        R(**kw)
    if f['s'] is not None:
        for kw in (dict(colon2=' :'), dict(colon2=': '), dict(colon2=' : '), dict(colon2='.'), dict(colon2=''), dict(colon2=':('),
                   dict(sstr='%d' % (f['s'] % 10)), dict(sstr='%03d' % f['s']), dict(sstr='%02d.5' % f['s']), dict(sstr='%02d,5' % f['s']),
                   dict(sstr='%02d:00' % f['s']), dict(sstr=''), dict(sstr='6０')):
            R(**kw)
    z = f['zone']
    if z[:1] in '+-':
        for zz in (z[:3] + ':' + z[3:], z[:3], z[:4], z + '0', z[1:], '−' + z[1:], '±' + z[1:], z[0] + ' ' + z[1:], z[0] + z, 'GMT' + z, z + 'GMT',
                   z[0] + 'ab' + z[3:], z[:3] + '６０', 'Z', '+' + z[1:], '-' + z[1:]):
            R(zone=zz)
    else:
        for zz in (z + z, z.lower(), z.upper(), z + '+0000', z[:1], z + '.', '"' + z + '"', '(' + z + ')'):
            R(zone=zz)
    # comments: malformed / misplaced
    base = render(f, rng, ws=' ', comments='')
    for c in ('(', ')', '()', ' ()', '() ', ' () ', '(()', '())', '(\\)', '(\\))', '(\\\\)', '(\\', ' (a)(b)', ' (a) (b)', '(a)x', ' x', ' ', '\t', '\r\n',
              ' (' * 6 + ')' * 6, '(' * 7 + ')' * 7, '(' * 40 + ')' * 40, '(' * 7 + ')' * 6, ' (é\\é(日本)\\()', ' (\U0001f600\\\U0001f600)', '(\\é)',
              ' (a\r\n b)', ' (a)', '　(a)', ' (a) (b)', ' [a]', ' (a))', ' ((a)', '(a', 'a)', ' (\\(\\))', ' (\\()', ' (a\\)'):
        out.append(base + c)
    return out


def byte_mutations(t, rng, exhaustive=False):
    out = []
    n = len(t)
    if n == 0:
        return out
    if exhaustive:
        for k in range(n):
            out.append(t[:k])
    else:
        out.append(t[:rng.randint(0, n - 1)])
    pos = range(n) if exhaustive else [rng.randint(0, n - 1) for _ in range(2)]
    for k in pos:
        out.append(t[:k] + t[k + 1:])
        out.append(t[:k] + t[k] + t[k:])
        c = rng.choice(ODD_CHARS)
        out.append(t[:k] + c + t[k + 1:])
        out.append(t[:k] + c + t[k:])
        if t[k] == ' ':
            out.append(t[:k] + rng.choice(WS_ODD) + t[k + 1:])
        if t[k].isalpha():
            out.append(t[:k] + t[k].swapcase() + t[k + 1:])
        if t[k].isdigit():
            out.append(t[:k] + str((int(t[k]) + 1) % 10) + t[k + 1:])
    for c in ([' ', '\n', '0', 'Z', '+', 'é', '　', '(', ')'] if exhaustive else [rng.choice(ODD_CHARS)]):
        out.append(c + t)
        out.append(t + c)
    out.append(t.upper())
    out.append(t.lower())
    return out


# ---- writer side ------------------------------------------------------------------------------
def expected_text(v):
    """independent python rendering of the property's expected writer output (None outside the domain)"""
    y, o, secs, frac, off = v
    if off % 60 != 0:
        return None
    t = secs + off
    dn = days_before_year(y) + o + t // 86400
    ly, lo = yo_of_dn(dn)
    if not 0 <= ly <= 9999:
        return None
    ls = t % 86400
    leap = frac >= G
    if leap and secs % 60 != 59:
        return None
    m, d = ymd_of(ly, lo)
    a = abs(off)
    return '%s, %d %s %04d %02d:%02d:%02d %s%02d%02d' % (DAYN[(dn - 1) % 7], d, MONN[m - 1], ly, ls // 3600, ls // 60 % 60,
                                                       ls % 60 + (1 if leap else 0), '-' if off < 0 else '+', a // 3600, a // 60 % 60)


W_YEARS = [-262143, -10000, -2, -1, 0, 1, 4, 99, 100, 400, 1582, 1899, 1900, 1949, 1950, 1970, 1999, 2000, 2024, 2049, 2050, 9998, 9999, 10000,
           10001, 262142]
W_SECS = [0, 1, 59, 60, 3599, 3600, 43199, 43200, 86340, 86398, 86399]
W_FRACS = [0, 1, 999999999, 500000000, G, G + 1, G + 999999999]
W_OFFS = [0, 60, -60, 3600, -3600, 19800, -12600, 43200, -43200, 50400, 86340, -86340, 86399, -86399, 1, -1, 30, -30, 59, 3601, 29, -29]


def rand_value(rng):
    k = rng.random()
    if k < 0.6:
        y = rng.choice([0, 1, 1970, 2000, 2024, 9999, rng.randint(0, 9999), rng.randint(0, 9999)])
    elif k < 0.9:
        y = rng.choice(W_YEARS)
    else:
        y = rng.randint(-262143, 262142)
    o = rng.choice([1, 2, 59, 60, 61, 365, 366, rng.randint(1, 365)])
    if not valid_yo(y, o):
        o = 365
    secs = rng.choice(W_SECS + [rng.randint(0, 86399)] * 4)
    frac = rng.choice(W_FRACS + [rng.randint(0, G - 1)] * 3)
    if frac >= G and rng.random() < 0.85:
        secs = secs // 60 * 60 + 59
    if rng.random() < 0.8:
        off = rng.choice([0, 0, rng.randint(-1439, 1439) * 60, rng.randint(-1439, 1439) * 60, 3600, -18000])
    else:
        off = rng.choice(W_OFFS + [rng.randint(-86399, 86399)])
    return [y, o, secs, frac, off]


DOCS = ['Tue, 1 Jul 2003 10:52:37 +0200', 'Wed, 18 Feb 2015 23:16:09 GMT', 'Tue, 20 Jan 2015 17:35:20 -0800', 'Fri,  2 Jan 2015 17:35:20 -0800',
        'Fri, 02 Jan 2015 17:35:20 -0800', 'Tue, 20 Jan 2015 17:35:20 -0800 (UTC)',
        'Tue, 20 Jan 2015 17:35:20 -0800 ( (UTC ) (\\( (a)\\(( \t ) ) \\\\( \\) ))', 'Tue, 20 Jan 2015 17:35:20 -0800 (UTC\\)',
        'Tue, 20 Jan 2015 17:35:20 -0800 (UTC)\t \r\n(Anothercomment)', 'Tue, 20 Jan 2015 17:35:20 -0800 (UTC) ', '20 Jan 2015 17:35:20 -0800',
        '20 JAN 2015 17:35:20 -0800', 'Tue, 20 Jan 2015 17:35 -0800', '11 Sep 2001 09:45:00 +0000', '11 Sep 2001 09:45:00 EST', '11 Sep 2001 09:45:00 GMT',
        '30 Feb 2015 17:35:20 -0800', 'Tue, 20 Jan 2015', 'Tue, 20 Avr 2015 17:35:20 -0800', 'Tue, 20 Jan 2015 25:35:20 -0800',
        'Tue, 20 Jan 2015 7:35:20 -0800', 'Tue, 20 Jan 2015 17:65:20 -0800', 'Tue, 20 Jan 2015 17:35:90 -0800', 'Tue, 20 Jan 2015 17:35:20 -0890',
        '6 Jun 1944 04:00:00Z', 'Tue, 20 Jan 2015 17:35:20 Z', 'Tue, 20 Jan 2015 17:35:20 J', 'Tue, 20 Jan 2015 17:35:20 Zulu',
        'Tue, 20 Jan 2015 17:35:20 −0800', 'Tue, 20 Jan 2015 17:35:20 0800', 'Tue, 20 Jan 2015 17:35:20 HAS', 'Tue, 20 Jan 2015😈17:35:20 -0800',
        # RFC 2822 appendix A examples
        'Fri, 21 Nov 1997 09:55:06 -0600', 'Tue, 1 Jul 2003 10:52:37 +0200', 'Thu, 13 Feb 1969 23:32:54 -0330', 'Mon, 24 Nov 1997 14:22:01 -0800',
        'Thu,\r\n      13\r\n        Feb\r\n          1969\r\n      23:32\r\n               -0330 (Newfoundland Time)', '21 Nov 97 09:55:06 GMT',
        'Fri, 21 Nov 1997 09(comment):   55  :  06 -0600', 'Sat, 31 Dec 2016 23:59:60 +0000', 'Wed, 31 Dec 2008 23:59:60 -0000',
        '1 Jan 00 00:00 UT', '1 Jan 49 00:00 UT', '1 Jan 50 00:00 UT', '1 Jan 99 00:00 UT', '1 Jan 000 00:00 UT', '1 Jan 100 00:00 UT', '1 Jan 999 00:00 UT',
        '1 Jan 0000 00:00 UT', '1 Jan 0099 00:00 UT', '31 Dec 9999 23:59:60 -2359', '1 Jan 0000 00:00:00 +2359', '1 Jan 10000 00:00:00 +0000',
        '31 Dec 262142 23:59:59 +0000', '31 Dec 262142 23:59:59 -0001', '1 Jan 262143 00:00:00 +0000', '', ' ', 'Mon', 'Mon,', ',', '1', '1 Jan', '1 Jan 2000',
        '1 Jan 2000 00', '1 Jan 2000 00:', '1 Jan 2000 00:00', '1 Jan 2000 00:00 ', '1 Jan 2000 00:00 +', '1 Jan 2000 00:00 +0', '1 Jan 2000 00:00 +00',
        '1 Jan 2000 00:00 +000', '1 Jan 2000 00:00:', '1 Jan 2000 00:00:0', '1 Jan 2000 00:00: 00 +0000', '1 Jan 2000 00:00 :00 +0000',
        '1 Jan 2000 00 : 00 : 00 +0000', '1 Jan 2000 00 :00 +0000', '1 Jan 2000 00: 00 +0000', 'Sat , 1 Jan 2000 00:00 +0000', 'Sat,1 Jan 2000 00:00 +0000']


def cases(tier, rng):
    quick = tier == 'quick'
    for t in DOCS:
        yield case_line('r2.parse', t)
    # ---- exhaustive single-edit neighbourhood of a few representatives
    reps = ['Tue, 1 Jul 2003 10:52:37 +0200', '21 nov 97 09:55 gmt', 'SAT,\r\n 31 DEC 049 23:59:60\tz (a(b\\)c)d)', '1 Jan 0000 00:00:00 -0000 ()(())']
    for t in reps:
        yield case_line('r2.parse', t)
        for m in byte_mutations(t, rng, exhaustive=True):
            yield case_line('r2.parse', m)
    # ---- field lattices
    base = dict(wd=None, dstr='15', mo=6, ystr='2024', h=12, mi=30, s=15, zone='+0000')
    fixed = lambda **kw: render(dict(base, **kw), rng, ws=' ', comments='')
    for ystr in YEAR_STRS:
        for z in ('+0000', '-2359', '+2359'):
            yield case_line('r2.parse', fixed(ystr=ystr, dstr='1', mo=1, h=0, mi=0, s=0, zone=z))
            yield case_line('r2.parse', fixed(ystr=ystr, dstr='31', mo=12, h=23, mi=59, s=60, zone=z))
    for yv in range(0, 100):
        yield case_line('r2.parse', fixed(ystr='%02d' % yv))
        yield case_line('r2.parse', fixed(ystr='%03d' % yv))
        yield case_line('r2.parse', fixed(ystr='%04d' % yv))
        yield case_line('r2.parse', fixed(ystr='%03d' % (yv * 10 + 9)))
    for y in (1900, 2000, 2023, 2024, 99, 100):
        for mo in range(1, 13):
            for d in (0, 1, 9, 10, 28, 29, 30, 31, 32):
                for ds in ('%d' % d, '%02d' % d):
                    yield case_line('r2.parse', fixed(ystr='%04d' % y, mo=mo, dstr=ds))
                    if 1 <= d <= dim(y, mo):
                        for wd in range(7):
                            yield case_line('r2.parse', fixed(ystr='%04d' % y, mo=mo, dstr=ds, wd=wd))
    for x in range(0, 100):
        yield case_line('r2.parse', fixed(h=x))
        yield case_line('r2.parse', fixed(mi=x))
        yield case_line('r2.parse', fixed(s=x))
        yield case_line('r2.parse', fixed(s=x, mi=59, h=23))
        for sg in '+-':
            yield case_line('r2.parse', fixed(zone='%s%02d00' % (sg, x)))
            yield case_line('r2.parse', fixed(zone='%s23%02d' % (sg, x)))
            yield case_line('r2.parse', fixed(zone='%s%02d%02d' % (sg, x % 24, x % 60), ystr='0000', mo=1, dstr='1', h=0, mi=0, s=0))
            yield case_line('r2.parse', fixed(zone='%s%02d%02d' % (sg, x % 24, x % 60), ystr='9999', mo=12, dstr='31', h=23, mi=59, s=60))
    for name in list(ZONE_NAMES) + MILITARY + UNKNOWN_ZONES:
        for nm in {name, name.lower(), name.upper(), name.capitalize(), name.swapcase()}:
            yield case_line('r2.parse', fixed(zone=nm))
            yield case_line('r2.parse', fixed(zone=nm, s=None))
    for c1 in range(ord('A'), ord('z') + 1):
        for c2 in ('', 'T', 't', 'M'):
            yield case_line('r2.parse', fixed(zone=chr(c1) + c2))
    for mo in range(1, 13):
        for nm in {MONN[mo - 1], MONN[mo - 1].upper(), MONN[mo - 1].lower(), MONN[mo - 1].swapcase(), LONG_MONN[mo - 1]}:
            yield case_line('r2.parse', fixed(moname=nm, mo=mo))
    for w in WS1 + WS_ODD + ['']:
        yield case_line('r2.parse', render(dict(base, wd=5), rng, ws=w, comments=''))
        yield case_line('r2.parse', render(base, rng, ws=w, comments=w + '(c)'))
        for key in ('lead', 'aftercomma', 'sep1', 'sep2', 'sep3', 'sep4'):
            yield case_line('r2.parse', render(dict(base, wd=5), rng, ws=' ', comments='', **{key: w}))
    # comments: systematic
    pre = '1 Jan 2000 00:00 +0000'
    for d in range(0, 10):
        yield case_line('r2.parse', pre + ' ' + '(' * d + ')' * d)
        yield case_line('r2.parse', pre + '(' * d + 'x' + ')' * d)
        yield case_line('r2.parse', pre + ' ' + '(' * (d + 1) + ')' * d)
        yield case_line('r2.parse', pre + ' ' + '(' * d + ')' * (d + 1))
        yield case_line('r2.parse', pre + ' ' + '(a' * d + '\\(' + 'b)' * d)
        yield case_line('r2.parse', pre + ' ' + '(a' * d + '\\' + ')' * d)
        yield case_line('r2.parse', pre + ' (a)' * d)
    # deep nesting: the depth counter at and beyond the 8-bit limit (deeper nesting makes the list-based model quadratic: 2^16 levels took > 30 min) (balanced, one short, one over)
    for d in (100, 254, 255, 256, 257, 300, 511, 512, 1000):
        yield case_line('r2.parse', pre + ' ' + '(' * d + 'UTC' + ')' * d)
        yield case_line('r2.parse', pre + ' ' + '(' * d + ')' * (d - 1))
        yield case_line('r2.parse', pre + ' ' + '(' * d + ')' * (d + 1))
        yield case_line('r2.parse', pre + ' ' + '(' * d)
    for _ in range(4000 if quick else 100000):
        c = gen_comments(rng) or gen_comment(rng)
        yield case_line('r2.parse', pre + c)
        k = rng.random()
        if k < 0.5 and c:
            j = rng.randint(0, len(c) - 1)
            c2 = rng.choice([c[:j] + c[j + 1:], c[:j] + rng.choice('()\\ a') + c[j:], c[:j], c + rng.choice(['', ' ', '(', ')', '\\', 'x'])])
            yield case_line('r2.parse', pre + c2)
    # ---- random fields, white space, comments, mutations
    n = 14000 if quick else 400000
    for _ in range(n):
        f = rand_fields(rng)
        t = render(f, rng)
        yield case_line('r2.parse', t)
        yield case_line('r2.parse', render(f, rng, ws=' ', comments=''))
        for m in byte_mutations(t, rng):
            yield case_line('r2.parse', m)
        if rng.random() < 0.05:
            for m in production_mutations(f, rng):
                yield case_line('r2.parse', m)
    # ---- arbitrary unicode
    alphabet = list('0123456789:+-,() \t') + ODD_CHARS + ['Mon', 'Jan', 'GMT', 'Z', '\r\n'] + WS_ODD
    for _ in range(12000 if quick else 400000):
        k = rng.randint(0, 30)
        yield case_line('r2.parse', ''.join(rng.choice(alphabet) for _ in range(k)))

    # ---- writer: lattice, expected texts fed back, round trip
    def wcases(v):
        yield case_line('r2.write', v)
        yield case_line('r2.rt', v)
        t = expected_text(v)
        if t is not None:
            yield case_line('r2.parse', t)
            yield case_line('r2.parse', t[5:])
    for y in W_YEARS:
        for o in (1, 2, 59, 60, 365, 366):
            if not valid_yo(y, o):
                continue
            for secs in (0, 59, 43200, 86399):
                for frac in (0, 999999999, G + 5, 2 * G - 1):
                    for off in (0, 60, -60, 19800, 86340, -86340, 30):
                        v = [y, o, secs, frac, off]
                        for c in wcases(v):
                            yield c
                        yield case_line('r2.fmt', v)
    # every weekday name (right and wrong) on the days around every year end, where the ISO year of the
    # date differs from its calendar year (incl. year 0000, whose first days lie in ISO year -1)
    for y in [0, 1, 2, 4, 5, 99, 100, 400, 1582, 1899, 1900, 1969, 1970, 1999, 2000] + list(range(2014, 2030)) + [9998, 9999]:
        for (mo, d) in ((1, 1), (1, 2), (1, 3), (1, 4), (12, 28), (12, 29), (12, 30), (12, 31), (2, 28), (3, 1)):
            for wd in range(7):
                for ystr in (['%04d' % y] + (['%02d' % (y % 100)] if 1950 <= y <= 2049 else [])):
                    yield case_line('r2.parse', '%s, %d %s %s 12:00:00 +0000' % (DAYN[wd], d, MONN[mo - 1], ystr))
    # every day of a leap and a common year (names, day padding), every weekday
    for y in (2023, 2024, 0, 9999, 1900, 2000):
        for o in range(1, 367):
            if valid_yo(y, o):
                for c in wcases([y, o, 45296, 0, 3600]):
                    yield c
    for off in W_OFFS + [m * 60 for m in range(-1439, 1440, 7 if quick else 1)]:
        for v in ([2023, 365, 86399, 999999999, off], [0, 1, 0, 0, off], [9999, 365, 86399, G + 1, off], [-1, 365, 86399, 0, off], [10000, 1, 0, 0, off]):
            for c in wcases(v):
                yield c
            yield case_line('r2.fmt', v)
    for _ in range(8000 if quick else 300000):
        v = rand_value(rng)
        for c in wcases(v):
            yield c
        if rng.random() < 0.3:
            yield case_line('r2.fmt', v)
    # malformed arguments
    yield case_line('r2.write', [2024, 367, 0, 0, 0])
    yield case_line('r2.write', [2024, 1, 86400, 0, 0])
    yield case_line('r2.write', [2024, 1, 0, 2 * G, 0])
    yield case_line('r2.write', [2024, 1, 0, 0, 86400])
    yield case_line('r2.rt', [2024, 1, 0, 0, -86400])
    yield case_line('r2.fmt', [262143, 1, 0, 0, 0])
    yield 'r2.parse xff'
    yield 'r2.parse xc080'
    yield 'r2.parse xeda080'
    yield 'r2.parse xf4908080'
    yield 'r2.parse x31204a616e20323030302030303a3030202b30303030e288'


# ---- spec validation against CPython (testing of the specification, not of chrono) --------------
def validate(n=20000, seed=0):
    import random
    import subprocess
    from email.utils import parsedate_to_datetime
    rng = random.Random(seed)
    root = os.path.join(os.path.dirname(os.path.abspath(__file__)), '..')
    exe = os.path.join(root, 'ocaml', 'build', 'C11', 'modelrun')
    texts = list(DOCS)
    for _ in range(n):
        f = rand_fields(rng, valid_bias=0.95)
        texts.append(render(f, rng, comments=''))
        texts.append(render(f, rng, ws=' ', comments=rng.choice(['', ' (c)', ' (a(b)c)'])))
    lines, kept = [], []
    for t in texts:
        try:
            dt = parsedate_to_datetime(t)
        except Exception:
            out = 'err:PyReject'
        else:
            if dt.tzinfo is None:
                # CPython reads "-0000" as a naive time (RFC: "no information about the local zone"): instant = UTC reading
                off = 0
                u = dt
            else:
                off = int(dt.utcoffset().total_seconds())
                u = (dt - dt.utcoffset()).replace(tzinfo=None)
            yday = u.timetuple().tm_yday
            out = '(%d,%d,%d,0,%d)' % (u.year, yday, u.hour * 3600 + u.minute * 60 + u.second, off)
        lines.append(out + ' ' + case_line('r2.parse', t))
        kept.append((t, out))
    p = subprocess.run([exe, 'judge'], input='\n'.join(lines) + '\n', capture_output=True, text=True)
    verdicts = p.stdout.split('\n')
    stats = {}
    diffs = []
    for (t, out), v in zip(kept, verdicts):
        k = v.split(':')[0]
        stats[k] = stats.get(k, 0) + 1
        if k == 'bad':
            diffs.append((t, out, v))
    print('spec validation against CPython email.utils.parsedate_to_datetime: %d strings, verdicts %r' % (len(kept), stats))
    import re as _re
    def features(t, v):
        fs = []
        if _re.search(r'\d\s+:|:\s+\d', t):
            fs.append('white space around a time colon')
        m = _re.search(r'[A-Za-z]{3}\s+(\d+)\s+\d\d\s*:', t)
        if m:
            n = len(m.group(1))
            fs.append('year of %s digits' % (n if n < 5 else '5+'))
            if n == 2 and 50 <= int(m.group(1)) <= 68:
                fs.append('two-digit year 50..68')
        if _re.search(r':\s*60\s', t):
            fs.append('second 60')
        z = t.split('(')[0].split()[-1] if t.split('(')[0].split() else ''
        if z[:1] in '+-':
            fs.append('numeric zone' + (' -0000' if z == '-0000' else '') + (' >= 24h' if z[1:3] >= '24' else ''))
        elif len(z) == 1:
            fs.append('military zone')
        else:
            fs.append('named zone')
        if 'reject' in v:
            fs.append('(judge: must be rejected)')
        return tuple(fs)
    classes = {}
    for t, out, v in diffs:
        key = ('python rejects' if out.startswith('err') else 'python accepts', features(t, v))
        classes.setdefault(key, []).append((t, out, v))
    for key, items in sorted(classes.items(), key=lambda kv: -len(kv[1])):
        print('  %5d x %s | %s | e.g. %r -> python %s, judge %s' % (len(items), key[0], ', '.join(key[1]), items[0][0], items[0][1], items[0][2][:60]))
    known = ('white space around a time colon', 'second 60', '(judge: must be rejected)', 'year of 2 digits', 'year of 3 digits', 'year of 5+ digits')
    residual = []
    for t, out, v in diffs:
        fs = features(t, v)
        m = _re.search(r'[A-Za-z]{3}\s+(\d+)\s+\d\d\s*:', t)
        small_year = bool(m) and int(m.group(1)) < 1000
        if not (any(k in fs for k in known) or small_year):
            residual.append((t, out, v))
    print('known difference classes: white space around the time colons (CPython: no), second 60 (CPython: rejected), day of week not '
          'checked by CPython, zone minutes >= 60 accepted by CPython, 2-digit years 50..68 (CPython: POSIX pivot 69), 3-digit years '
          '(CPython: as written), years < 1000 / > 9999 (CPython: +2000 / rejected)')
    print('residual differences outside these classes: %d' % len(residual))
    for t, out, v in residual[:20]:
        print('   %r -> python %s, judge %s' % (t, out, v[:70]))
    return diffs


if __name__ == '__main__':
    if len(sys.argv) > 1 and sys.argv[1] == '--validate':
        validate(int(sys.argv[2]) if len(sys.argv) > 2 else 20000)
