"""C13 case generator: format strings drawn from the unambiguous family (assembled from every
specifier the reader can invert, with separators; every documented sufficient combination:
calendar / ordinal / Sunday- and Monday-week / ISO-week dates, century + two-digit years, pivot
years, 24- and 12-hour clocks, all fraction forms, offsets, timestamps, composites) x values from
the boundary lattices (negative / 5-6 digit years, leap days, week 0 / 53, leap seconds, offsets),
the same with case / surplus white-space perturbation (fp.rtx), with a tail after the text
(fp.rem), plus deliberately ambiguous / print-only members (the judge must skip them) and a
separate arbitrary-text stream (fp.parse)."""
from vcheck import case_line
from common import *

RULE = ('structured: documented sufficient field combinations (Y-m-d, Y-j, Y-U/W-weekday, G-V-u, C+y, y/g pivot, H/I+p, '
        'fractions %f %.f %.3f %.6f %.9f %3f %6f %9f, %z %:z %+ %s %c %D %F %T %R %r %v %x %X) x padding modifiers x separators '
        '(none, ASCII, multi-byte, white space) x boundary lattice of years {-262143..-1,0,1,99,100,999,1000,1969,1970,2069,2070,9999,'
        '10000,99999,262142} x ordinals at month ends / first and last weeks x times {00:00:00, 12:00:00, 23:59:59, leap seconds, '
        'fractions 0/1/999/10^6/10^9-1} x offsets {0,+-1min,+-30min,+-12h,+-23:59, with seconds}; all days of 8 years for the week '
        'forms; fp.rtx: 3 seeds per case for formats with names / white space; fp.rem: tails; seeded random formats assembled from a '
        'random sufficient field set with random modifiers and separators; ambiguous and print-only members; arbitrary stream: '
        'formatted texts with byte edits, case changes, white space, truncation')

YEARS = [-262143, -262142, -100000, -10000, -9999, -1000, -999, -401, -400, -101, -100, -99, -5, -1, 0, 1, 4, 9, 10, 69, 70, 99,
         100, 400, 999, 1000, 1582, 1900, 1968, 1969, 1970, 1971, 1999, 2000, 2001, 2012, 2024, 2068, 2069, 2070, 2100, 9999, 10000,
         12345, 30000, 99999, 100000, 262141, 262142]
YEARS_SMALL = [-262143, -10000, -9999, -100, -1, 0, 1, 99, 100, 999, 1000, 1969, 1970, 2001, 2024, 2069, 2070, 9999, 10000, 262142]
ORDS = [1, 2, 3, 4, 5, 6, 7, 8, 9, 10, 28, 31, 32, 58, 59, 60, 61, 90, 91, 99, 100, 120, 121, 152, 182, 183, 189, 213, 244, 274,
        305, 335, 358, 359, 360, 361, 362, 363, 364, 365, 366]
ORDS_SMALL = [1, 2, 7, 9, 10, 59, 60, 61, 99, 100, 189, 359, 365, 366]
FRACS = [0, 1, 999, 1000, 999999, 10**6, 10**6 + 1, 26490000, 100000000, 123456789, 500000000, 999000000, 999999000, 10**9 - 1]
LEAPS = [10**9, 10**9 + 1, 10**9 + 10**6, 10**9 + 26490000, 2 * 10**9 - 1]
SECS = [0, 1, 59, 60, 3599, 3600, 2094, 32949, 35999, 36000, 39600, 43199, 43200, 43201, 46800, 82800, 86340, 86399]
OFFS = [0, 60, -60, 1800, -1800, 3600, -3600, 12600, 34200, -34200, 36000, -36000, 43200, -43200, 50400, 86340, -86340]
OFFS_SEC = [1, -1, 30, -30, 59, 3599, -3601, 86399, -86399]


def leap(y):
    return (y % 4 == 0 and y % 100 != 0) or y % 400 == 0


def ndays(y):
    return 366 if leap(y) else 365


def dates(years, ords):
    for y in years:
        for o in ords:
            if o <= ndays(y):
                yield [y, o]


def times_all():
    out = []
    for s in SECS:
        for f in (0, 1, 26490000, 10**9 - 1):
            out.append([s, f])
    for f in FRACS:
        out.append([2094, f])
        out.append([86399, f])
    for f in LEAPS:
        out.append([86399, f])
        out.append([2099, f])
        out.append([59, f])
        out.append([2094, f])      # leap flag on a second other than 59: not expressible, skipped
    for s in (0, 60, 3600, 43200, 86340):
        out.append([s, 0])
    return out


def b(s):
    return s.encode('utf-8')


DATE_FORMS = [
    '%Y-%m-%d', '%F', '%Y%m%d', '%d/%m/%Y', '%-d.%-m.%-Y', '%_d %_m %_Y', '%e %b %Y', '%v', '%B %d, %Y', '%A, %d %B %Y',
    '%a %h %e %Y', '%Y-%j', '%Y%j', '%-j/%-Y', '%_j|%_Y', '%G-W%V-%u', '%G-W%V-%a', '%GW%V%u', '%-G %-V %A', '%_G %_V %w',
    '%Y %U %a', '%Y %W %u', '%Y-%U-%w', '%Y-%W-%A', '%-Y %-U %a', '%_Y %_W %u', '%C%y-%m-%d', '%C %y %j', '%-C/%-y/%-j',
    '%y-%m-%d', '%D', '%x', '%m/%d/%y', '%-m/%-d/%-y', '%g-W%V-%u', '%y %U %w', '%y %j', '%Y-%m-%d Q%q', '%q %Y %j',
    '%Y-%m-%d (%a, day %j, week %U/%W, iso %G-%V-%u, %C %y %g)', '%0Y-%0m-%0d', '%_Y-%_j', '%Y年%m月%d日',
    '%d\t%m\n%Y', '%d%t%m%n%Y', '%Y %B %e', '%b%d%Y', '%B%e%Y', '%A%B%d%Y', '%Y%b%d%a', '%%%Y%%%m%%%d%%', 'day %j of %Y',
    '%Y-%m-%d %G-%V-%u', '%d %m %C %y', '%j %y %C', '%u %V %G', '%a %W %Y', '\U0001f63d%Y\U0001f63d%j', '%Y.%m.%d.',
    # ambiguous / insufficient / out-of-domain members: the judge skips them (or part of the lattice)
    '%-d%-m%Y', '%Y%-m%-d', '%-Y%m%d', '%Y-%m', '%m-%d', '%C-%m-%d', '%Y %U', '%G-%V', '%g-%V-%u-%C', '%y%m%d', '%Y%U%w', '%j%Y',
]
TIME_FORMS = [
    '%H:%M:%S', '%T', '%X', '%R', '%H%M%S', '%k:%M:%S', '%-H:%-M:%-S', '%_H:%_M:%_S', '%0k:%0M:%0S', '%I:%M:%S %p', '%r',
    '%l:%M:%S %P', '%I%M%S%p', '%-I.%-M.%-S %P', '%_I %_M %_S %p', '%p%l%M%S', '%H:%M:%S%.f', '%H:%M:%S%.3f', '%H:%M:%S%.6f',
    '%H:%M:%S%.9f', '%H:%M:%S.%f', '%H:%M:%S.%3f', '%H%M%S%3f', '%H%M%S%6f', '%H%M%S%9f', '%H:%M:%S,%-f', '%H:%M:%S %_f',
    '%S %M %H', '%p %I:%M:%S', '%H h %M m %S s', '%H:%M', '%I:%M %p', '%H:%M:%S%.f %p %I', '%T%.3f', '%r %H', '%H%M%S%f',
    '%-H%M%S', '%S%.f:%M:%H', '%.f %H:%M:%S', '%H:%M:%S%.fs', '%H：%M：%S', '%H:%M:%S　%P',
    # ambiguous / insufficient members
    '%-H%-M%-S', '%H:%M:%S%.f%-H', '%H:%M:%S%.f.', '%I:%M:%S', '%H:%S', '%M:%S %p', '%H:%M:%S%.3f%.6f', '%H:%M%.3f', '%H:%M:%S%.f5',
    '%H:%M:%S%.3f%f',
]
ZONE_FORMS = ['%z', '%:z', ' %z', ' %:z', 'Z%z', '%z ', ' UTC%:z']
ZONE_SKIP = ['%::z', '%:::z', '%Z', '%#z', ' %Z %z']
SEPS = ['T', ' ', '', '_', ' at ', '  ', '\t', ', ']
DT_FORMS = ['%c', '%Y-%m-%dT%H:%M:%S%.f', '%s', '%s%.3f', '%s.%f', '%s %S', '%s %Y-%m-%d %H:%M:%S', '%c %p %j', '%s|%c', '%-s',
            '%a, %d %b %Y %H:%M:%S', '%Y%m%d%H%M%S', '%Y%m%dT%H%M%S%3f', '%D %T', '%F %T%.6f', '%v %r', '%x %X', '%s%f',
            '%s %H', '%Y-%m-%d %s']
DTZ_FORMS = ['%+', '%Y-%m-%dT%H:%M:%S%.f%:z', '%s %z', '%s', '%c %z', '%a, %d %b %Y %H:%M:%S %z', '%Y%m%d%H%M%S%z', '%s%:z',
             '%z %s', '%+ %s', '%s %S %.3f %z', '%z %Y-%j %r', '%:z|%G-W%V-%u|%T%.f', '%F %T %Z %z', '%F %T %::z', '%F %T%:::z',
             '%F %T %#z', '%F %T', '%+%+', '%s %z %+']
NAMES_WS_FORMS = ['%A, %d %B %Y', '%a %b %e %Y', '%v', '%c', '%r', '%I:%M:%S %p', '%l:%M %P', '%B%e%Y', '%d\t%m\n%Y',
                  '%d%t%m%n%Y', '%Y %U %a', '%G-W%V-%A', '%a, %d %b %Y %H:%M:%S', '%A %B %p %Y-%m-%d %I:%M:%S', '%Y-%j　%H:%M:%S']
TAILS = ['', 'xyz', '|rest', 'Z', '-', '+1', ' tail', '1', '.5', ':', 'é', 'am', 'day', '%']


def rand_date(rng):
    k = rng.random()
    if k < 0.3:
        y = rng.choice(YEARS)
    elif k < 0.7:
        y = rng.randint(1890, 2110)
    elif k < 0.9:
        y = rng.randint(-12000, 12000)
    else:
        y = rng.randint(-262143, 262142)
    o = rng.choice([1, ndays(y), rng.randint(1, ndays(y)), rng.randint(1, ndays(y)), rng.choice(ORDS_SMALL[:-1])])
    return [y, o]


def rand_time(rng):
    s = rng.choice([rng.choice(SECS), rng.randint(0, 86399), rng.randint(0, 86399), rng.randint(0, 1439) * 60])
    f = rng.choice([0, 0, rng.choice(FRACS), rng.randint(0, 10**9 - 1), rng.randint(0, 999) * 10**6, rng.randint(0, 999999) * 1000])
    if rng.random() < 0.08:
        s = s - s % 60 + 59
        f = rng.choice(LEAPS + [10**9 + rng.randint(0, 10**9 - 1)])
    return [s, f]


def rand_off(rng):
    k = rng.random()
    if k < 0.3:
        return 0
    if k < 0.9:
        return rng.choice([rng.choice(OFFS), rng.randint(-1439, 1439) * 60, rng.randint(-14, 14) * 3600, rng.randint(-56, 56) * 900])
    return rng.choice([rng.choice(OFFS_SEC), rng.randint(-86399, 86399)])


def rand_value(rng, kind):
    if kind == 0:
        return rand_date(rng)
    if kind == 1:
        return rand_time(rng)
    if kind == 2:
        return rand_date(rng) + rand_time(rng)
    return rand_date(rng) + rand_time(rng) + [rand_off(rng)]



# ---- explicit item lists (canonical encoding of sf.items) --------------------------------------
def lit(t):
    return [0, b(t)]


def sp(t):
    return [1, b(t)]


def nu(k, pad=1):
    return [2, k, pad]


def fx(k):
    return [3, k]


YEAR, CENT, YMOD, ISOY, ISOC, ISOYMOD, QUARTER, MONTH, DAY, WSUN, WMON, ISOW, WD0, WD1, ORD, HOUR, HOUR12, MIN, SEC, NANO, TS = range(21)
RFC2822, RFC3339 = 17, 18
ITEM_LISTS_DTZ = [
    [fx(RFC2822)], [fx(RFC3339)], [lit('Date: '), fx(RFC2822)], [fx(RFC2822), lit(' (end)')], [fx(RFC2822), sp(' '), fx(RFC3339)],
    [fx(RFC3339), lit('|'), fx(RFC2822)], [sp(' '), fx(RFC2822), sp('\n')], [fx(RFC2822), nu(TS, 0)], [nu(TS, 0), lit(' '), fx(RFC2822)],
    [nu(YEAR), lit('-'), nu(MONTH), lit('-'), nu(DAY), lit('T'), nu(HOUR), lit(':'), nu(MIN), lit(':'), nu(SEC), fx(6), fx(11)],
    [nu(YEAR), nu(MONTH), nu(DAY), nu(HOUR), nu(MIN), nu(SEC), fx(103), fx(15)],
    [nu(YEAR), lit('-'), nu(ORD), sp(' '), nu(HOUR12, 2), lit(':'), nu(MIN), lit(':'), nu(SEC), sp(' '), fx(5), sp(' '), fx(15)],
    [nu(ISOY), lit('-W'), nu(ISOW), lit('-'), nu(WD1, 0), lit(' '), nu(HOUR), lit(':'), nu(MIN), lit(':'), nu(SEC), fx(7), lit(' '), fx(11)],
    [nu(TS, 0), lit(' '), fx(15)], [nu(TS, 0), fx(9), fx(11)], [fx(3), lit(', '), fx(1), sp(' '), nu(DAY, 2), lit(', '), nu(YEAR), sp(' '), nu(HOUR), nu(MIN), nu(SEC), fx(101), fx(15)],
    # no claim: `Z` offset items, print-only / read-only offsets, ISO century, odd white space, Error
    [nu(YEAR), nu(MONTH), nu(DAY), nu(HOUR), nu(MIN), nu(SEC), fx(14)], [nu(YEAR), nu(MONTH), nu(DAY), nu(HOUR), nu(MIN), nu(SEC), fx(16)],
    [fx(RFC2822), fx(12)], [fx(RFC2822), fx(100)], [nu(ISOC), nu(ISOYMOD), lit('-'), nu(ISOW), lit('-'), nu(WD0, 0), fx(RFC2822)],
    [sp('x'), fx(RFC2822)], [sp(' '), lit(' '), fx(RFC2822)], [fx(RFC2822), [4]], [fx(10), lit(' '), fx(RFC2822)],
]
ITEM_LISTS_D = [
    [nu(YEAR), lit('-'), nu(MONTH), lit('-'), nu(DAY)], [nu(YEAR, 0), lit('/'), nu(ORD, 0)], [nu(YEAR, 2), sp(' '), nu(WSUN, 2), sp(' '), fx(2)],
    [nu(CENT), nu(YMOD), nu(MONTH), nu(DAY)], [fx(3), sp(' '), fx(1), sp(' '), nu(DAY, 0), sp(' '), nu(YEAR)], [nu(ISOY), lit('W'), nu(ISOW), nu(WD1, 0)],
    [nu(YMOD), fx(0), nu(DAY)], [nu(YEAR), nu(QUARTER, 0), nu(MONTH), nu(DAY)], [nu(YEAR), lit('年'), nu(MONTH), lit('月'), nu(DAY), lit('日')],
    [nu(DAY, 0), nu(MONTH, 0), nu(YEAR)], [nu(YEAR), nu(WMON), nu(WD0, 0)],
]
ITEM_LISTS_T = [
    [nu(HOUR), lit(':'), nu(MIN), lit(':'), nu(SEC)], [nu(HOUR12, 2), lit(':'), nu(MIN), lit(':'), nu(SEC), sp(' '), fx(4)],
    [nu(HOUR), nu(MIN), nu(SEC), fx(102)], [nu(HOUR), lit(':'), nu(MIN), lit(':'), nu(SEC), fx(6)], [nu(HOUR), lit(':'), nu(MIN), lit(':'), nu(SEC), fx(8)],
    [nu(HOUR), nu(MIN), nu(SEC), lit('.'), nu(NANO)], [nu(HOUR, 0), lit('h'), nu(MIN, 0), lit('m'), nu(SEC, 0), lit('s'), nu(NANO, 0), lit('ns')],
    [fx(5), nu(HOUR12), nu(MIN), nu(SEC)], [nu(HOUR), lit(':'), nu(MIN)],
]
RFC2822_TEXTS = [
    'Sun, 8 Jul 2001 00:34:60 +0930', 'Tue, 1 Jul 2003 10:52:37 +0200', 'Wed, 18 Feb 2015 23:16:09 GMT', '18 Feb 2015 23:16:09 +0000',
    'Fri, 21 Nov 1997 09:55:06 -0600', 'Fri, 21 Nov 1997 09(comment):   55  :  06 -0600', 'Fri, 21 Nov 1997 09:   55  :  06 -0600',
    'Fri, 21 Nov 1997 09:55:  06 -0600', 'Fri, 21 Nov 1997 09:55 -0600', 'Thu, 13 Feb 1969 23:32 -0330 (Newfoundland Time)',
    '21 Nov 97 09:55:06 GMT', '21 Nov 097 09:55:06 EST', '1 Jan 49 00:00:00 Z', '1 Jan 50 00:00:00 A', 'Mon, 31 Dec 9999 23:59:59 +2359',
    'mon,  1 jan 0000 00:00:00 -0000', 'Sun, 06 Nov 1994 08:49:37 +0000 (a (nested) \\) comment) (two)', 'Sat, 8 Jul 2001 00:34:60 +0930',
    'Sun, 8 Jul 2001 24:34:60 +0930', 'Sun, 8 Jul 2001 00:34:61 +0930', 'Sun, 8 Jul 2001 00:34:60 +09:30', 'Sun, 8 Jul 2001 00:34:60 −0930',
    'Sun,8 Jul 2001 00:34:60+0930', 'Sun, 8 Jul 2001 00:34:60 PDT', 'Sun, 8 Jul 2001 00:34:60 XYZ', 'Sun, 32 Jul 2001 00:34:60 +0930',
]

MODS = ['', '', '', '-', '_', '0']
RSEPS = ['-', '-', '/', ' ', ' ', ':', '.', ',', 'T', '', '', '  ', '\t', '%n', '%t', '%%', 'x', 'é', '　', '|', ' of ', '1', '+']


def num(rng, c):
    return '%' + rng.choice(MODS) + c


def rand_date_fields(rng):
    k = rng.randrange(8)
    year = rng.choice([num(rng, 'Y'), num(rng, 'Y'), num(rng, 'Y'), num(rng, 'C') + rng.choice(['', ' ']) + num(rng, 'y'), num(rng, 'y')])
    wday = rng.choice(['%a', '%A', num(rng, 'u'), num(rng, 'w')])
    month = rng.choice([num(rng, 'm'), num(rng, 'm'), '%b', '%B', '%h'])
    day = rng.choice([num(rng, 'd'), num(rng, 'd'), num(rng, 'e')])
    if k <= 2:
        parts = [year, month, day]
    elif k == 3:
        parts = [year, num(rng, 'j')]
    elif k == 4:
        parts = [year, num(rng, 'U'), wday]
    elif k == 5:
        parts = [year, num(rng, 'W'), wday]
    else:
        parts = [rng.choice([num(rng, 'G'), num(rng, 'G'), num(rng, 'g')]), num(rng, 'V'), wday]
    if rng.random() < 0.15:
        parts.append(rng.choice([num(rng, 'q'), num(rng, 'j'), wday, num(rng, 'U'), num(rng, 'V'), '%b', num(rng, 'C')]))
    rng.shuffle(parts)
    return parts


def rand_time_fields(rng):
    if rng.random() < 0.6:
        parts = [rng.choice([num(rng, 'H'), num(rng, 'H'), num(rng, 'k')])]
    else:
        parts = [rng.choice([num(rng, 'I'), num(rng, 'l')]), rng.choice(['%p', '%P'])]
    parts.append(num(rng, 'M'))
    r = rng.random()
    if r < 0.85:
        parts.append(num(rng, 'S'))
        if rng.random() < 0.5:
            parts.append(rng.choice(['%.f', '%.3f', '%.6f', '%.9f', num(rng, 'f'), '%3f', '%6f', '%9f']))
    if rng.random() < 0.7:
        return parts           # conventional order
    rng.shuffle(parts)
    return parts


def join(rng, parts):
    out = []
    for i, p in enumerate(parts):
        if i:
            out.append(rng.choice(RSEPS))
        out.append(p)
    if rng.random() < 0.15:
        out.insert(0, rng.choice(RSEPS))
    if rng.random() < 0.15:
        out.append(rng.choice(RSEPS))
    s = ''.join(out)
    # `%.3f` directly after a numeric specifier would read as e.g. `%S.` + `3f`: keep what was meant
    return s


def rand_fmt(rng, kind):
    if kind == 0:
        parts = rand_date_fields(rng)
    elif kind == 1:
        parts = rand_time_fields(rng)
    else:
        r = rng.random()
        if r < 0.1:
            parts = [num(rng, 's')]
            if rng.random() < 0.3:
                parts.append(rng.choice(['%.f', '%.3f', num(rng, 'S'), num(rng, 'f')]))
        else:
            d, t = rand_date_fields(rng), rand_time_fields(rng)
            parts = d + t if rng.random() < 0.8 else t + d
            if r > 0.9:
                parts.append(num(rng, 's'))
        if kind == 3:
            z = rng.choice(['%z', '%z', '%:z', '%:z', '%::z', '%Z', '%#z']) if rng.random() < 0.95 else ''
            if z:
                parts.append(z)
    return b(join(rng, parts))


# ---- a small formatter for the arbitrary stream (texts that mostly parse) -----------------------
MONTHS = ['January', 'February', 'March', 'April', 'May', 'June', 'July', 'August', 'September', 'October', 'November', 'December']
WDAYS = ['Monday', 'Tuesday', 'Wednesday', 'Thursday', 'Friday', 'Saturday', 'Sunday']
CUM = [0, 31, 59, 90, 120, 151, 181, 212, 243, 273, 304, 334]


def md(y, o):
    lp = leap(y)
    for m in range(12, 0, -1):
        c = CUM[m - 1] + (1 if lp and m > 2 else 0)
        if o > c:
            return m, o - c
    return 1, o


def wday(y, o):
    y1 = y - 1
    dn = y1 * 365 + y1 // 4 - y1 // 100 + y1 // 400 + o
    return (dn - 1) % 7


def simple_text(rng, kind):
    """(text, fmt) from a small set of conventional formats, formatted here (approximately)"""
    y, o = rand_date(rng)
    y = rng.choice([y, rng.randint(1900, 2100), rng.randint(0, 9999)])
    o = min(o, ndays(y))
    m, d = md(y, o)
    s, f = rand_time(rng)
    f %= 10**9
    hh, mm, ss = s // 3600, s // 60 % 60, s % 60
    off = rng.choice(OFFS)
    sign = '-' if off < 0 else '+'
    oz = '%s%02d%02d' % (sign, abs(off) // 3600, abs(off) // 60 % 60)
    ys = '%04d' % y if 0 <= y <= 9999 else '%+05d' % y
    wd = wday(y, o)
    dsel = rng.choice([
        ('%Y-%m-%d', '%s-%02d-%02d' % (ys, m, d)),
        ('%d/%m/%Y', '%02d/%02d/%s' % (d, m, ys)),
        ('%e %b %Y', '%2d %s %s' % (d, MONTHS[m - 1][:3], ys)),
        ('%A, %B %d, %Y', '%s, %s %02d, %s' % (WDAYS[wd], MONTHS[m - 1], d, ys)),
        ('%Y-%j', '%s-%03d' % (ys, o)),
        ('%a %d %h %Y', '%s %02d %s %s' % (WDAYS[wd][:3], d, MONTHS[m - 1][:3], ys)),
        ('%y%m%d', '%02d%02d%02d' % (y % 100, m, d)),
    ])
    h12 = hh % 12 or 12
    tsel = rng.choice([
        ('%H:%M:%S', '%02d:%02d:%02d' % (hh, mm, ss)),
        ('%H:%M:%S%.f', '%02d:%02d:%02d.%09d' % (hh, mm, ss, f)),
        ('%I:%M:%S %p', '%02d:%02d:%02d %s' % (h12, mm, ss, 'PM' if hh >= 12 else 'AM')),
        ('%H%M%S', '%02d%02d%02d' % (hh, mm, ss)),
        ('%k:%M', '%2d:%02d' % (hh, mm)),
        ('%H:%M:%S.%3f', '%02d:%02d:%02d.%03d' % (hh, mm, ss, f // 10**6)),
    ])
    if kind == 0:
        return dsel[1], dsel[0]
    if kind == 1:
        return tsel[1], tsel[0]
    sep = rng.choice(['T', ' ', ' '])
    if kind == 2:
        return dsel[1] + sep + tsel[1], dsel[0] + sep + tsel[0]
    zf = rng.choice(['%z', '%:z', ' %z', '%#z'])
    zt = oz if zf != '%:z' else oz[:3] + ':' + oz[3:]
    if zf == ' %z':
        zt = ' ' + zt
    return dsel[1] + sep + tsel[1] + zt, dsel[0] + sep + tsel[0] + zf


EDIT_CHARS = list('0123456789') + list(' \t-+:./,TZzaApPmM') + ['é', '　', '−', 'UTC', '60', '24', '99', '00', '  ']


def mutate(rng, text):
    k = rng.random()
    if k < 0.25 or not text:
        return text
    i = rng.randrange(len(text))
    if k < 0.45:
        return text[:i] + text[i + 1:]
    if k < 0.65:
        return text[:i] + rng.choice(EDIT_CHARS) + text[i:]
    if k < 0.8:
        return text[:i] + rng.choice(EDIT_CHARS) + text[i + 1:]
    if k < 0.87:
        return text.swapcase()
    if k < 0.93:
        return text[:i]
    return text + rng.choice(EDIT_CHARS + ['x', ' tail'])


def cases(tier, rng):
    thorough = tier != 'quick'
    K = 6 if thorough else 1
    # --- fixed regression / documentation examples
    for f in ('%s %z', '%s', '%s%:z', '%-s %z'):
        for v in ([1969, 365, 86399, 0, 0], [1900, 1, 0, 0, 0], [-262143, 1, 0, 0, 0], [1, 1, 0, 0, 0], [1970, 1, 0, 0, 0],
                  [1969, 365, 86399, 10**9 + 5, 0], [1969, 365, 86340, 0, 3600]):
            yield case_line('fp.rt', 3, v, b(f))
    for v in ([1969, 365, 86399, 0], [-1, 1, 0, 0], [1970, 1, 0, 0], [-262143, 1, 0, 0]):
        yield case_line('fp.rt', 2, v, b('%s'))
    yield case_line('fp.rt', 3, [2001, 188, 54299, 10**9 + 26490000, 34200], b('%+'))
    yield case_line('fp.rt', 2, [2001, 189, 2099, 10**9 + 26490000], b('%c'))
    yield case_line('fp.rt', 0, [2001, 367], b('%F'))
    yield case_line('fp.rt', 4, [2001, 1], b('%F'))
    yield case_line('fp.rt', 0, [2001, 1], b'\xff')
    yield case_line('fp.parse', 0, b'\xff', b('%F'))
    yield case_line('fp.parse', 7, b('2001-01-01'), b('%F'))
    yield case_line('fp.rtx', 0, [2001, 1], b('%F'), -1)
    yield case_line('fp.rtx', 0, [2001, 1], b('%F'), 2**64)
    yield case_line('fp.rem', 0, [2001, 1], b('%F'), b'\xff')

    all_dates = list(dates(YEARS, ORDS_SMALL))
    small_dates = list(dates(YEARS_SMALL, [1, 60, 189, 365, 366]))
    times = times_all()
    small_times = [[0, 0], [2094, 26490000], [43200, 0], [86399, 10**9 - 1], [86399, 10**9 + 5], [2099, 10**9 + 26490000],
                   [32949, 123456789], [39600, 1000], [3540, 0]]
    # --- dates
    for f in DATE_FORMS:
        for d in all_dates:
            yield case_line('fp.rt', 0, d, b(f))
    # all days of some years: week forms and names
    wforms = ['%Y %U %a', '%Y-%W-%u', '%G-W%V-%u', '%y %U %w', '%g %V %A', '%Y-%j', '%A %B %e %Y', '%C%y%m%d']
    full_years = [1999, 2000, 2001, 2004, 2010, 2015, 2020, 2021, 2069, 1970, 0, -1, -4, 9999, 10000, 262142, -262143] if thorough else \
                 [2000, 2001, 2004, 2015, 2020, 1970, 0, 9999]
    for y in full_years:
        for o in range(1, ndays(y) + 1):
            for f in wforms:
                yield case_line('fp.rt', 0, [y, o], b(f))
    # --- times
    for f in TIME_FORMS:
        for t in times:
            yield case_line('fp.rt', 1, t, b(f))
    for s in range(0, 86400, 3600 if not thorough else 600):
        for f in ('%I:%M:%S %p', '%l%M%S%P', '%H:%M:%S', '%k%M%S', '%r'):
            for t in ([s, 0], [s + 59, 5 * 10**8], [s + 3599, 10**9 + 5]):
                yield case_line('fp.rt', 1, t, b(f))
    # --- naive date-times: (date form x time form) pairs and the composite forms
    pairs = [(d, t, s) for d in DATE_FORMS[:58] for t in TIME_FORMS[:42] for s in SEPS]
    for (d, t, s) in rng.sample(pairs, 400 * K):
        f = b(d + s + t)
        for _ in range(12):
            yield case_line('fp.rt', 2, rng.choice(small_dates) + rng.choice(small_times), f)
        for _ in range(6):
            yield case_line('fp.rt', 2, rand_value(rng, 2), f)
    for f in DT_FORMS:
        for d in small_dates:
            for t in small_times:
                yield case_line('fp.rt', 2, d + t, b(f))
    # --- zoned date-times
    zdates = [[-262143, 1], [-262143, 2], [-9999, 365], [-1, 365], [0, 366], [1969, 365], [1970, 1], [2001, 189], [2024, 60],
              [2069, 365], [9999, 365], [10000, 1], [262142, 364], [262142, 365]]
    for f in DTZ_FORMS:
        for d in zdates:
            for t in small_times:
                for off in OFFS:
                    yield case_line('fp.rt', 3, d + t + [off], b(f))
                yield case_line('fp.rt', 3, d + t + [rng.choice(OFFS_SEC)], b(f))
    for (d, t, s) in rng.sample(pairs, 300 * K):
        f = b(d + s + t + rng.choice(ZONE_FORMS + ZONE_FORMS + ZONE_SKIP))
        for _ in range(10):
            yield case_line('fp.rt', 3, rng.choice(zdates) + rng.choice(small_times) + [rng.choice(OFFS)], f)
        for _ in range(6):
            yield case_line('fp.rt', 3, rand_value(rng, 3), f)
    # --- explicit item lists: RFC 2822 / RFC 3339 items, internal items, Owned literals
    for items in ITEM_LISTS_DTZ:
        for d in zdates:
            for t in small_times:
                for off in (0, 34200, -3600, 86340, -86340):
                    yield case_line('fp.irt', 3, d + t + [off], items)
        for _ in range(40):
            yield case_line('fp.irt', 3, rand_value(rng, 3), items)
            yield case_line('fp.irt', 2, rand_value(rng, 2), items)
    for items in ITEM_LISTS_D:
        for d in all_dates:
            yield case_line('fp.irt', 0, d, items)
    for items in ITEM_LISTS_T:
        for t in times:
            yield case_line('fp.irt', 1, t, items)
    yield case_line('fp.irt', 0, [2001, 1], [[2, 21, 0]])
    yield case_line('fp.irt', 0, [2001, 1], [[3, 19]])
    yield case_line('fp.irt', 0, [2001, 1], [[0, b'\xff']])
    yield case_line('fp.irt', 0, [2001, 1], [[5]])
    yield case_line('fp.iparse', 9, b('x'), [[4]])
    for text in RFC2822_TEXTS:
        for items in ([fx(RFC2822)], [fx(RFC2822), sp('')], [lit('Date: '), fx(RFC2822)]):
            pre = 'Date: ' if len(items) == 2 and items[0][0] == 0 else ''
            yield case_line('fp.iparse', 3, b(pre + text), items)
            yield case_line('fp.iparse', 2, b(pre + text), items)
            for _ in range(12 * K):
                yield case_line('fp.iparse', 3, b(pre + mutate(rng, text)), items)
    for _ in range(2000 * K):
        text, f = simple_text(rng, 3)
        yield case_line('fp.iparse', 3, b(mutate(rng, text)), [fx(RFC3339)])
    # --- perturbation of case and white space
    for f in NAMES_WS_FORMS:
        for d in dates(YEARS_SMALL, [1, 60, 95, 130, 160, 189, 220, 250, 280, 310, 340, 365]):
            for t in ([0, 0], [43200, 0], [86399, 0]):
                for _ in range(2):
                    seed = rng.randrange(2**64)
                    yield case_line('fp.rtx', 2, d + t, b(f), seed)
                    yield case_line('fp.rtx', 0, d, b(f), seed)
                    yield case_line('fp.rtx', 1, t, b(f), seed)
                    yield case_line('fp.rtx', 3, d + t + [rng.choice(OFFS)], b(f + ' %z'), seed)
    # --- the same through owned items (parse_to_owned): white space and names perturbed
    for f in NAMES_WS_FORMS:
        for d in dates(YEARS_SMALL, [1, 60, 189, 365]):
            for t in ([0, 0], [43200, 0]):
                seed = rng.randrange(2**64)
                yield case_line('fp.rtxo', 2, d + t, b(f), seed)
                yield case_line('fp.rtxo', 0, d, b(f), seed)
                yield case_line('fp.rtxo', 1, t, b(f), seed)
                yield case_line('fp.rtxo', 3, d + t + [rng.choice(OFFS)], b(f + ' %z'), seed)
    # --- a tail after the text
    for f in DATE_FORMS[:40]:
        for tail in TAILS:
            for d in rng.sample(all_dates, 6):
                yield case_line('fp.rem', 0, d, b(f), b(tail))
    for f in TIME_FORMS[:36]:
        for tail in TAILS:
            for t in rng.sample(times, 5):
                yield case_line('fp.rem', 1, t, b(f), b(tail))
    for f in DT_FORMS[:8]:
        for tail in TAILS:
            for _ in range(5):
                yield case_line('fp.rem', 2, rand_value(rng, 2), b(f), b(tail))
    for f in DTZ_FORMS[:8]:
        for tail in TAILS:
            for _ in range(5):
                yield case_line('fp.rem', 3, rand_value(rng, 3), b(f), b(tail))
    # --- documented text of a few forms
    for f in ('%F', '%T%.f', '%c', '%+', '%s %z', '%A %B %p'):
        for k in (0, 1, 2, 3):
            for _ in range(8):
                yield case_line('fp.fmt', k, rand_value(rng, k), b(f))
    # --- random members of the family
    n = 45000 if not thorough else 1500000
    for _ in range(n):
        kind = rng.choice([0, 1, 2, 2, 3, 3])
        f = rand_fmt(rng, kind)
        v = rand_value(rng, kind)
        r = rng.random()
        if r < 0.7:
            yield case_line('fp.rt', kind, v, f)
        elif r < 0.88:
            yield case_line('fp.rtx', kind, v, f, rng.randrange(2**64))
        else:
            yield case_line('fp.rem', kind, v, f, b(rng.choice(TAILS)))
    # --- arbitrary text
    n = 30000 if not thorough else 600000
    for _ in range(n):
        kind = rng.choice([0, 1, 2, 3])
        text, f = simple_text(rng, kind)
        r = rng.random()
        if r < 0.85:
            yield case_line('fp.parse', kind, b(mutate(rng, text)), b(f))
        elif r < 0.95:
            yield case_line('fp.parse', kind, b(mutate(rng, mutate(rng, text))), rand_fmt(rng, kind))
        else:
            yield case_line('fp.parse', kind, b(mutate(rng, text)), b(mutate(rng, f)))
