"""C18 case generator: histories of (set/unset TZ, wait, wall-clock step, convert, spawn/join) run by
the harness op `lc.history` in-process on a fresh thread.

The *machine description* (which paths hold which zone, which strings are POSIX rules) is computed
here, independently of chrono: the file system is inspected with os/zoneinfo (CPython's TZif
reader), rule offsets are written down by construction.  Only zones whose offset is constant over
1971..2037 are used, so the offset chrono answers identifies the zone it consulted.

Two kinds of waiting: real sleeps (<= 60 ms or >= 1150 ms; few, they cost wall time) and simulated
waits (the harness moves the clocks its own clock_gettime reports; thousands, with gaps right at
the one-second boundary).  The measured clock readings of the implementation run are appended to
the case for the model and the judge (hooks model_case / impl_observable)."""
import datetime
import os
import zoneinfo

from vcheck import case_line, parse_case, pv, show_val

RULE = ('histories over ~60 TZ values (absolute/relative/colon-prefixed TZif files in all four zoneinfo '
        'directories incl. duplicates and unparseable files, system zone files, POSIX rules, blanks, empty, '
        'garbage, non-UTF-8, directories, "localtime") x waits around the one-second window (simulated: '
        '0..60000 ms incl. 999/1000/1001; real sleeps <=60 ms or >=1150 ms) x wall-clock steps x '
        'spawn/join; selection lattice: every value alone and every ordered pair of value classes across a wait')

IMPL_ENV = {'IMPLRUN_TIMEOUT_MS': '60000'}

DIRS = ['/usr/share/zoneinfo', '/share/zoneinfo', '/etc/zoneinfo', '/usr/share/lib/zoneinfo']

# files the harness creates (path -> offset, None = not a TZif file); every offset is distinct
CREATED = {
    '/tmp/c18z/p3': 3 * 3600 + 60, '/tmp/c18z/m7': -7 * 3600 - 120, '/tmp/c18z/p11': 11 * 3600 + 180,
    '/tmp/c18z/junk': None,
    '/usr/share/zoneinfo/c18z/a': 3600 + 240,
    '/share/zoneinfo/c18z/b': 2 * 3600 + 300, '/etc/zoneinfo/c18z/b': 2 * 3600 + 360,
    '/etc/zoneinfo/c18z/c': 4 * 3600 + 420, '/usr/share/lib/zoneinfo/c18z/c': 4 * 3600 + 480,
    '/usr/share/lib/zoneinfo/c18z/d': -6 * 3600 - 540,
    '/usr/share/zoneinfo/c18z/e': -8 * 3600 - 600, '/share/zoneinfo/c18z/e': -8 * 3600 - 660,
    '/share/zoneinfo/c18z/j': None, '/etc/zoneinfo/c18z/j': 9 * 3600 + 720,
    # file names with a comma (a comma does not make a TZ value a POSIX rule when the file exists)
    '/tmp/c18z/k,1': 5 * 3600 + 780, '/usr/share/zoneinfo/c18z/l,m': -2 * 3600 - 840,
}
# POSIX rules (trimmed text -> offset east of UTC)
RULES = {
    'AAA-3': 10800, 'BBB+5:30': -19800, 'CCC4': -14400, '<+07>-7': 25200, 'DDD-1:15:20': 4520,
    'EEE2': -7200, 'GMT+3': -10800, 'FFF-10': 36000,
}
STEP = ('/tmp/c18z/step', [4380, 2000, 1, 0, 11640])   # +01:13 before 2000-01-01T00:00:00Z, +03:14 after
VALUES_FILE = ['/tmp/c18z/step', ':/tmp/c18z/step', '/tmp/c18z/p3', ':/tmp/c18z/m7', '/tmp/c18z/p11', 'c18z/a', ':c18z/a', 'c18z/b', 'c18z/c', ':c18z/d',
               'c18z/e', 'c18z/../c18z/d', '/tmp/c18z/../c18z/p3', '/tmp/c18z/k,1', ':/tmp/c18z/k,1', 'c18z/l,m']
VALUES_SYS = ['Etc/GMT+5', ':Etc/GMT-3', 'Asia/Tokyo', 'Asia/Kolkata', 'EST', 'UTC', 'Etc/../Etc/GMT+9', '/etc/localtime',
              '/usr/share/zoneinfo/Etc/GMT-14', ':/usr/share/zoneinfo/Asia/Dubai']
VALUES_RULE = list(RULES)
VALUES_ODD = [' AAA-3 ', '\tEEE2\n', 'CCC4 ', ':AAA-3', ': AAA-3', '\x0bAAA-3']
VALUES_BAD = ['', '!!garbage!!', 'AAA', 'Etc', ':', '/tmp/c18z/missing', '/tmp/c18z/junk', ':/tmp/c18z/junk', 'c18z/j',
              b'\xff\xfe', b'AAA-3\xc0', 'localtime', 'Zürich', 'c18z/nope', ':c18z/nope', '/', 'AAA-30', '-3']
CLASSES = [VALUES_FILE, VALUES_SYS, VALUES_RULE, VALUES_ODD, VALUES_BAD]

_zone_cache = {}


def file_zone(path):
    """('absent',) | ('zone', off-or-step) | ('unreadable',) | ('varying',) for a path of the real machine.
    Files under a c18z directory are written by the harness before its first history (those it may
    not create, e.g. without root, simply do not exist): their content is known by construction,
    their existence is looked up when asked (the machine description is built after the
    implementation run)."""
    if '/c18z/' in path:
        n = os.path.normpath(path)
        if not os.path.exists(path) or os.path.isdir(path):
            return ('unreadable',) if os.path.isdir(path) else ('absent',)
        if n == STEP[0]:
            return ('zone', STEP[1])
        if n in CREATED:
            return ('zone', CREATED[n]) if CREATED[n] is not None else ('unreadable',)
        return ('unreadable',)
    if path in _zone_cache:
        return _zone_cache[path]
    if not os.path.exists(path):
        r = ('absent',)
    elif os.path.isdir(path):
        r = ('unreadable',)
    else:
        try:
            with open(path, 'rb') as f:
                z = zoneinfo.ZoneInfo.from_file(f)
            offs = set()
            for y in range(1970, 2039):
                for mth in range(1, 13):
                    for day in (1, 15):
                        offs.add(datetime.datetime(y, mth, day, 12, tzinfo=z).utcoffset())
            r = ('zone', int(offs.pop().total_seconds())) if len(offs) == 1 else ('varying',)
        except Exception:
            r = ('unreadable',)
    _zone_cache[path] = r
    return r


def b(v):
    return v if isinstance(v, bytes) else v.encode('utf-8')


def candidates(value):
    """Paths the value may name (text of the property: optional colon, absolute or relative to the
    zoneinfo directories)."""
    v = b(value)
    try:
        s = v.decode('utf-8')
    except UnicodeDecodeError:
        return []
    if s.startswith(':'):
        s = s[1:]
    if s.startswith('/'):
        return [s]
    return [d + '/' + s for d in DIRS]


def iana_name():
    try:
        t = os.path.realpath('/etc/localtime')
        if '/zoneinfo/' in t:
            return t.split('/zoneinfo/', 1)[1]
    except OSError:
        pass
    return None


def world_for(values):
    files = {}
    extra = ['/etc/localtime']
    ia = iana_name()
    if ia:
        extra.append('/usr/share/zoneinfo/' + ia)
    for v in values:
        extra += candidates(v)
    for p in extra:
        if p in files:
            continue
        z = file_zone(p)
        if z[0] == 'zone':
            files[p] = ('some', z[1])
        elif z[0] == 'unreadable':
            files[p] = None
        elif z[0] == 'varying':
            return None
    fl = [[p.encode(), files[p]] for p in sorted(files)]
    rl = [[k.encode(), o] for k, o in sorted(RULES.items())]
    return [fl, rl, ('some', ia.encode()) if ia else None]


def usable(v):
    return all('/c18z/' in p or file_zone(p)[0] != 'varying' for p in candidates(v))


NDTS = [[2020, 100, 43200, 0], [1999, 365, 86399, 999999999], [2037, 1, 0, 0], [1971, 200, 3600, 1500000000], [2024, 366, 7, 5],
        [2000, 1, 1800, 0], [2000, 1, 7200, 0], [2000, 1, 20000, 0], [1999, 365, 80000, 0], [2000, 1, 0, 0], [2000, 1, 4380, 0],
        [2000, 1, 11640, 0], [2000, 1, 11639, 999999999], [2000, 1, 4381, 0]]


def conv(rng):
    return [3, rng.randint(0, 1), rng.choice(NDTS)]


def mk(steps):
    vals = [s[1] for s in steps if s[0] == 0]
    if not all(usable(v) for v in vals):
        return None
    return case_line('lc.history', steps)


def pick_value(rng):
    c = rng.choice(CLASSES + [VALUES_FILE, VALUES_RULE])
    return b(rng.choice(c))


SKIPS = [0, 1, 400, 900, 998, 999, 1000, 1001, 1002, 1100, 1500, 1999, 2000, 2001, 3000, 60000]
CSTEPS = [-10000, -2000, -1000, -999, -500, -1, 1, 500, 999, 1000, 2000, 10000]


def virtual_history(rng, backstep):
    n = rng.randint(3, 12)
    steps = []
    depth = 0
    for _ in range(n):
        k = rng.random()
        if k < 0.30:
            steps.append(conv(rng))
        elif k < 0.52:
            steps.append([0, pick_value(rng)])
        elif k < 0.57:
            steps.append([1])
        elif k < 0.80:
            steps.append([6, rng.choice(SKIPS)])
        elif k < 0.86 and depth < 3:
            steps.append([4])
            depth += 1
        elif k < 0.90 and depth > 0:
            steps.append([5])
            depth -= 1
        elif k < 0.95 and backstep:
            steps.append([7, rng.choice(CSTEPS)])
        else:
            steps.append(conv(rng))
    steps.append(conv(rng))
    return steps


def real_history(rng):
    """<= 8 steps, <= 3 long sleeps."""
    steps = []
    longs = 0
    depth = 0
    steps.append([0, pick_value(rng)])
    steps.append(conv(rng))
    for _ in range(rng.randint(2, 5)):
        k = rng.random()
        if k < 0.35:
            steps.append([0, pick_value(rng)])
        elif k < 0.42:
            steps.append([1])
        elif k < 0.62 and longs < 3:
            steps.append([2, rng.choice([1150, 1200, 1300])])
            longs += 1
        elif k < 0.75:
            steps.append([2, rng.choice([0, 5, 30, 60])])
        elif k < 0.82 and depth < 1:
            steps.append([4])
            depth += 1
        elif k < 0.86 and depth > 0:
            steps.append([5])
            depth -= 1
        else:
            steps.append(conv(rng))
    steps.append(conv(rng))
    return steps


def lattice():
    """Selection: every value alone (first conversion of a fresh thread, both directions), after an
    unset start and after another value across >= 1 s / < 1 s of simulated time."""
    allv = [b(v) for c in CLASSES for v in c]
    for v in allv:
        yield [[0, v], [3, 0, NDTS[0]], [3, 1, NDTS[1]]]
        yield [[3, 0, NDTS[0]], [0, v], [6, 999], [3, 0, NDTS[0]], [6, 1], [3, 1, NDTS[0]]]
        yield [[0, v], [3, 0, NDTS[0]], [1], [6, 1000], [3, 0, NDTS[2]], [0, v], [4], [3, 0, NDTS[0]], [5], [3, 0, NDTS[0]]]
    reps = [b(c[0]) for c in CLASSES] + [b(c[-1]) for c in CLASSES] + [b('c18z/b'), b('c18z/j'), b(':AAA-3')]
    for x in reps:
        for y in reps:
            if x == y:
                continue
            for gap in (999, 1000):
                yield [[0, x], [3, 0, NDTS[0]], [0, y], [6, gap], [3, 0, NDTS[0]], [6, 1000], [3, 1, NDTS[3]]]
            yield [[0, x], [3, 0, NDTS[0]], [0, y], [6, 500], [0, x], [6, 600], [3, 0, NDTS[0]]]
    # the wall clock is set back between two conversions (recorded finding when stale beyond 1 s)
    for x, y in [(b('AAA-3'), b('BBB+5:30')), (b('/tmp/c18z/p3'), b('c18z/a'))]:
        for back, wait in [(-10000, 10500), (-2000, 2500), (-1000, 1500), (-500, 1200), (-10000, 9000), (-10000, 11000)]:
            yield [[0, x], [3, 0, NDTS[0]], [7, back], [0, y], [6, wait], [3, 0, NDTS[0]], [6, 1000], [3, 0, NDTS[0]]]


def cases(tier, rng):
    global CLASSES
    CLASSES = [[v for v in c if usable(v)] for c in CLASSES]
    n_real = 160 if tier == 'quick' else 640
    n_virt = 33000 if tier == 'quick' else 120000
    out = []
    for steps in lattice():
        l = mk(steps)
        if l:
            out.append(l)
    while len(out) < n_virt:
        l = mk(virtual_history(rng, backstep=rng.random() < 0.12))
        if l:
            out.append(l)
    real = []
    while len(real) < n_real:
        l = mk(real_history(rng))
        if l:
            real.append(l)
    # spread the slow histories evenly so that every shard of the run gets the same share
    stride = max(1, len(out) // (len(real) + 1))
    res = []
    k = 0
    for i, l in enumerate(out):
        res.append(l)
        if (i + 1) % stride == 0 and k < len(real):
            res.append(real[k])
            k += 1
    res += real[k:]
    for l in res:
        yield l


# ---- hooks used by tools/vcheck.py run_both --------------------------------------------------
def _records(impl_out):
    try:
        v = pv(impl_out)
    except Exception:
        return None
    if not isinstance(v, list):
        return None
    for r in v:
        if not (isinstance(r, list) and len(r) == 5 and all(isinstance(x, int) and not isinstance(x, bool) for x in r[:4])):
            return None
    return v


def model_case(case, impl_out):
    """Appends the machine description for the TZ values of the history and the measured clock
    readings (one (wall0, mono0, wall1, mono1) per step)."""
    recs = _records(impl_out)
    try:
        op, args = parse_case(case)
        nsteps = len(args[0])
        vals = [s[1] for s in args[0] if isinstance(s, list) and len(s) == 2 and s[0] == 0 and isinstance(s[1], bytes)]
        w = world_for(vals)
        if w is None:
            return case
        case = case + ' ' + show_val(w)
    except Exception:
        return case
    if recs is None or len(recs) != nsteps:
        times = [[0, 0, 0, 0] for _ in range(nsteps)]
    else:
        times = [r[:4] for r in recs]
    return case + ' ' + show_val(times)


def impl_observable(case, impl_out):
    """The answers of the conversions, without the clock readings."""
    recs = _records(impl_out)
    if recs is None:
        return impl_out
    ans = [r[4][1] for r in recs if isinstance(r[4], tuple) and r[4][0] == 'some']
    return show_val(ans)
