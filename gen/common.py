"""Shared value lattices for the case generators."""
I32_MIN, I32_MAX = -2**31, 2**31 - 1
I64_MIN, I64_MAX = -2**63, 2**63 - 1
U32_MAX, U64_MAX = 2**32 - 1, 2**64 - 1
G = 10**9


def around(vals, deltas=(-2, -1, 0, 1, 2), lo=None, hi=None):
    out = []
    seen = set()
    for v in vals:
        for d in deltas:
            x = v + d
            if lo is not None and x < lo:
                continue
            if hi is not None and x > hi:
                continue
            if x not in seen:
                seen.add(x)
                out.append(x)
    return out


def rand_i64(rng):
    k = rng.random()
    if k < 0.2:
        return rng.randint(-1000, 1000)
    if k < 0.4:
        return rng.randint(-10**10, 10**10)
    if k < 0.7:
        return rng.randint(-10**16, 10**16)
    return rng.randint(I64_MIN, I64_MAX)


def rand_i32(rng):
    k = rng.random()
    if k < 0.4:
        return rng.randint(-20, 20)
    if k < 0.7:
        return rng.randint(-100000, 100000)
    return rng.randint(I32_MIN, I32_MAX)
