"""Translator family Strftime: reads the `match spec { ... }` decision tree of
StrftimeItems::parse_next_item (src/format/strftime.rs, default non-locale configuration) and emits
it as data (coq/Gen/Strftime.v): specifier character -> item, queued composite expansions (queue!
lists and the D_FMT / D_T_FMT / T_FMT / T_FMT_AMPM statics), the nested `match next!()` arms of
`%.f %.3f %3f ...`, the `starts_with` chain of `%:z %::z %:::z`, the alternate form of `%#z`, the
padding-override characters, HAVE_ALTERNATES, and which of the two known bodies `error()` has in
strict mode (keeps the input / drops the input).  Control flow stays hand-modelled in
coq/Model/Strftime.v; every shape that is not recognised fails loudly."""
import os
import re
import sys

sys.path.insert(0, os.path.dirname(os.path.abspath(__file__)))
from rustconst import TranslateError, fn_body, strip_comments

REPO = os.environ.get('VERIF_REPO', '/repo')


def read(rel):
    with open(os.path.join(REPO, rel)) as f:
        return f.read()


# ---- small lexical helpers (literal-aware) -------------------------------------------------------
def skip_literal(s, i):
    """If s[i] starts a string or char literal return the index just after it, else None."""
    if s[i] == '"':
        j = i + 1
        while j < len(s) and s[j] != '"':
            j += 2 if s[j] == '\\' else 1
        return j + 1
    if s[i] == "'":
        m = re.match(r"'(\\.|[^\\'])'", s[i:i + 4])
        if m:
            return i + len(m.group(0))
    return None


def match_close(s, i):
    """s[i] is an opening bracket: index of the matching closing bracket."""
    depth = 0
    j = i
    while j < len(s):
        k = skip_literal(s, j)
        if k is not None:
            j = k
            continue
        if s[j] in '([{':
            depth += 1
        elif s[j] in ')]}':
            depth -= 1
            if depth == 0:
                return j
        j += 1
    raise TranslateError('unbalanced brackets')


def split_top(s, sep=','):
    parts, cur, depth, j = [], [], 0, 0
    while j < len(s):
        k = skip_literal(s, j)
        if k is not None:
            cur.append(s[j:k])
            j = k
            continue
        c = s[j]
        if c in '([{':
            depth += 1
        elif c in ')]}':
            depth -= 1
        if c == sep and depth == 0:
            parts.append(''.join(cur).strip())
            cur = []
        else:
            cur.append(c)
        j += 1
    last = ''.join(cur).strip()
    if last:
        parts.append(last)
    return parts


def norm(s):
    return re.sub(r'\s+', '', s)


def rust_str(lit):
    """bytes of a Rust string literal "..." (escapes \\n \\t \\\\ \\" only)."""
    m = re.match(r'^"((?:\\.|[^"\\])*)"$', lit.strip(), re.S)
    if not m:
        raise TranslateError('not a string literal: %r' % lit)
    body = m.group(1)
    out = bytearray()
    i = 0
    esc = {'n': 10, 't': 9, 'r': 13, '\\': 92, '"': 34, '0': 0, "'": 39}
    while i < len(body):
        if body[i] == '\\':
            if body[i + 1] not in esc:
                raise TranslateError('unsupported escape in %r' % lit)
            out.append(esc[body[i + 1]])
            i += 2
        else:
            out += body[i].encode('utf-8')
            i += 1
    return bytes(out)


def rust_char(lit):
    m = re.match(r"^'(\\.|[^\\'])'$", lit.strip())
    if not m:
        raise TranslateError('not a char literal: %r' % lit)
    c = m.group(1)
    if c.startswith('\\'):
        c = {'n': '\n', 't': '\t', '\\': '\\', "'": "'"}[c[1]]
    if ord(c) > 127:
        raise TranslateError('non-ASCII specifier char %r' % lit)
    return ord(c)


def coq_bytes(b):
    return '[' + '; '.join(str(x) for x in b) + ']'


# ---- items -----------------------------------------------------------------------------------------
def item(expr):
    e = expr.strip()
    m = re.match(r'^(num0|nums|num)\(\s*(?:Numeric::)?([A-Za-z0-9]+)\s*\)$', e)
    if m:
        return '(%s N_%s)' % (m.group(1), m.group(2))
    m = re.match(r'^fixed\(\s*Fixed::([A-Za-z0-9]+)\s*\)$', e)
    if m:
        return '(fixed F_%s)' % m.group(1)
    m = re.match(r'^internal_fixed\(\s*(?:InternalInternal::)?([A-Za-z0-9]+)\s*\)$', e)
    if m:
        return '(internal_fixed I_%s)' % m.group(1)
    m = re.match(r'^(?:Item::)?(Literal|Space)\(\s*(".*")\s*\)$', e, re.S)
    if m:
        return '(%s %s)' % (m.group(1), coq_bytes(rust_str(m.group(2))))
    raise TranslateError('unrecognised item expression: %r' % e[:80])


def item_list(body):
    m = re.match(r'^&?\[(.*)\]$', body.strip(), re.S)
    if not m:
        raise TranslateError('not an item array: %r' % body[:60])
    return [item(x) for x in split_top(m.group(1))]


# ---- arms ------------------------------------------------------------------------------------------
ERR_SOME = norm('{ let res = self.error(original, &mut error_len, Some(c)); remainder = res.0; res.1 }')
ERR_NONE_ITEM = norm('self.error(original, &mut error_len, None).1')


def arms_of(body):
    """body = text between the braces of a match: list of (cfg attribute or None, pattern, arm body)."""
    out = []
    i = 0
    n = len(body)
    while True:
        while i < n and body[i].isspace():
            i += 1
        if i >= n:
            break
        cfg = None
        if body.startswith('#[', i):
            j = match_close(body, i + 1)
            cfg = norm(body[i:j + 1])
            i = j + 1
            continue_cfg = cfg
            while i < n and body[i].isspace():
                i += 1
        else:
            continue_cfg = None
        # pattern up to `=>`
        j = i
        while True:
            k = skip_literal(body, j)
            if k is not None:
                j = k
                continue
            if body.startswith('=>', j):
                break
            j += 1
            if j >= n:
                raise TranslateError('arm without =>')
        pat = body[i:j].strip()
        i = j + 2
        while body[i].isspace():
            i += 1
        if body[i] == '{':
            j = match_close(body, i)
            arm = body[i:j + 1]
            i = j + 1
            while i < n and body[i].isspace():
                i += 1
            if i < n and body[i] == ',':
                i += 1
        else:
            depth = 0
            j = i
            while j < n:
                k = skip_literal(body, j)
                if k is not None:
                    j = k
                    continue
                c = body[j]
                if c in '([{':
                    depth += 1
                elif c in ')]}':
                    depth -= 1
                elif c == ',' and depth == 0:
                    break
                j += 1
            arm = body[i:j]
            i = j + 1
        out.append((continue_cfg, pat, arm.strip()))
    return out


def unbrace(arm):
    a = arm.strip()
    while a.startswith('{') and match_close(a, 0) == len(a) - 1:
        a = a[1:-1].strip()
    return a


def match_next(a):
    """`match next!() { ... }` -> inner text or None"""
    m = re.match(r'^match\s+next!\(\)\s*\{', a)
    if not m:
        return None
    j = match_close(a, m.end() - 1)
    if j != len(a) - 1:
        raise TranslateError('trailing text after match next!()')
    return a[m.end():j]


def translate_arm(arm, statics):
    a = unbrace(arm)
    inner = match_next(a)
    if inner is not None:
        subs = []
        default_ok = False
        for cfg, pat, sub in arms_of(inner):
            if cfg is not None:
                raise TranslateError('cfg inside nested match')
            if re.match(r'^[a-z_]+$', pat):
                if norm(sub) != ERR_SOME:
                    raise TranslateError('unexpected default arm: %r' % sub[:80])
                default_ok = True
                continue
            for p in split_top(pat, '|'):
                subs.append('(%d, %s)' % (rust_char(p), translate_arm(sub, statics)))
        if not default_ok:
            raise TranslateError('nested match without the error default arm')
        return '(ArmNext [' + '; '.join(subs) + '])'
    m = re.match(r'^queue!\[(.*)\]$', a, re.S)
    if m:
        its = [item(x) for x in split_top(m.group(1))]
        return '(ArmQueue %s [%s])' % (its[0], '; '.join(its[1:]))
    m = re.match(r'^queue_from_slice!\(\s*([A-Z_]+)\s*\)$', a)
    if m:
        its = statics[m.group(1)]
        return '(ArmQueue %s [%s])' % (its[0], '; '.join(its[1:]))
    m = re.match(r'^if\s+is_alternate\s*\{(.*)\}\s*else\s*\{(.*)\}$', a, re.S)
    if m:
        return '(ArmAlt %s %s)' % (item(m.group(1)), item(m.group(2)))
    if a.startswith('if remainder.starts_with('):
        pre = []
        rest = a
        while True:
            m = re.match(r'^if\s+remainder\.starts_with\(\s*("[^"]*"|\'[^\']\')\s*\)\s*\{', rest)
            if not m:
                raise TranslateError('unexpected starts_with chain: %r' % rest[:80])
            j = match_close(rest, m.end() - 1)
            blk = rest[m.end():j].strip()
            lit = m.group(1)
            pb = rust_str(lit) if lit.startswith('"') else bytes([rust_char(lit)])
            mm = re.match(r'^remainder\s*=\s*&remainder\[(\d+)\.\.\]\s*;\s*(.*)$', blk, re.S)
            if not mm or int(mm.group(1)) != len(pb):
                raise TranslateError('starts_with arm does not skip its own prefix: %r' % blk[:80])
            pre.append('(%s, %s)' % (coq_bytes(pb), item(mm.group(2))))
            rest = rest[j + 1:].strip()
            if not rest.startswith('else'):
                raise TranslateError('starts_with chain without else')
            rest = rest[4:].strip()
            if rest.startswith('if'):
                continue
            if norm(unbrace(rest)) != ERR_NONE_ITEM:
                raise TranslateError('unexpected final else of the starts_with chain: %r' % rest[:80])
            break
        return '(ArmPrefixes [' + '; '.join(pre) + '])'
    return '(ArmItem %s)' % item(a)


def gen_strftime():
    src = read('src/format/strftime.rs')
    body = fn_body(src, 'parse_next_item')
    # statics
    statics = {}
    for m in re.finditer(r'static\s+([A-Z_]+)\s*:\s*&\[Item<\'static>\]\s*=\s*', body):
        i = m.end()
        j = body.index(';', i)
        # the array may contain `;`-free text only
        k = i
        while body[k].isspace() or body[k] == '&':
            k += 1
        e = match_close(body, k)
        statics[m.group(1)] = item_list(body[i:e + 1])
    # the spec match
    m = re.search(r'let\s+item\s*=\s*match\s+spec\s*\{', body)
    if not m:
        raise TranslateError('`let item = match spec {` not found')
    e = match_close(body, m.end() - 1)
    arms = arms_of(body[m.end():e])
    rows = []
    default_ok = False
    seen = set()
    for cfg, pat, arm in arms:
        if cfg is not None:
            if cfg == norm('#[cfg(feature = "unstable-locales")]'):
                continue          # locale build is not the modelled configuration
            if cfg != norm('#[cfg(not(feature = "unstable-locales"))]'):
                raise TranslateError('unexpected cfg on arm %s: %s' % (pat, cfg))
        if re.match(r'^[a-z_]+$', pat):
            if norm(arm) != ERR_SOME:
                raise TranslateError('unexpected default arm of match spec')
            default_ok = True
            continue
        t = translate_arm(arm, statics)
        for p in split_top(pat, '|'):
            c = rust_char(p)
            if c in seen:
                raise TranslateError('duplicate specifier arm %r' % p)
            seen.add(c)
            rows.append('  (%d, %s)' % (c, t))
    if not default_ok:
        raise TranslateError('match spec without the error default arm')
    # padding override characters
    m = re.search(r'let\s+pad_override\s*=\s*match\s+spec\s*\{', body)
    if not m:
        raise TranslateError('pad_override match not found')
    e = match_close(body, m.end() - 1)
    pads = []
    for cfg, pat, arm in arms_of(body[m.end():e]):
        if pat == '_':
            if norm(arm) != 'None':
                raise TranslateError('pad_override default is not None')
            continue
        mm = re.match(r'^Some\(Pad::(None|Zero|Space)\)$', arm.strip())
        if not mm:
            raise TranslateError('unexpected pad_override arm %r' % arm)
        pads.append('(%d, Pad%s)' % (rust_char(pat), mm.group(1)))
    m = re.search(r"let\s+is_alternate\s*=\s*spec\s*==\s*('.')\s*;", body)
    if not m:
        raise TranslateError('is_alternate not found')
    alt = rust_char(m.group(1))
    m = re.search(r'const\s+HAVE_ALTERNATES\s*:\s*&str\s*=\s*("[^"]*")\s*;', strip_comments(src))
    if not m:
        raise TranslateError('HAVE_ALTERNATES not found')
    have_alt = rust_str(m.group(1))
    # strict-mode body of error()
    eb = fn_body(src, 'error')
    m = re.search(r'if\s*!\s*self\.lenient\s*\{\s*return\s*\((.*?),\s*Item::Error\s*\)\s*;\s*\}', eb, re.S)
    if not m:
        raise TranslateError('strict-mode return of error() not found')
    keep = norm(m.group(1))
    if keep == norm('&original[*error_len..]'):
        consumes = 'false'
    elif keep in ('""', norm('&original[original.len()..]')):
        consumes = 'true'
    else:
        raise TranslateError('unrecognised strict-mode remainder in error(): %r' % m.group(1))
    rest = eb[m.end():]
    if norm(rest) != norm("if let Some(c) = ch { *error_len -= c.len_utf8(); } (&original[*error_len..], Item::Literal(&original[..*error_len])) }"):
        raise TranslateError('lenient part of error() changed')
    out = '(* GENERATED by tools/translate_strftime.py from src/format/strftime.rs -- do not edit *)\n'
    out += 'From Coq Require Import ZArith List.\nFrom V Require Import Model.Items.\nImport ListNotations.\nOpen Scope Z_scope.\n\n'
    out += '(* `let item = match spec { ... }` of parse_next_item: specifier char -> decision-tree arm *)\n'
    out += 'Definition SF_ARMS : list (Z * sf_arm) := [\n' + ';\n'.join(rows) + '\n].\n'
    out += 'Definition SF_PAD_OVERRIDE : list (Z * Pad) := [' + '; '.join(pads) + '].\n'
    out += 'Definition SF_ALT_CHAR : Z := %d.\n' % alt
    out += 'Definition SF_HAVE_ALTERNATES : list Z := %s.\n' % coq_bytes(have_alt)
    for k in sorted(statics):
        out += 'Definition SF_%s : list Item := [%s].\n' % (k, '; '.join(statics[k]))
    out += '(* strict-mode `error()`: true = the rest of the input is dropped, false = nothing is consumed *)\n'
    out += 'Definition SF_ERROR_CONSUMES : bool := %s.\n' % consumes
    return out


FAMILIES = {'Strftime': gen_strftime}


# ---- default-locale name tables (src/format/locales.rs, mod unlocalized) ---------------------------
def gen_locales():
    src = strip_comments(read('src/format/locales.rs'))
    m = re.search(r'mod\s+unlocalized\s*\{', src)
    if not m:
        raise TranslateError('mod unlocalized not found')
    e = match_close(src, m.end() - 1)
    body = src[m.end():e]
    out = '(* GENERATED by tools/translate_strftime.py from src/format/locales.rs (mod unlocalized) -- do not edit *)\n'
    out += 'From Coq Require Import ZArith List.\nImport ListNotations.\nOpen Scope Z_scope.\n\n'
    want = {'short_months': 12, 'long_months': 12, 'short_weekdays': 7, 'long_weekdays': 7, 'am_pm': 2}
    for fn, n in want.items():
        fb = fn_body(body, fn)
        mm = re.search(r'&\[(.*)\]\s*\}\s*$', fb, re.S)
        if not mm:
            raise TranslateError('table of %s not found' % fn)
        names = [rust_str(x) for x in split_top(mm.group(1))]
        if len(names) != n:
            raise TranslateError('%s: expected %d names, found %d' % (fn, n, len(names)))
        for b in names:
            if any(c > 127 for c in b):
                raise TranslateError('%s: non-ASCII name' % fn)
        out += 'Definition LOC_%s : list (list Z) := [\n  %s\n].\n' % (fn.upper(), ';\n  '.join(coq_bytes(b) for b in names))
    fb = fn_body(body, 'decimal_point')
    mm = re.search(r'\{\s*("[^"]*")\s*\}\s*$', fb, re.S)
    if not mm:
        raise TranslateError('decimal_point not found')
    out += 'Definition LOC_DECIMAL_POINT : list Z := %s.\n' % coq_bytes(rust_str(mm.group(1)))
    return out


FAMILIES['Locales'] = gen_locales
