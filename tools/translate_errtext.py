"""Translator family ErrText: the texts written by the Display / Debug impls of chrono's error types and the two small
Debug impls with arguments (IsoWeek, WeekdaySet) -> coq/Gen/ErrText.v.  Read from the `impl fmt::Display for T` /
`impl fmt::Debug for T` blocks of the Rust sources on every run:
  * ParseError (src/format/mod.rs): one `ParseErrorKind::K => write!(f, "...")` arm per kind, in the order of the enum,
  * OutOfRange (src/lib.rs), ParseMonthError (src/month.rs), ParseWeekdayError (src/weekday.rs; its Display delegates to
    Debug), OutOfRangeError (src/time_delta.rs): a single `write!(f, "...")`,
  * RoundingError (src/round.rs): one arm per variant, in the order of the enum,
  * IsoWeek Debug (src/naive/isoweek.rs): the year range of the 4-digit form and the two format strings,
  * WeekdaySet Debug (src/weekday_set.rs): the format string.
A shape that is not recognised is a translator failure (the check reports it), never a stale constant."""
import re

from rustconst import TranslateError, strip_comments
from translate import HEADER, defn, read


def impl_block(src, trait, ty):
    """body of `impl [fmt::]<trait> for <ty> { ... }` (comments stripped)"""
    s = strip_comments(src)
    m = re.search(r'impl\s+(?:core::)?(?:fmt::)?%s\s+for\s+%s\s*\{' % (trait, re.escape(ty)), s)
    if not m:
        raise TranslateError('impl %s for %s not found' % (trait, ty))
    i = m.end() - 1
    depth = 0
    j = i
    while j < len(s):
        if s[j] == '{':
            depth += 1
        elif s[j] == '}':
            depth -= 1
            if depth == 0:
                return s[i:j + 1]
        j += 1
    raise TranslateError('unbalanced braces in impl %s for %s' % (trait, ty))


def fmt_literal(lit):
    """the text a `write!(f, "<lit>")` without arguments writes: `{{` / `}}` are the escaped braces"""
    if re.search(r'\\', lit):
        raise TranslateError('escape sequence in format literal %r' % lit)
    t = lit.replace('{{', '\x00').replace('}}', '\x01')
    if '{' in t or '}' in t:
        raise TranslateError('format literal with arguments: %r' % lit)
    return t.replace('\x00', '{').replace('\x01', '}')


def blist(text):
    return '[' + '; '.join(str(c) for c in text.encode('utf-8')) + ']'


def single(src_rel, trait, ty):
    body = impl_block(read(src_rel), trait, ty)
    ms = re.findall(r'write!\(\s*f\s*,\s*"((?:[^"\\]|\\.)*)"\s*\)', body)
    if len(ms) != 1:
        raise TranslateError('%s for %s: expected one write!(f, "..."), found %d' % (trait, ty, len(ms)))
    return fmt_literal(ms[0])


def enum_variants(src, name):
    s = strip_comments(src)
    m = re.search(r'pub enum %s\s*\{(.*?)\n\}' % name, s, re.S)
    if not m:
        raise TranslateError('enum %s not found' % name)
    return [v for v in re.findall(r'^\s*(?:#\[[^\]]*\]\s*)*([A-Za-z_]\w*)\s*,', m.group(1), re.M)]


def arms(src_rel, trait, ty, enum, variants):
    body = impl_block(read(src_rel), trait, ty)
    found = re.findall(r'%s::(\w+)\s*=>\s*\{?\s*write!\(\s*f\s*,\s*"((?:[^"\\]|\\.)*)"\s*\)' % enum, body)
    names = [n for n, _ in found]
    if names != variants:
        raise TranslateError('%s for %s: arms %s do not match the variants %s' % (trait, ty, names, variants))
    return [fmt_literal(t) for _, t in found]


def gen_errtext():
    out = HEADER % 'the Display / Debug impls of the error types (src/format/mod.rs, src/lib.rs, src/month.rs, src/weekday.rs, src/round.rs, src/time_delta.rs, src/naive/isoweek.rs, src/weekday_set.rs)'
    # ParseError
    kinds = [v for v in enum_variants(read('src/format/mod.rs'), 'ParseErrorKind') if not v.startswith('__')]
    if kinds != ['OutOfRange', 'Impossible', 'NotEnough', 'Invalid', 'TooShort', 'TooLong', 'BadFormat']:
        raise TranslateError('ParseErrorKind variants changed: %s' % kinds)
    texts = arms('src/format/mod.rs', 'Display', 'ParseError', 'ParseErrorKind', kinds)
    out += '(* impl fmt::Display for ParseError, by ParseErrorKind in declaration order *)\n'
    out += 'Definition ET_PARSE_ERROR : list (list Z) := [\n  %s\n].\n' % ';\n  '.join(blist(t) for t in texts)
    # RoundingError
    rv = enum_variants(read('src/round.rs'), 'RoundingError')
    if rv != ['DurationExceedsTimestamp', 'DurationExceedsLimit', 'TimestampExceedsLimit']:
        raise TranslateError('RoundingError variants changed: %s' % rv)
    texts = arms('src/round.rs', 'Display', 'RoundingError', 'RoundingError', rv)
    out += '(* impl fmt::Display for RoundingError, by variant in declaration order *)\n'
    out += 'Definition ET_ROUNDING_ERROR : list (list Z) := [\n  %s\n].\n' % ';\n  '.join(blist(t) for t in texts)
    # the constant ones
    out += 'Definition ET_OUT_OF_RANGE_DISPLAY : list Z := %s.\n' % blist(single('src/lib.rs', 'Display', 'OutOfRange'))
    out += 'Definition ET_OUT_OF_RANGE_DEBUG : list Z := %s.\n' % blist(single('src/lib.rs', 'Debug', 'OutOfRange'))
    out += 'Definition ET_PARSE_MONTH_DISPLAY : list Z := %s.\n' % blist(single('src/month.rs', 'Display', 'ParseMonthError'))
    out += 'Definition ET_PARSE_MONTH_DEBUG : list Z := %s.\n' % blist(single('src/month.rs', 'Debug', 'ParseMonthError'))
    dbg = single('src/weekday.rs', 'Debug', 'ParseWeekdayError')
    out += 'Definition ET_PARSE_WEEKDAY_DEBUG : list Z := %s.\n' % blist(dbg)
    body = impl_block(read('src/weekday.rs'), 'Display', 'ParseWeekdayError')
    if not re.search(r'f\.write_fmt\(\s*format_args!\(\s*"\{:\?\}"\s*,\s*self\s*\)\s*\)', body):
        raise TranslateError('Display for ParseWeekdayError no longer delegates to Debug')
    out += '(* Display for ParseWeekdayError is `f.write_fmt(format_args!("{:?}", self))` *)\n'
    out += 'Definition ET_PARSE_WEEKDAY_DISPLAY : list Z := ET_PARSE_WEEKDAY_DEBUG.\n'
    out += 'Definition ET_OUT_OF_RANGE_ERROR : list Z := %s.\n' % blist(single('src/time_delta.rs', 'Display', 'OutOfRangeError'))
    # IsoWeek Debug
    body = impl_block(read('src/naive/isoweek.rs'), 'Debug', 'IsoWeek')
    m = re.search(r'if\s*\(\s*(-?[0-9_]+)\s*\.\.=\s*(-?[0-9_]+)\s*\)\s*\.contains\(&year\)\s*\{\s*write!\(f,\s*"([^"]*)",\s*year,\s*week\)\s*\}'
                  r'\s*else\s*\{\s*write!\(f,\s*"([^"]*)",\s*year,\s*week\)\s*\}', body)
    if not m:
        raise TranslateError('Debug for IsoWeek: shape not recognised')
    if m.group(3) != '{:04}-W{:02}' or m.group(4) != '{:+05}-W{:02}':
        raise TranslateError('Debug for IsoWeek: format strings changed: %r %r' % (m.group(3), m.group(4)))
    out += '(* impl fmt::Debug for IsoWeek: "{:04}-W{:02}" for years ET_ISOWEEK_LO..=ET_ISOWEEK_HI, else "{:+05}-W{:02}" *)\n'
    out += defn('ET_ISOWEEK_LO', int(m.group(1).replace('_', '')))
    out += defn('ET_ISOWEEK_HI', int(m.group(2).replace('_', '')))
    out += 'Definition ET_ISOWEEK_SEP : list Z := %s.\n' % blist('-W')
    # WeekdaySet Debug
    body = impl_block(read('src/weekday_set.rs'), 'Debug', 'WeekdaySet')
    m = re.search(r'write!\(f,\s*"([^"{]*)\{:0>7b\}([^"}]*)",\s*self\.0\)', body)
    if not m:
        raise TranslateError('Debug for WeekdaySet: shape not recognised')
    out += '(* impl Debug for WeekdaySet: "<pre>{:0>7b}<post>" of the bit set *)\n'
    out += 'Definition ET_WDSET_PRE : list Z := %s.\n' % blist(m.group(1))
    out += 'Definition ET_WDSET_POST : list Z := %s.\n' % blist(m.group(2))
    out += defn('ET_WDSET_BITS', 7)
    return out


FAMILIES = {'ErrText': gen_errtext}
