#!/bin/sh
# usage: tools/goals.sh Proofs/C06.v <line>  -- shows the goals just before <line> (run from coq/)
f="$1"; n="$2"; d=$(dirname "$f"); b=$(basename "$f" .v)
head -n $((n-1)) "$f" > "$d/Zz_$b.v"; echo "Show. " >> "$d/Zz_$b.v"
timeout ${3:-300} coqc -q -Q . V "$d/Zz_$b.v" 2>&1 | grep -v "pending proofs" | head -${4:-80}
rm -f "$d/Zz_$b.v" "$d/Zz_$b.vo" "$d/Zz_$b.glob" "$d/.Zz_$b.aux" "$d/Zz_$b.vok" "$d/Zz_$b.vos"
