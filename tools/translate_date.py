"""Translator family DateTables: the lookup tables, masks and range constants of the calendar core
(src/naive/internals.rs, src/naive/date/mod.rs, src/naive/isoweek.rs) -> coq/Gen/DateTables.v."""
import re

from rustconst import ATOM, Evaluator, TranslateError, array_elems, atom_val, const_env, find_items, fn_body, strip_comments
from translate import HEADER, defn, read, zlist


def gen_date_tables():
    isrc = read('src/naive/internals.rs')
    dsrc = read('src/naive/date/mod.rs')
    it = find_items(isrc)
    dt = find_items(dsrc)
    out = HEADER % 'src/naive/internals.rs, src/naive/date/mod.rs'

    # --- internals.rs scalar constants and the 14 year-flag letters
    env = {}
    scal = ['YEAR_STARTS_AFTER_MONDAY', 'YEAR_STARTS_AFTER_THUESDAY', 'YEAR_STARTS_AFTER_WEDNESDAY',
            'YEAR_STARTS_AFTER_THURSDAY', 'YEAR_STARTS_AFTER_FRIDAY', 'YEAR_STARTS_AFTER_SATURDAY',
            'YEAR_STARTS_AFTER_SUNDAY', 'COMMON_YEAR', 'LEAP_YEAR', 'XX']
    for n in scal:
        if n not in it:
            raise TranslateError('internals.rs: constant %s not found' % n)
        env[n] = Evaluator(env).eval(it[n][0][1])
    letters = ['A', 'AG', 'B', 'BA', 'C', 'CB', 'D', 'DC', 'E', 'ED', 'F', 'FE', 'G', 'GF']
    for n in letters:
        cands = [b for (t, b) in it.get(n, []) if t == 'YearFlags']
        if not cands:
            raise TranslateError('internals.rs: year flag letter %s not found' % n)
        m = re.match(r'^YearFlags\((.*)\)$', cands[0].strip(), re.S)
        if not m:
            raise TranslateError('internals.rs: unexpected form of letter %s' % n)
        env[n] = Evaluator(env).eval(m.group(1))
    for n in ('MAX_OL', 'MAX_MDL'):
        env['I_' + n] = Evaluator(env).eval(it[n][0][1])
        out += defn('I_' + n, env['I_' + n])

    def table(items, name, n_expected):
        if name not in items:
            raise TranslateError('table %s not found' % name)
        ty, body = items[name][0]
        vals = [Evaluator(env).eval(e) for e in array_elems(body)]
        if len(vals) != n_expected:
            raise TranslateError('table %s has %d entries, expected %d' % (name, len(vals), n_expected))
        return vals

    out += zlist('YEAR_TO_FLAGS_list', table(it, 'YEAR_TO_FLAGS', 400))
    out += zlist('MDL_TO_OL_list', table(it, 'MDL_TO_OL', env['I_MAX_MDL'] + 1))
    out += zlist('OL_TO_MDL_list', table(it, 'OL_TO_MDL', env['I_MAX_OL'] + 1))

    # nisoweeks bit mask and the constants of ndays / isoweek_delta (literals in any notation or
    # named constants of the file)
    A = '(' + ATOM + ')'
    ienv = const_env(isrc)
    iv = lambda t: atom_val(t, ienv)
    body = fn_body(isrc, 'nisoweeks')
    m = re.search(A + r'\s*\+\s*\(\(' + A + r'\s*>>\s*flags as usize\)\s*&\s*1\)', body)
    if not m:
        raise TranslateError('nisoweeks: expression not recognised')
    out += defn('NISOWEEKS_BASE', iv(m.group(1)))
    out += defn('NISOWEEKS_MASK', iv(m.group(2)))
    body = fn_body(isrc, 'ndays')
    m = re.search(A + r'\s*-\s*\(flags\s*>>\s*' + A + r'\)', body)
    if not m:
        raise TranslateError('ndays: expression not recognised')
    out += defn('NDAYS_BASE', iv(m.group(1)))
    out += defn('NDAYS_SHIFT', iv(m.group(2)))
    body = fn_body(isrc, 'isoweek_delta')
    m = re.search(r'flags\s*&\s*' + A + r'\)\s*as u32;\s*if delta <\s*' + A + r'\s*\{\s*delta \+=\s*' + A + ';', body)
    if not m:
        raise TranslateError('isoweek_delta: expression not recognised')
    out += defn('ISOWEEK_DELTA_MASK', iv(m.group(1)))
    out += defn('ISOWEEK_DELTA_LT', iv(m.group(2)))
    out += defn('ISOWEEK_DELTA_ADD', iv(m.group(3)))

    # --- date/mod.rs
    denv = {}
    for n in ('MAX_YEAR', 'MIN_YEAR', 'ORDINAL_MASK', 'LEAP_YEAR_MASK', 'OL_MASK', 'MAX_OL',
              'WEEKDAY_FLAGS_MASK', 'YEAR_FLAGS_MASK'):
        if n not in dt:
            raise TranslateError('date/mod.rs: constant %s not found' % n)
        # ORDINAL_MASK is defined twice (module level and inside add_days); they must agree
        vals = set(Evaluator(denv).eval(b) for (t, b) in dt[n])
        if len(vals) != 1:
            raise TranslateError('date/mod.rs: constant %s has conflicting definitions %s' % (n, vals))
        denv[n] = vals.pop()
        out += defn('D_' + n, denv[n])
    out += zlist('YEAR_DELTAS_list', table(dt, 'YEAR_DELTAS', 401))
    for n in ('MIN', 'MAX', 'BEFORE_MIN', 'AFTER_MAX'):
        cands = [b for (t, b) in dt.get(n, []) if t == 'NaiveDate']
        if not cands:
            raise TranslateError('date/mod.rs: NaiveDate::%s not found' % n)
        m = re.match(r'^NaiveDate::from_yof\((.*)\)$', cands[0].strip(), re.S)
        if not m:
            raise TranslateError('date/mod.rs: unexpected form of NaiveDate::%s' % n)
        out += defn('D_%s_yof' % n, Evaluator(denv).eval(m.group(1)))
    # literal constants inside functions (any notation, or named constants of the file)
    fenv = const_env(dsrc, denv)
    dv = lambda t: atom_val(t, fenv)
    body = fn_body(dsrc, 'from_num_days_from_ce_opt')
    m = re.search(r'checked_add\(' + A + r'\)', body)
    m2 = re.findall(r'(?:div_euclid|rem_euclid)\(' + A + r'\)', body)
    if not m or len(m2) != 2 or dv(m2[0]) != dv(m2[1]):
        raise TranslateError('from_num_days_from_ce_opt: constants not recognised')
    out += defn('D_CE_SHIFT', dv(m.group(1)))
    out += defn('D_DAYS_PER_400Y', dv(m2[0]))
    body = fn_body(dsrc, 'cycle_to_yo')
    ks = set(re.findall(r'\b(36\d)\b', body))
    if ks != {'365'}:
        raise TranslateError('cycle_to_yo: constants not recognised: %s' % ks)
    body = fn_body(dsrc, 'from_ordinal_and_flags')
    m = re.search(r'ordinal == 0 \|\| ordinal > (\d+)', body)
    m2 = re.search(r'\(year << (\d+)\) \| \(ordinal << (\d+)\)', body)
    if not m or not m2:
        raise TranslateError('from_ordinal_and_flags: constants not recognised')
    out += defn('D_MAX_ORDINAL', int(m.group(1)))
    out += defn('D_YEAR_SHIFT', int(m2.group(1)))
    out += defn('D_ORDINAL_SHIFT', int(m2.group(2)))
    body = fn_body(dsrc, 'num_days_from_ce')
    m = re.search(r'\(-year\) / ' + A + r';\s*year \+= excess \* ' + A + r';\s*ndays -= excess \* ' + A + r';\s*\}\s*let div_100 = year / ' + A + r';\s*ndays \+= \(\(year \* ' + A + r'\) >> ' + A + r'\) - div_100 \+ \(div_100 >> ' + A + r'\);', body)
    if not m:
        raise TranslateError('num_days_from_ce: body not recognised')
    for k, n in enumerate(('NDCE_A', 'NDCE_B', 'NDCE_C', 'NDCE_D', 'NDCE_E', 'NDCE_F', 'NDCE_G')):
        out += defn(n, dv(m.group(k + 1)))
    body = fn_body(dsrc, 'diff_months')
    m = re.search(r'let days = \[(.*?)\];', body, re.S)
    m2 = re.search(r'if flags\.ndays\(\) == (\d+) \{ (\d+) \} else \{ (\d+) \}', body)
    if not m or not m2:
        raise TranslateError('diff_months: month length table not recognised')
    vals = [e.strip() for e in m.group(1).split(',') if e.strip()]
    if len(vals) != 12 or vals[1] != 'feb_days':
        raise TranslateError('diff_months: unexpected month table %s' % vals)
    out += defn('DM_LEAP_NDAYS', int(m2.group(1)))
    out += defn('DM_FEB_LEAP', int(m2.group(2)))
    out += defn('DM_FEB_COMMON', int(m2.group(3)))
    out += zlist('DM_MONTH_DAYS_list', [0 if v == 'feb_days' else int(v) for v in vals])

    # --- isoweek.rs
    wsrc = read('src/naive/isoweek.rs')
    body = fn_body(wsrc, 'from_yof')
    m = re.search(r'\(year << (\d+)\) \| \(week << (\d+)\)', body)
    body2 = fn_body(wsrc, 'week')
    m2 = re.search(r'>> (\d+)\) & (0x[0-9a-f]+)', body2)
    body3 = fn_body(wsrc, 'year')
    m3 = re.search(r'self\.[a-z_][a-z0-9_]* >> (\d+)', body3)
    if not m or not m2 or not m3:
        raise TranslateError('isoweek.rs: packing constants not recognised')
    out += defn('IW_YEAR_SHIFT', int(m.group(1)))
    out += defn('IW_WEEK_SHIFT', int(m.group(2)))
    out += defn('IW_WEEK_GET_SHIFT', int(m2.group(1)))
    out += defn('IW_WEEK_MASK', int(m2.group(2), 0))
    out += defn('IW_YEAR_GET_SHIFT', int(m3.group(1)))
    return out


def gen_datetime_consts():
    src = read('src/datetime/mod.rs')
    items = find_items(src)
    if 'UNIX_EPOCH_DAY' not in items:
        raise TranslateError('datetime/mod.rs: UNIX_EPOCH_DAY not found')
    out = HEADER % 'src/datetime/mod.rs, src/offset/fixed.rs'
    out += defn('UNIX_EPOCH_DAY', Evaluator({}).eval(items['UNIX_EPOCH_DAY'][0][1]))
    body = fn_body(src, 'from_timestamp')
    ks = re.findall(r'(?:div_euclid|rem_euclid)\(([\d_]+)\)', body)
    if len(ks) != 2 or ks[0] != ks[1]:
        raise TranslateError('from_timestamp: seconds-per-day constant not recognised')
    out += defn('DT_SECS_PER_DAY', int(ks[0].replace('_', '')))
    fsrc = read('src/offset/fixed.rs')
    body = fn_body(fsrc, 'east_opt')
    m = re.search(r'-([\d_]+) < secs && secs < ([\d_]+)', body)
    body2 = fn_body(fsrc, 'west_opt')
    m2 = re.search(r'-([\d_]+) < secs && secs < ([\d_]+)', body2)
    if not m or not m2:
        raise TranslateError('fixed.rs: offset bounds not recognised')
    out += defn('FO_EAST_LO', -int(m.group(1).replace('_', '')))
    out += defn('FO_EAST_HI', int(m.group(2).replace('_', '')))
    out += defn('FO_WEST_LO', -int(m2.group(1).replace('_', '')))
    out += defn('FO_WEST_HI', int(m2.group(2).replace('_', '')))
    return out


FAMILIES = {'DateTables': gen_date_tables, 'DateTimeConsts': gen_datetime_consts}
