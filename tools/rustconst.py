"""Tiny reader for Rust source data: `const NAME: T = EXPR;` items, array/table literals and
struct-literal constants, with an evaluator that follows Rust integer semantics (truncating / and
%, wrapping `as` casts, arithmetic >>).  Used by translate.py; fails loudly on anything it cannot
read so that a broken tie is reported instead of a stale model being used."""
import re

INT_TYPES = {
    'i8': (8, True), 'u8': (8, False), 'i16': (16, True), 'u16': (16, False),
    'i32': (32, True), 'u32': (32, False), 'i64': (64, True), 'u64': (64, False),
    'i128': (128, True), 'u128': (128, False), 'isize': (64, True), 'usize': (64, False),
}


class TranslateError(Exception):
    pass


def strip_comments(src):
    out = []
    i = 0
    n = len(src)
    while i < n:
        c = src[i]
        if src.startswith('//', i):
            j = src.find('\n', i)
            i = n if j < 0 else j
        elif src.startswith('/*', i):
            j = src.find('*/', i)
            i = n if j < 0 else j + 2
        elif c == '"':
            j = i + 1
            while j < n and src[j] != '"':
                j += 2 if src[j] == '\\' else 1
            out.append(src[i:j + 1])
            i = j + 1
        elif c == "'" and re.match(r"'(\\.|[^\\'])'", src[i:i + 4]):
            m = re.match(r"'(\\.|[^\\'])'", src[i:i + 4])
            out.append(m.group(0))
            i += len(m.group(0))
        else:
            out.append(c)
            i += 1
    return ''.join(out)


def wrap(v, ty):
    bits, signed = INT_TYPES[ty]
    m = v % (1 << bits)
    if signed and m >= 1 << (bits - 1):
        m -= 1 << bits
    return m


def tdiv(a, b):
    if b == 0:
        raise TranslateError('division by zero in constant')
    q = abs(a) // abs(b)
    return q if (a < 0) == (b < 0) else -q


def trem(a, b):
    return a - b * tdiv(a, b)


TOKEN = re.compile(r"\s*(?:(0[box][0-9a-fA-F_]+(?:[iu](?:8|16|32|64|128|size))?|\d[\d_]*(?:[iu](?:8|16|32|64|128|size))?)|([A-Za-z_][A-Za-z0-9_]*(?:::[A-Za-z_][A-Za-z0-9_]*)*(?:\.[a-z_][a-z0-9_]*)*)|(<<|>>|[-+*/%()&|^!~]))")


def tokenize(expr):
    toks = []
    i = 0
    expr = expr.strip()
    while i < len(expr):
        m = TOKEN.match(expr, i)
        if not m or m.end() == i:
            raise TranslateError('cannot tokenize constant expression: %r at %d' % (expr, i))
        if m.group(1):
            t = re.sub(r'[iu](8|16|32|64|128|size)$', '', m.group(1)).replace('_', '')
            toks.append(('n', int(t, 0) if t[:2] in ('0b', '0o', '0x') else int(t)))
        elif m.group(2):
            toks.append(('id', m.group(2)))
        else:
            toks.append(('op', m.group(3)))
        i = m.end()
    return toks


class Evaluator:
    def __init__(self, env):
        self.env = env  # name -> int (or callable returning int)

    def lookup(self, name):
        m = re.match(r'^(i8|u8|i16|u16|i32|u32|i64|u64|i128|u128|isize|usize)::(MAX|MIN)$', name)
        if m:
            bits, signed = INT_TYPES[m.group(1)]
            if m.group(2) == 'MAX':
                return (1 << (bits - 1)) - 1 if signed else (1 << bits) - 1
            return -(1 << (bits - 1)) if signed else 0
        short = name.split('::')[-1]
        for k in (name, short):
            if k in self.env:
                return self.env[k]
        raise TranslateError('unknown identifier in constant expression: %s' % name)

    def eval(self, expr):
        self.toks = tokenize(expr)
        self.pos = 0
        v = self.p_or()
        if self.pos != len(self.toks):
            raise TranslateError('trailing tokens in constant expression: %r' % expr)
        return v

    def peek(self):
        return self.toks[self.pos] if self.pos < len(self.toks) else (None, None)

    def eat(self, kind, val=None):
        k, v = self.peek()
        if k == kind and (val is None or v == val):
            self.pos += 1
            return v
        return None

    def p_or(self):
        v = self.p_xor()
        while self.eat('op', '|') is not None:
            v |= self.p_xor()
        return v

    def p_xor(self):
        v = self.p_and()
        while self.eat('op', '^') is not None:
            v ^= self.p_and()
        return v

    def p_and(self):
        v = self.p_shift()
        while self.eat('op', '&') is not None:
            v &= self.p_shift()
        return v

    def p_shift(self):
        v = self.p_add()
        while True:
            if self.eat('op', '<<') is not None:
                v <<= self.p_add()
            elif self.eat('op', '>>') is not None:
                v >>= self.p_add()
            else:
                return v

    def p_add(self):
        v = self.p_mul()
        while True:
            if self.eat('op', '+') is not None:
                v += self.p_mul()
            elif self.eat('op', '-') is not None:
                v -= self.p_mul()
            else:
                return v

    def p_mul(self):
        v = self.p_cast()
        while True:
            if self.eat('op', '*') is not None:
                v *= self.p_cast()
            elif self.eat('op', '/') is not None:
                v = tdiv(v, self.p_cast())
            elif self.eat('op', '%') is not None:
                v = trem(v, self.p_cast())
            else:
                return v

    def p_cast(self):
        v = self.p_unary()
        while True:
            k, t = self.peek()
            if k == 'id' and t == 'as':
                self.pos += 1
                k2, ty = self.peek()
                if k2 != 'id' or ty not in INT_TYPES:
                    raise TranslateError('unsupported cast target %r' % (ty,))
                self.pos += 1
                v = wrap(v, ty)
            else:
                return v

    def p_unary(self):
        if self.eat('op', '-') is not None:
            return -self.p_unary()
        if self.eat('op', '!') is not None:
            return ~self.p_unary()
        if self.eat('op', '(') is not None:
            v = self.p_or()
            if self.eat('op', ')') is None:
                raise TranslateError('missing )')
            return v
        k, t = self.peek()
        if k == 'n':
            self.pos += 1
            return t
        if k == 'id':
            self.pos += 1
            return self.lookup(t)
        raise TranslateError('unexpected token %r' % (t,))


CONST_RE = re.compile(r'\b(?:pub(?:\([a-z:]+\))?\s+)?(?:const|static)\s+([A-Z_][A-Z0-9_]*)\s*:\s*((?:[^=;\[]|\[[^\]]*\])+?)\s*=\s*', re.S)


def find_items(src):
    """All `const NAME: TYPE = BODY;` items (BODY up to the matching top-level `;`)."""
    src = strip_comments(src)
    items = {}
    for m in CONST_RE.finditer(src):
        name, ty = m.group(1), m.group(2).strip()
        i = m.end()
        depth = 0
        j = i
        while j < len(src):
            c = src[j]
            if c in '([{':
                depth += 1
            elif c in ')]}':
                depth -= 1
            elif c == ';' and depth == 0:
                break
            j += 1
        items.setdefault(name, []).append((ty, src[i:j].strip()))
    return items


def split_top(body, sep=','):
    parts, depth, cur = [], 0, []
    for c in body:
        if c in '([{':
            depth += 1
        elif c in ')]}':
            depth -= 1
        if c == sep and depth == 0:
            parts.append(''.join(cur).strip())
            cur = []
        else:
            cur.append(c)
    last = ''.join(cur).strip()
    if last:
        parts.append(last)
    return parts


def struct_fields(body):
    """`Name { a: e1, b: e2 }` -> {a: e1, b: e2}"""
    m = re.match(r'^[A-Za-z_:]+\s*\{(.*)\}$', body.strip(), re.S)
    if not m:
        raise TranslateError('not a struct literal: %r' % body[:60])
    out = {}
    for part in split_top(m.group(1)):
        k, _, v = part.partition(':')
        out[k.strip()] = v.strip()
    return out


def array_elems(body):
    m = re.match(r'^&?\[(.*)\]$', body.strip(), re.S)
    if not m:
        raise TranslateError('not an array literal: %r' % body[:60])
    return split_top(m.group(1))


def fn_body(src, name, which=0):
    """Source text of `fn name(...) ... { BODY }` (comments stripped), the which-th occurrence."""
    src = strip_comments(src)
    ms = list(re.finditer(r'\bfn\s+' + re.escape(name) + r'\s*(?:<[^>]*>)?\s*\(', src))
    if len(ms) <= which:
        raise TranslateError('function %s not found' % name)
    i = src.index('{', ms[which].end())
    depth = 0
    j = i
    while j < len(src):
        if src[j] == '{':
            depth += 1
        elif src[j] == '}':
            depth -= 1
            if depth == 0:
                return src[ms[which].start():j + 1]
        j += 1
    raise TranslateError('unbalanced braces in fn %s' % name)


# ---- notation-independent constants -------------------------------------------------------------
# A constant inside a function body may be written as a decimal / hex / binary / octal literal (with
# underscores and a type suffix) or as the name of a `const` of the same file.  ATOM matches any of
# these; const_env evaluates every evaluable scalar `const` of a file; atom_val gives the integer.
ATOM = r'(?:0[box][0-9a-fA-F_]+(?:[iu](?:8|16|32|64|128|size))?|\d[\d_]*(?:[iu](?:8|16|32|64|128|size))?|[A-Z][A-Z0-9_]*)'


def const_env(src, seed=None):
    """name -> int for every `const NAME: <int type> = EXPR;` of the file that can be evaluated
    (repeated to a fixpoint so that constants may refer to each other in any order).  A name defined
    twice with different values is left out."""
    items = find_items(src)
    env = dict(seed or {})
    clash = set()
    changed = True
    while changed:
        changed = False
        for name, defs in items.items():
            if name in env or name in clash:
                continue
            vals = set()
            ok = True
            for ty, body in defs:
                if ty.replace('&', '').strip() not in INT_TYPES:
                    ok = False
                    break
                try:
                    vals.add(wrap(Evaluator(env).eval(body), ty.replace('&', '').strip()))
                except TranslateError:
                    ok = False
                    break
            if ok and len(vals) == 1:
                env[name] = vals.pop()
                changed = True
            elif ok and len(vals) > 1:
                clash.add(name)
    return env


def atom_val(tok, env):
    tok = tok.strip()
    if re.match(r'^[A-Z][A-Z0-9_]*$', tok):
        if tok not in env:
            raise TranslateError('constant %s used in a function body is not an evaluable const of the file' % tok)
        return env[tok]
    t = re.sub(r'[iu](8|16|32|64|128|size)$', '', tok).replace('_', '')
    return int(t, 0) if t[:2] in ('0b', '0o', '0x') else int(t)
