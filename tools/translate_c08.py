"""Translator family C08Consts: the literal constants of the calendar helpers of property C08
(src/month.rs Month::num_days, src/traits.rs quarter / year_ce, src/naive/mod.rs NaiveWeek,
src/naive/date/mod.rs from_weekday_of_month_opt) -> coq/Gen/C08Consts.v."""
import re

from rustconst import TranslateError, fn_body
from translate import HEADER, defn, read, zlist

MONTHS = ['January', 'February', 'March', 'April', 'May', 'June', 'July', 'August', 'September',
          'October', 'November', 'December']


def num(s):
    return int(s.replace('_', ''))


def gen_c08_consts():
    out = HEADER % 'src/month.rs, src/traits.rs, src/naive/mod.rs, src/naive/date/mod.rs'
    # Month::num_days: one arm per month, February decided by leap_year()
    msrc = read('src/month.rs')
    body = fn_body(msrc, 'num_days')
    vals = []
    for name in MONTHS:
        if name == 'February':
            m = re.search(r'Month::February\s*=>\s*match\s+NaiveDate::from_ymd_opt\(year,\s*(\d+),\s*(\d+)\)\?\.leap_year\(\)\s*\{\s*true\s*=>\s*(\d+),\s*false\s*=>\s*(\d+),?\s*\}', body)
            if not m:
                raise TranslateError('Month::num_days: February arm not recognised')
            out += defn('MND_FEB_PROBE_MONTH', num(m.group(1)))
            out += defn('MND_FEB_PROBE_DAY', num(m.group(2)))
            out += defn('MND_FEB_LEAP', num(m.group(3)))
            out += defn('MND_FEB_COMMON', num(m.group(4)))
            vals.append(0)
        else:
            m = re.search(r'Month::%s\s*=>\s*(\d+)\s*,' % name, body)
            if not m:
                raise TranslateError('Month::num_days: arm of %s not recognised' % name)
            vals.append(num(m.group(1)))
    out += zlist('MND_DAYS_list', vals)
    # Datelike::quarter and year_ce defaults
    tsrc = read('src/traits.rs')
    body = fn_body(tsrc, 'quarter')
    m = re.search(r'\(self\.month\(\)\s*-\s*(\d+)\)\.div_euclid\((\d+)\)\s*\+\s*(\d+)', body)
    if not m:
        raise TranslateError('Datelike::quarter: expression not recognised')
    out += defn('Q_SUB', num(m.group(1)))
    out += defn('Q_DIV', num(m.group(2)))
    out += defn('Q_ADD', num(m.group(3)))
    body = fn_body(tsrc, 'year_ce')
    m = re.search(r'if year < (\d+) \{\s*\(false,\s*\((\d+) - year\) as u32\)\s*\}\s*else\s*\{\s*\(true,\s*year as u32\)\s*\}', body)
    if not m:
        raise TranslateError('Datelike::year_ce: expression not recognised')
    out += defn('YCE_LT', num(m.group(1)))
    out += defn('YCE_FROM', num(m.group(2)))
    # NaiveWeek
    nsrc = read('src/naive/mod.rs')
    body = fn_body(nsrc, 'checked_first_day')
    m = re.search(r'start - ref_day - if start > ref_day \{\s*(\d+)\s*\} else \{\s*(\d+)\s*\}', body)
    if not m:
        raise TranslateError('NaiveWeek::checked_first_day: expression not recognised')
    out += defn('WK_FIRST_WRAP', num(m.group(1)))
    out += defn('WK_FIRST_NOWRAP', num(m.group(2)))
    body = fn_body(nsrc, 'checked_last_day')
    m = re.search(r'end - ref_day \+ if end < ref_day \{\s*(\d+)\s*\} else \{\s*(\d+)\s*\}', body)
    if not m:
        raise TranslateError('NaiveWeek::checked_last_day: expression not recognised')
    out += defn('WK_LAST_WRAP', num(m.group(1)))
    out += defn('WK_LAST_NOWRAP', num(m.group(2)))
    # NaiveDate::from_weekday_of_month_opt, years_since
    dsrc = read('src/naive/date/mod.rs')
    body = fn_body(dsrc, 'from_weekday_of_month_opt')
    m = re.search(r'from_ymd_opt\(year, month, (\d+)\)\)\.weekday\(\);\s*let first_to_dow = \((\d+) \+ weekday\.number_from_monday\(\) - first\.number_from_monday\(\)\) % (\d+);\s*let day = \(n - (\d+)\) as u32 \* (\d+) \+ first_to_dow \+ (\d+);', body)
    if not m:
        raise TranslateError('from_weekday_of_month_opt: body not recognised')
    for k, n in enumerate(('NWD_FIRST_DAY', 'NWD_BIAS', 'NWD_MOD', 'NWD_N_SUB', 'NWD_STEP', 'NWD_DAY_ADD')):
        out += defn(n, num(m.group(k + 1)))
    return out


FAMILIES = {'C08Consts': gen_c08_consts}
