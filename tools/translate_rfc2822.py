"""Translator family Rfc2822Consts: the data of the RFC 2822 reader and writer
(src/format/parse.rs parse_rfc2822, src/format/formatting.rs write_rfc2822, src/format/scan.rs
comment_2822) -> coq/Gen/Rfc2822Consts.v.  Only data is read (digit-count arguments of the
scan::number calls, the arms of the year-length rule, the literal bytes tested/written, the year
range of the writer); control flow is modelled by hand in coq/Model/Rfc2822.v.  The zone-name table
and the military letter ranges are in Gen/ScanTables.v (translate_scan.py), the English names in
Gen/Locales.v.  Anything that cannot be located fails loudly (broken tie)."""
import re

from rustconst import TranslateError, fn_body
from translate import HEADER, defn, read


def num(t):
    return int(t.replace('_', ''))


def gen_rfc2822_consts():
    parse = read('src/format/parse.rs')
    fmt = read('src/format/formatting.rs')
    scan = read('src/format/scan.rs')
    out = HEADER % 'src/format/parse.rs (parse_rfc2822), src/format/formatting.rs (write_rfc2822), src/format/scan.rs (comment_2822)'

    b = fn_body(parse, 'parse_rfc2822')
    calls = re.findall(r'scan::number\(\s*(s_?(?:\.trim_start\(\))?)\s*,\s*(\d+)\s*,\s*(usize::MAX|\d+)\s*\)', b)
    if len(calls) != 5:
        raise TranslateError('parse_rfc2822: expected 5 scan::number calls, got %r' % (calls,))
    names = ('DAY', 'YEAR', 'HOUR', 'MINUTE', 'SECOND')
    out += '(* format::parse::parse_rfc2822: (min, max) of the five scan::number calls, in order;\n   usize::MAX is rendered as 2^64-1 *)\n'
    for nm, (_, lo, hi) in zip(names, calls):
        out += defn('R2_%s_MIN' % nm, int(lo))
        out += defn('R2_%s_MAX' % nm, 2**64 - 1 if hi == 'usize::MAX' else int(hi))
    if calls[4][0] not in ('s_', 's_.trim_start()') or any(c[0] != 's' for c in calls[:4]):
        raise TranslateError('parse_rfc2822: unexpected scan::number arguments %r' % (calls,))
    out += '(* the seconds are read from s_ (what follows the second colon): 1 = after trim_start() *)\n'
    out += defn('R2_SECOND_TRIM', 1 if calls[4][0] == 's_.trim_start()' else 0)
    # the year-length rule
    m = re.search(r'match\s*\(yearlen,\s*year\)\s*\{(.*?)\n\s*\}\s*\n\s*parsed\.set_year', b, re.S)
    if not m:
        raise TranslateError('parse_rfc2822: match (yearlen, year) not found')
    arms = m.group(1)
    a = re.findall(r'\(\s*(\d+)\s*,\s*(\d+)\s*\.\.=\s*(\d+)\s*\)\s*=>\s*\{\s*year\s*\+=\s*(\d+)\s*;', arms)
    w = re.findall(r'\(\s*(\d+)\s*,\s*_\s*\)\s*=>\s*\{\s*year\s*\+=\s*(\d+)\s*;', arms)
    if len(a) != 2 or len(w) != 1 or not re.search(r'\(_,\s*_\)\s*=>\s*\{\s*\}', arms):
        raise TranslateError('parse_rfc2822: year-length arms not recognised: %r %r' % (a, w))
    # the order of the arms matters: the two ranged arms come first, then the wildcard-value arm
    if not (arms.index('(' + a[0][0]) < arms.index('(' + w[0][0] + ', _')):
        raise TranslateError('parse_rfc2822: unexpected order of the year-length arms')
    out += '(* the year-length rule: (yearlen, lo..=hi) => year += add; (yearlen, _) => year += add *)\n'
    for k, (ln, lo, hi, add) in enumerate(a):
        out += defn('R2_YEAR_ARM%d_LEN' % (k + 1), int(ln)) + defn('R2_YEAR_ARM%d_LO' % (k + 1), int(lo))
        out += defn('R2_YEAR_ARM%d_HI' % (k + 1), int(hi)) + defn('R2_YEAR_ARM%d_ADD' % (k + 1), int(add))
    out += defn('R2_YEAR_ARM3_LEN', int(w[0][0])) + defn('R2_YEAR_ARM3_ADD', int(w[0][1]))
    # literal bytes
    m = re.search(r"starts_with\('(.)'\)", b)
    if not m:
        raise TranslateError("parse_rfc2822: starts_with(',') not found")
    out += defn('R2_WEEKDAY_SEP', ord(m.group(1)))
    cs = re.findall(r"scan::char\(s\.trim_start\(\),\s*b'(.)'\)", b)
    if len(cs) != 2:
        raise TranslateError('parse_rfc2822: expected two scan::char(s.trim_start(), ..) calls, got %r' % (cs,))
    out += defn('R2_TIME_SEP1', ord(cs[0])) + defn('R2_TIME_SEP2', ord(cs[1]))
    m = re.search(r'set_month\(\s*(\d+)\s*\+\s*i64::from', b)
    if not m:
        raise TranslateError('parse_rfc2822: set_month(1 + ..) not found')
    out += defn('R2_MONTH_ADD', int(m.group(1)))

    # comment_2822: the three structural bytes
    b = fn_body(scan, 'comment_2822')
    m1 = re.search(r"\(Start,\s*b'(\\?.)'\)\s*=>\s*Next\((\d+)\)", b)
    m2 = re.search(r"\(Next\((\d+)\),\s*b'(\\?.)'\)\s*=>\s*return\s+Ok", b)
    m3 = re.search(r"\(Next\(depth\),\s*b'(\\\\)'\)\s*=>\s*Escape\(depth\)", b)
    m4 = re.search(r"\(Next\(depth\),\s*b'(\\?.)'\)\s*=>\s*Next\(depth\s*\+\s*1\)", b)
    m5 = re.search(r"\(Next\(depth\),\s*b'(\\?.)'\)\s*=>\s*Next\(depth\s*-\s*1\)", b)
    if not (m1 and m2 and m3 and m4 and m5):
        raise TranslateError('comment_2822: state machine arms not recognised')
    unq = lambda t: ord(t[-1])
    out += '(* scan::comment_2822 *)\n'
    out += defn('C2_OPEN', unq(m1.group(1))) + defn('C2_START_DEPTH', int(m1.group(2)))
    out += defn('C2_CLOSE_DEPTH', int(m2.group(1))) + defn('C2_CLOSE', unq(m2.group(2)))
    out += defn('C2_ESCAPE', 92) + defn('C2_NEST_OPEN', unq(m4.group(1))) + defn('C2_NEST_CLOSE', unq(m5.group(1)))

    # write_rfc2822
    b = fn_body(fmt, 'write_rfc2822')
    m = re.search(r'\(\s*(-?[0-9_]+)\s*\.\.=\s*(-?[0-9_]+)\s*\)\s*\.contains\(&year\)', b)
    if not m:
        raise TranslateError('write_rfc2822: year range not found')
    out += '(* format::formatting::write_rfc2822 *)\n'
    out += defn('W2_YEAR_LO', num(m.group(1))) + defn('W2_YEAR_HI', num(m.group(2)))
    m = re.search(r'if\s+day\s*<\s*(\d+)\s*\{', b)
    if not m:
        raise TranslateError('write_rfc2822: day < 10 test not found')
    out += defn('W2_DAY_PAD_BELOW', int(m.group(1)))
    m = re.search(r'let\s+sec\s*=\s*sec\s*\+\s*dt\.nanosecond\(\)\s*/\s*([0-9_]+)\s*;', b)
    if not m:
        raise TranslateError('write_rfc2822: leap second expression not found')
    out += defn('W2_LEAP_DIV', num(m.group(1)))
    m = re.search(r'write_hundreds\(w,\s*\(year\s*/\s*(\d+)\)\s*as u8\)\?;\s*write_hundreds\(w,\s*\(year\s*%\s*(\d+)\)\s*as u8\)\?;', b)
    if not m:
        raise TranslateError('write_rfc2822: year digits not found')
    out += defn('W2_YEAR_DIV', int(m.group(1))) + defn('W2_YEAR_MOD', int(m.group(2)))
    m = re.search(r'w\.write_str\("(.*?)"\)\?;', b)
    if not m or m.group(1) != ', ':
        raise TranslateError('write_rfc2822: ", " literal not found')
    out += 'Definition W2_AFTER_WEEKDAY : list Z := [%s].\n' % '; '.join(str(ord(c)) for c in m.group(1))
    m = re.search(r'precision:\s*OffsetPrecision::(\w+),\s*colons:\s*Colons::(\w+),\s*allow_zulu:\s*(\w+),\s*padding:\s*Pad::(\w+),', b)
    if not m:
        raise TranslateError('write_rfc2822: OffsetFormat literal not found')
    prec = {'Hours': 0, 'Minutes': 1, 'Seconds': 2, 'OptionalMinutes': 3, 'OptionalSeconds': 4, 'OptionalMinutesAndSeconds': 5}
    col = {'None': 0, 'Colon': 1, 'Maybe': 2}
    pad = {'None': 0, 'Zero': 1, 'Space': 2}
    out += '(* the OffsetFormat literal, in the numbering of Model/Rfc3339.v *)\n'
    out += defn('W2_OF_PRECISION', prec[m.group(1)]) + defn('W2_OF_COLONS', col[m.group(2)])
    out += defn('W2_OF_ALLOW_ZULU', 1 if m.group(3) == 'true' else 0) + defn('W2_OF_PADDING', pad[m.group(4)])
    return out


FAMILIES = {'Rfc2822Consts': gen_rfc2822_consts}
