#!/usr/bin/env python3
"""Lead-only: confirm a seeded change produced by an independent agent and run our checks on it.
usage: seed_eval.py <PID> <A|B> [<check pid> ...]
 1. scratch worktree of /repo HEAD: apply the patch, build, run the existing test suite (must pass),
    run the demonstration (must FAIL with the patch, PASS without);
 2. apply the patch to /repo, run ./check for the given properties (default: PID), undo;
 3. write /verif/seeded/<PID>-<A|B>/{patch.diff, demo.rs, meta.json}."""
import json
import os
import shutil
import subprocess
import sys
import time

ROOT = os.path.dirname(os.path.dirname(os.path.abspath(__file__)))


def sh(cmd, cwd=None, timeout=3600):
    p = subprocess.run(cmd, shell=True, cwd=cwd, stdout=subprocess.PIPE, stderr=subprocess.STDOUT, timeout=timeout)
    return p.returncode, p.stdout.decode('utf-8', 'replace')


def main():
    pid, which = sys.argv[1], sys.argv[2]
    checks = sys.argv[3:] or [pid]
    src = '/tmp/seed/out/%s' % pid
    patch = os.path.join(src, which + '.diff')
    demo = os.path.join(src, 'demo_%s.rs' % which)
    notes = json.load(open(os.path.join(src, 'notes.json'))).get(which, {})
    sid = '%s-%s' % (pid, which)
    out = os.path.join(ROOT, 'seeded', sid)
    os.makedirs(out, exist_ok=True)
    shutil.copy(patch, os.path.join(out, 'patch.diff'))
    if os.path.exists(demo):
        shutil.copy(demo, os.path.join(out, 'demo.rs'))
    meta = {'id': sid, 'property': pid, 'breaks': notes.get('breaks'), 'needs': notes.get('needs'),
            'origin': 'independent sub-agent given only the property text and a scratch worktree of /repo',
            'ran': {}}
    wt = '/tmp/seedchk-%s' % sid
    sh('git -C /repo worktree remove --force %s' % wt)
    rc, o = sh('git -C /repo worktree add -q --detach %s HEAD' % wt)
    try:
        rc, o = sh('git apply %s' % patch, cwd=wt)
        meta['ran']['applies_to_head'] = rc == 0
        if rc != 0:
            meta['ran']['apply_error'] = o[-500:]
            return finish(meta, out)
        feats = '--features __verif,serde'
        rc, o = sh('cargo build --offline 2>&1 | tail -3', cwd=wt)
        meta['ran']['builds'] = 'error' not in o
        rc, o = sh('cargo test --offline --lib --tests 2>&1 | grep "test result"', cwd=wt, timeout=3600)
        meta['ran']['suite_with_patch'] = o.strip().splitlines()
        suite_ok = 'failed' in o and all(' 0 failed' in l for l in o.strip().splitlines())
        meta['ran']['suite_passes_with_patch'] = suite_ok
        if os.path.exists(demo):
            os.makedirs(os.path.join(wt, 'tests'), exist_ok=True)
            shutil.copy(demo, os.path.join(wt, 'tests', 'seed_demo.rs'))
            rc1, o1 = sh('cargo test --offline %s --test seed_demo 2>&1 | tail -5' % feats, cwd=wt)
            meta['ran']['demo_with_patch'] = 'FAILS' if rc1 != 0 or 'FAILED' in o1 else 'passes'
            sh('git apply -R %s' % patch, cwd=wt)
            rc2, o2 = sh('cargo test --offline %s --test seed_demo 2>&1 | tail -5' % feats, cwd=wt)
            meta['ran']['demo_without_patch'] = 'passes' if rc2 == 0 and 'FAILED' not in o2 else 'FAILS: ' + o2[-300:]
    finally:
        sh('git -C /repo worktree remove --force %s' % wt)
    # our checks with the patch applied: on a scratch worktree through VERIF_REPO while other
    # engineers are using /repo (SEED_IN_REPO=1: apply to /repo itself, run, undo)
    in_repo = os.environ.get('SEED_IN_REPO') == '1'
    if in_repo:
        rc, o = sh('git -C /repo status --porcelain')
        if o.strip():
            meta['ran']['error'] = '/repo not clean'
            return finish(meta, out)
        rc, o = sh('git -C /repo apply %s' % patch)
        target = '/repo'
    else:
        target = '/tmp/seedrun-%s' % sid
        sh('git -C /repo worktree remove --force %s' % target)
        sh('git -C /repo worktree add -q --detach %s HEAD' % target)
        rc, o = sh('git apply %s' % patch, cwd=target)
    meta['ran']['checked_on'] = target
    try:
        for c in checks:
            t = time.time()
            rc, o = sh('VERIF_REPO=%s ./check %s' % (target, c), cwd=ROOT, timeout=5400)
            lines = [l for l in o.splitlines() if l.startswith('VIOLATION') or l.startswith('KNOWN-FINDING')]
            rep = None
            for l in lines:
                if l.startswith('VIOLATION') and 'replay=' in l:
                    rp = l.split('replay=')[1].split()[0]
                    try:
                        rep = json.load(open(rp))
                        rep = {k: rep.get(k) for k in ('kind', 'case', 'impl_output', 'model_output', 'judge', 'broken')}
                    except Exception:
                        pass
                    break
            meta['ran']['check_' + c] = {'exit': rc, 'lines': [l[:300] for l in lines[:4]], 'replay': rep,
                                         'wall_s': round(time.time() - t, 1)}
    finally:
        if in_repo:
            sh('git -C /repo checkout -- .')
        else:
            sh('git -C /repo worktree remove --force %s' % target)
    return finish(meta, out)


def finish(meta, out):
    with open(os.path.join(out, 'meta.json'), 'w') as f:
        json.dump(meta, f, indent=1)
    print(json.dumps(meta, indent=1))
    return 0


if __name__ == '__main__':
    sys.exit(main())
