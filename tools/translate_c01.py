"""Translator family DatelikeDefaults: the literal constants of the provided (default) method
`Datelike::num_days_from_ce` in src/traits.rs -> coq/Gen/DatelikeDefaults.v.  NaiveDate does not
override that method, so this body is what the public API runs (the inherent duplicate in
src/naive/date/mod.rs is pub(crate); its constants are in Gen/DateTables.v as NDCE_*)."""
import re

from rustconst import TranslateError, fn_body
from translate import HEADER, defn, read


def gen_datelike_defaults():
    src = read('src/traits.rs')
    body = fn_body(src, 'num_days_from_ce')
    m = re.search(r'let mut year = self\.year\(\) - (\d+);\s*let mut ndays = (\d+);\s*if year < 0 \{\s*'
                  r'let excess = (\d+) \+ \(-year\) / (\d+);\s*year \+= excess \* (\d+);\s*'
                  r'ndays -= excess \* ([\d_]+);\s*\}\s*let div_100 = year / (\d+);\s*'
                  r'ndays \+= \(\(year \* (\d+)\) >> (\d+)\) - div_100 \+ \(div_100 >> (\d+)\);\s*'
                  r'ndays \+ self\.ordinal\(\) as i32', body)
    if not m:
        raise TranslateError('traits.rs: body of the default num_days_from_ce not recognised')
    out = HEADER % 'src/traits.rs'
    names = ('TR_NDCE_YSUB', 'TR_NDCE_INIT', 'TR_NDCE_ONE', 'TR_NDCE_A', 'TR_NDCE_B', 'TR_NDCE_C',
             'TR_NDCE_D', 'TR_NDCE_E', 'TR_NDCE_F', 'TR_NDCE_G')
    for k, n in enumerate(names):
        out += defn(n, int(m.group(k + 1).replace('_', '')))
    return out


FAMILIES = {'DatelikeDefaults': gen_datelike_defaults}
