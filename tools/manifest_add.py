#!/usr/bin/env python3
"""Lead-only: register a property's check in MANIFEST.json (removes it from not_applicable)."""
import json, sys
pid, text, note = sys.argv[1], sys.argv[2], sys.argv[3]
m = json.load(open('MANIFEST.json'))
m['checks'] = [c for c in m['checks'] if c['property_id'] != pid]
m['checks'].append({
 "property_id": pid,
 "quick_cmd": "./check %s --tier quick" % pid,
 "thorough_cmd": "./check %s --tier thorough" % pid,
 "evidence_file": "evidence/%s.json" % pid,
 "replay_cmd_template": "./check %s --replay {path}" % pid,
 "engine": "coq-model",
 "level_claimed": {"category": "proof", "text": text, "design_ref": "DESIGN.md 5 %s" % pid},
 "level_note": note,
 "technique": "Coq proof over executable Gallina model + differential correspondence with extracted model + executable judge"
})
m['checks'].sort(key=lambda c: c['property_id'])
m['not_applicable'] = [n for n in m.get('not_applicable', []) if n['property_id'] != pid]
for e in m.get('engines', []):
    if pid not in e['serves_properties']:
        e['serves_properties'].append(pid); e['serves_properties'].sort()
json.dump(m, open('MANIFEST.json', 'w'), indent=1)
