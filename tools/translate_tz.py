"""Translator family TzInfo: the constants and month tables of the TZif reader and rule evaluator
(src/offset/local/tz_info/{mod,rule,timezone}.rs) -> coq/Gen/TzInfo.v."""
import re

from rustconst import Evaluator, TranslateError, array_elems, find_items, fn_body
from translate import HEADER, defn, read, zlist, eval_simple_consts


def gen_tzinfo():
    msrc = read('src/offset/local/tz_info/mod.rs')
    rsrc = read('src/offset/local/tz_info/rule.rs')
    tsrc = read('src/offset/local/tz_info/timezone.rs')
    out = HEADER % 'src/offset/local/tz_info/{mod,rule,timezone}.rs'
    mi = find_items(msrc)
    env = eval_simple_consts(mi, ['HOURS_PER_DAY', 'SECONDS_PER_HOUR', 'SECONDS_PER_DAY', 'DAYS_PER_WEEK'])
    for n in ('SECONDS_PER_DAY', 'DAYS_PER_WEEK'):
        out += defn('TZ_' + n, env[n])

    def table(items, name, n_expected):
        if name not in items:
            raise TranslateError('table %s not found' % name)
        ty, body = items[name][0]
        vals = [Evaluator(env).eval(e) for e in array_elems(body)]
        if len(vals) != n_expected:
            raise TranslateError('table %s has %d entries, expected %d' % (name, len(vals), n_expected))
        return vals

    out += zlist('TZ_DAY_IN_MONTHS_NORMAL_YEAR', table(mi, 'DAY_IN_MONTHS_NORMAL_YEAR', 12))
    out += zlist('TZ_CUMUL_DAY_IN_MONTHS_NORMAL_YEAR', table(mi, 'CUMUL_DAY_IN_MONTHS_NORMAL_YEAR', 12))
    # the constants of timezone.rs may live in any of the three files of the private module
    ti = dict(find_items(msrc))
    ti.update(find_items(rsrc))
    ti.update(find_items(tsrc))
    env = eval_simple_consts(ti, ['SECONDS_PER_WEEK', 'SECONDS_PER_28_DAYS'], env)
    for n in ('SECONDS_PER_WEEK', 'SECONDS_PER_28_DAYS'):
        out += defn('TZ_' + n, env[n])
    ri = find_items(rsrc)
    names = ['SECONDS_PER_MINUTE', 'SECONDS_PER_HOUR', 'MINUTES_PER_HOUR', 'MONTHS_PER_YEAR', 'DAYS_PER_NORMAL_YEAR',
             'DAYS_PER_4_YEARS', 'DAYS_PER_100_YEARS', 'DAYS_PER_400_YEARS', 'UNIX_OFFSET_SECS', 'OFFSET_YEAR']
    renv = eval_simple_consts(ri, names, {k: v for k, v in env.items() if k not in ('SECONDS_PER_HOUR',)})
    for n in names:
        out += defn('TZR_' + n, renv[n])
    env = renv
    out += zlist('TZR_DAY_IN_MONTHS_LEAP_YEAR_FROM_MARCH', table(ri, 'DAY_IN_MONTHS_LEAP_YEAR_FROM_MARCH', 12))
    # literal cumulative table of the leap-aware branch of RuleDay::transition_date: `N + leap` entries
    body = fn_body(rsrc, 'transition_date')
    m = re.search(r'let cumul_day_in_months = \[(.*?)\];', body, re.S)
    if not m:
        raise TranslateError('transition_date: cumul_day_in_months literal not found')
    base, leapflag = [], []
    for e in [x.strip() for x in m.group(1).split(',') if x.strip()]:
        mm = re.match(r'^(\d+)(\s*\+\s*leap)?$', e)
        if not mm:
            raise TranslateError('transition_date: unexpected table entry %r' % e)
        base.append(int(mm.group(1)))
        leapflag.append(1 if mm.group(2) else 0)
    if len(base) != 12:
        raise TranslateError('transition_date: cumul table has %d entries' % len(base))
    out += zlist('TZR_CUMUL_J0_BASE', base)
    out += zlist('TZR_CUMUL_J0_LEAP', leapflag)
    # literal bounds of the grammar
    def lit(fn, pat, what):
        b = fn_body(rsrc, fn)
        mm = re.search(pat, b)
        if not mm:
            raise TranslateError('%s: %s not found' % (fn, what))
        return [int(x) for x in mm.groups()]
    lo, hi = lit('parse_offset', r'\((-?\d+)\.\.=(\d+)\)\.contains\(&hour\)', 'hour range')
    out += defn('TZR_OFFSET_HOUR_MAX', hi)
    lo, hi = lit('parse_rule_time', r'\((-?\d+)\.\.=(\d+)\)\.contains\(&hour\)', 'hour range')
    out += defn('TZR_RULE_HOUR_MAX', hi)
    lo, hi = lit('parse_rule_time_extended', r'\((-?\d+)\.\.=(\d+)\)\.contains\(&hour\)', 'hour range')
    out += defn('TZR_RULE_EXT_HOUR_MIN', lo)
    out += defn('TZR_RULE_EXT_HOUR_MAX', hi)
    lo, hi = lit('parse_offset', r'\((-?\d+)\.\.=(\d+)\)\.contains\(&minute\)', 'minute range')
    out += defn('TZR_MINSEC_MAX', hi)
    (d,) = lit('julian_0', r'julian_day_0\s*>\s*(\d+)', 'bound')
    out += defn('TZR_JULIAN0_MAX', d)
    lo, hi = lit('julian_1', r'\((\d+)\.\.=(\d+)\)\.contains\(&julian_day_1\)', 'range')
    out += defn('TZR_JULIAN1_MIN', lo)
    out += defn('TZR_JULIAN1_MAX', hi)
    b = fn_body(rsrc, 'parse')
    mm = re.search(r'\(false,\s*_\)\s*=>\s*(\d+)\s*\*\s*(\d+)', b)
    if not mm:
        raise TranslateError('RuleDay::parse: default time not found')
    out += defn('TZR_DEFAULT_RULE_TIME', int(mm.group(1)) * int(mm.group(2)))
    b = fn_body(rsrc, 'from_tz_string')
    mm = re.search(r"b','\)\s*=>\s*std_offset\s*-\s*(\d+)", b)
    if not mm:
        raise TranslateError('from_tz_string: default DST shift not found')
    out += defn('TZR_DEFAULT_DST_SHIFT', int(mm.group(1)))
    # TimeZoneName length bounds
    mm = re.search(r'\((\d+)\.\.=(\d+)\)\.contains\(&len\)', tsrc)
    if not mm:
        raise TranslateError('TimeZoneName::new: length range not found')
    out += defn('TZ_NAME_MIN', int(mm.group(1)))
    out += defn('TZ_NAME_MAX', int(mm.group(2)))
    return out


FAMILIES = {'TzInfo': gen_tzinfo}
