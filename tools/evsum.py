#!/usr/bin/env python3
import json,sys,glob
for f in sorted(glob.glob('evidence/*.json')) if len(sys.argv)<2 else ['evidence/%s.json'%p for p in sys.argv[1:]]:
    e=json.load(open(f)); c=e['coverage']
    print(e['property_id'],e['tier'],'wall',e['wall_s'],'viol',e.get('violations'),'obl',c.get('obligations'),'/',c.get('discharged'),'eval',c.get('evaluations'),'nontriv',c.get('distinct_nontrivial'),'disagree',c.get('correspondence_disagreements'),'jrej',c.get('judge_rejections'),'drift',c.get('out_of_domain_drift'),'known',c.get('known_findings_hit'),'notes',str(c.get('notes'))[:200])
