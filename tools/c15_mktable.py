#!/usr/bin/env python3
"""Writes gen/C15_inventory.json from the rules below (entry-point pattern -> ops, theorem, note).
Maintenance tool: run after the public API or the op tables changed; `tools/c15_inventory.py` then
reports entries the rules do not know as `unmapped`.

ops are written `Cxx:op`; `theorem`: `C15_x` = the theorem of Props/C15.v that excludes Panic / OutOfFuel of the modelled entry
point for ALL well-typed arguments (named *_partial when a stated sub-domain is excluded); `owner: Cxx_y` =
the owner's theorem of Props/Cxx.v states `f args = Val ...` for all typed arguments (no trap follows at
once) and Props/C15.v does not restate it; `owner-partial: Cxx_y` = the same on a sub-domain the owner states
(elsewhere correspondence + judge); `none: ...` = correspondence + judge only, with the reason."""
import json
import os
import re
import sys

sys.path.insert(0, os.path.dirname(os.path.abspath(__file__)))
import c15_inventory

ROOT = os.path.dirname(os.path.dirname(os.path.abspath(__file__)))

C20 = 'serde carriers: property C20 (its engineer owns the stream; same naive_local() pattern reported there)'

# (regex on the entry name, ops, theorem, note) -- first match wins
RULES = [
    # ---- serde
    (r'^<DateTime<Tz> as ser::Serialize>::serialize$', [], 'owner: C20_serialize_dt_never_traps', C20 + '; every well-formed value: any offset, any wall clock'),
    (r'^<DateTime<FixedOffset> as de::Deserialize', [], 'C15_serde_de_dt_fixed_total', C20 + '; every string (visit_str = FromStr); the round trip: C20_serde_roundtrip_dt_fixed'),
    (r'^<DateTime<Utc> as de::Deserialize', [], 'C15_serde_de_dt_utc_total', C20 + '; every string; the round trip: C20_serde_roundtrip_dt_utc'),
    (r'^serde::ts_\w+_option::serialize', [], 'C15_serde_ts_serialize_option_total', C20 + '; every well-formed value, leap seconds included; the number written: C20_ts_serialize_option_spec (non-leap)'),
    (r'^serde::ts_\w+_option::deserialize', [], 'owner: C20_ts_deserialize_option_spec', C20 + '; every i64 / u64'),
    (r'^serde::ts_\w+::serialize', [], 'C15_serde_ts_serialize_total', C20 + '; every well-formed value, leap seconds included; the number written: C20_ts_serialize_spec (non-leap)'),
    (r'^serde::ts_\w+::deserialize', [], 'owner: C20_ts_deserialize_spec', C20 + '; every i64 / u64'),
    (r'^<TimeDelta as Serialize>::serialize$', [], 'owner: C20_delta_roundtrip', C20),
    (r'^<TimeDelta as Deserialize', [], 'owner: C20_delta_read_spec', C20 + '; every (i64, i32) pair'),
    (r'^<NaiveDate as ser::Serialize>::serialize$', [], 'owner: C20_serde_roundtrip_date', C20 + '; every date'),
    (r'^<NaiveDate as de::Deserialize', [], 'C15_serde_de_date_total', C20 + '; every string'),
    (r'^<NaiveTime as ser::Serialize', [], 'C15_serde_ser_time_total', C20 + '; every value'),
    (r'^<NaiveTime as de::Deserialize', [], 'C15_serde_de_time_total', C20 + '; every string'),
    (r'^<NaiveDateTime as ser::Serialize', [], 'C15_serde_ser_ndt_total', C20 + '; every value'),
    (r'^<NaiveDateTime as de::Deserialize', [], 'C15_serde_de_ndt_total', C20 + '; every string'),
    (r'^<Weekday as ser::Serialize>::serialize$', [], 'owner: C20_serde_roundtrip_weekday', C20),
    (r'^<Weekday as de::Deserialize', [], 'C15_serde_de_names_total', C20 + '; every string'),
    (r'^<Month as ser::Serialize>::serialize$', [], 'owner: C20_serde_roundtrip_month', C20),
    (r'^<Month as de::Deserialize', [], 'C15_serde_de_names_total', C20 + '; every string'),
    (r'serde::|Serialize|Deserialize', [], 'none: outside C15 stream', C20),
    # ---- DateTime
    (r'^DateTime<Tz>::timestamp_nanos_opt$', ['C02:ts.of'], 'C15_timestamp_nanos_opt_total', 'every well-formed value, leap-second fraction on any second included'),
    (r'^DateTime<Tz>::checked_(add|sub)_signed$', ['C03:ar.zadd', 'C03:ar.zsub'], 'C15_dtz_signed_total', 'leap-second operands included'),
    (r'^DateTime<Tz>::checked_(add|sub)_months$', ['C04:z.months'], 'C15_dtz_months_total', 'every wall clock, headroom included (C04_months)'),
    (r'^DateTime<Tz>::checked_(add|sub)_days$', ['C04:z.days', 'C03:ar.zdays'], 'C15_dtz_days_total', 'every wall clock, headroom included (C04_add_days, C04_sub_days; C03_zone_days_exact)'),
    (r'^DateTime<Tz>::years_since$', ['C08:d8.dtyears'], 'owner: C08_dt_years_since', ''),
    (r'^DateTime<Tz>::to_rfc3339$', ['C10:r3.show'], 'C15_to_rfc3339_total', 'named by the property text; returns String. Every well-formed value: any year incl. headroom, any offset incl. seconds, leap fractions'),
    (r'^DateTime<Tz>::to_rfc3339_opts$', ['C10:r3.write', 'C10:r3.rt'], 'C15_to_rfc3339_opts_total',
     'named by the property text; returns String. REPAIRED (fixes/C15-rfc3339-opts-local.diff). Every well-formed value, every SecondsFormat'),
    (r'^DateTime<Tz>::with_time$', ['C04:z.withtime'], 'C15_with_time_total', ''),
    (r'^DateTime<Utc>::from_timestamp$', ['C02:ts.from', 'C02:ts.rt'], 'C15_from_timestamp_total', ''),
    (r'^DateTime<Utc>::from_timestamp_millis$', ['C02:ts.fromms'], 'C15_from_timestamp_millis_total', ''),
    (r'^DateTime<Utc>::from_timestamp_micros$', ['C02:ts.fromus'], 'C15_from_timestamp_micros_total', ''),
    (r'^DateTime<FixedOffset>::parse_from_rfc2822$', ['C11:r2.parse'], 'C15_parse_from_rfc2822_total', 'every string (C11_parse_never_panics); a returned value is well formed'),
    (r'^DateTime<FixedOffset>::parse_from_rfc3339$', ['C10:r3.parse'], 'C15_parse_from_rfc3339_total', ''),
    (r'^DateTime<FixedOffset>::parse_from_str$', ['C13:fp.parse', 'C13:fp.rt'], 'C15_dt_parse_from_str_total', 'every format string, every input'),
    (r'^DateTime<FixedOffset>::parse_and_remainder$', ['C15:c15.rem', 'C13:fp.rem'], 'C15_dt_parse_and_remainder_total', 'every format string, every input'),
    (r'^<DateTime<Tz> as Datelike>::with_', ['C04:z.with'], 'C15_dtz_with_date_field_total', 'every wall clock, headroom included (C04_replace_date_field)'),
    (r'^<DateTime<Tz> as Timelike>::with_', ['C04:z.with'], 'C15_dtz_with_time_field_total', ''),
    (r'^<DateTime<Tz> as fmt::(Debug|Display)>::fmt$', ['C09:tx.show'], 'C15_show_dtz_total', 'every well-formed value; C09_shape_dt states the text on its domain'),
    (r'^<DateTime<Utc> as str::FromStr>::from_str$', ['C09:tx.parse'], 'C15_datetime_utc_from_str_total', 'every string; the text/value relation: C09_roundtrip_dt_utc on its domain'),
    (r'^<DateTime<FixedOffset> as str::FromStr>::from_str$', ['C09:tx.parse'], 'C15_datetime_fixed_from_str_total', 'every string; the text/value relation: C09_roundtrip_dt_fixed on its domain'),
    (r'^<DateTime<Tz> as DurationRound>::', ['C17:rd.ztrunc', 'C17:rd.zround', 'C17:rd.zup'], 'C15_dtz_round_total', 'every well-formed value, leap-second fractions and headroom wall clocks included; values: C17_zoned_value (non-leap)'),
    # ---- format
    (r'^DelayedFormat<I>::write_to$', ['C15:c15.writeto'], 'C15_delayed_format_items_total', 'every item list, every value; over StrftimeItems: C15_delayed_format_strftime_total'),
    (r'^<DelayedFormat<I> as Display>::fmt$', ['C12:sf.fmt', 'C12:sf.fmtl', 'C13:fp.fmt'], 'C15_delayed_format_strftime_total', 'every format string, every value; fmt::Error by value; the text: C12_format_spec_family'),
    (r'^<ParseError as fmt::Display>::fmt$|^<OutOfRange as|^<ParseMonthError as|^<ParseWeekdayError as|^<RoundingError as|^<OutOfRangeError as',
     ['C15:c15.errtext'], 'C15_error_texts_total', 'writes a literal; every value of the type'),
    (r'^<Weekday as FromStr>::from_str$', ['C19:wd.parse', 'C09:tx.parse'], 'C15_weekday_month_from_str_total', ''),
    (r'^<Month as FromStr>::from_str$', ['C19:mo.parse', 'C09:tx.parse'], 'C15_weekday_month_from_str_total', ''),
    (r'^parse::parse$', ['C13:fp.iparse', 'C13:fp.irt'], 'C15_parse_items_total', 'every item list (Fixed::RFC2822 included), every input'),
    (r'^parse::parse_and_remainder$', ['C15:c15.prem'], 'C15_parse_items_total', 'every item list (Fixed::RFC2822 included), every input'),
    (r'^Parsed::set_', ['C14:pz.setseq', 'C14:pz.resolve'], 'C15_parsed_setters_total', ''),
    (r'^Parsed::to_naive_date$', ['C14:pz.resolve', 'C14:pz.raw'], 'C15_to_naive_date_total', ''),
    (r'^Parsed::to_naive_time$', ['C14:pz.resolve', 'C14:pz.raw'], 'C15_to_naive_time_total', ''),
    (r'^Parsed::to_naive_datetime_with_offset$', ['C14:pz.resolve', 'C14:pz.raw'], 'C15_to_naive_datetime_with_offset_total', ''),
    (r'^Parsed::to_fixed_offset$', ['C14:pz.resolve', 'C14:pz.raw'], 'owner: C14_to_fixed_offset_spec', 'every field record'),
    (r'^Parsed::to_datetime$', ['C14:pz.resolve', 'C14:pz.raw'], 'C15_to_datetime_total', 'every typed field state'),
    (r'^Parsed::to_datetime_with_timezone$', ['C14:pz.resolve', 'C14:pz.raw'], 'C15_to_datetime_with_timezone_total', 'every typed field state, every FixedOffset / Utc zone'),
    (r'^Parsed::[a-z_0-9]+$', ['C14:pz.setseq'], 'C15_parsed_getters_valid', 'return the stored Option field (plain projection)'),
    (r"^StrftimeItems<'a>::parse$", ['C15:c15.sfparse'], 'C15_strftime_parse_total', ''),
    (r"^StrftimeItems<'a>::parse_to_owned$", ['C15:c15.sfowned'], 'C15_strftime_parse_total', ''),
    # ---- Month / Weekday / WeekdaySet
    (r'^Month::num_days$', ['C08:d8.mdays'], 'C15_month_num_days_total', ''),
    (r'^<Month as TryFrom<u8>>::try_from$', ['C19:mo.try'], 'C15_weekday_month_conversions', ''),
    (r'^<Month as num_traits::FromPrimitive>::', ['C19:mo.fi64', 'C19:mo.fu64', 'C19:mo.fu32'], 'C15_weekday_month_conversions', ''),
    (r'^<Weekday as TryFrom<u8>>::try_from$', ['C19:wd.try'], 'C15_weekday_month_conversions', ''),
    (r'^<Weekday as num_traits::FromPrimitive>::', ['C19:wd.fi64', 'C19:wd.fu64'], 'C15_weekday_month_conversions', ''),
    (r'^<Weekday as fmt::Display>::fmt$', ['C19:wd.disp', 'C09:tx.show'], 'owner: C19_wd_display', ''),
    (r'^WeekdaySet::', ['C19:ws.single_day', 'C19:ws.first', 'C19:ws.last'], 'owner: C19_members', ''),
    (r'^<WeekdaySet as fmt::Display>::fmt$', ['C19:ws.disp'], 'owner: C19_set_display', ''),
    (r'^<WeekdaySet as', ['C15:c15.wdset.dbg'], 'C15_wdset_debug_total', 'Debug of the bit set: seven binary digits'),
    # ---- NaiveDate
    (r'^NaiveDate::from_ymd_opt$', ['C01:d.ymd'], 'C15_from_ymd_opt_total', ''),
    (r'^NaiveDate::from_yo_opt$', ['C01:d.yo'], 'C15_from_yo_opt_total', ''),
    (r'^NaiveDate::from_isoywd_opt$', ['C01:d.isoywd'], 'C15_from_isoywd_opt_total', 'repaired f8bab14'),
    (r'^NaiveDate::from_num_days_from_ce_opt$', ['C01:d.days'], 'C15_from_num_days_from_ce_opt_total', ''),
    (r'^NaiveDate::from_weekday_of_month_opt$', ['C08:d8.nthwd'], 'C15_from_weekday_of_month_opt_total', ''),
    (r'^NaiveDate::parse_from_str$', ['C13:fp.parse', 'C13:fp.rt'], 'C15_date_parse_from_str_total', 'every format string, every input; the text/value relation: C13_date_ymd_parse_from_str, C13_class_date_parse_from_str ... on their domains'),
    (r'^NaiveDate::parse_and_remainder$', ['C15:c15.rem', 'C13:fp.rem'], 'C15_date_parse_and_remainder_total', 'every format string, every input'),
    (r'^NaiveDate::checked_(add|sub)_months$', ['C08:d8.addm', 'C08:d8.subm'], 'C15_date_months_total', ''),
    (r'^NaiveDate::checked_(add|sub)_days$', ['C03:ar.dadd', 'C03:ar.dsub'], 'C15_date_days_total', ''),
    (r'^NaiveDate::and_hms(_milli|_micro|_nano)?_opt$', ['C15:c15.d.hms', 'C15:c15.d.hmsm', 'C15:c15.d.hmsu', 'C15:c15.d.hmsn'], 'C15_and_hms_total', ''),
    (r'^NaiveDate::succ_opt$', ['C01:d.succ'], 'C15_succ_pred_total', ''),
    (r'^NaiveDate::pred_opt$', ['C01:d.pred'], 'C15_succ_pred_total', ''),
    (r'^NaiveDate::checked_(add|sub)_signed$', ['C03:ar.dadds', 'C03:ar.dsubs'], 'C15_date_signed_total', ''),
    (r'^NaiveDate::years_since$', ['C08:d8.years'], 'C15_years_since_total', ''),
    (r'^<NaiveDate as Datelike>::with_', ['C08:d8.with'], 'C15_date_with_total', ''),
    (r'^<NaiveDate as fmt::', ['C09:tx.show'], 'C15_show_date_total', 'every date; the text: C09_shape_date'),
    (r'^<NaiveDate as str::FromStr>::from_str$', ['C09:tx.parse'], 'C15_naive_date_from_str_total', 'every string; the text/value relation: C09_roundtrip_date'),
    (r'^<IsoWeek as fmt::Debug>::fmt$', ['C15:c15.isoweek.dbg'], 'C15_isoweek_debug_total', 'Debug of IsoWeek: two integers through write!'),
    # ---- NaiveDateTime
    (r'^NaiveDateTime::parse_from_str$', ['C13:fp.parse', 'C13:fp.rt'], 'C15_ndt_parse_from_str_total', 'every format string, every input'),
    (r'^NaiveDateTime::parse_and_remainder$', ['C15:c15.rem', 'C13:fp.rem'], 'C15_ndt_parse_and_remainder_total', 'every format string, every input'),
    (r'^NaiveDateTime::checked_(add|sub)_signed$', ['C03:ar.nadd', 'C03:ar.nsub', 'C07:ndt.add', 'C07:ndt.sub'], 'C15_ndt_signed_total', 'leap-second operands included (C07_ndt_leap_add / _sub)'),
    (r'^NaiveDateTime::checked_(add|sub)_months$', ['C08:d8.ndt.addm', 'C08:d8.ndt.subm'], 'C15_ndt_months_total', ''),
    (r'^NaiveDateTime::checked_(add|sub)_offset$', ['C15:c15.ndt.addoff', 'C15:c15.ndt.suboff', 'C07:t.addoffd'], 'C15_ndt_offset_total', ''),
    (r'^NaiveDateTime::checked_(add|sub)_days$', ['C03:ar.ndays'], 'C15_ndt_days_total', 'leap-second operands included'),
    (r'^NaiveDateTime::and_local_timezone$', ['C15:c15.ndt.andtz', 'C04:z.fromlocal'], 'C15_from_local_datetime_total', ''),
    (r'^<NaiveDateTime as Datelike>::with_', ['C08:d8.ndt.with'], 'owner: C08_ndt_with', ''),
    (r'^<NaiveDateTime as Timelike>::with_', ['C15:c15.ndt.witht'], 'C15_ndt_with_time_total', ''),
    (r'^<NaiveDateTime as fmt::', ['C09:tx.show'], 'C15_show_ndt_total', 'every value; the text: C09_shape_ndt'),
    (r'^<NaiveDateTime as str::FromStr>::from_str$', ['C09:tx.parse'], 'C15_naive_datetime_from_str_total', 'every string; the text/value relation: C09_roundtrip_ndt_debug on its domain'),
    (r'^<NaiveDateTime as DurationRound>::', ['C17:rd.trunc', 'C17:rd.round', 'C17:rd.up'], 'C15_ndt_round_total', 'every well-formed value, leap-second fractions included; values: C17_naive_value (non-leap)'),
    (r'^NaiveWeek::checked_', ['C08:d8.wfirst', 'C08:d8.wlast', 'C08:d8.week'], 'C15_week_total', ''),
    # ---- NaiveTime
    (r'^NaiveTime::from_hms', ['C07:t.hms', 'C07:t.hms_milli', 'C07:t.hms_micro', 'C07:t.hms_nano'], 'C15_time_ctor_total', ''),
    (r'^NaiveTime::from_num_seconds_from_midnight_opt$', ['C07:t.nsfm'], 'owner: C07_ctor_accept_iff_secs', 'no trapping operation in the model (returns option directly)'),
    (r'^NaiveTime::parse_from_str$', ['C13:fp.parse', 'C13:fp.rt'], 'C15_time_parse_from_str_total', 'every format string, every input; the text/value relation: C13_time_hms_parse_from_str, C13_class_time_parse_from_str ... on their domains'),
    (r'^NaiveTime::parse_and_remainder$', ['C15:c15.rem', 'C13:fp.rem'], 'C15_time_parse_and_remainder_total', 'every format string, every input'),
    (r'^<NaiveTime as Timelike>::with_', ['C07:t.with_hour', 'C07:t.with_minute', 'C07:t.with_second', 'C07:t.with_nano'], 'owner: C07_replace_exact_hour', ''),
    (r'^<NaiveTime as fmt::', ['C09:tx.show'], 'C15_show_time_total', 'every value; the text: C09_shape_time'),
    (r'^<NaiveTime as str::FromStr>::from_str$', ['C09:tx.parse'], 'C15_naive_time_from_str_total', 'every string; the text/value relation: C09_roundtrip_time on its domain'),
    # ---- offsets / zones
    (r'^FixedOffset::(east|west)_opt$', ['C04:z.east', 'C04:z.west'], 'C15_fixed_offset_ctor_total', ''),
    (r'^<FixedOffset as FromStr>::from_str$', ['C09:tx.parse'], 'C15_fixed_offset_from_str_total', 'every string; the text/value relation: C09_roundtrip_fixed_offset (whole minutes)'),
    (r'^<(FixedOffset|Utc) as TimeZone>::offset_from_local', ['C15:c15.offlocal'], 'C15_offset_from_local_total', 'returns Single(self)'),
    (r'^<FixedOffset as fmt::', ['C09:tx.show'], 'C15_show_fixed_offset_total', 'every offset, seconds included; the text: C09_shape_fixed_offset (whole minutes)'),
    (r'^<Utc as fmt::', ['C09:tx.show'], 'C15_show_utc_total', 'constant text'),
    (r'^MappedLocalTime<T>::', ['C15:c15.mlt'], 'C15_mlt_selectors', 'pattern match only'),
    (r'^TimeZone::with_ymd_and_hms$', ['C04:z.ymdhms'], 'C15_with_ymd_and_hms_total', ''),
    (r'^TimeZone::timestamp_opt$', ['C02:ts.tz'], 'C15_tz_timestamp_total', ''),
    (r'^TimeZone::timestamp_millis_opt$', ['C02:ts.tzms'], 'C15_tz_timestamp_total', ''),
    (r'^TimeZone::timestamp_micros$', ['C02:ts.tzus'], 'C15_tz_timestamp_total', ''),
    (r'^TimeZone::from_local_datetime$', ['C04:z.fromlocal', 'C15:c15.ndt.andtz'], 'C15_from_local_datetime_total', ''),
    # ---- TimeDelta
    (r'^TimeDelta::try_milliseconds$', ['C06:td.millis'], 'C15_td_millis_total', ''),
    (r'^TimeDelta::(new|try_)', ['C06:td.new', 'C06:td.weeks', 'C06:td.days', 'C06:td.hours', 'C06:td.minutes', 'C06:td.seconds', 'C06:td.millis'], 'C15_td_ctor_valid', ''),
    (r'^TimeDelta::num_(micro|nano)seconds$', ['C06:td.acc'], 'owner: C06_num_microseconds', ''),
    (r'^TimeDelta::checked_add$', ['C06:td.add'], 'C15_td_add_total', ''),
    (r'^TimeDelta::checked_sub$', ['C06:td.sub'], 'C15_td_sub_total', ''),
    (r'^TimeDelta::checked_mul$', ['C06:td.mul'], 'C15_td_mul_total', 'repaired 9a6fec9'),
    (r'^TimeDelta::checked_div$', ['C06:td.div'], 'C15_td_div_total', ''),
    (r'^TimeDelta::from_std$', ['C06:td.fromstd'], 'owner: C06_from_std', ''),
    (r'^TimeDelta::to_std$', ['C06:td.tostd'], 'owner: C06_from_std', ''),
    (r'^<TimeDelta as fmt::Display>::fmt$', ['C06:td.disp'], 'C15_td_display_total', ''),
]


def main():
    repo = os.environ.get('VERIF_REPO', '/repo')
    found = c15_inventory.scan(repo)
    entries = []
    missing = []
    for r in found:
        for pat, ops, thm, note in RULES:
            if re.search(pat, r['entry']):
                e = {'entry': r['entry'], 'file': r['file'], 'ops': ops, 'theorem': thm}
                if note:
                    e['note'] = note
                entries.append(e)
                break
        else:
            missing.append(r['entry'])
    out = {'comment': 'C15 inventory: public non-deprecated fallible entry points of chrono and the ops / theorems covering them; '
                      'written by tools/c15_mktable.py, checked against the Rust sources on every run by tools/c15_inventory.py',
           'entries': entries}
    with open(os.path.join(ROOT, 'gen', 'C15_inventory.json'), 'w') as f:
        json.dump(out, f, indent=1)
    print('%d entries written, %d without a rule' % (len(entries), len(missing)))
    for m in missing:
        print('NO RULE', m)


if __name__ == '__main__':
    main()
