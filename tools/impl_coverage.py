#!/usr/bin/env python3
"""Lead tool: which lines / functions of /repo/src do the quick-tier case streams execute?

The correspondence run ties model and code only on the code the cases reach.  This tool measures
that reach: the harness is built with source-based coverage (nightly toolchain, offline), every
property's quick-tier case stream (corpus first, as in ./check) is fed to the instrumented implrun,
and llvm-cov reports, for the files the properties are anchored in, line coverage and the functions
that were never entered.  Output: coverage/IMPL_COVERAGE.md + coverage/impl_coverage.json.
Not part of any registered check (needs ~10 min and the nightly toolchain); a measuring instrument
for the generators, not a decision procedure.

usage: impl_coverage.py [Cxx ...]      (default: every property with a generator)"""
import glob
import json
import os
import random
import re
import shutil
import subprocess
import sys

ROOT = os.path.dirname(os.path.dirname(os.path.abspath(__file__)))
sys.path.insert(0, os.path.join(ROOT, 'tools'))
import vcheck  # noqa: E402

OUT = '/tmp/implcov'
TGT = os.path.join(OUT, 'target')


def sh(cmd, cwd=None, env=None, timeout=7200):
    p = subprocess.run(cmd, shell=True, cwd=cwd, env=env, stdout=subprocess.PIPE, stderr=subprocess.STDOUT, timeout=timeout)
    return p.returncode, p.stdout.decode('utf-8', 'replace')


def main():
    pids = sys.argv[1:] or sorted(os.path.basename(f)[:-3] for f in glob.glob(os.path.join(ROOT, 'gen', 'C[0-9][0-9].py')))
    os.makedirs(OUT, exist_ok=True)
    rc, sysroot = sh('rustc +nightly --print sysroot')
    bindir = os.path.join(sysroot.strip().splitlines()[-1], 'lib/rustlib/x86_64-unknown-linux-gnu/bin')
    env = dict(os.environ, RUSTFLAGS='-C instrument-coverage', CARGO_TARGET_DIR=TGT, CARGO_NET_OFFLINE='true')
    rc, out = sh('cargo +nightly build --release --offline 2>&1 | tail -5', cwd=os.path.join(ROOT, 'harness'), env=env)
    exe = os.path.join(TGT, 'release', 'implrun')
    if not os.path.exists(exe):
        print('instrumented build failed:\n' + out)
        return 2
    for f in glob.glob(os.path.join(OUT, '*.profraw')):
        os.remove(f)
    counts = {}
    for pid in pids:
        chk = vcheck.Check(pid, 'quick', 0)
        cases, gen = chk.gen_cases('quick')
        counts[pid] = len(cases)
        e = dict(os.environ, LLVM_PROFILE_FILE=os.path.join(OUT, '%s-%%p-%%m.profraw' % pid))
        ie = getattr(gen, 'IMPL_ENV', None)
        if ie:
            e.update(ie)
        # sequential shards of 20k lines (a crash / watchdog exit loses only its shard's tail)
        for k in range(0, len(cases), 20000):
            inp = os.path.join(OUT, 'in.txt')
            with open(inp, 'w') as f:
                f.write('\n'.join(cases[k:k + 20000]) + '\n')
            subprocess.run('%s < %s > /dev/null 2>&1' % (exe, inp), shell=True, env=e)
        print(pid, len(cases), 'cases', flush=True)
    prof = os.path.join(OUT, 'all.profdata')
    rc, out = sh('%s/llvm-profdata merge -sparse %s/*.profraw -o %s' % (bindir, OUT, prof))
    if rc != 0:
        print(out)
        return 2
    repo = os.path.realpath(os.path.join(ROOT, 'harness', 'repo'))
    rc, out = sh('%s/llvm-cov export -format=text -instr-profile=%s %s --ignore-filename-regex="(registry|rustc|harness/src)" 2>/dev/null'
                 % (bindir, prof, exe))
    data = json.loads(out)
    files = {}
    for f in data['data'][0]['files']:
        name = f['filename']
        if '/src/' not in name or (repo not in name and '/repo/' not in name):
            continue
        rel = name[name.index('/src/') + 1:]
        s = f['summary']
        files[rel] = {'lines': s['lines']['count'], 'lines_covered': s['lines']['covered'],
                      'functions': s['functions']['count'], 'functions_covered': s['functions']['covered'],
                      'regions': s['regions']['count'], 'regions_covered': s['regions']['covered']}
    # functions never entered (demangled names from llvm-cov report per function)
    never = {}
    for fn in data['data'][0].get('functions', []):
        if fn['count'] != 0:
            continue
        fns = [x for x in fn['filenames'] if '/src/' in x and ('/repo/' in x or repo in x)]
        if not fns:
            continue
        rel = fns[0][fns[0].index('/src/') + 1:]
        line = fn['regions'][0][0] if fn.get('regions') else 0
        never.setdefault(rel, set()).add(line)
    # keep only lines where NO instantiation of the function was entered
    entered = {}
    for fn in data['data'][0].get('functions', []):
        if fn['count'] == 0:
            continue
        fns = [x for x in fn['filenames'] if '/src/' in x and ('/repo/' in x or repo in x)]
        if fns and fn.get('regions'):
            rel = fns[0][fns[0].index('/src/') + 1:]
            entered.setdefault(rel, set()).add(fn['regions'][0][0])
    anchors = set()
    for l in open(os.path.join(ROOT, 'properties.jsonl')):
        anchors.update(json.loads(l)['anchors']['files'])
    report = {'cases': counts, 'files': files, 'never_entered': {}}
    for rel, lines in never.items():
        src = open(os.path.join(repo, rel)).read().split('\n')
        items = []
        for ln in sorted(lines - entered.get(rel, set())):
            txt = src[ln - 1].strip() if 0 < ln <= len(src) else ''
            # closures / test code are noise: keep lines that start a fn
            j = ln - 1
            while j >= 0 and 'fn ' not in src[j] and ln - 1 - j < 3:
                j -= 1
            head = src[j].strip() if j >= 0 and 'fn ' in src[j] else txt
            if 'fn ' in head:
                items.append([ln, head[:110]])
        if items:
            report['never_entered'][rel] = items
    with open(os.path.join(ROOT, 'coverage', 'impl_coverage.json'), 'w') as f:
        json.dump(report, f, indent=1)
    md = ['# Implementation coverage of the quick-tier case streams', '',
          'Measured by `tools/impl_coverage.py` (source-based coverage of the harness built against `/repo`, every',
          'property\'s quick-tier stream). Files the properties are anchored in are marked `*`. A function listed as',
          '"never entered" is code the correspondence run does not tie to the model at all (test-only, feature-gated,',
          'platform-specific, deprecated `Date` API, or a gap in the ops).', '',
          '| file | lines covered | functions entered |', '|---|---|---|']
    for rel in sorted(files):
        s = files[rel]
        if s['lines'] == 0:
            continue
        md.append('| %s%s | %d / %d (%.0f%%) | %d / %d |' % (rel, ' *' if rel in anchors else '', s['lines_covered'], s['lines'],
                                                           100.0 * s['lines_covered'] / max(1, s['lines']), s['functions_covered'], s['functions']))
    md += ['', '## Functions never entered (non-test code)', '']
    for rel in sorted(report['never_entered']):
        md.append('### %s%s' % (rel, ' *' if rel in anchors else ''))
        for ln, head in report['never_entered'][rel]:
            md.append('* line %d: `%s`' % (ln, head.replace('`', "'")))
        md.append('')
    with open(os.path.join(ROOT, 'coverage', 'IMPL_COVERAGE.md'), 'w') as f:
        f.write('\n'.join(md) + '\n')
    print('written coverage/IMPL_COVERAGE.md')
    return 0


if __name__ == '__main__':
    sys.exit(main())
