#!/usr/bin/env python3
"""Spec validation (testing of the oracle, labelled as such): the calendar of coq/Spec/Gregorian.v, as
extracted into the C01 judge, against CPython's `datetime.date` (an implementation independent of
both chrono and this framework) on their whole common domain, years 1..9999 = 3,652,059 days:
for every day, the judge must accept the accessor tuple computed by CPython
(year, month, day, ordinal, weekday, ISO year, ISO week, toordinal) and the constructor results.
usage: python3 tools/spec_validate_dates.py   (needs ocaml/build/C01/modelrun, built by ./check C01)"""
import datetime
import os
import sys

sys.path.insert(0, os.path.dirname(os.path.abspath(__file__)))
import vcheck


def main():
    exe = os.path.join(vcheck.ROOT, 'ocaml', 'build', 'C01', 'modelrun')
    if not os.path.exists(exe):
        print('build the C01 runner first: ./check C01')
        return 2
    lines = []
    d = datetime.date(1, 1, 1)
    last = datetime.date(9999, 12, 31)
    one = datetime.timedelta(days=1)
    while True:
        n = d.toordinal()
        o = d.timetuple().tm_yday
        iy, iw, iwd = d.isocalendar()
        wd = d.weekday()
        acc = '(%d,%d,%d,%d,%d,%d,%d,%d,%d,%d,%d,%d)' % (d.year, d.month, d.day, o, wd, iy, iw, n, d.month - 1, d.day - 1, o - 1, n)
        date = '(%d,%d)' % (d.year, o)
        lines.append('%s d.acc %s' % (acc, date))
        lines.append('some(%s) d.days %d' % (date, n))
        lines.append('some(%s) d.ymd %d %d %d' % (date, d.year, d.month, d.day))
        lines.append('some(%s) d.isoywd %d %d %d' % (date, iy, iw, wd))
        if d == last:
            break
        d += one
    verdicts = vcheck.run_lines(exe, ['judge'], lines, tag='specval')
    bad = [(l, v) for l, v in zip(lines, verdicts) if v != 'ok']
    print('spec validation against CPython datetime: %d judged lines over %d days, %d not ok' % (len(lines), len(lines) // 4, len(bad)))
    for l, v in bad[:10]:
        print('  ', l, '->', v)
    return 1 if bad else 0


if __name__ == '__main__':
    sys.exit(main())
