"""Translator family SerdeConsts (property C20): the sixteen timestamp helper modules of
src/naive/datetime/serde.rs and src/datetime/serde.rs -> coq/Gen/SerdeConsts.v.

Module numbering: m = 8*z + 2*u + o   z: 0 NaiveDateTime, 1 DateTime<Utc>
                                      u: 0 ts_seconds, 1 ts_milliseconds, 2 ts_microseconds, 3 ts_nanoseconds
                                      o: 0 plain, 1 _option
For every module the *shape* of serialize / visit_i64 / visit_u64 / visit_some / visit_none / visit_unit is
matched against the small set of shapes the model (Model/Serde.v) interprets, and the numeric literals are
extracted; an unrecognised body is a translation failure (every theorem of C20 stops checking).
  SD_SER    m -> accessor     0 timestamp() 1 timestamp_millis() 2 timestamp_micros() 3 timestamp_nanos_opt().ok_or(custom)?
  SD_VIS    m -> base module whose integer visitor reads the value (plain: m itself; option: visit_some's)
  SD_I64    base m -> (form, div, rem, mul)
            0 from_timestamp(value, 0)   1 from_timestamp_millis(value)   2 from_timestamp_micros(value)
            3 from_timestamp(value.div_euclid(div), (value.rem_euclid(rem) * mul) as u32)
  SD_U64    base m -> (form, div, rem, mul)
            0 if value > i64::MAX as u64 { Err } else { from_timestamp(value as i64, 0) }
            3 from_timestamp((value / div) as i64, ((value % rem) * mul) as u32)
Also the string-form impls (collect_str of Debug / Display / name(), visit_str = value.parse()), the
TimeDelta pair and lib.rs invalid_ts are shape-checked (flags only)."""
import re

from rustconst import TranslateError, strip_comments
from translate import HEADER, defn, read

UNITS = ['ts_seconds', 'ts_milliseconds', 'ts_microseconds', 'ts_nanoseconds']
NS_MSG = '"valueoutofrangeforatimestampwithnanosecondprecision"'


def num(s):
    return int(s.replace('_', ''))


def squash(s):
    return re.sub(r'\s+', '', s)


def mod_text(src, name):
    m = re.search(r'\bpub mod ' + name + r'\s*\{', src)
    if not m:
        raise TranslateError('module %s not found' % name)
    i = m.end() - 1
    depth = 0
    j = i
    while j < len(src):
        if src[j] == '{':
            depth += 1
        elif src[j] == '}':
            depth -= 1
            if depth == 0:
                return src[i:j + 1]
        j += 1
    raise TranslateError('unbalanced braces in module %s' % name)


def body_of(text, fn, what):
    """Squashed body of the first `fn <fn>` in text (generic parameters and where-clauses skipped)."""
    m = re.search(r'\bfn\s+' + re.escape(fn) + r'\b', text)
    if not m:
        raise TranslateError('%s: fn %s not found' % (what, fn))
    i = text.index('(', m.end())
    depth = 0
    while True:
        if text[i] == '(':
            depth += 1
        elif text[i] == ')':
            depth -= 1
            if depth == 0:
                break
        i += 1
    i = text.index('{', i)
    depth = 0
    j = i
    while j < len(text):
        if text[j] == '{':
            depth += 1
        elif text[j] == '}':
            depth -= 1
            if depth == 0:
                return squash(text[i + 1:j])
        j += 1
    raise TranslateError('%s: unbalanced braces in fn %s' % (what, fn))


def ser_accessor(body, naive, option, what):
    pre = r'dt\.and_utc\(\)' if naive else r'dt'
    acc = [r'\.timestamp\(\)', r'\.timestamp_millis\(\)', r'\.timestamp_micros\(\)']
    if not option:
        for k, a in enumerate(acc):
            if re.fullmatch(r'serializer\.serialize_i64\(' + pre + a + r'\)', body):
                return k
        if re.fullmatch(r'serializer\.serialize_i64\(' + pre + r'\.timestamp_nanos_opt\(\)\.ok_or\(ser::Error::custom\('
                        + re.escape(NS_MSG) + r',?\)\)\?\)', body):
            return 3
    else:
        for k, a in enumerate(acc):
            if re.fullmatch(r'match\*opt\{Some\(refdt\)=>serializer\.serialize_some\(&' + pre + a
                            + r'\),None=>serializer\.serialize_none\(\),\}', body):
                return k
        if re.fullmatch(r'match\*opt\{Some\(refdt\)=>serializer\.serialize_some\(&' + pre
                        + r'\.timestamp_nanos_opt\(\)\.ok_or\(ser::Error::custom\(' + re.escape(NS_MSG)
                        + r',?\),?\)\?\),None=>serializer\.serialize_none\(\),\}', body):
            return 3
    raise TranslateError('%s: serialize body not recognised: %s' % (what, body[:120]))


def visit_i64(body, naive, what):
    tail = (r'\.map\(\|dt\|dt\.naive_utc\(\)\)' if naive else '') + r'\.ok_or_else\(\|\|invalid_ts\(value\)\)'
    if re.fullmatch(r'DateTime::from_timestamp\(value,0\)' + tail, body):
        return (0, 1, 1, 1)
    if re.fullmatch(r'DateTime::from_timestamp_millis\(value\)' + tail, body):
        return (1, 1, 1, 1)
    if re.fullmatch(r'DateTime::from_timestamp_micros\(value\)' + tail, body):
        return (2, 1, 1, 1)
    m = re.fullmatch(r'DateTime::from_timestamp\(value\.div_euclid\(([\d_]+)\),\(value\.rem_euclid\(([\d_]+)\)(?:\*([\d_]+))?\)asu32,?\)' + tail, body)
    if m:
        return (3, num(m.group(1)), num(m.group(2)), num(m.group(3)) if m.group(3) else 1)
    raise TranslateError('%s: visit_i64 body not recognised: %s' % (what, body[:160]))


def visit_u64(body, naive, what):
    tail = (r'\.map\(\|dt\|dt\.naive_utc\(\)\)' if naive else '') + r'\.ok_or_else\(\|\|invalid_ts\(value\)\)'
    if re.fullmatch(r'ifvalue>i64::MAXasu64\{Err\(invalid_ts\(value\)\)\}else\{DateTime::from_timestamp\(valueasi64,0\)' + tail + r'\}', body):
        return (0, 1, 1, 1)
    m = re.fullmatch(r'DateTime::from_timestamp\(\(value/([\d_]+)\)asi64,\(\(?value%([\d_]+)\)?(?:\*([\d_]+)\))?asu32,?\)' + tail, body)
    if m:
        return (3, num(m.group(1)), num(m.group(2)), num(m.group(3)) if m.group(3) else 1)
    raise TranslateError('%s: visit_u64 body not recognised: %s' % (what, body[:160]))


VIS_NAMES = {'SecondsTimestampVisitor': 0, 'MilliSecondsTimestampVisitor': 1, 'MicroSecondsTimestampVisitor': 2,
             'NanoSecondsTimestampVisitor': 3}


def quad(t):
    return '(%d, (%d, (%d, %d)))' % t


def gen_serde_consts():
    out = HEADER % 'src/naive/datetime/serde.rs, src/datetime/serde.rs, src/lib.rs, src/time_delta.rs, src/weekday.rs, src/month.rs, src/naive/date/mod.rs, src/naive/time/serde.rs'
    ser, vis, i64s, u64s = [], [], [], []
    for z, rel in ((0, 'src/naive/datetime/serde.rs'), (1, 'src/datetime/serde.rs')):
        src = strip_comments(read(rel))
        naive = z == 0
        for u, unit in enumerate(UNITS):
            m = 8 * z + 2 * u
            what = '%s::%s' % (rel, unit)
            t = mod_text(src, unit)
            ser.append((m, ser_accessor(body_of(t, 'serialize', what), naive, False, what)))
            d = body_of(t, 'deserialize', what)
            dm = re.fullmatch(r'd\.deserialize_i64\((\w+)\)(\.map\(\|dt\|dt\.with_timezone\(&Utc\)\))?', d)
            if not dm or VIS_NAMES.get(dm.group(1)) != u:
                raise TranslateError('%s: deserialize body not recognised: %s' % (what, d[:120]))
            vis.append((m, m))
            i64s.append((m, visit_i64(body_of(t, 'visit_i64', what), naive, what)))
            u64s.append((m, visit_u64(body_of(t, 'visit_u64', what), naive, what)))
            # option variant
            what = '%s::%s_option' % (rel, unit)
            t = mod_text(src, unit + '_option')
            ser.append((m + 1, ser_accessor(body_of(t, 'serialize', what), naive, True, what)))
            d = body_of(t, 'deserialize', what)
            if not re.fullmatch(r'd\.deserialize_option\(Option\w+TimestampVisitor\)(\.map\(\|opt\|opt\.map\(\|dt\|dt\.with_timezone\(&Utc\)\)\))?', d):
                raise TranslateError('%s: deserialize body not recognised: %s' % (what, d[:120]))
            s = body_of(t, 'visit_some', what)
            sm = re.fullmatch(r'd\.deserialize_i64\((\w+)\)\.map\(Some\)', s)
            if not sm or sm.group(1) not in VIS_NAMES:
                raise TranslateError('%s: visit_some body not recognised: %s' % (what, s[:120]))
            vis.append((m + 1, 8 * z + 2 * VIS_NAMES[sm.group(1)]))
            for f in ('visit_none', 'visit_unit'):
                if body_of(t, f, what) != 'Ok(None)':
                    raise TranslateError('%s: %s body not recognised' % (what, f))
    out += 'Definition SD_SER : list (Z * Z) := [%s].\n' % '; '.join('(%d, %d)' % p for p in ser)
    out += 'Definition SD_VIS : list (Z * Z) := [%s].\n' % '; '.join('(%d, %d)' % p for p in vis)
    out += 'Definition SD_I64 : list (Z * (Z * (Z * (Z * Z)))) := [%s].\n' % '; '.join('(%d, %s)' % (m, quad(t)) for m, t in i64s)
    out += 'Definition SD_U64 : list (Z * (Z * (Z * (Z * Z)))) := [%s].\n' % '; '.join('(%d, %s)' % (m, quad(t)) for m, t in u64s)

    # ---- string forms: which writer feeds collect_str; readers are value.parse()
    def visit_str_is_parse(src, what, mapped=None):
        b = body_of(src, 'visit_str', what)
        pat = r'value\.parse\(\)\.map_err\(E::custom\)' if mapped is None else r'value\.parse\(\)\.map_err\(\|_\|E::custom\(' + mapped + r'\)\)'
        if not re.fullmatch(pat, b):
            raise TranslateError('%s: visit_str body not recognised: %s' % (what, b[:120]))

    dsrc = strip_comments(read('src/naive/date/mod.rs'))
    dmod = dsrc[dsrc.index('mod serde {'):]
    if 'impl<D:fmt::Debug>fmt::DisplayforFormatWrapped<\'_,D>{fnfmt(&self,f:&mutfmt::Formatter)->fmt::Result{self.inner.fmt(f)}}' not in squash(dmod) \
       or 'serializer.collect_str(&FormatWrapped{inner:&self})' not in squash(dmod):
        raise TranslateError('NaiveDate Serialize not recognised')
    visit_str_is_parse(dmod, 'NaiveDate')
    out += defn('SD_DATE_WRITER', 1)        # 1 = Debug
    tsrc = strip_comments(read('src/naive/time/serde.rs'))
    if body_of(tsrc, 'serialize', 'NaiveTime') != 'serializer.collect_str(&self)':
        raise TranslateError('NaiveTime Serialize not recognised')
    visit_str_is_parse(tsrc, 'NaiveTime')
    out += defn('SD_TIME_WRITER', 0)        # 0 = Display
    nsrc = strip_comments(read('src/naive/datetime/serde.rs'))
    nhead = nsrc[:nsrc.index('pub mod ts_nanoseconds')]
    if 'impl<D:fmt::Debug>fmt::DisplayforFormatWrapped<\'_,D>{fnfmt(&self,f:&mutfmt::Formatter)->fmt::Result{self.inner.fmt(f)}}' not in squash(nhead) \
       or 'serializer.collect_str(&FormatWrapped{inner:&self})' not in squash(nhead):
        raise TranslateError('NaiveDateTime Serialize not recognised')
    visit_str_is_parse(nhead, 'NaiveDateTime')
    out += defn('SD_NDT_WRITER', 1)
    zsrc = strip_comments(read('src/datetime/serde.rs'))
    zhead = squash(zsrc[:zsrc.index('pub mod ts_nanoseconds')])
    m = re.search(r'letnaive=self\.inner\.(naive_local|overflowing_naive_local)\(\);letoffset=self\.inner\.offset\.fix\(\);'
                  r'write_rfc3339\(f,naive,offset,SecondsFormat::(\w+),(true|false)\)', zhead)
    if not m or 'serializer.collect_str(&FormatIso8601{inner:self})' not in zhead:
        raise TranslateError('DateTime<Tz> Serialize not recognised')
    secform = {'Secs': 0, 'Millis': 1, 'Micros': 2, 'Nanos': 3, 'AutoSi': 4}.get(m.group(2))
    if secform is None:
        raise TranslateError('DateTime<Tz> Serialize: SecondsFormat not recognised')
    out += defn('SD_DT_LOCAL_OVERFLOWING', 1 if m.group(1) == 'overflowing_naive_local' else 0)
    out += defn('SD_DT_SECFORM', secform)
    out += defn('SD_DT_USE_Z', 1 if m.group(3) == 'true' else 0)
    visit_str_is_parse(zsrc[:zsrc.index('pub mod ts_nanoseconds')], 'DateTime<FixedOffset>')
    if 'deserializer.deserialize_str(DateTimeVisitor).map(|dt|dt.with_timezone(&Utc))' not in zhead \
       or 'deserializer.deserialize_str(DateTimeVisitor).map(|dt|dt.with_timezone(&Local))' not in zhead:
        raise TranslateError('Deserialize for DateTime<Utc>/<Local> not recognised')
    wsrc = strip_comments(read('src/weekday.rs'))
    wmod = wsrc[wsrc.index('mod weekday_serde'):]
    if body_of(wmod, 'serialize', 'Weekday') != 'serializer.collect_str(&self)':
        raise TranslateError('Weekday Serialize not recognised')
    visit_str_is_parse(wmod, 'Weekday', r'"shortorlongweekdaynamesexpected"')
    msrc = strip_comments(read('src/month.rs'))
    mmod = msrc[msrc.index('mod month_serde'):]
    if body_of(mmod, 'serialize', 'Month') != 'serializer.collect_str(self.name())':
        raise TranslateError('Month Serialize not recognised')
    visit_str_is_parse(mmod, 'Month', r'"short\(3-letter\)orfullmonthnamesexpected"')
    # ---- TimeDelta
    tdsrc = strip_comments(read('src/time_delta.rs'))
    tdmod = tdsrc[tdsrc.index('mod serde {'):]
    if body_of(tdmod, 'serialize', 'TimeDelta') != '<(i64,i32)asSerialize>::serialize(&(self.secs,self.nanos),serializer)':
        raise TranslateError('TimeDelta Serialize not recognised')
    if body_of(tdmod, 'deserialize', 'TimeDelta') != ('let(secs,nanos)=<(i64,i32)asDeserialize>::deserialize(deserializer)?;'
                                                      'TimeDelta::new(secs,nanosasu32).ok_or(Error::custom("TimeDeltaoutofbounds"))'):
        raise TranslateError('TimeDelta Deserialize not recognised')
    out += defn('SD_TD_PAIR', 1)
    # ---- lib.rs invalid_ts
    lsrc = strip_comments(read('src/lib.rs'))
    if body_of(lsrc, 'invalid_ts', 'lib.rs') != 'E::custom(SerdeError::InvalidTimestamp(value))' \
       or 'SerdeError::InvalidTimestamp(ts)=>{write!(f,"valueisnotalegaltimestamp:{}",ts)}' not in squash(lsrc):
        raise TranslateError('serde::invalid_ts not recognised')
    out += defn('SD_INVALID_TS', 1)
    return out


FAMILIES = {'SerdeConsts': gen_serde_consts}
