#!/usr/bin/env python3
"""Orchestrator behind ./check: translate -> prove -> build runners -> correspond -> judge ->
decide -> evidence.  See DESIGN.md section 2."""
import fcntl
import glob
import hashlib
import importlib.util
import json
import os
import random
import re
import shutil
import subprocess
import sys
import time

ROOT = os.path.dirname(os.path.dirname(os.path.abspath(__file__)))
COQ = os.path.join(ROOT, 'coq')
REPO = os.environ.get('VERIF_REPO', '/repo')
NPROC = int(os.environ.get('VERIF_JOBS', '16'))
WORK = os.path.join(ROOT, 'work')

ALLOWED_AXIOMS = {
    # axioms declared by Coq's own standard library; each use is listed in the evidence
    'Coq.Logic.FunctionalExtensionality.functional_extensionality_dep',
    'functional_extensionality_dep',
    'Coq.Logic.Classical_Prop.classic', 'classic',
    'Coq.Logic.ProofIrrelevance.proof_irrelevance', 'proof_irrelevance',
    'Coq.Logic.Eqdep.Eq_rect_eq.eq_rect_eq', 'Eqdep.Eq_rect_eq.eq_rect_eq', 'eq_rect_eq',
    'Coq.Logic.JMeq.JMeq_eq', 'JMeq_eq',
}

FORBIDDEN = re.compile(r'\b(Admitted|admit|Axiom|Axioms|Parameter|Parameters|Conjecture|Conjectures|Hypothesis|Hypotheses|Variable|Variables|Admit Obligations)\b|Unset\s+Guard|bypass_check|type-in-type|impredicative-set|Unset\s+Universe\s+Checking|Unset\s+Positivity')


def log(msg):
    print('[check] ' + msg, flush=True)


def sh(cmd, timeout=None, cwd=None, env=None, stdin=None):
    e = dict(os.environ)
    e.update({'CARGO_NET_OFFLINE': 'true'})
    if env:
        e.update(env)
    try:
        p = subprocess.run(cmd, shell=isinstance(cmd, str), cwd=cwd, env=e, timeout=timeout,
                           stdout=subprocess.PIPE, stderr=subprocess.STDOUT, stdin=stdin)
        return p.returncode, p.stdout.decode('utf-8', 'replace')
    except subprocess.TimeoutExpired as ex:
        return 124, (ex.stdout or b'').decode('utf-8', 'replace') + '\n[timeout]'


class Lock:
    def __init__(self, name):
        os.makedirs(WORK, exist_ok=True)
        self.path = os.path.join(WORK, name + '.lock')

    def __enter__(self):
        self.f = open(self.path, 'w')
        fcntl.flock(self.f, fcntl.LOCK_EX)
        return self

    def __exit__(self, *a):
        fcntl.flock(self.f, fcntl.LOCK_UN)
        self.f.close()


# ------------------------------------------------------------------------------------------------
# val syntax (python side: used by generators, known-finding matchers, shrinking)
def parse_val(s, i=0):
    if s.startswith('x', i):
        m = re.match(r'(?:[0-9a-fA-F]{2})*', s[i + 1:])
        j = i + 1 + m.end()
        return bytes.fromhex(s[i + 1:j]), j
    if s.startswith('()', i):
        return [], i + 2
    if s.startswith('(', i):
        items = []
        i += 1
        while True:
            v, i = parse_val(s, i)
            items.append(v)
            if s[i] == ',':
                i += 1
            elif s[i] == ')':
                return items, i + 1
            else:
                raise ValueError('bad tuple at %d in %r' % (i, s))
    if s.startswith('none', i):
        return None, i + 4
    if s.startswith('some(', i):
        v, j = parse_val(s, i + 5)
        assert s[j] == ')'
        return ('some', v), j + 1
    if s.startswith('err:', i):
        m = re.match(r'[^,) \t]*', s[i + 4:])
        return ('err', m.group(0)), i + 4 + m.end()
    for kw in ('PANIC', 'TIMEOUT', 'FUEL'):
        if s.startswith(kw, i):
            return (kw,), i + len(kw)
    m = re.match(r'-?[0-9]+', s[i:])
    if not m:
        raise ValueError('bad val at %d in %r' % (i, s))
    return int(m.group(0)), i + m.end()


def pv(s):
    v, j = parse_val(s, 0)
    if j != len(s):
        raise ValueError('trailing text in val %r' % s)
    return v


def show_val(v):
    if isinstance(v, bool):
        return '1' if v else '0'
    if isinstance(v, int):
        return str(v)
    if isinstance(v, (bytes, bytearray)):
        return 'x' + bytes(v).hex()
    if isinstance(v, str):
        return 'x' + v.encode('utf-8').hex()
    if v is None:
        return 'none'
    if isinstance(v, list):
        return '(' + ','.join(show_val(x) for x in v) + ')'
    if isinstance(v, tuple):
        if v[0] == 'some':
            return 'some(' + show_val(v[1]) + ')'
        if v[0] == 'err':
            return 'err:' + v[1]
        return v[0]
    raise ValueError('cannot show %r' % (v,))


def case_line(op, *args):
    return op + ''.join(' ' + show_val(a) for a in args)


def parse_case(line):
    parts = line.split()
    return parts[0], [pv(p) for p in parts[1:]]


# ------------------------------------------------------------------------------------------------
def coq_files():
    out = []
    for d in ('Base', 'Gen', 'Spec', 'Model', 'Judge', 'Proofs', 'Props', 'Extract', 'Search'):
        out += sorted(glob.glob(os.path.join(COQ, d, '*.v')))
    return [os.path.relpath(p, COQ) for p in out]


def ensure_makefile():
    files = coq_files()
    proj = '-Q . V\n-arg -w -arg -notation-overridden,-parsing,-deprecated,-extraction\n' + ''.join(f + '\n' for f in files)
    path = os.path.join(COQ, '_CoqProject')
    old = open(path).read() if os.path.exists(path) else None
    if old != proj or not os.path.exists(os.path.join(COQ, 'Makefile')):
        with open(path, 'w') as f:
            f.write(proj)
        rc, out = sh('coq_makefile -f _CoqProject -o Makefile', cwd=COQ, timeout=120)
        if rc != 0:
            raise RuntimeError('coq_makefile failed: ' + out)


def translate():
    rc, out = sh([sys.executable, os.path.join(ROOT, 'tools', 'translate.py')], timeout=300)
    return rc, out


def coq_cone(pid):
    """Transitive .v dependencies of Props/<pid>.v and Extract/<pid>.v (from coqdep's .Makefile.d)."""
    ensure_makefile()
    dpath = os.path.join(COQ, '.Makefile.d')
    if not os.path.exists(dpath):
        sh('make .Makefile.d', cwd=COQ, timeout=300)
    deps = {}
    try:
        for line in open(dpath):
            if ':' not in line:
                continue
            lhs, rhs = line.split(':', 1)
            tg = [t for t in lhs.split() if t.endswith('.vo')]
            if not tg:
                continue
            deps[tg[0]] = [d for d in rhs.split() if d.endswith('.vo')]
    except OSError:
        return None
    seen = set()
    todo = ['Props/%s.vo' % pid, 'Extract/%s.vo' % pid]
    while todo:
        t = todo.pop()
        if t in seen:
            continue
        seen.add(t)
        todo += deps.get(t, [])
    return seen


def failing_families_in_cone(pid, only_stale=False):
    """translator families in the property's Coq cone that could not read the source; with
    only_stale: those of them whose data of the last successful translation was kept"""
    try:
        status = json.load(open(os.path.join(COQ, 'Gen', 'status.json')))
    except Exception:
        return [] if only_stale else ['<status.json unreadable>']
    bad = [k for k, v in status.items() if v != 'ok' and (not only_stale or str(v).startswith('stale'))]
    cone = coq_cone(pid)
    if cone is None:
        return bad
    return [k for k in bad if 'Gen/%s.vo' % k in cone]


def coq_make(targets, timeout):
    ensure_makefile()
    return sh('make -j%d %s' % (NPROC, ' '.join(targets)), cwd=COQ, timeout=timeout)


def failing_obligation(make_out):
    """From a failed make: (file, line, enclosing lemma name, message)."""
    m = re.search(r'File "\./([^"]+)", line (\d+), characters[^\n]*\n(.*?)(?:\nmake|\Z)', make_out, re.S)
    if not m:
        return None
    f, line, msg = m.group(1), int(m.group(2)), m.group(3).strip()
    name = None
    try:
        src = open(os.path.join(COQ, f)).read().split('\n')
        for k in range(min(line, len(src)) - 1, -1, -1):
            mm = re.match(r'\s*(?:Local\s+|Global\s+)?(Theorem|Lemma|Corollary|Example|Fact|Proposition|Definition|Fixpoint|Remark)\s+([A-Za-z0-9_\']+)', src[k])
            if mm:
                name = mm.group(2)
                break
    except OSError:
        pass
    return {'file': f, 'line': line, 'lemma': name, 'message': msg[:1500]}


def parse_props(pid):
    """Theorem names (obligations) stated in Props/<pid>.v."""
    path = os.path.join(COQ, 'Props', pid + '.v')
    if not os.path.exists(path):
        return []
    src = open(path).read()
    src = re.sub(r'\(\*.*?\*\)', '', src, flags=re.S)
    return re.findall(r'^\s*(?:Theorem|Example|Corollary|Lemma)\s+([A-Za-z0-9_\']+)', src, re.M)


def print_assumptions(pid):
    """Re-run coqc on Props/<pid>.v (seconds: theorem-only file) to capture Print Assumptions."""
    tmp = os.path.join(WORK, 'pa_' + pid)
    os.makedirs(tmp, exist_ok=True)
    rc, out = sh('coqc -q -w -notation-overridden,-parsing,-deprecated -Q . V -o %s/%s.vo Props/%s.v' % (tmp, pid, pid),
                 cwd=COQ, timeout=900)
    shutil.rmtree(tmp, ignore_errors=True)
    res = {}
    if rc != 0:
        return rc, out, res
    # output is a sequence of "Closed under the global context" or "Axioms:\n name : type ..."
    blocks = re.split(r'\n(?=Closed under the global context|Axioms:)', '\n' + out)
    seq = []
    for b in blocks:
        b = b.strip()
        if b.startswith('Closed under the global context'):
            seq.append([])
        elif b.startswith('Axioms:'):
            names = re.findall(r'^([A-Za-z_][A-Za-z0-9_.\']*)\s*:', b[len('Axioms:'):], re.M)
            seq.append(names)
    return rc, out, seq


def hygiene():
    """Grep the whole development for forbidden declarations."""
    bad = []
    for f in coq_files():
        txt = open(os.path.join(COQ, f)).read()
        txt2 = re.sub(r'\(\*.*?\*\)', lambda m: ' ' * len(m.group(0)), txt, flags=re.S)
        for m in FORBIDDEN.finditer(txt2):
            ln = txt2.count('\n', 0, m.start()) + 1
            # `Variable`/`Hypothesis` are fine inside a Section: require an enclosing open Section
            if m.group(1) in ('Variable', 'Variables', 'Hypothesis', 'Hypotheses'):
                before = txt2[:m.start()]
                opens = len(re.findall(r'^\s*Section\s', before, re.M))
                closes = len(re.findall(r'^\s*End\s', before, re.M))
                mods = len(re.findall(r'^\s*Module\s', before, re.M))
                if opens - max(0, closes - mods) > 0:
                    continue
            bad.append('%s:%d: %s' % (f, ln, m.group(0)))
    return bad


# ------------------------------------------------------------------------------------------------
def build_harness():
    hdir = os.path.join(ROOT, 'harness')
    link = os.path.join(hdir, 'repo')
    if not os.path.islink(link) or os.readlink(link) != REPO:
        if os.path.lexists(link):
            os.remove(link)
        os.symlink(REPO, link)
        # the dependency path stays `repo`, so cargo's mtime fingerprint cannot see that the sources
        # behind the link changed (VERIF_REPO switch): force chrono to be rebuilt
        sh('cargo clean --release --offline -p chrono 2>&1', cwd=hdir, timeout=300)
    lock = os.path.join(hdir, 'Cargo.lock')
    if not os.path.exists(lock):
        shutil.copy(os.path.join(REPO, 'Cargo.lock'), lock)
    rc, out = sh('cargo build --release --offline 2>&1', cwd=hdir, timeout=1500)
    if rc != 0 and 'Cargo.lock' in out:
        shutil.copy(os.path.join(REPO, 'Cargo.lock'), lock)
        rc, out = sh('cargo build --release --offline 2>&1', cwd=hdir, timeout=1500)
    return rc, out, os.path.join(hdir, 'target', 'release', 'implrun')


def build_modelrun(pid):
    """Extraction output coq/model_<pid>.ml(+i) -> ocaml/build/<pid>/modelrun (rebuilt when changed)."""
    src_ml = os.path.join(COQ, 'model_%s.ml' % pid)
    src_mli = os.path.join(COQ, 'model_%s.mli' % pid)
    if not os.path.exists(src_ml):
        return 1, 'extraction output %s missing' % src_ml, None
    bdir = os.path.join(ROOT, 'ocaml', 'build', pid)
    os.makedirs(bdir, exist_ok=True)
    exe = os.path.join(bdir, 'modelrun')
    h = hashlib.sha256()
    for p in (src_ml, src_mli, os.path.join(ROOT, 'ocaml', 'driver.ml')):
        h.update(open(p, 'rb').read())
    stamp = os.path.join(bdir, 'stamp')
    if os.path.exists(exe) and os.path.exists(stamp) and open(stamp).read() == h.hexdigest():
        return 0, 'cached', exe
    shutil.copy(src_ml, os.path.join(bdir, 'model.ml'))
    shutil.copy(src_mli, os.path.join(bdir, 'model.mli'))
    shutil.copy(os.path.join(ROOT, 'ocaml', 'driver.ml'), os.path.join(bdir, 'driver.ml'))
    rc, out = sh('ocamlfind ocamlopt -O3 -w -a model.mli model.ml driver.ml -o modelrun', cwd=bdir, timeout=900)
    if rc == 0:
        with open(stamp, 'w') as f:
            f.write(h.hexdigest())
    return rc, out, exe


def run_lines(exe, args, lines, env=None, restart_on_timeout=False, tag='run'):
    """Feed lines to `exe args` over NPROC shards; returns list of output lines (same length)."""
    os.makedirs(WORK, exist_ok=True)
    n = len(lines)
    if n == 0:
        return []
    shards = min(NPROC, max(1, n // 2000))
    size = (n + shards - 1) // shards
    procs = []
    e = dict(os.environ)
    e['OCAMLRUNPARAM'] = 'l=8G'
    if env:
        e.update(env)
    pre = 'ulimit -s unlimited 2>/dev/null; '
    for k in range(shards):
        chunk = lines[k * size:(k + 1) * size]
        inp = os.path.join(WORK, '%s_%d_%d.in' % (tag, os.getpid(), k))
        outp = os.path.join(WORK, '%s_%d_%d.out' % (tag, os.getpid(), k))
        with open(inp, 'w') as f:
            f.write('\n'.join(chunk) + '\n')
        p = subprocess.Popen(pre + 'exec %s %s < %s > %s' % (exe, ' '.join(args), inp, outp), shell=True, env=e)
        procs.append((p, inp, outp, chunk))
    result = []
    for p, inp, outp, chunk in procs:
        p.wait()
        got = open(outp).read().split('\n')
        if got and got[-1] == '':
            got.pop()
        # a TIMEOUT (exit 3) or a crash leaves fewer lines: restart after the offending case
        guard = 0
        while len(got) < len(chunk) and guard < 50:
            guard += 1
            if p.returncode not in (0, 3) or not restart_on_timeout:
                got.append('err:CRASH')
            rest = chunk[len(got):]
            if not rest:
                break
            with open(inp, 'w') as f:
                f.write('\n'.join(rest) + '\n')
            p = subprocess.Popen(pre + 'exec %s %s < %s > %s' % (exe, ' '.join(args), inp, outp), shell=True, env=e)
            p.wait()
            more = open(outp).read().split('\n')
            if more and more[-1] == '':
                more.pop()
            got += more
        while len(got) < len(chunk):
            got.append('err:CRASH')
        result += got[:len(chunk)]
        for f in (inp, outp):
            try:
                os.remove(f)
            except OSError:
                pass
    return result


# ------------------------------------------------------------------------------------------------
def load_generator(pid):
    path = os.path.join(ROOT, 'gen', pid + '.py')
    spec = importlib.util.spec_from_file_location('gen_' + pid, path)
    mod = importlib.util.module_from_spec(spec)
    sys.path.insert(0, os.path.join(ROOT, 'gen'))
    sys.path.insert(0, os.path.join(ROOT, 'tools'))
    spec.loader.exec_module(mod)
    return mod


def load_known(pid):
    path = os.path.join(ROOT, 'known_findings.json')
    if not os.path.exists(path):
        return []
    return [k for k in json.load(open(path)) if k.get('property') == pid]


def match_known(known, line, impl_out):
    try:
        op, a = parse_case(line)
    except Exception:
        return None
    for k in known:
        if k.get('status') != 'known':
            continue
        if 'op' in k and k['op'] != op and op not in k.get('ops', []):
            if not ('ops' in k and op in k['ops']):
                continue
        if 'ops' in k and 'op' not in k and op not in k['ops']:
            continue
        cond = k.get('when', 'True')
        try:
            if eval(cond, {'__builtins__': {}}, {'a': a, 'op': op, 'out': impl_out, 'len': len, 'abs': abs,
                                                  'isinstance': isinstance, 'int': int, 'list': list,
                                                  'bytes': bytes, 'tuple': tuple, 'any': any, 'all': all,
                                                  'min': min, 'max': max}):
                return k
        except Exception:
            continue
    return None


def kind_of(out):
    if out.startswith('some('):
        return 'some'
    if out.startswith('err:'):
        return out.split(',')[0][:40]
    if out in ('none', 'PANIC', 'TIMEOUT', 'FUEL'):
        return out
    if out.startswith('('):
        return 'tuple'
    if out.startswith('x'):
        return 'text'
    return 'int'


def shrink_case(line, still_fails, budget=150):
    """Greedy shrinking of a failing case line: integers toward zero / simpler, byte strings by
    deletion, tuples element-wise.  `still_fails(line) -> bool` re-runs both sides."""
    try:
        op, args = parse_case(line)
    except Exception:
        return line
    steps = [0]

    def candidates(v):
        if isinstance(v, bool):
            return
        if isinstance(v, int):
            if v != 0:
                yield 0
                yield v // 2
                if v < 0:
                    yield -v
                yield v - 1 if v > 0 else v + 1
                s = str(abs(v))
                if len(s) > 3:
                    r = int(s[0] + '0' * (len(s) - 1))
                    yield r if v > 0 else -r
        elif isinstance(v, (bytes, bytearray)):
            n = len(v)
            if n:
                yield v[:n // 2]
                yield v[n // 2:]
                for k in range(min(n, 24)):
                    yield v[:k] + v[k + 1:]
        elif isinstance(v, list):
            for k, x in enumerate(v):
                for c in candidates(x):
                    yield v[:k] + [c] + v[k + 1:]
        elif isinstance(v, tuple) and v and v[0] == 'some':
            for c in candidates(v[1]):
                yield ('some', c)

    improved = True
    while improved and steps[0] < budget:
        improved = False
        for k in range(len(args)):
            for c in candidates(args[k]):
                if steps[0] >= budget:
                    break
                if c == args[k]:
                    continue
                trial = args[:k] + [c] + args[k + 1:]
                try:
                    l2 = case_line(op, *trial)
                except Exception:
                    continue
                steps[0] += 1
                if still_fails(l2):
                    args = trial
                    improved = True
                    break
    return case_line(op, *args)


# ------------------------------------------------------------------------------------------------
class Check:
    def __init__(self, pid, tier, seed):
        self.pid = pid
        self.tier = tier
        self.seed = seed
        self.t0 = time.time()
        self.violations = []      # list of dict(replay=..., note=...)
        self.known_hits = {}
        self.notes = []
        self.cov = {}
        self.assumptions = []

    # ---- phases ----
    def phase_translate(self):
        rc, out = translate()
        self.translate_ok = rc == 0
        if rc != 0:
            self.notes.append('translator: ' + out.strip()[-500:])
        return rc == 0

    def phase_prove(self):
        pid = self.pid
        obligations = parse_props(pid)
        self.cov['obligations'] = len(obligations)
        self.cov['obligation_names'] = obligations
        bad = hygiene()
        self.hygiene_bad = bad
        t = time.time()
        # the model/judge/extraction cone first (must build even when a proof is broken)
        rc_x, out_x = coq_make(['Extract/%s.vo' % pid], timeout=3000)
        self.extract_ok = rc_x == 0
        if rc_x != 0:
            self.notes.append('model/extraction build failed: ' + out_x[-1500:])
        rc, out = coq_make(['Props/%s.vo' % pid], timeout=5400)
        self.proof_build_s = round(time.time() - t, 1)
        self.proof_ok = rc == 0 and not bad
        self.proof_failure = None
        discharged = 0
        axioms_used = {}
        if rc == 0:
            rc2, out2, seq = print_assumptions(pid)
            if rc2 != 0:
                self.proof_ok = False
                self.proof_failure = {'file': 'Props/%s.v' % pid, 'lemma': None, 'message': out2[-1500:]}
            else:
                # every theorem in Props is followed by a Print Assumptions
                thms = [n for n in obligations]
                if len(seq) < len(thms):
                    self.notes.append('Print Assumptions missing for some theorems (%d < %d)' % (len(seq), len(thms)))
                for i, n in enumerate(thms):
                    ax = seq[i] if i < len(seq) else ['<no Print Assumptions>']
                    axioms_used[n] = ax
                    illegal = [a for a in ax if a not in ALLOWED_AXIOMS and a.split('.')[-1] not in ALLOWED_AXIOMS]
                    if illegal:
                        self.proof_ok = False
                        self.proof_failure = {'file': 'Props/%s.v' % pid, 'lemma': n,
                                              'message': 'depends on axioms outside the allow-list: %s' % illegal}
                    else:
                        discharged += 1
        else:
            self.proof_failure = failing_obligation(out) or {'file': '?', 'lemma': None, 'message': out[-1500:]}
        if bad:
            self.proof_failure = {'file': bad[0], 'lemma': None, 'message': 'forbidden declarations: %s' % bad[:5]}
            discharged = 0
        self.cov['discharged'] = discharged
        self.cov['axioms_per_theorem'] = axioms_used
        if self.tier == 'thorough' and rc == 0 and os.environ.get('VERIF_COQCHK', '1') == '1':
            # independent re-check of the compiled cone with coqchk (-o lists the axioms it relies on)
            t2 = time.time()
            rc3, out3 = sh('coqchk -o -silent -Q . V V.Props.%s 2>&1' % pid, cwd=COQ, timeout=2400)
            out3 = out3[-4000:]
            m = re.search(r'\* Axioms:(.*?)\n\s*\n', out3 + '\n\n', re.S)
            ax = ' '.join(m.group(1).split()) if m else None
            self.cov['coqchk'] = {'exit': rc3, 'axioms': ax, 'wall_s': round(time.time() - t2, 1)}
            if rc3 == 124:
                self.notes.append('coqchk did not finish within its time limit (not counted as a failure)')
            elif rc3 != 0 or (ax is not None and ax != '<none>'):
                self.proof_ok = False
                self.proof_failure = {'file': 'Props/%s.v' % pid, 'lemma': None,
                                      'message': 'coqchk: exit %s, axioms %s: %s' % (rc3, ax, out3[-600:])}
        self.cov['checker_cmd'] = 'make -C coq Props/%s.vo (coqc 8.16.1 kernel, full .vo build) + coqc Props/%s.v for Print Assumptions + forbidden-declaration grep over coq/**' % (pid, pid)
        return self.proof_ok

    def phase_build(self):
        with Lock('cargo'):
            rc, out, self.implrun = build_harness()
        if rc != 0:
            self.notes.append('harness build failed: ' + out[-2000:])
            self.implrun = None
        rc2, out2, self.modelrun = build_modelrun(self.pid)
        if rc2 != 0:
            self.notes.append('modelrun build failed: ' + out2[-1500:])
            self.modelrun = None
        return self.implrun is not None and self.modelrun is not None

    def gen_cases(self, tier):
        gen = load_generator(self.pid)
        self.gen = gen
        rng = random.Random(self.seed * 1000003 + 17)
        cases = []
        corpus = sorted(glob.glob(os.path.join(ROOT, 'corpus', self.pid, '*.case')))
        for c in corpus:
            for l in open(c):
                l = l.strip()
                if l and not l.startswith('#'):
                    cases.append(l)
        self.cov['corpus_cases'] = len(cases)
        for l in gen.cases(tier, rng):
            cases.append(l)
        return cases, gen

    def run_both(self, cases):
        """Runs the cases through the implementation, the model and the judge.
        Optional generator hooks (for properties whose model needs measurements taken by the
        implementation run, e.g. elapsed times): `model_case(case, impl_out) -> case line fed to
        the model and the judge` and `impl_observable(case, impl_out) -> the part of the
        implementation output that is compared with the model output and judged`."""
        gen = getattr(self, 'gen', None)
        impl_raw = run_lines(self.implrun, [], cases, restart_on_timeout=True, tag='impl',
                             env=getattr(gen, 'IMPL_ENV', None))
        mc = getattr(gen, 'model_case', None)
        io = getattr(gen, 'impl_observable', None)
        mcases = [mc(cases[i], impl_raw[i]) for i in range(len(cases))] if mc else cases
        impl = [io(cases[i], impl_raw[i]) for i in range(len(cases))] if io else impl_raw
        model = run_lines(self.modelrun, ['run'], mcases, tag='model')
        jl = [impl[i] + ' ' + mcases[i] for i in range(len(cases))]
        verdicts = run_lines(self.modelrun, ['judge'], jl, tag='judge')
        return impl, model, verdicts

    def phase_correspond(self, tier):
        cases, gen = self.gen_cases(tier)
        t = time.time()
        impl, model, verdicts = self.run_both(cases)
        rf = getattr(gen, 'refine', None)
        if rf:
            # optional generator hook: aggregate cases (checksummed ranges) that failed are re-run as
            # the individual cases they stand for; returns the four lists to decide on
            cases, impl, model, verdicts = rf(cases, impl, model, verdicts, self.run_both)
        self.cov['run_s'] = round(time.time() - t, 1)
        if hasattr(gen, 'extra_coverage'):
            # optional generator hook: additional coverage data for the evidence (C15: the inventory)
            self.cov.update(gen.extra_coverage())
        known = load_known(self.pid)
        dist = {}
        seen = set()
        nontrivial = 0
        disagreements = []   # inside domain
        drift = []           # outside domain
        judged_bad = []
        for i, c in enumerate(cases):
            op = c.split(' ', 1)[0]
            key = op + ':' + kind_of(impl[i])
            dist[key] = dist.get(key, 0) + 1
            v = verdicts[i]
            indomain = not v.startswith('skip')
            if indomain and c not in seen and not impl[i].startswith('err:BADARGS') and not impl[i].startswith('err:NOOP'):
                nontrivial += 1
            seen.add(c)
            if v.startswith('err:') or impl[i].startswith('err:NOOP') or impl[i].startswith('err:BADCASE') \
               or model[i].startswith('err:NOOP') or model[i].startswith('err:BADCASE') or model[i] == 'err:CRASH':
                # protocol failure: never silently ignored
                disagreements.append((c, impl[i], model[i], 'protocol:' + v))
                continue
            if v.startswith('bad'):
                judged_bad.append((c, impl[i], model[i], v))
            if impl[i] != model[i]:
                if indomain:
                    disagreements.append((c, impl[i], model[i], v))
                else:
                    drift.append((c, impl[i], model[i], v))
        self.cov['evaluations'] = len(cases)
        self.cov['distinct_cases'] = len(seen)
        self.cov['distinct_nontrivial'] = nontrivial
        self.cov['rule'] = getattr(gen, 'RULE', '') + ' | non-trivial = distinct case lines whose arguments decode to valid values (not BADARGS) and lie inside the property\'s domain (judge verdict is ok/bad, not skip)'
        self.cov['distribution_op_resultkind'] = dict(sorted(dist.items()))
        self.cov['in_domain'] = sum(1 for v in verdicts if not v.startswith('skip'))
        self.cov['out_of_domain_drift'] = len(drift)
        if drift:
            self.cov['drift_samples'] = [dict(case=c, impl=a, model=b) for c, a, b, _ in drift[:5]]
        step = max(1, len(cases) // 12)
        self.cov['samples'] = [dict(case=cases[i], impl=impl[i], model=model[i], judge=verdicts[i]) for i in range(0, len(cases), step)][:14]
        self.cov['correspondence_disagreements'] = len(disagreements)
        self.cov['judge_rejections'] = len(judged_bad)

        # ---- decide ----
        reported = set()
        for c, a, b, v in judged_bad:
            k = match_known(known, c, a)
            if k:
                self.known_hits.setdefault(k['id'], [k, 0, c])
                self.known_hits[k['id']][1] += 1
                continue
            if len(self.violations) >= 5:
                break
            self.report_failing_input(c, a, b, v)
            reported.add(c)
        unexplained = []
        for c, a, b, v in disagreements:
            if c in reported:
                continue
            if match_known(known, c, a):
                continue
            if v.startswith('bad'):
                continue  # already handled (known or reported)
            unexplained.append((c, a, b, v))
        self.unexplained = unexplained
        return cases

    def report_failing_input(self, c, a, b, v):
        def still(l2):
            i2, m2, v2 = self.run_both([l2])
            return v2[0].startswith('bad') and not match_known(load_known(self.pid), l2, i2[0])
        small = c
        try:
            small = shrink_case(c, still)
        except Exception as ex:  # shrinking is best-effort
            self.notes.append('shrink failed: %r' % ex)
        i2, m2, v2 = self.run_both([small])
        path = self.write_replay({'kind': 'failing-input', 'property': self.pid, 'case': small, 'original_case': c,
                                  'impl_output': i2[0], 'model_output': m2[0], 'judge': v2[0],
                                  'seed': self.seed, 'tier': self.tier,
                                  'replay_cmd': './check %s --replay <this file>' % self.pid})
        self.violations.append({'replay': path, 'suffix': ''})

    def write_replay(self, obj):
        os.makedirs(os.path.join(ROOT, 'replays'), exist_ok=True)
        h = hashlib.sha1(json.dumps(obj, sort_keys=True).encode()).hexdigest()[:10]
        path = os.path.join(ROOT, 'replays', '%s-%s.json' % (self.pid, h))
        with open(path, 'w') as f:
            json.dump(obj, f, indent=1)
        return path

    def write_evidence(self):
        cov = self.cov
        cov.setdefault('evaluations', 0)
        cov.setdefault('distinct_nontrivial', 0)
        cov.setdefault('samples', [])
        cov.setdefault('obligations', 0)
        cov.setdefault('discharged', 0)
        cov.setdefault('checker_cmd', 'make -C coq Props/%s.vo' % self.pid)
        tb_path = os.path.join(ROOT, 'trusted_base.json')
        tb = json.load(open(tb_path)) if os.path.exists(tb_path) else {}
        cov['trusted_base'] = tb.get('common', []) + tb.get(self.pid, [])
        cov['known_findings_hit'] = {k: v[1] for k, v in self.known_hits.items()}
        cov['notes'] = self.notes
        ev = {
            'property_id': self.pid, 'tier': self.tier, 'seed': self.seed, 'level': 'proof',
            'coverage': cov, 'assumptions': tb.get('assumptions_common', []) + tb.get('assumptions_' + self.pid, []),
            'wall_s': round(time.time() - self.t0, 1), 'violations': len(self.violations),
        }
        os.makedirs(os.path.join(ROOT, 'evidence'), exist_ok=True)
        with open(os.path.join(ROOT, 'evidence', self.pid + '.json'), 'w') as f:
            json.dump(ev, f, indent=1, default=str)

    # ---- main ----
    def main(self):
        pid = self.pid
        with Lock('coq'):
            self.phase_translate()
            self.phase_prove()
        built = self.phase_build()
        tier = self.tier
        if not built:
            path = self.write_replay({'kind': 'broken-tie', 'property': pid, 'what': 'runner build failed', 'notes': self.notes})
            self.violations.append({'replay': path, 'suffix': ' no-failing-input-found'})
        else:
            self.phase_correspond(tier)
            broken = []
            if not self.proof_ok:
                broken.append({'broken': 'proof obligation', 'detail': self.proof_failure})
            soft = []
            if not self.translate_ok:
                # a translator family that cannot read the source concerns only the properties whose
                # Coq cone contains its Gen file.  Where the data of the last successful translation
                # could be kept (status 'stale'), the model still builds and the tie falls back on the
                # correspondence alone: the search is escalated to the thorough generators, and the
                # check fails if model and implementation differ anywhere.  Without earlier data the
                # Gen file carries a failing marker, the cone does not build and the tie is broken.
                bad_fams = failing_families_in_cone(pid)
                stale = failing_families_in_cone(pid, only_stale=True)
                if bad_fams and set(bad_fams) == set(stale):
                    soft = stale
                elif bad_fams:
                    broken.append({'broken': 'translator', 'families': bad_fams, 'detail': self.notes})
                else:
                    self.notes.append('translator families outside this property\'s cone failed (ignored here)')

            def corr_entry():
                c, a, b, v = self.unexplained[0]
                return {'broken': 'correspondence', 'case': c, 'impl_output': a, 'model_output': b, 'judge': v,
                        'count': len(self.unexplained)}
            if self.unexplained:
                broken.append(corr_entry())
            if (broken or soft) and not self.violations:
                # search harder for a failing input before giving up
                if tier == 'quick':
                    log('proof/correspondence broken: escalating the search to the thorough generators')
                    self.seed += 1
                    save = dict(self.cov)
                    self.phase_correspond('thorough')
                    self.cov['escalated_search'] = {k: self.cov.get(k) for k in ('evaluations', 'judge_rejections', 'correspondence_disagreements')}
                    for k in ('evaluations', 'distinct_nontrivial', 'samples', 'distribution_op_resultkind'):
                        if k in save:
                            self.cov[k] = save[k]
                    if self.unexplained and not any(b.get('broken') == 'correspondence' for b in broken):
                        broken.append(corr_entry())
                if soft and not broken and not self.violations:
                    msg = ('translator families %s could not read the changed source; data of the last successful '
                           'translation kept, model and code tied by the escalated correspondence run alone '
                           '(%s cases, 0 disagreements)' % (soft, (self.cov.get('escalated_search') or self.cov).get('evaluations')))
                    self.notes.append(msg)
                    print('NOTE property=%s %s' % (pid, msg))
                elif soft:
                    broken.append({'broken': 'translator (stale data kept)', 'families': soft, 'detail': self.notes})
                if broken and not self.violations:
                    path = self.write_replay({'kind': 'no-failing-input-found', 'property': pid, 'broken': broken,
                                              'seed': self.seed, 'tier': self.tier})
                    self.violations.append({'replay': path, 'suffix': ' no-failing-input-found'})
        for kid, (k, n, c) in sorted(self.known_hits.items()):
            print('KNOWN-FINDING: property=%s %s [%s; %d case(s), e.g. %s]' % (pid, k['description'], kid, n, c))
        self.write_evidence()
        for v in self.violations:
            print('VIOLATION property=%s replay=%s%s' % (pid, v['replay'], v['suffix']))
        sys.stdout.flush()
        return 1 if self.violations else 0


def replay(pid, path):
    obj = json.load(open(path))
    chk = Check(pid, 'quick', 0)
    with Lock('coq'):
        chk.phase_translate()
        coq_make(['Extract/%s.vo' % pid], timeout=3000)
    if not chk.phase_build():
        print('cannot build runners: %s' % chk.notes)
        return 2
    try:
        chk.gen = load_generator(pid)
    except Exception:
        pass
    if 'case' not in obj:
        print(json.dumps(obj, indent=1))
        print('this replay names a broken proof obligation / correspondence; re-run ./check %s' % pid)
        return 1
    impl, model, v = chk.run_both([obj['case']])
    print('case:   %s\nimpl:   %s\nmodel:  %s\njudge:  %s' % (obj['case'], impl[0], model[0], v[0]))
    if v[0].startswith('bad') or impl[0] != model[0]:
        print('VIOLATION property=%s replay=%s' % (pid, path))
        return 1
    print('no longer fails')
    return 0


def main(argv):
    import argparse
    ap = argparse.ArgumentParser()
    ap.add_argument('pid')
    ap.add_argument('--tier', default=os.environ.get('VERIF_TIER', 'quick'), choices=['quick', 'thorough'])
    ap.add_argument('--replay')
    a = ap.parse_args(argv)
    seed = int(os.environ.get('VERIF_SEED', '0') or 0)
    if a.replay:
        return replay(a.pid, a.replay)
    # per-property plug-in may replace the whole flow (used by properties with their own driver)
    return Check(a.pid, a.tier, seed).main()


if __name__ == '__main__':
    sys.exit(main(sys.argv[1:]))
