"""Translator family ScanTables: the data of the text scanners and of the RFC 3339 reader/writer
(src/format/scan.rs, src/format/parse.rs, src/format/parsed.rs, src/format/formatting.rs)
-> coq/Gen/ScanTables.v.  Only data is read here (tables, match arms that map literals to values,
numeric literals of range checks); control flow is modelled by hand in coq/Model/Scan.v and
coq/Model/Rfc3339.v.  Anything that cannot be located fails loudly (broken tie)."""
import re

from rustconst import Evaluator, TranslateError, array_elems, find_items, fn_body, split_top, strip_comments
from translate import HEADER, defn, read, zlist, zlit


def num(t):
    return int(t.replace('_', ''))


def blist(bs):
    return '[' + '; '.join(str(b) for b in bs) + ']'


def byte_lit(t):
    """b'x' or b"xyz" -> list of ints"""
    t = t.strip()
    m = re.match(r"^b'(\\.|[^\\'])'$", t)
    if m:
        c = m.group(1)
        esc = {'\\\\': 92, "\\'": 39, '\\n': 10, '\\t': 9, '\\r': 13, '\\0': 0}
        return [esc[c] if c in esc else ord(c)]
    m = re.match(r'^b"([^"\\]*)"$', t)
    if m:
        return [ord(c) for c in m.group(1)]
    raise TranslateError('not a byte literal: %r' % t)


def named_table(name, rows):
    """list (list Z * Z)"""
    body = ';\n   '.join('(%s, %s)' % (blist(k), zlit(v)) for k, v in rows)
    return 'Definition %s : list (list Z * Z) :=\n  [%s].\n' % (name, body)


def list_of_lists(name, rows):
    body = ';\n   '.join(blist(r) for r in rows)
    return 'Definition %s : list (list Z) :=\n  [%s].\n' % (name, body)


def match_arms3(body, what, value_of):
    """arms `(b'j', b'a', b'n') => V,` of the 3-letter matches; also the `| 32` of the scrutinee"""
    m = re.search(r'match\s*\(\s*buf\[0\]\s*\|\s*(\d+)\s*,\s*buf\[1\]\s*\|\s*(\d+)\s*,\s*buf\[2\]\s*\|\s*(\d+)\s*\)', body)
    if not m:
        raise TranslateError('%s: scrutinee (buf[0] | k, buf[1] | k, buf[2] | k) not found' % what)
    bits = [int(m.group(i)) for i in (1, 2, 3)]
    if len(set(bits)) != 1:
        raise TranslateError('%s: different case bits %r' % (what, bits))
    rows = []
    for a in re.finditer(r"\(\s*(b'[^']+')\s*,\s*(b'[^']+')\s*,\s*(b'[^']+')\s*\)\s*=>\s*([A-Za-z0-9_:]+)\s*,", body):
        key = byte_lit(a.group(1)) + byte_lit(a.group(2)) + byte_lit(a.group(3))
        rows.append((key, value_of(a.group(4))))
    if not rows:
        raise TranslateError('%s: no match arms found' % what)
    m = re.search(r'if\s+s\.len\(\)\s*<\s*(\d+)', body)
    if not m:
        raise TranslateError('%s: length test not found' % what)
    minlen = int(m.group(1))
    m = re.search(r'Ok\(\(&s\[(\d+)\.\.\]', body)
    if not m:
        raise TranslateError('%s: rest slice not found' % what)
    return bits[0], rows, minlen, int(m.group(1))


def weekday_discriminants():
    src = read('src/weekday.rs')
    m = re.search(r'pub enum Weekday\s*\{(.*?)\n\}', src, re.S)
    if not m:
        raise TranslateError('enum Weekday not found')
    d = {}
    for a in re.finditer(r'\b([A-Z][a-z]{2})\s*=\s*(\d+)\s*,', m.group(1)):
        d[a.group(1)] = int(a.group(2))
    if len(d) != 7:
        raise TranslateError('enum Weekday: expected 7 explicit discriminants, got %r' % d)
    return d


def scale_table(body, what, file_src=None):
    # the table the function indexes (`* NAME[..]`): a `static`/`const` array local to the function
    # or, failing that, an item of the same name at module level (any name)
    decl = r'(?:static|const)\s+%s\s*:\s*&?\[i64;\s*(\d+)\]\s*=\s*&?(\[[^\]]*\])'
    m = re.search(decl % r'[A-Z][A-Z0-9_]*', body, re.S)
    if not m and file_src is not None:
        u = re.search(r'\b([A-Z][A-Z0-9_]*)\s*\[', body)
        if u:
            m = re.search(decl % re.escape(u.group(1)), strip_comments(file_src), re.S)
    if not m:
        raise TranslateError('%s: SCALE table not found' % what)
    vals = [Evaluator({}).eval(e) for e in array_elems(m.group(2))]
    if len(vals) != int(m.group(1)):
        raise TranslateError('%s: SCALE has %d entries, declared %s' % (what, len(vals), m.group(1)))
    return vals


def contains_range(body, what):
    m = re.search(r'\(\s*(-?[0-9_]+)\s*\.\.=\s*(-?[0-9_]+)\s*\)\s*\.contains', body)
    if not m:
        raise TranslateError('%s: (lo..=hi).contains not found' % what)
    return num(m.group(1)), num(m.group(2))


def gen_scan_tables():
    scan = read('src/format/scan.rs')
    parse = read('src/format/parse.rs')
    parsed = read('src/format/parsed.rs')
    fmt = read('src/format/formatting.rs')
    out = HEADER % 'src/format/scan.rs, src/format/parse.rs, src/format/parsed.rs, src/format/formatting.rs'

    # --- nanosecond / nanosecond_fixed
    b = fn_body(scan, 'nanosecond')
    out += '(* scan::nanosecond *)\n'
    out += zlist('SCALE', scale_table(b, 'nanosecond', scan))
    m = re.search(r'number\(s,\s*(\d+),\s*(\d+)\)', b)
    if not m:
        raise TranslateError('nanosecond: number(s, min, max) call not found')
    out += defn('NANOSECOND_MIN_DIGITS', int(m.group(1))) + defn('NANOSECOND_MAX_DIGITS', int(m.group(2)))
    out += '(* scan::nanosecond_fixed *)\n'
    out += zlist('SCALE_FIXED', scale_table(fn_body(scan, 'nanosecond_fixed'), 'nanosecond_fixed', scan))

    # --- short_month0 / short_weekday
    wd = weekday_discriminants()
    bits, rows, minlen, rest = match_arms3(fn_body(scan, 'short_month0'), 'short_month0', lambda t: int(t))
    out += '(* scan::short_month0: (buf[0] | bit, buf[1] | bit, buf[2] | bit) => month0 *)\n'
    out += defn('SHORT_MONTH_BIT', bits) + defn('SHORT_MONTH_LEN', minlen) + defn('SHORT_MONTH_REST', rest)
    out += named_table('SHORT_MONTH_ARMS', rows)

    def wdval(t):
        n = t.split('::')[-1]
        if n not in wd:
            raise TranslateError('short_weekday: unknown weekday %s' % t)
        return wd[n]
    bits, rows, minlen, rest = match_arms3(fn_body(scan, 'short_weekday'), 'short_weekday', wdval)
    out += '(* scan::short_weekday: values are the Weekday discriminants (Mon = 0) *)\n'
    out += defn('SHORT_WEEKDAY_BIT', bits) + defn('SHORT_WEEKDAY_LEN', minlen) + defn('SHORT_WEEKDAY_REST', rest)
    out += named_table('SHORT_WEEKDAY_ARMS', rows)

    # --- long suffix tables
    for fn, tab, n in (('short_or_long_month0', 'LONG_MONTH_SUFFIXES', 12),
                       ('short_or_long_weekday', 'LONG_WEEKDAY_SUFFIXES', 7)):
        b = fn_body(scan, fn)
        m = re.search(r'static\s+' + tab + r'\s*:\s*\[&\[u8\];\s*(\d+)\]\s*=\s*(\[.*?\])\s*;', b, re.S)
        if not m:
            raise TranslateError('%s: table %s not found' % (fn, tab))
        rows = [byte_lit(e) for e in array_elems(m.group(2))]
        if len(rows) != n or int(m.group(1)) != n:
            raise TranslateError('%s: %d entries, expected %d' % (tab, len(rows), n))
        out += list_of_lists(tab, rows)

    # --- timezone_offset: hour/minute weights
    b = fn_body(scan, 'timezone_offset')
    m = re.search(r'let\s+seconds\s*=\s*hours\s*\*\s*([0-9_]+)\s*\+\s*minutes\s*\*\s*([0-9_]+)\s*;', b)
    if not m:
        raise TranslateError('timezone_offset: seconds expression not found')
    out += '(* scan::timezone_offset *)\n'
    out += defn('TZ_SECS_PER_HOUR', num(m.group(1))) + defn('TZ_SECS_PER_MINUTE', num(m.group(2)))
    m = re.search(r"\(m1\s*@\s*b'(\d)'\.\.=b'(\d)',\s*m2\s*@\s*b'(\d)'\.\.=b'(\d)'\)", b)
    m2 = re.search(r"\(b'(\d)'\.\.=b'(\d)',\s*b'(\d)'\.\.=b'(\d)'\)\s*=>\s*return\s+Err\(OUT_OF_RANGE\)", b)
    if not m or not m2:
        raise TranslateError('timezone_offset: minute digit patterns not found')
    out += defn('TZ_MIN_TENS_LO', 48 + int(m.group(1))) + defn('TZ_MIN_TENS_HI', 48 + int(m.group(2)))
    out += defn('TZ_MIN_OOR_TENS_LO', 48 + int(m2.group(1))) + defn('TZ_MIN_OOR_TENS_HI', 48 + int(m2.group(2)))
    m = re.search(r"Some\('(.)'\)\s*=>\s*\{\s*if\s+!allow_tz_minus_sign", b)
    if not m:
        raise TranslateError('timezone_offset: MINUS SIGN arm not found')
    out += defn('TZ_MINUS_SIGN', ord(m.group(1)))

    # --- timezone_offset_2822: name -> hours
    b = fn_body(scan, 'timezone_offset_2822')
    rows = []
    for a in re.finditer(r'if\s+((?:name\.eq_ignore_ascii_case\(b"[a-z]+"\)\s*(?:\|\|)?\s*)+)\{\s*return\s+offset_hours\((-?\d+)\)', b):
        for nm in re.findall(r'b"([a-z]+)"', a.group(1)):
            rows.append(([ord(c) for c in nm], int(a.group(2))))
    if len(rows) < 10:
        raise TranslateError('timezone_offset_2822: only %d zone names found' % len(rows))
    out += '(* scan::timezone_offset_2822: legacy zone name (lower case) -> hours *)\n'
    out += named_table('TZ2822_NAMES', rows)
    m = re.search(r'offset_hours\s*=\s*\|o\|\s*Ok\(\(s,\s*o\s*\*\s*([0-9_]+)\)\)', b)
    if not m:
        raise TranslateError('timezone_offset_2822: offset_hours closure not found')
    out += defn('TZ2822_SECS_PER_HOUR', num(m.group(1)))
    m = re.search(r"if let\s+((?:b'[a-zA-Z]'\.\.=b'[a-zA-Z]'\s*\|?\s*)+)=\s*name\[0\]", b)
    if not m:
        raise TranslateError('timezone_offset_2822: military letter ranges not found')
    rng = re.findall(r"b'([a-zA-Z])'\.\.=b'([a-zA-Z])'", m.group(1))
    out += 'Definition TZ2822_MILITARY : list (Z * Z) := [%s].\n' % '; '.join('(%d, %d)' % (ord(a), ord(c)) for a, c in rng)

    # --- parse_rfc3339
    b = fn_body(parse, 'parse_rfc3339')
    widths = [(int(a), int(c)) for a, c in re.findall(r'scan::number\(s,\s*(\d+),\s*(\d+)\)', b)]
    if len(widths) != 6:
        raise TranslateError('parse_rfc3339: expected 6 scan::number calls, got %r' % (widths,))
    out += '(* format::parse::parse_rfc3339: (min, max) of the six scan::number calls, in order *)\n'
    for nm, (lo, hi) in zip(('YEAR', 'MONTH', 'DAY', 'HOUR', 'MINUTE', 'SECOND'), widths):
        out += defn('R3_%s_MIN' % nm, lo) + defn('R3_%s_MAX' % nm, hi)
    m = re.search(r'const\s+MAX_RFC3339_OFFSET\s*:\s*i32\s*=\s*([^;]+);', b)
    if not m:
        raise TranslateError('parse_rfc3339: MAX_RFC3339_OFFSET not found')
    out += defn('MAX_RFC3339_OFFSET', Evaluator({}).eval(m.group(1)))
    m = re.search(r"Some\(&b'(.)'\s*\|\s*&b'(.)'\s*\|\s*&b'(.)'\)\s*=>\s*&s\[1\.\.\]", b)
    if not m:
        raise TranslateError('parse_rfc3339: date/time separator arm not found')
    out += 'Definition R3_SEPARATORS : list Z := %s.\n' % blist([ord(m.group(i)) for i in (1, 2, 3)])

    # --- Parsed setters: the inclusive ranges
    out += '(* format::parsed::Parsed::set_*: inclusive ranges *)\n'
    for fn in ('set_month', 'set_day', 'set_minute', 'set_second', 'set_nanosecond'):
        lo, hi = contains_range(fn_body(parsed, fn), fn)
        out += defn('P_%s_LO' % fn[4:].upper(), lo) + defn('P_%s_HI' % fn[4:].upper(), hi)
    b = fn_body(parsed, 'set_hour')
    m = re.search(r'hour\s*@\s*(\d+)\.\.=(\d+)\s*=>\s*\(0,\s*hour as u32\)\s*,\s*hour\s*@\s*(\d+)\.\.=(\d+)\s*=>\s*\(1,\s*hour as u32\s*-\s*(\d+)\)', b)
    if not m:
        raise TranslateError('set_hour: arms not found')
    for nm, g in zip(('AM_LO', 'AM_HI', 'PM_LO', 'PM_HI', 'PM_SUB'), m.groups()):
        out += defn('P_HOUR_' + nm, int(g))

    # --- write_rfc3339: year range that prints as four plain digits
    b = fn_body(fmt, 'write_rfc3339')
    lo, hi = contains_range(b, 'write_rfc3339')
    out += '(* format::formatting::write_rfc3339 *)\n'
    out += defn('W3_YEAR_LO', lo) + defn('W3_YEAR_HI', hi)
    m = re.search(r'if\s+nano\s*>=\s*([0-9_]+)\s*\{\s*sec\s*\+=\s*1;\s*nano\s*-=\s*([0-9_]+);', b)
    if not m or num(m.group(1)) != num(m.group(2)):
        raise TranslateError('write_rfc3339: leap second normalisation not found')
    out += defn('W3_LEAP_NANO', num(m.group(1)))
    m = re.search(r'SecondsFormat::Millis\s*=>\s*write!\(w,\s*"\.\{:0(\d)\}",\s*nano\s*/\s*([0-9_]+)\)\?,\s*'
                  r'SecondsFormat::Micros\s*=>\s*write!\(w,\s*"\.\{:0(\d)\}",\s*nano\s*/\s*([0-9_]+)\)\?,\s*'
                  r'SecondsFormat::Nanos\s*=>\s*write!\(w,\s*"\.\{:0(\d)\}",\s*nano\)\?', b)
    if not m:
        raise TranslateError('write_rfc3339: SecondsFormat arms not found')
    out += defn('W3_MILLIS_WIDTH', int(m.group(1))) + defn('W3_MILLIS_DIV', num(m.group(2)))
    out += defn('W3_MICROS_WIDTH', int(m.group(3))) + defn('W3_MICROS_DIV', num(m.group(4)))
    out += defn('W3_NANOS_WIDTH', int(m.group(5)))
    m = re.search(r'nano\s*%\s*([0-9_]+)\s*==\s*0\s*\{\s*write!\(w,\s*"\.\{:0(\d)\}",\s*nano\s*/\s*([0-9_]+)\)\?\s*\}\s*'
                  r'else if\s+nano\s*%\s*([0-9_]+)\s*==\s*0\s*\{\s*write!\(w,\s*"\.\{:0(\d)\}",\s*nano\s*/\s*([0-9_]+)\)\?', b)
    if not m:
        raise TranslateError('write_rfc3339: AutoSi arms not found')
    out += defn('W3_AUTO_MILLIS_MOD', num(m.group(1))) + defn('W3_AUTO_MILLIS_WIDTH', int(m.group(2))) + defn('W3_AUTO_MILLIS_DIV', num(m.group(3)))
    out += defn('W3_AUTO_MICROS_MOD', num(m.group(4))) + defn('W3_AUTO_MICROS_WIDTH', int(m.group(5))) + defn('W3_AUTO_MICROS_DIV', num(m.group(6)))
    # OffsetFormat::format: rounding and unit constants
    src = fmt[fmt.index('impl OffsetFormat'):]
    b = fn_body(src, 'format')
    m = re.search(r'let\s+minutes\s*=\s*\(off\s*\+\s*(\d+)\)\s*/\s*(\d+)\s*;', b)
    m2 = re.search(r'hours\s*=\s*\(off\s*/\s*([0-9_]+)\)\s*as u8', b)
    if not m or not m2:
        raise TranslateError('OffsetFormat::format: rounding expressions not found')
    out += '(* format::formatting::OffsetFormat::format *)\n'
    out += defn('OF_ROUND_ADD', int(m.group(1))) + defn('OF_SECS_PER_MINUTE', int(m.group(2))) + defn('OF_SECS_PER_HOUR', num(m2.group(1)))
    return out


FAMILIES = {'ScanTables': gen_scan_tables}
