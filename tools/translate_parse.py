"""Translator family ParseTable: the data of the item-driven reader `parse_internal`
(src/format/parse.rs) -> coq/Gen/ParseTable.v:
  * the `match *spec` table of the Numeric arm: Numeric -> (width, signed, setter);
  * the two local weekday-number maps (set_weekday_with_num_days_from_sunday / _number_from_monday);
  * the AM/PM arm (length test, case bit, letter pairs);
  * the length test / digit count of the three Nanosecond<n>NoDot arms;
  * the (allow_zulu, allow_missing_minutes, allow_tz_minus_sign) flags of every
    scan::timezone_offset call of the Fixed arms and of parse_rfc3339_relaxed;
  * DATE_ITEMS / TIME_ITEMS, the date/time separators and the "UTC" literal of parse_rfc3339_relaxed;
  * the number widths and the two-/three-digit year rules of parse_rfc2822.
Numeric / Fixed variants are numbered in declaration order of src/format/mod.rs (the numbering of
coq/Model/Items.v numeric_idx / fixed_idx / internal_idx); setters are numbered as in
coq/Model/Parsed.v apply_setter (0 year .. 21 offset), the two local functions 100 / 101.
Control flow stays hand-modelled in coq/Model/Parse.v; every shape that is not recognised fails
loudly (broken tie)."""
import os
import re
import sys

sys.path.insert(0, os.path.dirname(os.path.abspath(__file__)))
from rustconst import TranslateError, fn_body, strip_comments

REPO = os.environ.get('VERIF_REPO', '/repo')

USIZE_MAX = 2**64 - 1

SETTERS = ['set_year', 'set_year_div_100', 'set_year_mod_100', 'set_isoyear', 'set_isoyear_div_100',
           'set_isoyear_mod_100', 'set_quarter', 'set_month', 'set_week_from_sun', 'set_week_from_mon',
           'set_isoweek', 'set_weekday', 'set_ordinal', 'set_day', 'set_ampm', 'set_hour12', 'set_hour',
           'set_minute', 'set_second', 'set_nanosecond', 'set_timestamp', 'set_offset']
LOCAL_SETTERS = {'set_weekday_with_num_days_from_sunday': 100, 'set_weekday_with_number_from_monday': 101}
INTERNAL = {'TimezoneOffsetPermissive': 100, 'Nanosecond3NoDot': 101, 'Nanosecond6NoDot': 102, 'Nanosecond9NoDot': 103}
PADS = {'None': 'PadNone', 'Zero': 'PadZero', 'Space': 'PadSpace'}


def read(rel):
    with open(os.path.join(REPO, rel)) as f:
        return f.read()


def zlit(v):
    return '(%d)' % v if v < 0 else '%d' % v


def blit(b):
    return 'true' if b else 'false'


def enum_variants(src, name):
    m = re.search(r'pub enum %s\s*\{(.*?)\n\}' % name, src, re.S)
    if not m:
        raise TranslateError('enum %s not found' % name)
    out = []
    for line in m.group(1).split('\n'):
        mm = re.match(r'\s*([A-Z][A-Za-z0-9]*)\s*(?:\(.*\))?\s*,\s*$', line)
        if mm:
            out.append(mm.group(1))
    return out


def weekday_discriminants():
    src = read('src/weekday.rs')
    m = re.search(r'pub enum Weekday\s*\{(.*?)\n\}', src, re.S)
    if not m:
        raise TranslateError('enum Weekday not found')
    d = {}
    for a in re.finditer(r'\b([A-Z][a-z]{2})\s*=\s*(\d+)\s*,', m.group(1)):
        d[a.group(1)] = int(a.group(2))
    if len(d) != 7:
        raise TranslateError('enum Weekday: expected 7 explicit discriminants')
    return d


def bool_of(t, what):
    t = t.strip()
    if t == 'true':
        return True
    if t == 'false':
        return False
    raise TranslateError('%s: boolean literal expected, got %r' % (what, t))


def tz_call_flags(text, what):
    """flags of the single scan::timezone_offset(...) call inside `text`"""
    m = re.search(r'scan::timezone_offset\(\s*([^,]+),\s*([^,]+),\s*(true|false)\s*,\s*(true|false)\s*,\s*(true|false)\s*,?\s*\)', text, re.S)
    if not m:
        raise TranslateError('%s: scan::timezone_offset call not recognised' % what)
    return m.group(1).strip(), m.group(2).strip(), [bool_of(m.group(i), what) for i in (3, 4, 5)]


def item_const(text, what, numeric, fixed):
    """`&[ Item::Numeric(Numeric::Year, Pad::Zero), Item::Space(""), ... ]` -> Coq list text"""
    out = []
    for a in re.finditer(r'Item::(Numeric\(Numeric::(\w+),\s*Pad::(\w+)\)|Space\("([^"\\]*)"\)|Literal\("([^"\\]*)"\)|Fixed\(Fixed::(\w+)\))', text):
        if a.group(2):
            if a.group(2) not in numeric or a.group(3) not in PADS:
                raise TranslateError('%s: unknown numeric item %s' % (what, a.group(0)))
            out.append('INumeric N_%s %s' % (a.group(2), PADS[a.group(3)]))
        elif a.group(4) is not None:
            out.append('Space [%s]' % '; '.join(str(b) for b in a.group(4).encode()))
        elif a.group(5) is not None:
            out.append('Literal [%s]' % '; '.join(str(b) for b in a.group(5).encode()))
        else:
            if a.group(6) not in fixed:
                raise TranslateError('%s: unknown fixed item %s' % (what, a.group(0)))
            out.append('IFixed F_%s' % a.group(6))
    n_items = len(re.findall(r'Item::', text))
    if not out or n_items != len(out):
        raise TranslateError('%s: item list not fully recognised (%d of %d)' % (what, len(out), n_items))
    return '[' + '; '.join('(%s)' % x for x in out) + ']'


def gen_parse_table():
    mod = strip_comments(read('src/format/mod.rs'))
    src = strip_comments(read('src/format/parse.rs'))
    numeric = [v for v in enum_variants(mod, 'Numeric') if v != 'Internal']
    fixed = [v for v in enum_variants(mod, 'Fixed') if v != 'Internal']
    if len(numeric) != 21 or len(fixed) != 19:
        raise TranslateError('enum Numeric/Fixed: %d/%d variants (Model/Items.v knows 21/19)' % (len(numeric), len(fixed)))
    wd = weekday_discriminants()
    body = fn_body(src, 'parse_internal')

    out = ('(* GENERATED by tools/translate_parse.py from src/format/parse.rs, src/format/mod.rs -- do not edit *)\n'
           'From Coq Require Import ZArith List Bool.\nFrom V Require Import Model.Items.\nImport ListNotations.\nOpen Scope Z_scope.\n\n')

    # --- Numeric table
    m = re.search(r'let \(width, signed, set\)[^=]*=\s*match \*spec\s*\{(.*?)\n\s*\};', body, re.S)
    if not m:
        raise TranslateError('parse_internal: `let (width, signed, set) = match *spec {` not found')
    rows = {}
    for a in re.finditer(r'(\w+)\s*=>\s*\(\s*([A-Za-z0-9_:]+)\s*,\s*(true|false)\s*,\s*([A-Za-z0-9_:]+)\s*\)\s*,', m.group(1)):
        name, width, signed, setter = a.group(1), a.group(2), a.group(3) == 'true', a.group(4)
        if name not in numeric:
            raise TranslateError('parse_internal: unknown Numeric variant %s' % name)
        if width == 'usize::MAX':
            w = USIZE_MAX
        elif re.match(r'^\d+$', width):
            w = int(width)
        else:
            raise TranslateError('parse_internal: width %r of %s not a literal' % (width, name))
        if setter.startswith('Parsed::'):
            sname = setter[len('Parsed::'):]
            if sname not in SETTERS:
                raise TranslateError('parse_internal: unknown setter %s' % setter)
            code = SETTERS.index(sname)
        elif setter in LOCAL_SETTERS:
            code = LOCAL_SETTERS[setter]
        else:
            raise TranslateError('parse_internal: unknown setter %s' % setter)
        if name in rows:
            raise TranslateError('parse_internal: duplicate arm %s' % name)
        rows[name] = (w, signed, code)
    missing = [n for n in numeric if n not in rows]
    if missing:
        raise TranslateError('parse_internal: Numeric arms missing: %r' % missing)
    out += '(* Item::Numeric: numeric index -> (width, signed, setter) *)\n'
    out += 'Definition PN_TABLE : list (Z * (Z * bool * Z)) := [\n'
    out += ';\n'.join('  (%d, (%d, %s, %d)) (* %s *)' % (numeric.index(n), rows[n][0], blit(rows[n][1]), rows[n][2], n)
                      for n in numeric)
    out += '\n].\n'
    m = re.search(r'let v = if signed \{(.*?)\n\s*\};\s*\n\s*set\(parsed, v\)\?;', body, re.S)
    if not m:
        raise TranslateError('parse_internal: signed/unsigned number reading not recognised')
    calls = re.findall(r'scan::number\(\s*([^,]+),\s*(\d+)\s*,\s*([A-Za-z0-9_:]+)\s*\)', m.group(1))
    if [c[0].strip() for c in calls] != ['&s[1..]', '&s[1..]', 's', 's'] or [c[2] for c in calls] != ['usize::MAX', 'usize::MAX', 'width', 'width']:
        raise TranslateError('parse_internal: the four scan::number calls of the Numeric arm changed: %r' % calls)
    if len(set(c[1] for c in calls)) != 1:
        raise TranslateError('parse_internal: differing minimum digit counts %r' % calls)
    out += 'Definition PN_MIN_DIGITS : Z := %s.\n' % calls[0][1]
    out += 'Definition PN_SIGNED_MAX_DIGITS : Z := %d.\n' % USIZE_MAX

    # --- weekday number maps
    for fname, cname in (('set_weekday_with_num_days_from_sunday', 'PN_WD_FROM_SUN'),
                         ('set_weekday_with_number_from_monday', 'PN_WD_FROM_MON')):
        b = fn_body(src, fname)
        arms = re.findall(r'(\d+)\s*=>\s*Weekday::(\w+)\s*,', b)
        if len(arms) != 7 or not re.search(r'_\s*=>\s*return Err\(OUT_OF_RANGE\)', b):
            raise TranslateError('%s: arms not recognised' % fname)
        out += '(* %s: number -> Weekday discriminant (Mon = 0); anything else OUT_OF_RANGE *)\n' % fname
        out += 'Definition %s : list (Z * Z) := [%s].\n' % (cname, '; '.join('(%s, %d)' % (k, wd[v]) for k, v in arms))

    # --- AM/PM
    m = re.search(r'&LowerAmPm \| &UpperAmPm => \{(.*?)\n\s{20}\}', body, re.S)
    if not m:
        raise TranslateError('parse_internal: AM/PM arm not found')
    b = m.group(1)
    mm = re.search(r'if s\.len\(\) < (\d+)', b)
    bits = re.search(r'match \(s\.as_bytes\(\)\[0\] \| (\d+), s\.as_bytes\(\)\[1\] \| (\d+)\)', b)
    arms = re.findall(r"\(b'(\w)', b'(\w)'\) => (true|false)", b)
    rest = re.search(r's = &s\[(\d+)\.\.\];', b)
    if not (mm and bits and len(arms) == 2 and rest and bits.group(1) == bits.group(2)):
        raise TranslateError('parse_internal: AM/PM arm not recognised')
    out += '(* LowerAmPm | UpperAmPm *)\n'
    out += 'Definition P_AMPM_LEN : Z := %s.\nDefinition P_AMPM_BIT : Z := %s.\nDefinition P_AMPM_REST : Z := %s.\n' % (mm.group(1), bits.group(1), rest.group(1))
    out += 'Definition P_AMPM_ARMS : list (list Z * Z) := [%s].\n' % '; '.join(
        '([%d; %d], %d)' % (ord(a), ord(c), 1 if v == 'true' else 0) for a, c, v in arms)

    # --- NoDot
    rows = []
    for k in ('Nanosecond3NoDot', 'Nanosecond6NoDot', 'Nanosecond9NoDot'):
        m = re.search(r'InternalInternal::%s \}\) => \{\s*if s\.len\(\) < (\d+) \{\s*return Err\(TOO_SHORT\);\s*\}\s*let nano = try_consume!\(scan::nanosecond_fixed\(s, (\d+)\)\);' % k, body, re.S)
        if not m:
            raise TranslateError('parse_internal: %s arm not recognised' % k)
        rows.append('(%d, (%s, %s))' % (INTERNAL[k], m.group(1), m.group(2)))
    out += '(* Nanosecond<n>NoDot: internal index -> (minimum length, digits) *)\n'
    out += 'Definition P_NODOT : list (Z * (Z * Z)) := [%s].\n' % '; '.join(rows)

    # --- timezone_offset flags per Fixed arm
    arms = []
    pos = 0
    for mm in re.finditer(r'((?:&\w+\s*\|\s*)*&\w+|&Internal\(InternalFixed \{\s*val: InternalInternal::TimezoneOffsetPermissive,?\s*\}\))\s*=>\s*\{\s*let offset = try_consume!\((scan::timezone_offset\(.*?\))\);', body, re.S):
        names = mm.group(1)
        arg, colon, flags = tz_call_flags(mm.group(2), 'Fixed arm ' + names)
        if arg != 's.trim_start()' or colon != 'scan::colon_or_space':
            raise TranslateError('parse_internal: timezone_offset arguments changed in arm %s: %r %r' % (names, arg, colon))
        if 'TimezoneOffsetPermissive' in names:
            arms.append((100, flags))
        else:
            for n in re.findall(r'&(\w+)', names):
                if n not in fixed:
                    raise TranslateError('parse_internal: unknown Fixed variant %s' % n)
                arms.append((fixed.index(n), flags))
    got = sorted(a[0] for a in arms)
    want = sorted([fixed.index(n) for n in ('TimezoneOffsetColon', 'TimezoneOffsetDoubleColon', 'TimezoneOffsetTripleColon',
                                             'TimezoneOffset', 'TimezoneOffsetColonZ', 'TimezoneOffsetZ')] + [100])
    if got != want:
        raise TranslateError('parse_internal: time-zone offset arms changed: %r' % got)
    out += '(* Fixed time-zone offset items: fixed index -> (allow_zulu, allow_missing_minutes, allow_tz_minus_sign);\n   all read `s.trim_start()` with scan::colon_or_space *)\n'
    out += 'Definition P_TZ_FLAGS : list (Z * (bool * bool * bool)) := [%s].\n' % '; '.join(
        '(%d, (%s, %s, %s))' % (k, blit(f[0]), blit(f[1]), blit(f[2])) for k, f in sorted(arms))

    # --- parse_rfc3339_relaxed
    b = fn_body(src, 'parse_rfc3339_relaxed')
    md = re.search(r'const DATE_ITEMS[^=]*=\s*&\[(.*?)\];', b, re.S)
    mt = re.search(r'const TIME_ITEMS[^=]*=\s*&\[(.*?)\];', b, re.S)
    if not (md and mt):
        raise TranslateError('parse_rfc3339_relaxed: DATE_ITEMS / TIME_ITEMS not found')
    out += '(* parse_rfc3339_relaxed *)\n'
    out += 'Definition P_RELAXED_DATE_ITEMS : list Item := %s.\n' % item_const(md.group(1), 'DATE_ITEMS', numeric, fixed)
    out += 'Definition P_RELAXED_TIME_ITEMS : list Item := %s.\n' % item_const(mt.group(1), 'TIME_ITEMS', numeric, fixed)
    m = re.search(r"Some\(((?:&b'.'\s*\|?\s*)+)\) => &s\[(\d+)\.\.\]", b)
    if not m:
        raise TranslateError('parse_rfc3339_relaxed: separator arm not found')
    seps = [ord(c) for c in re.findall(r"&b'(.)'", m.group(1))]
    out += 'Definition P_RELAXED_SEPARATORS : list Z := [%s].\n' % '; '.join(str(c) for c in seps)
    m = re.search(r's\.len\(\) >= (\d+) && "(\w+)"\.as_bytes\(\)\.eq_ignore_ascii_case\(&s\.as_bytes\(\)\[\.\.(\d+)\]\)\s*\{\s*\(&s\[(\d+)\.\.\], 0\)', b)
    if not m or len(set([m.group(1), m.group(3), m.group(4)])) != 1 or int(m.group(1)) != len(m.group(2)):
        raise TranslateError('parse_rfc3339_relaxed: "UTC" test not recognised')
    out += 'Definition P_RELAXED_UTC : list Z := [%s].\n' % '; '.join(str(ord(c)) for c in m.group(2))
    arg, colon, flags = tz_call_flags(b, 'parse_rfc3339_relaxed')
    if arg != 's' or colon != 'scan::colon_or_space':
        raise TranslateError('parse_rfc3339_relaxed: timezone_offset arguments changed')
    out += 'Definition P_RELAXED_TZ_FLAGS : bool * bool * bool := (%s, %s, %s).\n' % tuple(blit(f) for f in flags)

    # --- parse_rfc2822
    b = fn_body(src, 'parse_rfc2822')
    nums = re.findall(r'parsed\.set_(\w+)\(try_consume!\(scan::number\(([\w.()]+), (\d+), (\d+)\)\)\)\?;', b)
    want = [('day', ('s',)), ('hour', ('s',)), ('minute', ('s',)), ('second', ('s_', 's_.trim_start()'))]
    if [n[0] for n in nums] != [w[0] for w in want] or any(n[1] not in w[1] for n, w in zip(nums, want)):
        raise TranslateError('parse_rfc2822: number fields changed: %r' % nums)
    out += '(* parse_rfc2822: (min, max) digits of day, hour, minute, second; year *)\n'
    for n in nums:
        out += 'Definition P2822_%s : Z * Z := (%s, %s).\n' % (n[0].upper(), n[2], n[3])
    out += '(* the seconds are scanned from `s_.trim_start()` (true) or from `s_` (false) *)\n'
    out += 'Definition P2822_SECOND_TRIM : bool := %s.\n' % blit(nums[3][1] == 's_.trim_start()')
    m = re.search(r'let mut year = try_consume!\(scan::number\(s, (\d+), usize::MAX\)\);', b)
    if not m:
        raise TranslateError('parse_rfc2822: year number not found')
    out += 'Definition P2822_YEAR : Z * Z := (%s, %d).\n' % (m.group(1), USIZE_MAX)
    m = re.search(r'match \(yearlen, year\) \{(.*?)\n    \}', b, re.S)
    if not m:
        raise TranslateError('parse_rfc2822: year rule match not found')
    rules = []
    arms = re.findall(r'\((\d+|_), (\d+\.\.=\d+|_)\) => \{\s*(?:year \+= (\d+);)?\s*\}', m.group(1))
    if len(arms) != 4 or arms[-1] != ('_', '_', ''):
        raise TranslateError('parse_rfc2822: year rules not recognised: %r' % arms)
    for ln, rng, add in arms[:-1]:
        if ln == '_' or not add:
            raise TranslateError('parse_rfc2822: year rule shape changed')
        if rng == '_':
            lo, hi = 0, 2**63 - 1
        else:
            lo, hi = [int(x) for x in rng.split('..=')]
        rules.append('(%s, (%d, %d, %s))' % (ln, lo, hi, add))
    out += '(* (yearlen, (lo, hi, addend)) in match order; no match: year unchanged *)\n'
    out += 'Definition P2822_YEAR_RULES : list (Z * (Z * Z * Z)) := [%s].\n' % '; '.join(rules)
    return out


FAMILIES = {'ParseTable': gen_parse_table}

if __name__ == '__main__':
    sys.stdout.write(gen_parse_table())
