#!/usr/bin/env python3
"""C15 inventory: every public, non-deprecated entry point of chrono that reports failure through its
return type (Option / Result / ParseResult / MappedLocalTime / LocalResult / fmt::Result), read from
the Rust sources on every run.

    scan(repo)  -> list of {"entry": "Type::method", "file": "src/...", "line": n, "ret": "..."}
    report(repo, table) -> the `coverage.inventory` object of the evidence

`table` is gen/C15_inventory.json: for each entry point the ops (of which property) that call it, or a
reason why it is outside C15's stream.  An entry point found in the sources but missing from the table is
reported as `unmapped` (the check prints it; it never silently disappears).

The scanner is a brace-level reader of Rust: comments and string literals are blanked, then every
`fn name(...) -> Ret` is attributed to its enclosing `impl` / `trait` / `mod` header.  Public means: `pub fn`
in an inherent impl or at module level, any `fn` declared in a `pub trait`, or a `fn` of an `impl Trait for
Type` block.  Excluded (by the property text or the task's scope): `#[deprecated]` items and the deprecated
`Date<Tz>` type, `#[cfg(test)]` code, `pub(crate)`/`pub(super)` items, the Local zone and its tz_info
reader (clock / environment dependent; C05, C16, C18 own them), rkyv / arbitrary / wasm / windows glue."""
import json
import os
import re
import sys

FALLIBLE = re.compile(r'^(?:core::|std::)?(?:Option<|Result<|ParseResult<|MappedLocalTime<|LocalResult<|fmt::Result\b)')

EXCLUDE_FILES = (
    'src/date.rs',                       # Date<Tz>: the whole type is deprecated
    'src/offset/local/',                 # Local, tz_info (C05/C16/C18; environment dependent)
    'src/naive/date/tests.rs', 'src/naive/datetime/tests.rs', 'src/naive/time/tests.rs', 'src/datetime/tests.rs',
    'src/format/locales.rs',             # unstable-locales helper tables (pub(crate))
)
# trait impl blocks whose methods are reachable by the public (std / num-traits / serde traits, chrono's own)
PUBLIC_TRAITS = ('FromStr', 'TryFrom', 'FromPrimitive', 'Datelike', 'Timelike', 'TimeZone', 'DurationRound',
                 'SubsecRound', 'Offset', 'Serialize', 'Deserialize', 'Display', 'Debug')
# named by the property text although they return String: "the RFC 3339 renderers"
FORCE_NAMES = ('to_rfc3339', 'to_rfc3339_opts')
# private types (internals of NaiveDate, rkyv mirror types, Local)
PRIVATE_OWNERS = re.compile(r'YearFlags|\bMdf\b|InternalNumeric|InternalFixed|Archived|<Local>|\bLocal\b|SerdeError|Visitor')


def blank(src):
    """Replace comments, string and char literals by blanks of the same length (newlines kept)."""
    out = []
    i, n = 0, len(src)
    while i < n:
        c = src[i]
        if src.startswith('//', i):
            j = src.find('\n', i)
            j = n if j < 0 else j
            out.append(' ' * (j - i))
            i = j
        elif src.startswith('/*', i):
            depth, j = 1, i + 2
            while j < n and depth:
                if src.startswith('/*', j):
                    depth += 1; j += 2
                elif src.startswith('*/', j):
                    depth -= 1; j += 2
                else:
                    j += 1
            out.append(''.join(ch if ch == '\n' else ' ' for ch in src[i:j]))
            i = j
        elif c == '"' or (c == 'r' and re.match(r'r#*"', src[i:]) and (i == 0 or not (src[i - 1].isalnum() or src[i - 1] == '_'))) \
                or (c == 'b' and i + 1 < n and src[i + 1] == '"' and (i == 0 or not (src[i - 1].isalnum() or src[i - 1] == '_'))):
            if c == 'b':
                out.append(' '); i += 1; c = '"'
            if c == 'r':
                m = re.match(r'r(#*)"', src[i:])
                end = '"' + m.group(1)
                j = src.find(end, i + len(m.group(0)))
                j = n if j < 0 else j + len(end)
            else:
                j = i + 1
                while j < n and src[j] != '"':
                    j += 2 if src[j] == '\\' else 1
                j += 1
            out.append('"' + ''.join(ch if ch == '\n' else ' ' for ch in src[i + 1:j - 1]) + '"' if j - i >= 2 else ' ' * (j - i))
            i = j
        elif c == "'":
            m = re.match(r"'(?:\\.[^']*|[^'\\])'", src[i:])
            if m:
                out.append(' ' * len(m.group(0)))
                i += len(m.group(0))
            else:
                out.append(c)   # a lifetime
                i += 1
        else:
            out.append(c)
            i += 1
    return ''.join(out)


def norm(s):
    return re.sub(r'\s+', ' ', s).strip()


def scan_file(path, rel):
    src = blank(open(path, encoding='utf-8').read())
    found = []
    stack = []      # (kind, header text, excluded?, is_pub_trait/ trait impl?)
    i, n = 0, len(src)
    stmt_start = 0
    while i < n:
        c = src[i]
        if c == '{':
            header = src[stmt_start:i]
            h = norm(header)
            attrs = ' '.join(re.findall(r'#\[[^\]]*(?:\[[^\]]*\][^\]]*)*\]', header))
            hh = norm(re.sub(r'#!?\[[^\]]*(?:\[[^\]]*\][^\]]*)*\]', ' ', header))
            excluded = bool(re.search(r'cfg\(test\)|deprecated|rkyv|arbitrary|wasm|windows|__internal_bench', attrs))
            m_impl = re.match(r'(?:unsafe )?impl\b(.*)$', hh)
            m_trait = re.match(r'(pub(?:\([a-z]+\))? )?(?:unsafe )?trait (\w+)', hh)
            m_mod = re.match(r'(pub(?:\([a-z]+\))? )?mod (\w+)', hh)
            m_fn = re.search(r'\bfn (\w+)', hh)
            if m_fn and not re.match(r'(?:unsafe )?impl\b', hh) and not m_trait and not m_mod:
                # a function with a body: record, then skip the body
                rec = fn_record(hh, attrs, stack, rel, src.count('\n', 0, stmt_start + len(header) - len(header.lstrip())) + 1)
                if rec:
                    found.append(rec)
                depth, j = 1, i + 1
                while j < n and depth:
                    if src[j] == '{':
                        depth += 1
                    elif src[j] == '}':
                        depth -= 1
                    j += 1
                i = j
                stmt_start = i
                continue
            if m_impl:
                body = m_impl.group(1)
                body = re.sub(r'^\s*<[^{]*?>\s+(?=[A-Za-z&\[(<])', '', strip_generics_prefix(body))
                mt = re.match(r'(.*?) for (.*?)(?: where .*)?$', body)
                if mt:
                    tr, ty = norm(mt.group(1)), norm(mt.group(2))
                    trn = re.sub(r'<.*$', '', tr).split('::')[-1]
                    stack.append(('timpl', '<%s as %s>' % (ty, tr), excluded or trn not in PUBLIC_TRAITS, True))
                else:
                    ty = norm(re.sub(r' where .*$', '', body))
                    stack.append(('impl', ty, excluded, False))
            elif m_trait:
                stack.append(('trait', m_trait.group(2), excluded or m_trait.group(1) is None or '(' in (m_trait.group(1) or ''), True))
            elif m_mod:
                stack.append(('mod', m_mod.group(2), excluded, False))
            else:
                stack.append(('other', hh[:40], False, False))
            i += 1
            stmt_start = i
        elif c == '}':
            if stack:
                stack.pop()
            i += 1
            stmt_start = i
        elif c == ';':
            # a body-less declaration: trait method signature
            header = src[stmt_start:i]
            hh = norm(re.sub(r'#!?\[[^\]]*(?:\[[^\]]*\][^\]]*)*\]', ' ', header))
            attrs = ' '.join(re.findall(r'#\[[^\]]*(?:\[[^\]]*\][^\]]*)*\]', header))
            if False and re.search(r'\bfn (\w+)', hh) and stack and stack[-1][0] == 'trait':
                rec = fn_record(hh, attrs, stack, rel, src.count('\n', 0, stmt_start + len(header) - len(header.lstrip())) + 1)
                if rec:
                    found.append(rec)
            i += 1
            stmt_start = i
        else:
            i += 1
    return found


def strip_generics_prefix(body):
    """`<Tz: TimeZone> DateTime<Tz>` -> `DateTime<Tz>` (drop the impl's own generic parameter list)."""
    b = body.lstrip()
    if not b.startswith('<'):
        return b
    depth = 0
    for k, ch in enumerate(b):
        if ch == '<':
            depth += 1
        elif ch == '>' and (k == 0 or b[k - 1] != '-'):
            depth -= 1
            if depth == 0:
                return b[k + 1:].lstrip()
    return b


def fn_record(hh, attrs, stack, rel, line):
    m = re.search(r'^(.*?)\bfn (\w+)', hh)
    quals, name = m.group(1), m.group(2)
    mret = re.search(r'\)\s*->\s*(.*?)(?:\s+where\b.*)?$', hh)
    if not mret:
        return None
    ret = norm(mret.group(1))
    if not FALLIBLE.match(ret) and name not in FORCE_NAMES:
        return None
    if any(s[2] for s in stack):
        return None
    if re.search(r'deprecated|cfg\(test\)|rkyv|arbitrary|wasm|windows|__internal_bench', attrs):
        return None
    ctx = [s for s in stack if s[0] in ('impl', 'timpl', 'trait')]
    if ctx and PRIVATE_OWNERS.search(ctx[-1][1]):
        return None
    if any(s[0] == 'other' for s in stack):
        return None   # nested inside a function body
    vis_pub = re.search(r'\bpub\b(?!\()', quals) is not None
    if ctx:
        kind, owner = ctx[-1][0], ctx[-1][1]
        if kind == 'impl' and not vis_pub:
            return None
        entry = '%s::%s' % (owner, name)
    else:
        if not vis_pub:
            return None
        mods = [s[1] for s in stack if s[0] == 'mod']
        entry = '::'.join([os.path.splitext(os.path.basename(rel))[0]] + mods + [name])
    return {'entry': entry, 'file': rel, 'line': line, 'ret': ret}


def scan(repo):
    out = []
    for root, _, files in os.walk(os.path.join(repo, 'src')):
        for f in sorted(files):
            if not f.endswith('.rs'):
                continue
            path = os.path.join(root, f)
            rel = os.path.relpath(path, repo)
            if any(rel == e or rel.startswith(e) for e in EXCLUDE_FILES):
                continue
            out += scan_file(path, rel)
    # disambiguate repeated names (serde helper modules all define serialize/deserialize)
    seen = {}
    for r in out:
        k = r['entry']
        seen[k] = seen.get(k, 0) + 1
    cnt = {}
    for r in out:
        k = r['entry']
        if seen[k] > 1:
            cnt[k] = cnt.get(k, 0) + 1
            r['entry'] = '%s#%d' % (k, cnt[k])
    out.sort(key=lambda r: (r['file'], r['line']))
    return out


def report(repo, table):
    found = scan(repo)
    by = {e['entry']: e for e in table.get('entries', [])}
    rows, unmapped = [], []
    stats = {'entry_points_in_source': len(found), 'covered_by_ops': 0, 'outside_stream': 0, 'unmapped': 0}
    byprop = {}
    for r in found:
        t = by.get(r['entry'])
        if t is None:
            unmapped.append(r['entry'] + ' @' + r['file'])
            stats['unmapped'] += 1
            continue
        if t.get('ops'):
            stats['covered_by_ops'] += 1
            for p in sorted(set(o.split(':')[0] for o in t['ops'])):
                byprop[p] = byprop.get(p, 0) + 1
        else:
            stats['outside_stream'] += 1
        rows.append({'entry': r['entry'], 'file': '%s:%d' % (r['file'], r['line']),
                     'ops': t.get('ops', []), 'theorem': t.get('theorem', ''), 'note': t.get('note', '')})
    # the theorem names quoted by the table must exist (Props/C15.v, owners' Props/Cxx.v)
    root = os.path.dirname(os.path.dirname(os.path.abspath(__file__)))
    thm_names = set()
    for f in os.listdir(os.path.join(root, 'coq', 'Props')):
        if f.endswith('.v'):
            txt = re.sub(r'\(\*.*?\*\)', '', open(os.path.join(root, 'coq', 'Props', f)).read(), flags=re.S)
            thm_names.update(re.findall(r'^\s*(?:Theorem|Example)\s+([A-Za-z0-9_\']+)', txt, re.M))
    kinds = {'c15_theorem': 0, 'c15_theorem_partial': 0, 'owner_theorem': 0, 'owner_theorem_partial': 0,
             'correspondence_and_judge_only': 0}
    missing_thm = set()
    for r in rows:
        t = r['theorem']
        if t.startswith('C15_'):
            kinds['c15_theorem_partial' if t.endswith('_partial') else 'c15_theorem'] += 1
            if t not in thm_names:
                missing_thm.add(t)
        elif t.startswith('owner: '):
            kinds['owner_theorem'] += 1
            if t[7:].strip() not in thm_names:
                missing_thm.add(t[7:].strip())
        elif t.startswith('owner-partial: '):
            kinds['owner_theorem_partial'] += 1
            if t[15:].strip() not in thm_names:
                missing_thm.add(t[15:].strip())
        else:
            kinds['correspondence_and_judge_only'] += 1
    stats['no_panic_evidence_per_entry'] = kinds
    stats['theorems_named_but_missing'] = sorted(missing_thm)
    stale = sorted(set(by) - set(r['entry'] for r in found))
    stats['table_entries_not_in_source'] = stale
    stats['covered_by_property'] = dict(sorted(byprop.items()))
    return {'summary': stats, 'unmapped': unmapped, 'entries': rows}


if __name__ == '__main__':
    repo = os.environ.get('VERIF_REPO', '/repo')
    if len(sys.argv) > 1 and sys.argv[1] == 'scan':
        for r in scan(repo):
            print('%-70s %s:%d   %s' % (r['entry'], r['file'], r['line'], r['ret']))
    else:
        root = os.path.dirname(os.path.dirname(os.path.abspath(__file__)))
        table = json.load(open(os.path.join(root, 'gen', 'C15_inventory.json')))
        rep = report(repo, table)
        print(json.dumps(rep['summary'], indent=1))
        for u in rep['unmapped']:
            print('UNMAPPED', u)
