#!/usr/bin/env python3
"""Lead-only: false-alarm experiment. Applies a BEHAVIOUR-PRESERVING patch (produced by an independent
agent, /tmp/seed/out/BENIGN/Nxx.diff) to a scratch worktree of /repo and runs the quick checks of every
property whose anchored files the patch touches (through VERIF_REPO). Expected: every check exits 0.
usage: benign_eval.py <Nxx> [<check pid> ...]
Writes /verif/seeded/benign/<Nxx>/{patch.diff, meta.json}."""
import json
import os
import re
import shutil
import subprocess
import sys

ROOT = os.path.dirname(os.path.dirname(os.path.abspath(__file__)))


def sh(cmd, cwd=None, timeout=7200, env=None):
    p = subprocess.run(cmd, shell=True, cwd=cwd, stdout=subprocess.PIPE, stderr=subprocess.STDOUT,
                       timeout=timeout, env=env)
    return p.returncode, p.stdout.decode('utf-8', 'replace')


def props_for(files):
    out = []
    for l in open(os.path.join(ROOT, 'properties.jsonl')):
        p = json.loads(l)
        if any(f in p['anchors']['files'] for f in files):
            out.append(p['id'])
    return out


def main():
    nid = sys.argv[1]
    src = '/tmp/seed/out/BENIGN'
    patch = os.path.join(src, nid + '.diff')
    notes = {}
    try:
        notes = json.load(open(os.path.join(src, 'notes.json'))).get(nid, {})
    except Exception:
        pass
    files = re.findall(r'^\+\+\+ b/(\S+)', open(patch).read(), re.M)
    checks = sys.argv[2:] or props_for(files)
    out = os.path.join(ROOT, 'seeded', 'benign', nid)
    os.makedirs(out, exist_ok=True)
    shutil.copy(patch, os.path.join(out, 'patch.diff'))
    meta = {'id': nid, 'files': files, 'kind': notes.get('kind'), 'why_equivalent': notes.get('why_equivalent'),
            'origin': 'independent sub-agent asked for behaviour-preserving refactors (no access to /verif)',
            'checks': {}}
    target = '/tmp/benignrun-%s' % nid
    sh('git -C /repo worktree remove --force %s' % target)
    sh('git -C /repo worktree add -q --detach %s HEAD' % target)
    try:
        rc, o = sh('git apply %s' % patch, cwd=target)
        meta['applies'] = rc == 0
        if rc == 0:
            env = dict(os.environ, VERIF_REPO=target, VERIF_COQCHK='0')
            for c in checks:
                rc, o = sh('./check %s --tier quick' % c, cwd=ROOT, env=env)
                lines = [l for l in o.splitlines() if l.startswith('VIOLATION') or 'translator' in l.lower()]
                meta['checks'][c] = {'exit': rc, 'lines': lines[:6]}
                if rc != 0:
                    try:
                        ev = json.load(open(os.path.join(ROOT, 'evidence', c + '.json')))
                        meta['checks'][c]['notes'] = ev.get('notes', [])[:6]
                    except Exception:
                        pass
    finally:
        sh('git -C /repo worktree remove --force %s' % target)
        # restore the harness to /repo
        env = dict(os.environ)
        env.pop('VERIF_REPO', None)
    json.dump(meta, open(os.path.join(out, 'meta.json'), 'w'), indent=1)
    print(nid, {c: v['exit'] for c, v in meta['checks'].items()})


if __name__ == '__main__':
    main()
