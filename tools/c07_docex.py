#!/usr/bin/env python3
"""Spec validation for C07: every documented example of src/naive/time/mod.rs (corpus/C07/doc_examples.case,
'# expect <value>' precedes each case) must be accepted by the judge and reproduced by the model and by the
implementation.  Usage: python3 tools/c07_docex.py   (after ./check C07 has built the runners)."""
import os, subprocess, sys
ROOT = os.path.dirname(os.path.dirname(os.path.abspath(__file__)))
exp, cases = [], []
pending = None
for l in open(os.path.join(ROOT, 'corpus/C07/doc_examples.case')):
    l = l.strip()
    if l.startswith('# expect '):
        pending = l[len('# expect '):]
    elif l and not l.startswith('#'):
        exp.append(pending); cases.append(l)
def run(cmd, lines):
    p = subprocess.run(cmd, input=('\n'.join(lines) + '\n').encode(), stdout=subprocess.PIPE)
    return p.stdout.decode().split('\n')[:len(lines)]
m = os.path.join(ROOT, 'ocaml/build/C07/modelrun')
i = os.path.join(ROOT, 'harness/target/release/implrun')
jv = run([m, 'judge'], [e + ' ' + c for e, c in zip(exp, cases)])
mv = run([m, 'run'], cases)
iv = run([i], cases)
bad = 0
for k, c in enumerate(cases):
    if jv[k] != 'ok' or mv[k] != exp[k] or iv[k] != exp[k]:
        bad += 1
        print('MISMATCH %s: documented=%s judge=%s model=%s impl=%s' % (c, exp[k], jv[k], mv[k], iv[k]))
print('%d documented examples, %d mismatches' % (len(cases), bad))
sys.exit(1 if bad else 0)
