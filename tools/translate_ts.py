"""Translator family TsConsts (property C02): every numeric literal of the Unix-timestamp constructors and
accessors (src/datetime/mod.rs, src/naive/datetime/mod.rs) -> coq/Gen/TsConsts.v.  Proofs/C02.v pins
these against the literals used by the shared model (Model/DateTime.v) and by Model/C02.v, so that a
changed literal in the source stops the theorems from checking."""
import re

from rustconst import TranslateError, fn_body
from translate import HEADER, defn, read


def num(s):
    return int(s.replace('_', ''))


def one(pattern, body, what):
    m = re.search(pattern, body, re.S)
    if not m:
        raise TranslateError('%s: body not recognised' % what)
    return [num(g) for g in m.groups()]


def gen_ts_consts():
    src = read('src/datetime/mod.rs')
    out = HEADER % 'src/datetime/mod.rs, src/naive/datetime/mod.rs'
    (k,) = one(r'\(gregorian_day - UNIX_EPOCH_DAY\) \* ([\d_]+) \+ seconds_from_midnight', fn_body(src, 'timestamp'), 'timestamp')
    out += defn('TS_DAY_SECS', k)
    (k,) = one(r'self\.timestamp\(\) \* ([\d_]+);\s*as_ms \+ self\.timestamp_subsec_millis\(\) as i64', fn_body(src, 'timestamp_millis'), 'timestamp_millis')
    out += defn('TS_MS_MUL', k)
    (k,) = one(r'self\.timestamp\(\) \* ([\d_]+);\s*as_us \+ self\.timestamp_subsec_micros\(\) as i64', fn_body(src, 'timestamp_micros'), 'timestamp_micros')
    out += defn('TS_US_MUL', k)
    a, b = one(r'if timestamp < 0 \{\s*subsec_nanos -= ([\d_]+);\s*timestamp \+= 1;\s*\}\s*try_opt!\(timestamp\.checked_mul\(([\d_]+)\)\)\.checked_add\(subsec_nanos\)',
               fn_body(src, 'timestamp_nanos_opt'), 'timestamp_nanos_opt')
    out += defn('TS_NS_BORROW', a)
    out += defn('TS_NS_MUL', b)
    (k,) = one(r'self\.timestamp_subsec_nanos\(\) / ([\d_]+)', fn_body(src, 'timestamp_subsec_millis'), 'timestamp_subsec_millis')
    out += defn('TS_SUB_MS_DIV', k)
    (k,) = one(r'self\.timestamp_subsec_nanos\(\) / ([\d_]+)', fn_body(src, 'timestamp_subsec_micros'), 'timestamp_subsec_micros')
    out += defn('TS_SUB_US_DIV', k)
    a, b, c = one(r'millis\.div_euclid\(([\d_]+)\);\s*let nsecs = millis\.rem_euclid\(([\d_]+)\) as u32 \* ([\d_]+);',
                  fn_body(src, 'from_timestamp_millis'), 'from_timestamp_millis')
    out += defn('TS_FROM_MS_DIV', a) + defn('TS_FROM_MS_REM', b) + defn('TS_FROM_MS_MUL', c)
    a, b, c = one(r'micros\.div_euclid\(([\d_]+)\);\s*let nsecs = micros\.rem_euclid\(([\d_]+)\) as u32 \* ([\d_]+);',
                  fn_body(src, 'from_timestamp_micros'), 'from_timestamp_micros')
    out += defn('TS_FROM_US_DIV', a) + defn('TS_FROM_US_REM', b) + defn('TS_FROM_US_MUL', c)
    a, b = one(r'nanos\.div_euclid\(([\d_]+)\);\s*let nsecs = nanos\.rem_euclid\(([\d_]+)\) as u32;',
               fn_body(src, 'from_timestamp_nanos'), 'from_timestamp_nanos')
    out += defn('TS_FROM_NS_DIV', a) + defn('TS_FROM_NS_REM', b)
    m = re.search(r'impl From<SystemTime> for DateTime<Utc> \{(.*?)\n\}', src, re.S)
    if not m:
        raise TranslateError('impl From<SystemTime> for DateTime<Utc> not found')
    (k,) = one(r'if nsec == 0 \{ \(-sec, 0\) \} else \{ \(-sec - 1, ([\d_]+) - nsec\) \}', m.group(1), 'From<SystemTime>')
    out += defn('TS_SYS_NS', k)
    nsrc = read('src/naive/datetime/mod.rs')
    a, b, c = one(r'micros\.div_euclid\(([\d_]+)\);\s*let nsecs = micros\.rem_euclid\(([\d_]+)\) as u32 \* ([\d_]+);',
                  fn_body(nsrc, 'from_timestamp_micros'), 'NaiveDateTime::from_timestamp_micros')
    out += defn('TS_NAIVE_US_DIV', a) + defn('TS_NAIVE_US_REM', b) + defn('TS_NAIVE_US_MUL', c)
    body = fn_body(nsrc, 'from_timestamp_nanos')
    if not re.search(r'nanos\.div_euclid\(NANOS_PER_SEC as i64\);\s*let nsecs = nanos\.rem_euclid\(NANOS_PER_SEC as i64\) as u32;', body):
        raise TranslateError('NaiveDateTime::from_timestamp_nanos: body not recognised')
    return out


FAMILIES = {'TsConsts': gen_ts_consts}
