#!/bin/sh
# lead-only: run every claimed quick check sequentially, print a one-line summary each
cd "$(dirname "$0")/.."
for p in $(python3 -c "import json; print(' '.join(c['property_id'] for c in json.load(open('MANIFEST.json'))['checks']))"); do
  s=$(date +%s)
  out=$(./check $p 2>&1); rc=$?
  echo "$p exit=$rc $(( $(date +%s) - s ))s $(echo "$out" | grep -c '^VIOLATION') violations, $(echo "$out" | grep -c '^KNOWN-FINDING') known"
  echo "$out" | grep '^VIOLATION' | head -3
done
