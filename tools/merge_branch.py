#!/usr/bin/env python3
"""Lead-only helper: merge a contributor branch (wt-Cxx) into main, resolving the files that every
branch touches mechanically: coq/_CoqProject and coq/Gen/* are regenerated, known_findings.json and
trusted_base.json are merged as unions, MANIFEST.json keeps main's version.  Anything else that
conflicts is listed for manual resolution (exit 2, merge left in progress)."""
import json
import os
import subprocess
import sys

ROOT = os.path.dirname(os.path.dirname(os.path.abspath(__file__)))


def git(*a, check=True):
    p = subprocess.run(['git', '-C', ROOT] + list(a), stdout=subprocess.PIPE, stderr=subprocess.STDOUT)
    if check and p.returncode != 0:
        raise SystemExit('git %s failed:\n%s' % (' '.join(a), p.stdout.decode()))
    return p.returncode, p.stdout.decode()


def show(rev, path):
    rc, out = git('show', '%s:%s' % (rev, path), check=False)
    return out if rc == 0 else None


def union_known(a, b):
    out, seen = [], {}
    for k in (a or []) + (b or []):
        key = (k.get('property'), k.get('id'))
        if key in seen:
            # prefer an entry with a real commit hash over PENDING
            old = seen[key]
            if old.get('commit') in (None, 'PENDING') and k.get('commit') not in (None, 'PENDING'):
                out[out.index(old)] = k
                seen[key] = k
            continue
        seen[key] = k
        out.append(k)
    return out


def union_tb(a, b):
    out = dict(a or {})
    for k, v in (b or {}).items():
        if k not in out:
            out[k] = v
        elif isinstance(v, list):
            out[k] = out[k] + [x for x in v if x not in out[k]]
    return out


def main():
    br = sys.argv[1]
    rc, out = git('merge', '--no-commit', '--no-ff', br, check=False)
    print(out)
    rc2, st = git('status', '--porcelain')
    conflicts = [l[3:] for l in st.splitlines() if l[:2] in ('UU', 'AA', 'DU', 'UD', 'AU', 'UA')]
    manual = []
    for f in conflicts:
        if f == 'known_findings.json':
            m = union_known(json.loads(show('HEAD', f) or '[]'), json.loads(show(br, f) or '[]'))
            json.dump(m, open(os.path.join(ROOT, f), 'w'), indent=1)
            git('add', f)
        elif f == 'trusted_base.json':
            m = union_tb(json.loads(show('HEAD', f) or '{}'), json.loads(show(br, f) or '{}'))
            json.dump(m, open(os.path.join(ROOT, f), 'w'), indent=1)
            git('add', f)
        elif f in ('MANIFEST.json', '.gitignore', 'AGENT_GUIDE.md', 'DESIGN.md', 'tools/vcheck.py', 'tools/merge_branch.py'):
            git('checkout', '--ours', f)
            git('add', f)
        elif f == 'coq/_CoqProject' or f.startswith('coq/Gen/') or f.startswith('evidence/'):
            git('checkout', '--theirs', f, check=False)
            git('add', f)
        else:
            manual.append(f)
    # always: non-conflicting auto-merges of the two JSON files may have dropped nothing, but make sure
    # they are still valid JSON
    for f in ('known_findings.json', 'trusted_base.json', 'MANIFEST.json'):
        json.load(open(os.path.join(ROOT, f)))
    if manual:
        print('MANUAL RESOLUTION NEEDED:\n  ' + '\n  '.join(manual))
        return 2
    # regenerate generated files
    subprocess.run([sys.executable, os.path.join(ROOT, 'tools', 'translate.py')], cwd=ROOT)
    sys.path.insert(0, os.path.join(ROOT, 'tools'))
    import vcheck
    vcheck.ensure_makefile()
    git('add', '-A')
    print('merged %s (not yet committed): run the checks, then `git commit`' % br)
    return 0


if __name__ == '__main__':
    sys.exit(main())
