"""Translator family Round: the literal constants of src/round.rs -> coq/Gen/Round.v.
  * span_for_digits: the (digits => span) arms and the default arm,
  * the comparison literal of the `span <= 0` guard of duration_round/trunc/round_up,
  * the order of the RoundingError variants (discriminants) and their names."""
import re

from rustconst import TranslateError, fn_body, strip_comments
from translate import HEADER, defn, read, zlist


def _int(lit):
    return int(lit.replace('_', ''), 0)


def gen_round():
    src = read('src/round.rs')
    out = HEADER % 'src/round.rs'
    body = fn_body(src, 'span_for_digits')
    m = re.search(r'match\s+digits\s*\{(.*?)\}', body, re.S)
    if not m:
        raise TranslateError('span_for_digits: match not recognised')
    arms = [a.strip() for a in m.group(1).split(',') if a.strip()]
    keys, vals, default = [], [], None
    for a in arms:
        mm = re.match(r'^(_|[0-9_]+)\s*=>\s*([0-9_]+)$', a)
        if not mm:
            raise TranslateError('span_for_digits: arm not recognised: %r' % a)
        if mm.group(1) == '_':
            if default is not None:
                raise TranslateError('span_for_digits: two default arms')
            default = _int(mm.group(2))
        else:
            if default is not None:
                raise TranslateError('span_for_digits: arm after the default arm')
            keys.append(_int(mm.group(1)))
            vals.append(_int(mm.group(2)))
    if default is None or not keys:
        raise TranslateError('span_for_digits: no default arm')
    out += zlist('RD_SPAN_KEYS', keys)
    out += zlist('RD_SPAN_VALS', vals)
    out += defn('RD_SPAN_DEFAULT', default)
    # the `span <= LIT` guards of the three helpers must all be present and agree
    lits = set()
    for fn in ('duration_round', 'duration_trunc', 'duration_round_up'):
        # which=1: the generic helper (the first occurrences are the trait method declarations)
        found = None
        k = 0
        while True:
            try:
                b = fn_body(src, fn, k)
            except TranslateError:
                break
            g = re.search(r'if\s+span\s*<=\s*([0-9_]+)\s*\{\s*return\s+Err\(RoundingError::(\w+)\)', b)
            if g:
                found = g
            k += 1
        if not found:
            raise TranslateError('%s: span guard not recognised' % fn)
        if found.group(2) != 'DurationExceedsLimit':
            raise TranslateError('%s: span guard returns %s' % (fn, found.group(2)))
        lits.add(_int(found.group(1)))
    if len(lits) != 1:
        raise TranslateError('span guards disagree: %s' % sorted(lits))
    out += defn('RD_SPAN_GUARD', lits.pop())
    # RoundingError variants in declaration order
    s = strip_comments(src)
    m = re.search(r'pub enum RoundingError\s*\{(.*?)\n\}', s, re.S)
    if not m:
        raise TranslateError('enum RoundingError not found')
    names = re.findall(r'^\s*([A-Z]\w+)\s*,', m.group(1), re.M)
    if names != ['DurationExceedsTimestamp', 'DurationExceedsLimit', 'TimestampExceedsLimit']:
        raise TranslateError('RoundingError variants changed: %s' % names)
    out += defn('RD_ERR_COUNT', len(names))
    return out


FAMILIES = {'Round': gen_round}
