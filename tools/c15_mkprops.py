#!/usr/bin/env python3
"""Writes coq/Props/C15.v: one `Theorem C15_x : <statement>. Proof. exact <lemma>. Qed.` + Print Assumptions per
entry of SECTIONS, the statement copied verbatim from the lemma of coq/Proofs/C15*.v it is closed by, and a
closing comment listing (from gen/C15_inventory.json) which inventory entries have a no-panic theorem and
which are covered by correspondence + judge only.  Run after changing Proofs/C15*.v or the inventory table."""
import json, os, re, sys
ROOT = os.path.dirname(os.path.dirname(os.path.abspath(__file__)))
COQ = sys.argv[1] if len(sys.argv) > 1 else os.path.join(ROOT, 'coq')
def lemmas(path):
    src = open(path).read()
    out = {}
    for m in re.finditer(r'^\s*(?:Lemma|Theorem) (\w+)((?:\s+(?:\([^)]*\)|\w+))*)\s*:\s*(.*?)\.\nProof', src, re.S | re.M):
        name, binders, stmt = m.group(1), m.group(2).strip(), m.group(3).strip()
        out[name] = (binders, stmt)
    return out
L = {}
L.update(lemmas(COQ + '/Proofs/C15.v'))
L.update(lemmas(COQ + '/Proofs/C15Owners.v'))
L.update(lemmas(COQ + '/Proofs/C15Strftime.v'))
L.update(lemmas(COQ + '/Proofs/C15Wide.v'))
L.update(lemmas(COQ + '/Proofs/C15Text.v'))
for extra in ('C15Utf8', 'C15SfItems', 'C15Parse', 'C15Deep', 'C15Format', 'C15Errors', 'C15Serde'):
    if os.path.exists(COQ + '/Proofs/%s.v' % extra):
        L.update(lemmas(COQ + '/Proofs/%s.v' % extra))

SECTIONS = [
 ("NaiveDate constructors (C01): every i32 / u32 argument; never a trap; the date returned is valid", [
   ('C15_from_ymd_opt_total', 'from_ymd_opt_total', ''),
   ('C15_from_yo_opt_total', 'from_yo_opt_total', ''),
   ('C15_from_isoywd_opt_total', 'from_isoywd_opt_total', 'includes year = i32::MIN / i32::MAX (the year - 1 / year + 1 spill repaired by f8bab14)'),
   ('C15_from_num_days_from_ce_opt_total', 'from_num_days_from_ce_opt_total', ''),
   ('C15_succ_pred_total', 'succ_pred_total', ''),
 ]),
 ("NaiveTime constructors and field replacement (C07): every u32 argument (u32::MAX in every position included)", [
   ('C15_time_ctor_total', 'time_ctor_total', ''),
   ('C15_and_hms_total', 'and_hms_all_total', 'NaiveDate::and_hms_opt / _milli / _micro / _nano (ops c15.d.hms, hmsm, hmsu, hmsn)'),
   ('C15_ndt_with_time_total', 'ndt_with_time_total', 'impl Timelike for NaiveDateTime (op c15.ndt.witht)'),
 ]),
 ("TimeDelta (C06): every valid duration, every i32 factor / divisor, every i64 count", [
   ('C15_td_ctor_valid', 'td_ctor_valid', 'new / try_weeks .. try_seconds are plain functions in the model (no trapping step): a returned duration is in range'),
   ('C15_td_millis_total', 'td_millis_total', ''),
   ('C15_td_micros_nanos_total', 'td_micros_nanos_total', ''),
   ('C15_td_add_total', 'td_add_total', ''),
   ('C15_td_sub_total', 'td_sub_total', ''),
   ('C15_td_mul_total', 'td_mul_total', 'MAX.checked_mul(2) is refused (range check after the multiplication, 9a6fec9)'),
   ('C15_td_div_total', 'td_div_total', 'a zero divisor is refused by value before the division'),
   ('C15_td_display_total', 'td_display_total', ''),
 ]),
 ("Unix timestamps (C02): every i64 count, every u32 nanosecond field (i64::MIN / i64::MAX micros included)", [
   ('C15_from_timestamp_total', 'from_timestamp_total', ''),
   ('C15_from_timestamp_millis_total', 'from_timestamp_millis_total', ''),
   ('C15_from_timestamp_micros_total', 'from_timestamp_micros_total', ''),
   ('C15_from_timestamp_nanos_total', 'from_timestamp_nanos_total', ''),
   ('C15_tz_timestamp_total', 'tz_timestamp_total', 'TimeZone::timestamp_opt / timestamp_millis_opt / timestamp_micros, fixed offset or Utc'),
   ('C15_timestamp_nanos_opt_total', 'timestamp_nanos_opt_full', 'EVERY well-formed date-time, a leap-second fraction on any second included: never a trap; a returned count is the instant and fits i64 (None exactly outside i64 on non-leap and second-59 values: C02_timestamp_nanos_opt_spec / _leap59)'),
   ('C15_timestamp_nanos_opt_total_partial', 'timestamp_nanos_opt_total', 'the older form: non-leap values (kept under its name; superseded by C15_timestamp_nanos_opt_total)'),
 ]),
 ("Elapsed-time arithmetic (C03 for non-leap values, C07's timeline theorems C07_ndt_leap_add / _sub for leap-second operands): EVERY well-formed date-time ([Proofs.C04.ndt_ok] / [dtz_ok]: nanosecond field < 2*10^9), every duration, every u64 day count; the result is well-formed again.  The forms named _partial are the older statements over non-leap values (C03's nvalid), kept under their names", [
   ('C15_ndt_signed_total', 'ndt_signed_full', 'leap-second operands included'),
   ('C15_ndt_days_total', 'ndt_days_full', 'leap-second operands included; Days::new(u64::MAX) included'),
   ('C15_dtz_signed_total', 'dtz_signed_full', 'leap-second operands included; the offset is kept'),
   ('C15_date_days_total', 'date_days_total', 'Days::new(u64::MAX) included'),
   ('C15_date_signed_total', 'date_signed_total', 'TimeDelta::MIN / MAX included'),
   ('C15_ndt_signed_total_partial', 'ndt_signed_total', 'older form: non-leap values'),
   ('C15_ndt_days_total_partial', 'ndt_days_total', 'older form: non-leap values'),
   ('C15_dtz_signed_total_partial', 'dtz_signed_total', 'older form: non-leap values'),
 ]),
 ("Zone-aware date-times (C04): fixed offsets and Utc", [
   ('C15_fixed_offset_ctor_total', 'fixed_offset_ctor_total', 'east_opt is a plain function (no trapping step); west_opt negates: i32::MIN is refused before the negation'),
   ('C15_from_local_datetime_total', 'from_local_datetime_total', 'TimeZone::from_local_datetime = NaiveDateTime::and_local_timezone (op c15.ndt.andtz): Single or None, never Ambiguous'),
   ('C15_overflowing_naive_local_total', 'overflowing_naive_local_total', 'the non-panicking wall-clock view the renderers and rounding use'),
   ('C15_with_time_total', 'with_time_total', 'with the range filter of 6a10a33: a Single result is inside MIN_UTC..=MAX_UTC'),
   ('C15_dtz_with_time_field_total', 'dtz_with_time_field_total', 'with_hour / with_minute / with_second / with_nanosecond of DateTime: any wall clock, headroom dates included'),
   ('C15_with_ymd_and_hms_total', 'with_ymd_and_hms_total', ''),
   ('C15_ndt_offset_total', 'ndt_offset_total', 'NaiveDateTime::checked_add_offset / checked_sub_offset (ops c15.ndt.addoff, c15.ndt.suboff)'),
   ('C15_dtz_with_date_field_total', 'dtz_with_date_field_total', 'with_year / with_month(0) / with_day(0) / with_ordinal(0) of DateTime: EVERY well-formed date-time, wall clock in the one-day headroom included (C04_replace_date_field)'),
   ('C15_dtz_days_total', 'dtz_days_total', 'checked_add_days / checked_sub_days of DateTime: every well-formed date-time, headroom included (C04_add_days, C04_sub_days); Days::new(u64::MAX) included'),
   ('C15_dtz_months_total', 'dtz_months_total', 'checked_add_months / checked_sub_months of DateTime: every well-formed date-time, headroom included (C04_months); Months::new(u32::MAX) included'),
   ('C15_dtz_with_date_field_partial', 'dtz_with_date_field_partial', 'older form: wall clock inside the NaiveDateTime range'),
   ('C15_dtz_days_partial', 'dtz_days_partial', 'older form: as above'),
   ('C15_dtz_months_partial', 'dtz_months_partial', 'older form: as above'),
   ('C15_mlt_selectors', 'mlt_selectors', 'MappedLocalTime::single / earliest / latest are pattern matches in the model (no trapping step); what they return'),
   ('C15_offset_from_local_total', 'offset_from_local_total', 'TimeZone::offset_from_local_date / offset_from_local_datetime of FixedOffset and Utc (op c15.offlocal): the constant answer Single(self), twice'),
 ]),
 ("Month stepping, date-field replacement, week helpers (C08): every date, every u32 / i32 argument", [
   ('C15_date_months_total', 'date_months_total', ''),
   ('C15_date_with_total', 'date_with_total', 'with_month0 / day0 / ordinal0 (u32::MAX + 1 does not fit: checked_add) included'),
   ('C15_week_total', 'week_total', ''),
   ('C15_from_weekday_of_month_opt_total', 'from_weekday_of_month_opt_total', ''),
   ('C15_years_since_total', 'years_since_total', ''),
   ('C15_month_num_days_total', 'month_num_days_total', ''),
   ('C15_ndt_months_total', 'ndt_months_total', ''),
 ]),
 ("Field resolution (C14).  C14 states its absence-of-traps theorems modulo three ISO-week facts about Model/Date.v; they are discharged here from C01's theorems (C01_iso_week, C01_from_isoywd_opt, C01_iso_form), so the statements below are unconditional", [
   ('C15_fact_iso_week_total', 'fact_iso_week_total', ''),
   ('C15_fact_isoywd_total', 'fact_isoywd_total', ''),
   ('C15_fact_isoywd_roundtrip', 'fact_isoywd_roundtrip', ''),
   ('C15_parsed_setters_total', 'parsed_setters_total', 'all 22 set_* methods, every i64 argument'),
   ('C15_to_naive_date_total', 'to_naive_date_total', 'every field state the setters can produce (typed); a returned date is valid'),
   ('C15_to_naive_time_total', 'to_naive_time_total', ''),
   ('C15_to_naive_datetime_with_offset_total', 'to_naive_datetime_with_offset_total', 'every i32 offset; includes the minimum timestamp with second 60 (dd0e5ce)'),
   ('C15_to_datetime_total', 'to_datetime_total', 'Parsed::to_datetime on every typed field state, the last step (offset range check, from_local_datetime) included (C14_to_datetime_never_panics); a returned date-time is well formed'),
   ('C15_to_datetime_with_timezone_total', 'to_datetime_with_timezone_total', 'Parsed::to_datetime_with_timezone for every FixedOffset / Utc zone (C14_to_datetime_with_timezone_never_panics); the result carries the zone\'s offset'),
   ('C15_parsed_getters_valid', 'parsed_getters_valid', 'the 21 getters (year .. offset) are plain projections in the model (no trapping step): on every typed state -- every state the setters (C14_setters_keep_typed) and the readers (C15_parse_items_total) produce -- a returned value is a value of the getter\'s Rust type'),
 ]),
 ("Weekday / Month conversions and FromStr (C19)", [
   ('C15_weekday_month_conversions', 'weekday_month_conversions', 'all thirteen FromPrimitive / TryFrom conversions are plain functions in the model: a returned value is a Weekday / Month'),
   ('C15_weekday_month_from_str_total', 'weekday_month_from_str_total', ''),
 ]),
 ("Rounding (C17): DurationRound for NaiveDateTime and for DateTime<Tz> ([Proofs.C17.ndt_op m] / [dz_op m] are duration_trunc / duration_round_up / duration_round of Model/Round.v; DateTime as repaired by f2640c4: the wall clock is read with overflowing_naive_local).  EVERY well-formed value, leap-second fractions included, every span (TimeDelta::MIN / MAX / zero included): the call returns -- an error value or a well-formed value.  C17's value theorems (C17_naive_value, C17_zoned_value ...) are over non-leap inputs, whose stamp moves exactly; for a leap-second input the helpers still return (Proofs/C15Wide.v: an i64 stamp pins the input within 106 753 days of the epoch, the amount added or subtracted is a positive span below 2^63 ns, and C07's timeline arithmetic succeeds there); a headroom wall clock has no i64 stamp: Err(TimestampExceedsLimit)", [
   ('C15_ndt_round_total', 'ndt_round_full', ''),
   ('C15_dtz_round_total', 'dtz_round_total', 'DateTime<Tz>: duration_round / duration_trunc / duration_round_up'),
   ('C15_ndt_links_nonleap', 'ndt_links_nonleap', 'the older route: C17 premise discharged from C02 and C03 for non-leap date-times'),
   ('C15_ndt_round_total_partial', 'ndt_round_total_partial', 'older form: non-leap date-times'),
 ]),
 ("Parsers.  [str_ok s]: s is well-formed UTF-8 (Base/Utf8.v; the same strings as Model/Strftime.v's predicate: C15_utf8_predicates_agree) of a length a Rust string can have (at most u64::MAX bytes; the RFC 2822 reader and the format-string iterator do usize arithmetic on lengths).  The premise SF_ERROR_CONSUMES = true is the translator's reading of the repaired error() of src/format/strftime.rs (d664290), as in the StrftimeItems theorems below", [
   ('C15_parse_from_rfc3339_total', 'parse_from_rfc3339_total', 'every well-formed UTF-8 string (C10)'),
   ('C15_parse_from_rfc2822_total', 'parse_from_rfc2822_total', 'DateTime::parse_from_rfc2822: EVERY string (C11_parse_never_panics + C14_to_datetime_never_panics); a returned date-time is well formed'),
   ('C15_parse_items_total', 'parse_items_full', 'format::parse / parse_and_remainder over EVERY item list whose literals are strings, the Fixed::RFC2822 item included (C13_parse_never_panics), every input: never a trap; an accepted input leaves a typed field state (Proofs/C15Parse.v) and a well-formed remainder.  Supersedes C15_parse_items_total_partial'),
   ('C15_parse_items_total_partial', 'parse_items_total', 'the older form (kept under its name; superseded by C15_parse_items_total): item lists without Fixed::RFC2822'),
   ('C15_utf8_predicates_agree', 'utf8_valid_eq', 'the two executable statements of UTF-8 well-formedness in the models accept the same strings'),
   ('C15_strftime_items_wellformed', 'yields_wf', 'every item the strict format-string iterator yields is well formed: a Literal carries a well-formed string ([st_ok]: strict mode, well-formed remainder of at most u64::MAX bytes, well-formed queued items; [st_ok_new]: StrftimeItems::new(fmt) is such a state)'),
   ('C15_date_parse_from_str_total', 'date_parse_from_str_total', 'NaiveDate::parse_from_str(s, fmt): EVERY format string, EVERY input -- iterator, lazily driven reader (C13_parse_sf_loop_is_parse_items), to_naive_date; a returned date is valid'),
   ('C15_time_parse_from_str_total', 'time_parse_from_str_total', 'NaiveTime::parse_from_str'),
   ('C15_ndt_parse_from_str_total', 'ndt_parse_from_str_total', 'NaiveDateTime::parse_from_str'),
   ('C15_dt_parse_from_str_total', 'dt_parse_from_str_total', 'DateTime::<FixedOffset>::parse_from_str'),
   ('C15_date_parse_and_remainder_total', 'date_parse_and_remainder_total', 'T::parse_and_remainder(s, fmt): the value is valid and the remainder handed back is a string again'),
   ('C15_time_parse_and_remainder_total', 'time_parse_and_remainder_total', ''),
   ('C15_ndt_parse_and_remainder_total', 'ndt_parse_and_remainder_total', ''),
   ('C15_dt_parse_and_remainder_total', 'dt_parse_and_remainder_total', ''),
   ('C15_naive_date_from_str_total', 'naive_date_from_str_total', 'the FromStr impls built on the item reader with the fixed item lists of Gen/TextForms.v (Model/FromStr.v): EVERY input'),
   ('C15_naive_time_from_str_total', 'naive_time_from_str_total', 'three reader calls (the second may fail and is then ignored) and to_naive_time'),
   ('C15_naive_datetime_from_str_total', 'naive_datetime_from_str_total', ''),
   ('C15_datetime_fixed_from_str_total', 'datetime_fixed_from_str_total', 'the relaxed RFC 3339 reader (C13_rfc3339_relaxed_never_panics), trailing white space, to_datetime'),
   ('C15_datetime_utc_from_str_total', 'datetime_utc_from_str_total', 'the same, then with_timezone(&Utc)'),
   ('C15_fixed_offset_from_str_total', 'fixed_offset_from_str_total', 'the offset scanner (C13_timezone_offset_never_panics), then east_opt'),
 ]),
 ("The RFC 3339 renderers never trap: EVERY well-formed date-time -- any year (the one-day headroom seen through an offset included: the repaired defect of to_rfc3339_opts), any offset (seconds included), leap-second fraction on any second -- and every SecondsFormat (0 Secs .. 4 AutoSi).  The writer is total (Proofs/C15Text.v on the writer lemmas of C09 / C10 / C20); what the text IS is C10's theorem on its writer domain (C10_writer_in_grammar)", [
   ('C15_to_rfc3339_total', 'to_rfc3339_total', ''),
   ('C15_to_rfc3339_opts_total', 'to_rfc3339_opts_total', ''),
   ('C15_to_rfc3339_opts_total_partial', 'to_rfc3339_opts_total_partial', 'older form: C10 writer domain (whole-minute offsets, wall-clock year 0..9999, leap-second field only on second 59)'),
 ]),
 ("DelayedFormat never traps (Proofs/C15Format.v): EVERY item -- every Numeric with every Pad, every Fixed incl. the internal ones and the RFC 2822 / RFC 3339 items, literals, the Error item -- on EVERY value of the five kinds (NaiveDate, NaiveTime, NaiveDateTime, DateTime<FixedOffset> with any offset and the wall-clock day one day outside the date range, DateTime<Utc>): the text, or fmt::Error by value (an item the value has no field for; a year outside 0..=9999 under the RFC 2822 item; the Error item).  Hence write_to / Display over arbitrary item lists and over StrftimeItems (strict or lenient) of every format string.  What the text IS on the documented family: C12_format_spec_family", [
   ('C15_format_item_never_traps', 'format_item_never_traps', 'one item; [Proofs.C12.args_view a sv]: the formatter arguments denote a value (C12_args_view_date .. C12_args_view_dtz_all: every value has such a view)'),
   ('C15_delayed_format_items_total', 'delayed_format_items_total', 'DelayedFormat::write_to / Display over an arbitrary item list (format_with_items), the five kinds of value'),
   ('C15_delayed_format_strftime_total', 'delayed_format_strftime_total', 'DelayedFormat<StrftimeItems>: every format string, strict (repaired error()) or lenient (op c15.writeto, sf.fmt, sf.fmtl)'),
 ]),
 ("Debug / Display of values never trap (to_string() / format!(\"{:?}\") panic on a writer error: there is none): every valid NaiveDate, NaiveTime, NaiveDateTime (leap-second fractions included), every FixedOffset (seconds included), Utc, and every well-formed DateTime<Tz> ([utc] = true: Tz = Utc) -- wall clock in the one-day headroom included.  What the text IS: C09's shape theorems (C09_shape_date ...) on their domain", [
   ('C15_show_date_total', 'show_date_total', ''),
   ('C15_show_time_total', 'show_time_total', ''),
   ('C15_show_ndt_total', 'show_ndt_total', ''),
   ('C15_show_fixed_offset_total', 'show_fixed_offset_total', ''),
   ('C15_show_utc_total', 'show_utc_total', ''),
   ('C15_show_dtz_total', 'show_dtz_total', ''),
 ]),
 ("Display / Debug of the error types, Debug of IsoWeek and of WeekdaySet (ops c15.errtext, c15.isoweek.dbg, c15.wdset.dbg; Proofs/C15Errors.v).  The impls write a literal (read from the sources by the translator: Gen/ErrText.v) or format two integers; there is no failing step in the model, so to_string() / format!(\"{:?}\") of these values cannot panic on a writer error.  [err_dom which variant]: the selector names a value of an error type -- which 0 ParseError (variant = ParseErrorKind 0..6), 1 / 2 OutOfRange Display / Debug, 3 / 4 ParseMonthError, 5 / 6 ParseWeekdayError, 7 RoundingError (variant 0..2), 8 OutOfRangeError", [
   ('C15_error_texts_total', 'error_texts_total', 'every value of every error type has a text: a non-empty well-formed string'),
   ('C15_error_texts_domain', 'error_texts_domain', 'and no other selector has one'),
   ('C15_isoweek_debug_total', 'isoweek_debug_total', 'format!(\"{:?}\", date.iso_week()) for every date (the ISO week exists: C15_fact_iso_week_total)'),
   ('C15_wdset_debug_total', 'wdset_debug_total', 'Debug of WeekdaySet: the prefix, exactly seven binary digits, the suffix'),
 ]),
 ("The serde carriers (Model/Serde.v; stream, data formats and round trips are C20's) never trap, at full strength (Proofs/C15Serde.v): the string deserializers are the FromStr impls (visit_str = value.parse()) -- every string; a visitor method an impl does not define is serde's invalid-type error, by value; [sval_ok v]: a string handed to visit_str is a string of a length a Rust string can have.  The string serializers of NaiveTime / NaiveDateTime: every value, leap-second fractions on any second included.  The sixteen timestamp helper modules ([Proofs.C20Ts.plain_mods] / [option_mods]: the module numbers of Gen/SerdeConsts.v): serialize of EVERY well-formed date-time (C20_ts_serialize_spec states the written number for non-leap values)", [
   ('C15_serde_de_date_total', 'de_date_total', ''),
   ('C15_serde_de_time_total', 'de_time_total', ''),
   ('C15_serde_de_ndt_total', 'de_ndt_total', ''),
   ('C15_serde_de_dt_fixed_total', 'de_dt_fixed_total', ''),
   ('C15_serde_de_dt_utc_total', 'de_dt_utc_total', ''),
   ('C15_serde_de_names_total', 'de_names_total', 'Weekday / Month: the premises of C15_weekday_month_from_str_total on the string'),
   ('C15_serde_ser_time_total', 'ser_time_total', ''),
   ('C15_serde_ser_ndt_total', 'ser_ndt_total', ''),
   ('C15_serde_ts_serialize_total', 'ts_serialize_total', 'timestamp() / _millis() / _micros() do not overflow anywhere in the range (C02_timestamp*_no_overflow), timestamp_nanos_opt() = None is the custom error'),
   ('C15_serde_ts_serialize_option_total', 'ts_serialize_option_total', ''),
 ]),
 ("The format-string iterator NEVER TRAPS (dedicated proof, Proofs/C15Strftime.v: every slice of strftime.rs is taken at a character boundary of the well-formed input, the index arithmetic stays in usize, assert!(nextspec > 0) holds), strict or lenient, with or without the repair of error(); with C12's termination theorem: it yields a finite item list of at most 13 items per byte, and StrftimeItems::parse / parse_to_owned / count return", [
   ('C15_strftime_never_panics', 'strftime_never_panics', ''),
   ('C15_strftime_items_total', 'strftime_items_total', ''),
   ('C15_strftime_parse_total', 'strftime_parse_total', ''),
 ]),
 ("Format-string items: iteration ends (the fuel of the drain, 16*len+32 calls, is never exhausted) after at most 13 items per input byte; strict mode on the repaired code (SF_ERROR_CONSUMES is read from src/format/strftime.rs by the translator: d664290), lenient mode always", [
   ('C15_strftime_items_bounded', 'strftime_items_bounded', ''),
   ('C15_item_count_bounded', 'item_count_bounded', ''),
   ('C15_strftime_parse_ends', 'sf_parse_no_fuel', 'StrftimeItems::parse / parse_to_owned'),
 ]),
]
HEADER = '''(** C15 -- fallible operations fail by value, not by panic or hang.
    Theorem-only file (written by tools/c15_mkprops.py): each theorem is closed by [exact] of a lemma of
    Proofs/C15.v, Proofs/C15Owners.v, Proofs/C15Wide.v, Proofs/C15Text.v, Proofs/C15Strftime.v, Proofs/C15Deep.v (with C15Parse.v,
    C15SfItems.v, C15Utf8.v) and followed by
    [Print Assumptions].

    C15 is cross-cutting: its model is the union of all properties' models (Model/C15.v) and its
    theorems are corollaries of the owners' theorems (Props/C01.v ... Props/C19.v), restated in the one
    form the property speaks about:

        for ALL arguments of the Rust argument types, the modelled entry point RETURNS
        ([returns r]: r is neither [Panic] -- an arithmetic overflow, a slice off a character boundary,
        an index out of bounds, an unwrap of None -- nor [OutOfFuel] -- a loop that did not end within
        its proved bound), and a returned value is a VALID value of its type (validity in the owner's
        vocabulary: [date_valid] = exists y o, repr y o d; Proofs.C02.valid_ndt; Proofs.C03.nvalid / vdate;
        Proofs.C04.dtz_ok / ndt_ok / off_ok; Proofs.C06.valid; [time_valid] = Proofs.Time.tvalid).

    plus one dedicated proof (Proofs/C15Strftime.v): the slice-safety invariant of the format-string
    iterator.  Theorems named *_partial exclude a stated sub-domain (the comment in front says which); where the
    owners' restrictions have been lifted since, the full statement stands next to the older partial one.
    Which inventory entries (gen/C15_inventory.json, printed in the evidence) have such a theorem and
    which are covered by correspondence + judge only is listed at the end of this file. *)
From Coq Require Import ZArith List Bool String.
From V Require Import Base.Int Base.IO Spec.Gregorian Model.Strftime Proofs.C15 Proofs.C15Owners Proofs.C15Strftime Proofs.C15Wide Proofs.C15Text Proofs.C15Utf8 Proofs.C15SfItems Proofs.C15Deep Proofs.C15Format Proofs.C15Errors Proofs.C15Serde.
From V Require Model.Date Model.Time Model.DateTime Model.TimeDelta Model.DateExtra Model.Parsed Model.Parse Model.Rfc3339 Model.Show Model.Round Model.C02 Model.C15 Model.C19 Gen.Strftime
               Base.Utf8 Model.Scan Model.FromStr Model.Rfc2822 Model.Format Model.Serde Model.ScanNames Proofs.C12 Proofs.C13Total Proofs.C13Time Proofs.C14 Proofs.C19 Proofs.C20Ts.
Import ListNotations.
Open Scope Z_scope.

'''
TAIL = '''(** ** the hypotheses are inhabited *)
Example C15_hypotheses_inhabited :
  date_valid (Model.Date.D_MAX) /\\ Gen.Strftime.SF_ERROR_CONSUMES = true /\\
  Model.C15.item_count (B"%c%c") false = VInt 26 /\\ Model.C15.sf_parse (B"%Q") false = VErr B"BadFormat".
Proof. exact hypotheses_inhabited. Qed.
Print Assumptions C15_hypotheses_inhabited.
'''
out = [HEADER]
missing = []
for title, items in SECTIONS:
    out.append('(** ** %s *)' % title)
    for thm, lem, note in items:
        if lem not in L:
            missing.append(lem); continue
        binders, stmt = L[lem]
        if note:
            out.append('(* %s *)' % note)
        head = ('forall %s, ' % binders) if binders else ''
        out.append('Theorem %s : %s\n  %s.\nProof. exact %s. Qed.\nPrint Assumptions %s.' % (thm, head, stmt, lem, thm))
    out.append('')
out.append(TAIL)
if 'wide_hypotheses_inhabited' in L:
    out.append('(* ... and those of the full forms: [z_wide] = MAX_UTC\'s last second with a leap-second fraction seen from +02:00 (wall clock\n   one day outside the date range), [l_wide] = 2016-12-31T23:59:60.5 (Proofs/C15Text.v) *)')
    out.append('Example C15_wide_hypotheses_inhabited :\n  %s.\nProof. exact wide_hypotheses_inhabited. Qed.\nPrint Assumptions C15_wide_hypotheses_inhabited.\n' % L['wide_hypotheses_inhabited'][1])
if 'serde_hypotheses_inhabited' in L:
    out.append('Example C15_serde_hypotheses_inhabited :\n  %s.\nProof. exact serde_hypotheses_inhabited. Qed.\nPrint Assumptions C15_serde_hypotheses_inhabited.\n' % L['serde_hypotheses_inhabited'][1])
if 'errors_hypotheses_inhabited' in L:
    out.append('Example C15_errors_hypotheses_inhabited :\n  %s.\nProof. exact errors_hypotheses_inhabited. Qed.\nPrint Assumptions C15_errors_hypotheses_inhabited.\n' % L['errors_hypotheses_inhabited'][1])
if 'deep_hypotheses_inhabited' in L:
    out.append('(* ... and those of the text entry points (Proofs/C15Deep.v): [ex_fmt] = "%a, %d %b %Y %T %z \\u00e9", [ex_text] = "Tue, 01 Jul 2003 10:52:37 +0200 \\u00e9" *)')
    out.append('Example C15_deep_hypotheses_inhabited :\n  %s.\nProof. exact deep_hypotheses_inhabited. Qed.\nPrint Assumptions C15_deep_hypotheses_inhabited.\n' % L['deep_hypotheses_inhabited'][1])
# closing comment: the inventory by kind of no-panic evidence
table = json.load(open(os.path.join(ROOT, 'gen', 'C15_inventory.json')))
groups = {}
for e in table['entries']:
    groups.setdefault(e['theorem'], []).append(e['entry'])
def short(e):
    return e.replace('(*', '( *').replace('*)', '* )')
lines = ['(** ** Inventory of the public fallible entry points (gen/C15_inventory.json) by kind of no-panic evidence', '']
for kind, test in (('THEOREM of this file', lambda t: t.startswith('C15_') and not t.endswith('_partial')),
                   ('PARTIAL theorem of this file (sub-domain stated at the theorem)', lambda t: t.startswith('C15_') and t.endswith('_partial')),
                   ("OWNER's theorem states [= Val ...] for all typed arguments (not restated here)", lambda t: t.startswith('owner: ')),
                   ("OWNER's theorem on a stated sub-domain (partial; elsewhere correspondence + judge)", lambda t: t.startswith('owner-partial: ')),
                   ('correspondence + judge ONLY', lambda t: t.startswith('none'))):
    lines.append('   %s:' % kind)
    for t in sorted(groups):
        if test(t):
            es = groups[t]
            lines.append('     %s' % short(t))
            row = '       '
            for e in es:
                e = short(e)
                if len(row) + len(e) > 112:
                    lines.append(row.rstrip()); row = '       '
                row += e + '; '
            lines.append(row.rstrip())
    lines.append('')
lines += [
 '   What the theorems above do NOT state, and why (covered by the correspondence run + judge only):',
 '     - premises kept: [str_ok] / the length bounds (a Rust string has at most isize::MAX bytes, so the premise',
 '       excludes nothing real); Gen.Strftime.SF_ERROR_CONSUMES = true (the repaired error() of strftime.rs: on an',
 '       unrepaired tree the strict iterator yields Error items for ever and the theorems do not apply -- the',
 '       check then reports the hang through c15.itemcount / sf.items); [Proofs.C14.typed] (the Rust types of the',
 '       Parsed fields); [Proofs.C12.args_view] (discharged for every value by the *_has_view lemmas of',
 '       Proofs/C15Format.v, stated inside C15_delayed_format_items_total / _strftime_total);',
 '     - the 45 entries under OWNER: the owner\'s theorem already has the form [f args = Val ...] for all typed',
 '       arguments; they are not restated here (a restatement would add no proof);',
 '     - not modelled at all, hence outside every theorem: the Local zone and its tz_info reader (C05 / C16 / C18,',
 '       environment dependent; excluded from the inventory by the property text), the locale-aware formatting',
 '       of the unstable-locales feature, serde\'s own dispatch and the data formats (C20 trusted base), rkyv /',
 '       arbitrary glue, and everything core::fmt does below a write! with arguments (padding of integers:',
 '       modelled by Model.Format.fmt_int, compared with the code by the correspondence run);',
 '     - the link between model and code itself: every theorem is about the Gallina model; that the model IS the',
 '       code is the correspondence run (same cases through implrun and modelrun) -- see trusted_base.json.',
 '']
lines.append('*)')
out.append('\n'.join(lines))
open(os.path.join(COQ, 'Props', 'C15.v'), 'w').write('\n'.join(out) + '\n')
print('%d theorems written' % sum(len(i) for _, i in SECTIONS))
if missing: sys.stderr.write('MISSING: %s\n' % missing)
