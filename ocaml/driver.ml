(* Generic driver for the extracted model of one property.  It only moves bytes:
   every line is handed to the extracted [verif_run_line] / [verif_judge_line]
   (parsing, evaluation and printing all happen in extracted Gallina code). *)

let rec pos_of_int n : Model.positive =
  if n = 1 then Model.XH else if n land 1 = 0 then Model.XO (pos_of_int (n lsr 1)) else Model.XI (pos_of_int (n lsr 1))
let z_of_small n : Model.z = if n = 0 then Model.Z0 else Model.Zpos (pos_of_int n)
let ztab = Array.init 256 z_of_small
let rec int_of_pos = function Model.XH -> 1 | Model.XO p -> 2 * int_of_pos p | Model.XI p -> 2 * int_of_pos p + 1
let small_of_z = function Model.Z0 -> 0 | Model.Zpos p -> int_of_pos p | Model.Zneg _ -> 63

let bytes_of_line (s : string) : Model.z list =
  let r = ref [] in
  for i = String.length s - 1 downto 0 do r := ztab.(Char.code s.[i]) :: !r done; !r
let line_of_bytes (l : Model.z list) : string =
  let b = Buffer.create 64 in
  List.iter (fun z -> Buffer.add_char b (Char.chr ((small_of_z z) land 255))) l; Buffer.contents b

let () =
  let mode = if Array.length Sys.argv > 1 then Sys.argv.(1) else "run" in
  let f = match mode with
    | "run" -> Model.verif_run_line
    | "judge" -> Model.verif_judge_line
    | _ -> prerr_endline "usage: modelrun run|judge"; exit 2 in
  let out = Buffer.create 65536 in
  (try
    while true do
      let line = input_line stdin in
      let res = try line_of_bytes (f (bytes_of_line line)) with Stack_overflow -> "err:STACK" in
      Buffer.add_string out res; Buffer.add_char out '\n';
      if Buffer.length out > 60000 then (print_string (Buffer.contents out); Buffer.clear out)
    done
  with End_of_file -> ());
  print_string (Buffer.contents out); flush stdout
