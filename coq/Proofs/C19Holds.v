(** C19, top level (second part): parsers, collectors, iterator schedules, and the theorem over all ops. *)
From Coq Require Import ZArith List Bool Lia ZifyBool String.
From V Require Import Base.Int Base.IntLemmas Base.IO Base.Lift Gen.WdMo Model.ScanNames Model.C19
  Proofs.C19 Proofs.HoldsLib Proofs.C19HoldsFin.
From V Require Judge.C19.
Import ListNotations.
Open Scope Z_scope.
Ltac Zify.zify_post_hook ::= Z.to_euclidean_division_equations.

(** * parsers: every byte string that is a str *)
Definition keys_of (names : list bytes) : list (bytes * bytes) :=
  map (fun n => (map J.lower n, map J.lower (J.short n))) names.
Fixpoint denoted_p (keys : list (bytes * bytes)) (k : bytes) (i : Z) : option Z :=
  match keys with
  | [] => None
  | (a, b) :: r => if bytes_eqb k a || bytes_eqb k b then Some i else denoted_p r k (i + 1)
  end.
Lemma denoted_is_p names s : forall i, J.denoted names s i = denoted_p (keys_of names) (map lowerb s) i.
Proof. induction names as [|n r IH]; intros i; [reflexivity|]. cbn [J.denoted keys_of map denoted_p]. rewrite IH. reflexivity. Qed.
Definition wd_keys := Eval vm_compute in keys_of J.weekday_names.
Definition mo_keys := Eval vm_compute in keys_of J.month_names.

Ltac name_hit := match goal with H : bytes_eqb _ _ = true |- _ => apply hl_bytes_eqb_eq in H; subst; cbn [orb In]; tauto end.
Ltac name_scan :=
  repeat match goal with
  | |- context [if ?c || ?d then _ else _] => destruct c eqn:?; [name_hit|]; cbn [orb]
  | |- context [if ?d then _ else _] => destruct d eqn:?; [name_hit|]
  end.
Ltac name_none :=
  let w := fresh "w" in let Hin := fresh "Hin" in
  intros w Hin; cbn [In] in Hin;
  repeat (destruct Hin as [Hin|Hin]; [apply pair_equal_spec in Hin; destruct Hin as [<- <-];
    repeat match goal with H : bytes_eqb _ _ = false |- _ => vm_compute in H; try discriminate H; clear H end|]);
  exact Hin.
Lemma denoted_wd k :
  match denoted_p wd_keys k 0 with
  | Some i => In (k, i) wd_name_list
  | None => forall w, ~ In (k, w) wd_name_list
  end.
Proof.
  let l := eval vm_compute in wd_name_list in change wd_name_list with l.
  unfold wd_keys. cbn [denoted_p Z.add Pos.add Pos.succ]. name_scan. name_none.
Qed.
Lemma denoted_mo k :
  match denoted_p mo_keys k 0 with
  | Some i => In (k, i) mo_name_list
  | None => forall w, ~ In (k, w) mo_name_list
  end.
Proof.
  let l := eval vm_compute in mo_name_list in change mo_name_list with l.
  unfold mo_keys. cbn [denoted_p Z.add Pos.add Pos.succ]. name_scan. name_none.
Qed.

Lemma denoted_p_shift keys k d : forall i, denoted_p keys k (i + d) = option_map (fun x => x + d) (denoted_p keys k i).
Proof.
  induction keys as [|[a b] r IH]; intros i; cbn [denoted_p]; [reflexivity|].
  destruct (bytes_eqb k a || bytes_eqb k b); [reflexivity|]. replace (i + d + 1) with (i + 1 + d) by lia. apply IH.
Qed.
Lemma wd_names_range : forallb (fun p => (0 <=? snd p) && (snd p <=? 6)) wd_name_list = true.
Proof. vm_compute. reflexivity. Qed.
Lemma mo_names_range : forallb (fun p => (0 <=? snd p) && (snd p <=? 11)) mo_name_list = true.
Proof. vm_compute. reflexivity. Qed.
Lemma in_range_of (l : list (bytes * Z)) hi k w :
  forallb (fun p => (0 <=? snd p) && (snd p <=? hi)) l = true -> In (k, w) l -> 0 <= w <= hi.
Proof. intros H Hin. rewrite forallb_forall in H. specialize (H _ Hin). cbn [snd] in H. lia. Qed.

(* string arguments of the case protocol are byte strings *)
Definition str_args_ok (args : list val) : Prop := forall s, In (VStr s) args -> Forall byte s.

Lemma holds_wd_parse args : str_args_ok args -> HOLDS "wd.parse" args.
Proof.
  intros Hb. unfold HOLDS.
  change (J.judge (B"wd.parse") args (run (B"wd.parse") args)) with
    (J.parse_judge J.weekday_names 0 "ParseWeekdayError" args
       (arg1 args dec_str (fun s => val_of_R (vres enc_wd "ParseWeekdayError") (wd_from_str s)))).
  unfold J.parse_judge. destruct args as [|[z|s| |v|l|e| | |] [|? ?]]; try congruence.
  unfold arg1, dec_str. destruct (utf8_valid s) eqn:U; [|intros H; exfalso; apply H; reflexivity].
  destruct (wd_parse_exact s (Hb s (or_introl eq_refl)) U) as (r & E & Hr). rewrite E. cbn [val_of_R]. intros _.
  rewrite denoted_is_p. change (keys_of J.weekday_names) with wd_keys.
  pose proof (denoted_wd (map lowerb s)) as D. destruct (denoted_p wd_keys (map lowerb s) 0) as [i|].
  - pose proof (in_range_of _ 6 _ _ wd_names_range D) as Ri. apply Hr in D. subst r. cbn [vres].
    rewrite enc_wd_num by lia. cbn [J.is_badargs]. apply hl_judge_eq_refl.
  - destruct r as [w|]; [exfalso; apply (D w); apply Hr; reflexivity|]. vm_compute. reflexivity.
Qed.
Lemma holds_mo_parse args : str_args_ok args -> HOLDS "mo.parse" args.
Proof.
  intros Hb. unfold HOLDS.
  change (J.judge (B"mo.parse") args (run (B"mo.parse") args)) with
    (J.parse_judge J.month_names 1 "ParseMonthError" args
       (arg1 args dec_str (fun s => val_of_R (vres enc_mo "ParseMonthError") (mo_from_str s)))).
  unfold J.parse_judge. destruct args as [|[z|s| |v|l|e| | |] [|? ?]]; try congruence.
  unfold arg1, dec_str. destruct (utf8_valid s) eqn:U; [|intros H; exfalso; apply H; reflexivity].
  destruct (mo_parse_exact s (Hb s (or_introl eq_refl)) U) as (r & E & Hr). rewrite E. cbn [val_of_R]. intros _.
  rewrite denoted_is_p. change (keys_of J.month_names) with mo_keys.
  change 1 with (0 + 1) at 1. rewrite denoted_p_shift.
  pose proof (denoted_mo (map lowerb s)) as D. destruct (denoted_p mo_keys (map lowerb s) 0) as [i|]; cbn [option_map].
  - pose proof (in_range_of _ 11 _ _ mo_names_range D) as Ri. apply Hr in D. subst r. cbn [vres].
    replace (enc_mo i) with (enc_mo (i + 1 - 1)) by (f_equal; lia). rewrite enc_mo_num by lia. cbn [J.is_badargs]. apply hl_judge_eq_refl.
  - destruct r as [w|]; [exfalso; apply (D w); apply Hr; reflexivity|]. vm_compute. reflexivity.
Qed.

(** * collectors: lists of weekdays of any length *)
Lemma dec_wd_num w : 0 <= w <= 6 -> dec_wd (VInt w) = Some w.
Proof.
  intros H. assert (E : forall_range (fun w => match dec_wd (VInt w) with Some m => m =? w | None => false end) 0 7 = true) by (vm_compute; reflexivity).
  pose proof (forall_range_spec _ _ _ E w ltac:(lia)) as H1. cbv beta in H1.
  destruct (dec_wd (VInt w)); try discriminate. f_equal. lia.
Qed.
Lemma wd_list_dec l : forall ws, J.wd_list l = Some ws -> dec_wds l = Some ws /\ Forall wd ws.
Proof.
  induction l as [|v r IH]; intros ws H.
  - cbn in H. injection H as <-. split; [reflexivity|constructor].
  - cbn [J.wd_list] in H. destruct v as [w| | | | | | | |]; try discriminate.
    destruct ((0 <=? w) && (w <=? 6)) eqn:R; [|discriminate].
    destruct (J.wd_list r) as [ws'|]; [|discriminate]. cbn [option_map] in H. injection H as <-.
    destruct (IH ws' eq_refl) as [E F]. cbn [dec_wds]. rewrite dec_wd_num by lia. rewrite E.
    split; [reflexivity|]. constructor; [unfold wd; lia|exact F].
Qed.
Lemma mem_J s i : 0 <= i -> J.mem s i = mem s i.
Proof. intros H. unfold J.mem, mem. rewrite Z.testbit_odd, Z.shiftr_div_pow2 by exact H. reflexivity. Qed.
Lemma repr_code r f : repr r f -> r = J.code f.
Proof.
  intros [Hw Hm]. change (J.code f) with (code f). destruct (set_surjective f) as [Hw' Hm'].
  apply (proj2 (proj2 (proj2 (proj2 (proj2 (set_binary r (code f) Hw Hw')))))).
  intros i Hi. rewrite Hm, Hm' by exact Hi. reflexivity.
Qed.
Lemma collect_holds (cf : list Z -> R Z) :
  (forall l, Forall wd l -> exists r, cf l = Val r /\ repr r (fun i => existsb (Z.eqb i) l)) ->
  forall args,
  let out := arg1 args (fun v => match v with VTup l => dec_wds l | _ => None end) (fun l => val_of_R enc_ws (cf l)) in
  J.on1 (fun v => match v with VTup l => J.wd_list l | _ => None end) args out (fun l => VInt (J.code (J.set_of_list l))) <> JSkip ->
  J.on1 (fun v => match v with VTup l => J.wd_list l | _ => None end) args out (fun l => VInt (J.code (J.set_of_list l))) = JOk.
Proof.
  intros Hc args out. subst out. unfold J.on1. destruct args as [|[| | | |l| | | |] [|? ?]]; try congruence.
  destruct (J.wd_list l) as [ws|] eqn:E; [|congruence]. intros _.
  destruct (wd_list_dec l ws E) as [Ed Fw]. unfold arg1. rewrite Ed.
  destruct (Hc ws Fw) as (r & Er & Hr). rewrite Er. cbn [val_of_R enc_ws].
  apply hl_judge_eq_of. unfold enc_ws. f_equal. symmetry. apply (repr_code r (J.set_of_list ws)). exact Hr.
Qed.
Lemma holds_ws_fromarr args : HOLDS "ws.fromarr" args.
Proof. unfold HOLDS. exact (collect_holds ws_from_array ws_from_array_spec args). Qed.
Lemma holds_ws_collect args : HOLDS "ws.collect" args.
Proof. unfold HOLDS. exact (collect_holds ws_from_iter ws_from_iter_spec args). Qed.

(** * iterator schedules of any length *)
Lemma cyc_members_J s w : 0 <= w -> J.cyc_members (J.mem s) w = cyc_members s w.
Proof.
  intros Hw. unfold J.cyc_members, cyc_members. change (J.cyc w) with (cyc w).
  apply filter_ext_in. intros i Hi. apply mem_J. unfold cyc in Hi. apply in_map_iff in Hi.
  destruct Hi as (k & <- & _). lia.
Qed.
Lemma wd_tl L : Forall wd L -> Forall wd (tl L).
Proof. intros H. destruct L; [constructor|]. inversion H; assumption. Qed.
Lemma wd_rev L : Forall wd L -> Forall wd (rev L).
Proof. intros H. apply Forall_forall. intros x Hx. apply in_rev in Hx. revert x Hx. apply Forall_forall. exact H. Qed.
Lemma enc_step_some x n : wd x -> enc_step (Some x, n) = VTup [VSome (VInt x); VInt n].
Proof. intros Hx. unfold enc_step, vo. cbn [fst snd val_of_option]. rewrite enc_wd_num by (unfold wd in Hx; lia). reflexivity. Qed.

Lemma walk_deque : forall c L steps, Forall wd L -> J.walk c L = Some steps ->
  exists sched, dec_sched c = Some sched /\ map enc_step (deque_run sched L) = steps.
Proof.
  induction c as [|c0 r IH]; intros L steps HL H.
  - cbn in H. injection H as <-. exists []. split; reflexivity.
  - cbn [J.walk] in H. cbn [dec_sched]. destruct (c0 =? 102) eqn:E1.
    + destruct L as [|x rem'].
      * destruct (J.walk r []) as [st|] eqn:W; [|discriminate]. cbn [option_map] in H. injection H as <-.
        destruct (IH [] st HL W) as (sc & Ed & Em). rewrite Ed. exists (true :: sc). split; [reflexivity|].
        cbn [deque_run tl hd_error List.length map]. rewrite Em. reflexivity.
      * destruct (J.walk r rem') as [st|] eqn:W; [|discriminate]. cbn [option_map] in H. injection H as <-.
        inversion HL as [|? ? Hx Hr]; subst.
        destruct (IH rem' st Hr W) as (sc & Ed & Em). rewrite Ed. exists (true :: sc). split; [reflexivity|].
        cbn [deque_run tl hd_error map]. rewrite Em, enc_step_some by exact Hx. reflexivity.
    + destruct (c0 =? 98) eqn:E2; [|discriminate].
      destruct (rev L) as [|x rr] eqn:ER.
      * assert (L = []) by (rewrite <- (rev_involutive L), ER; reflexivity). subst L.
        destruct (J.walk r []) as [st|] eqn:W; [|discriminate]. cbn [option_map] in H. injection H as <-.
        destruct (IH [] st HL W) as (sc & Ed & Em). rewrite Ed. exists (false :: sc). split; [reflexivity|].
        cbn [deque_run rev removelast hd_error List.length map]. rewrite Em. reflexivity.
      * assert (EL : L = rev (x :: rr)) by (rewrite <- ER, rev_involutive; reflexivity).
        destruct (J.walk r (rev rr)) as [st|] eqn:W; [|discriminate]. cbn [option_map] in H. injection H as <-.
        pose proof (wd_rev L HL) as HR. rewrite ER in HR. inversion HR as [|? ? Hx Hrr]; subst x0 l.
        destruct (IH (rev rr) st (wd_rev rr Hrr) W) as (sc & Ed & Em). rewrite Ed. exists (false :: sc). split; [reflexivity|].
        cbn [deque_run map]. rewrite ER. rewrite EL at 1 2. rewrite removelast_rev_cons. cbn [hd_error].
        rewrite Em, enc_step_some by exact Hx. rewrite rev_length. reflexivity.
Qed.

Lemma holds_ws_iter args : HOLDS "ws.iter" args.
Proof.
  unfold HOLDS.
  change (J.judge (B"ws.iter") args (run (B"ws.iter") args)) with
    (match args with
     | [a; b; VStr sched] =>
        match J.is_set a, J.is_wd b, J.walk sched (match J.is_set a, J.is_wd b with
                                                   | Some s, Some w => J.cyc_members (J.mem s) w | _, _ => [] end) with
        | Some _, Some _, Some steps => judge_eq (VTup steps) (run (B"ws.iter") args)
        | _, _, _ => JSkip
        end
     | _ => JSkip end).
  destruct args as [|a [|b [|[z|c| |v|l|e| | |] [|? ?]]]]; try congruence.
  destruct (J.is_set a) as [s|] eqn:E1; [|congruence]. destruct (J.is_wd b) as [w|] eqn:E2; [|congruence].
  destruct (rng_dec_inv 0 127 a s E1) as [-> Hs]. destruct (rng_dec_inv 0 6 b w E2) as [-> Hw].
  rewrite cyc_members_J by lia.
  destruct (J.walk c (cyc_members s w)) as [steps|] eqn:W; [|congruence]. intros _.
  assert (HL : Forall wd (cyc_members s w)).
  { apply Forall_forall. intros i Hi. apply (cyc_members_spec s w i ltac:(unfold wd; lia)) in Hi. tauto. }
  destruct (walk_deque c _ steps HL W) as (sc & Ed & Em).
  change (run (B"ws.iter") [VInt s; VInt w; VStr c]) with
    (match dec_ws (VInt s), dec_wd (VInt w), dec_sched c with
     | Some s, Some w, Some sched => val_of_R (fun l => VTup (map enc_step l)) (it_run sched s w)
     | _, _, _ => VBad end).
  rewrite dec_wd_num by lia. rewrite Ed. unfold dec_ws. replace ((0 <=? s) && (s <=? 127)) with true by lia.
  rewrite it_run_spec by (unfold wset, wd; lia). cbn [val_of_R]. rewrite Em. apply hl_judge_eq_refl.
Qed.

Lemma strip_prefix_app p : forall s r, strip_prefix p s = Some r -> s = p ++ r /\ skipn (List.length p) s = r.
Proof.
  induction p as [|x p IH]; intros s r H.
  - cbn in H. injection H as <-. split; reflexivity.
  - destruct s as [|y s]; [discriminate|]. cbn [strip_prefix] in H. destruct (x =? y) eqn:E; [|discriminate].
    apply Z.eqb_eq in E. subst y. destruct (IH s r H) as [-> E2]. split; [reflexivity|exact E2].
Qed.
Ltac kill_false_ops :=
  repeat match goal with H : op_is ?b ?s = false |- _ =>
    first [ (vm_compute in H; discriminate H) | clear H ] end.
Lemma int_range_names pre op : J.prefix_is op pre = true ->
  J.int_range (skipn (List.length (bytes_of_string pre)) op) <> None ->
  exists ty, In ty [B"i8"; B"u8"; B"i16"; B"u16"; B"i32"; B"u32"; B"i64"; B"u64"; B"isize"; B"usize"; B"i128"; B"u128"] /\
             op = bytes_of_string pre ++ ty.
Proof.
  unfold J.prefix_is. destruct (strip_prefix (bytes_of_string pre) op) as [r|] eqn:E; [|discriminate]. intros _.
  destruct (strip_prefix_app _ _ _ E) as [-> ->]. unfold J.int_range.
  repeat match goal with |- context [if bytes_eqb r ?k then _ else _] =>
    destruct (bytes_eqb r k) eqn:?;
    [match goal with H : bytes_eqb r k = true |- _ => apply hl_bytes_eqb_eq in H; subst r end;
     intros _; eexists; split; [|reflexivity]; cbn [In]; tauto|] end.
  congruence.
Qed.

(** * top level *)
Ltac op_case_at o s lem :=
  destruct (op_is o s) eqn:?;
  [match goal with H : op_is o s = true |- _ => apply hl_op_is_eq in H; subst; apply lem end|].
Tactic Notation "op_case" constr(s) constr(lem) :=
  match goal with o : bytes |- _ => op_case_at o s lem end.

Theorem C19_holds op args : str_args_ok args ->
  J.judge op args (run op args) <> JSkip -> J.judge op args (run op args) = JOk.
Proof.
  intros Hb.
  destruct (op_is op "wd.parse") eqn:P1; [apply hl_op_is_eq in P1; subst; apply holds_wd_parse; exact Hb|].
  destruct (op_is op "mo.parse") eqn:P2; [apply hl_op_is_eq in P2; subst; apply holds_mo_parse; exact Hb|].
  clear Hb.
  op_case "wd.succ"%string holds_wd_succ. op_case "wd.pred"%string holds_wd_pred. op_case "wd.nfm"%string holds_wd_nfm.
  op_case "wd.nfs"%string holds_wd_nfs. op_case "wd.ndfm"%string holds_wd_ndfm. op_case "wd.ndfs"%string holds_wd_ndfs.
  op_case "wd.since"%string holds_wd_since. op_case "wd.disp"%string holds_wd_disp. op_case "wd.try"%string holds_wd_try.
  op_case "wd.fi64"%string holds_wd_fi64. op_case "wd.fu64"%string holds_wd_fu64. op_case "wd.fu32"%string holds_wd_fu32.
  op_case "wd.fu16"%string holds_wd_fu16. op_case "wd.fu8"%string holds_wd_fu8. op_case "wd.fusize"%string holds_wd_fusize.
  op_case "wd.fu128"%string holds_wd_fu128. op_case "wd.fi32"%string holds_wd_fi32. op_case "wd.fi16"%string holds_wd_fi16.
  op_case "wd.fi8"%string holds_wd_fi8. op_case "wd.fisize"%string holds_wd_fisize. op_case "wd.fi128"%string holds_wd_fi128.
  op_case "mo.succ"%string holds_mo_succ. op_case "mo.pred"%string holds_mo_pred. op_case "mo.num"%string holds_mo_num.
  op_case "mo.name"%string holds_mo_name. op_case "mo.cmp"%string holds_mo_cmp. op_case "mo.try"%string holds_mo_try.
  op_case "mo.fi64"%string holds_mo_fi64. op_case "mo.fu64"%string holds_mo_fu64. op_case "mo.fu32"%string holds_mo_fu32.
  op_case "mo.fu16"%string holds_mo_fu16. op_case "mo.fu8"%string holds_mo_fu8. op_case "mo.fusize"%string holds_mo_fusize.
  op_case "mo.fu128"%string holds_mo_fu128. op_case "mo.fi32"%string holds_mo_fi32. op_case "mo.fi16"%string holds_mo_fi16.
  op_case "mo.fi8"%string holds_mo_fi8. op_case "mo.fisize"%string holds_mo_fisize. op_case "mo.fi128"%string holds_mo_fi128.
  op_case "ws.consts"%string holds_ws_consts. op_case "ws.single"%string holds_ws_single.
  op_case "ws.single_day"%string holds_ws_single_day. op_case "ws.fromarr"%string holds_ws_fromarr.
  op_case "ws.collect"%string holds_ws_collect. op_case "ws.insert"%string holds_ws_insert.
  op_case "ws.remove"%string holds_ws_remove. op_case "ws.contains"%string holds_ws_contains.
  op_case "ws.subset"%string holds_ws_subset. op_case "ws.inter"%string holds_ws_inter. op_case "ws.union"%string holds_ws_union.
  op_case "ws.symdiff"%string holds_ws_symdiff. op_case "ws.diff"%string holds_ws_diff. op_case "ws.first"%string holds_ws_first.
  op_case "ws.last"%string holds_ws_last. op_case "ws.empty"%string holds_ws_empty. op_case "ws.len"%string holds_ws_len.
  op_case "ws.disp"%string holds_ws_disp. op_case "ws.iter"%string holds_ws_iter. op_case "ws.adapt"%string holds_ws_adapt.
  (* no other op name is judged: a remaining name with the prefix wd.f / mo.f has no integer type *)
  intros H. exfalso. apply H. unfold J.judge.
  repeat match goal with E : op_is _ _ = false |- _ => rewrite E end. cbn [orb].
  destruct (J.prefix_is op "wd.f") eqn:PW.
  { destruct (J.int_range (skipn 4 op)) as [[lo hi]|] eqn:IR; [|reflexivity]. exfalso.
    destruct (int_range_names "wd.f" op PW ltac:(cbn [List.length bytes_of_string]; congruence)) as (ty & Hin & ->).
    cbn [In] in Hin. repeat (destruct Hin as [<-|Hin]; [kill_false_ops|]). exact Hin. }
  destruct (J.prefix_is op "mo.f") eqn:PM; [|reflexivity].
  destruct (J.int_range (skipn 4 op)) as [[lo hi]|] eqn:IR; [|reflexivity]. exfalso.
  destruct (int_range_names "mo.f" op PM ltac:(cbn [List.length bytes_of_string]; congruence)) as (ty & Hin & ->).
  cbn [In] in Hin. repeat (destruct Hin as [<-|Hin]; [kill_false_ops|]). exact Hin.
Qed.
Corollary C19_never_bad op args : str_args_ok args -> not_bad (J.judge op args (run op args)).
Proof. intros Hb. apply hl_never_bad. apply C19_holds. exact Hb. Qed.

Lemma str_args_example : str_args_ok [VStr (B"wEdNeSdAy")] /\
  J.judge (B"wd.parse") [VStr (B"wEdNeSdAy")] (run (B"wd.parse") [VStr (B"wEdNeSdAy")]) = JOk.
Proof.
  split; [|vm_compute; reflexivity].
  intros s [E|[]]. injection E as <-. repeat constructor; unfold byte; cbn; lia.
Qed.
