(** C05, POSIX rules: the rule evaluation of Model/TzRule.v against the calendar and zone oracles.

    - [dse_eq]: days_since_unix_epoch = Spec/Gregorian's day number minus the epoch, for every year
      an i32 can hold (+-2), by linear arithmetic (no sweep needed);
    - [transition_date_eq] / [rule_unix_time_eq]: RuleDay::transition_date / unix_time = the
      oracle's [rday_dn] (Jn and n by sweeps over the 365/366 days, Mm.w.d by arithmetic);
    - [from_timespec_year] / [fts_year_spec]: the year UtcDateTime::from_timespec computes is the
      oracle's [utc_year] (sweep over the 146097 days of a 400-year cycle + periodicity);
    - [rule_offset_spec]: AlternateTime::find_local_time_type (previous/current/next year window)
      = the oracle's [rule_is_dst], under the property's premise on rule transitions;
    - [rule_local_as_table]: AlternateTime::find_local_time_type_from_local = the transition-table
      scan over the year's two transitions (so the table theorems classify its answers). *)
From Coq Require Import ZArith List Bool Lia ZifyBool.
From V Require Import Base.Int Base.IO Base.IntLemmas Base.Lift Gen.TzInfo.
From V Require Import Spec.Gregorian Spec.Zone.
From V Require Import Model.TzParser Model.TzRule Model.TzLookup.
From V Require Import Proofs.TzCommon Proofs.TzEval Proofs.C08Days Proofs.C05Table Proofs.C05Spec.
Import ListNotations.
Open Scope Z_scope.
Ltac Zify.zify_post_hook ::= Z.to_euclidean_division_equations.

(* ------------------------------------------------------------------ *)

Lemma is_leap_year_eq y : is_leap_year y = is_leap y.
Proof.
  unfold is_leap_year, is_leap.
  destruct (Z.rem y 400 =? 0) eqn:E1, (Z.rem y 4 =? 0) eqn:E2, (Z.rem y 100 =? 0) eqn:E3,
           (y mod 4 =? 0) eqn:E4, (y mod 100 =? 0) eqn:E5, (y mod 400 =? 0) eqn:E6; cbn; try reflexivity; exfalso; lia.
Qed.

(* pure value of days_since_unix_epoch *)
Definition dse_val (year month md : Z) : Z := dn_of_ymd year month md - EPOCH_DN.

Lemma dse_eq year month md :
  -2147483650 <= year <= 2147483650 -> 1 <= month <= 12 -> -100 <= md <= 100 ->
  days_since_unix_epoch year month md = Val (dse_val year month md).
Proof.
  intros Hy Hm Hd.
  destruct (dse_spec year month md Hy Hm Hd) as (r & Hr & _).
  rewrite Hr. f_equal.
  (* recompute r *)
  revert Hr. unfold days_since_unix_epoch. unfold_ops.
  replace (chk in_usize (month - 1)) with (Val (month - 1)) by (symmetry; apply chk_in; range_solver).
  unfold dse_val, dn_of_ymd, dn_of_yo, ordinal_of_md, days_before_year, EPOCH_DN.
  rewrite is_leap_year_eq.
  assert (Hcum : index TZ_CUMUL_DAY_IN_MONTHS_NORMAL_YEAR (month - 1) = Val (cum_days false month)).
  { apply in12 in Hm. repeat (destruct Hm as [->|Hm]); try subst month; reflexivity. }
  assert (Hcl : cum_days (is_leap year) month = cum_days false month + (if is_leap year && (3 <=? month) then 1 else 0)).
  { apply in12 in Hm. destruct (is_leap year); repeat (destruct Hm as [->|Hm]); try subst month; reflexivity. }
  rewrite Hcl. set (cm := cum_days false month) in *.
  assert (Hcm : 0 <= cm <= 334).
  { subst cm. apply in12 in Hm. repeat (destruct Hm as [->|Hm]); try subst month; cbn; lia. }
  clearbody cm.
  unfold is_leap. 
  destruct (year >=? 1970) eqn:Ey.
  - repeat chk_next. cbv [bind].
    destruct ((((year mod 4 =? 0) && negb (year mod 100 =? 0)) || (year mod 400 =? 0))) eqn:El; cbn [andb].
    + destruct (month <? 3) eqn:Em.
      * repeat chk_next. rewrite Hcum. cbv beta iota. repeat chk_next. intros HH; injection HH as <-.
        replace (3 <=? month) with false by lia. lia.
      * cbv beta iota. rewrite Hcum. cbv beta iota. repeat chk_next. intros HH; injection HH as <-.
        replace (3 <=? month) with true by lia. lia.
    + cbv beta iota. rewrite Hcum. cbv beta iota. repeat chk_next. intros HH; injection HH as <-. lia.
  - repeat chk_next. cbv [bind].
    destruct ((((year mod 4 =? 0) && negb (year mod 100 =? 0)) || (year mod 400 =? 0))) eqn:El; cbn [andb].
    + destruct (month >=? 3) eqn:Em.
      * repeat chk_next. rewrite Hcum. cbv beta iota. repeat chk_next. intros HH; injection HH as <-.
        replace (3 <=? month) with true by lia. lia.
      * cbv beta iota. rewrite Hcum. cbv beta iota. repeat chk_next. intros HH; injection HH as <-.
        replace (3 <=? month) with false by lia. lia.
    + cbv beta iota. rewrite Hcum. cbv beta iota. repeat chk_next. intros HH; injection HH as <-. lia.
Qed.

(* ------------------------------------------------------------------ *)

Definition conv_day (d : rule_day) : rday :=
  match d with
  | Julian1WithoutLeap n => RJulian1 n
  | Julian0WithLeap n => RJulian0 n
  | MonthWeekday m w wd => RMonthWeek m w wd
  end.

(* Jn: the date does not depend on the year *)
Definition j1_check (n : Z) : bool :=
  match transition_date (Julian1WithoutLeap n) 0 with
  | Val (m, md) => let '(m', d') := md_of_ordinal false n in
                   (m =? m') && (md =? d') && (1 <=? m) && (m <=? 12) && (1 <=? md) && (md <=? 31)
  | _ => false
  end.
Lemma j1_sweep : forall_range j1_check 1 365 = true.
Proof. vm_compute. reflexivity. Qed.
(* n: depends on leapness only *)
Definition j0_check (leap : bool) (n : Z) : bool :=
  match transition_date (Julian0WithLeap n) (if leap then 2000 else 2001) with
  | Val (m, md) => (1 <=? m) && (m <=? 12) && (1 <=? md) && (md <=? 32) && (cum_days leap m + md =? n + 1)
  | _ => false
  end.
Lemma j0_sweep_leap : forall_range (j0_check true) 0 366 = true.
Proof. vm_compute. reflexivity. Qed.
Lemma j0_sweep_common : forall_range (j0_check false) 0 366 = true.
Proof. vm_compute. reflexivity. Qed.

Lemma dim_eq m : 1 <= m <= 12 -> index TZ_DAY_IN_MONTHS_NORMAL_YEAR (m - 1) = Val (days_in_month false m).
Proof. intros H. apply in12 in H. repeat (destruct H as [->|H]); try subst m; reflexivity. Qed.
Lemma dim_leap l m : 1 <= m <= 12 ->
  days_in_month l m = days_in_month false m + (if (m =? 2) && l then 1 else 0).
Proof. intros H. apply in12 in H. destruct l; repeat (destruct H as [->|H]); try subst m; reflexivity. Qed.

Lemma transition_date_eq d year : day_ok d -> -2147483650 <= year <= 2147483650 ->
  exists m md, transition_date d year = Val (m, md) /\ 1 <= m <= 12 /\ 1 <= md <= 32 /\
               dn_of_ymd year m md = rday_dn year (conv_day d).
Proof.
  intros Hd Hy. destruct d as [n|n|m w wd]; cbn [day_ok conv_day] in *.
  - pose proof (forall_range_spec _ _ _ j1_sweep n ltac:(lia)) as H. unfold j1_check in H.
    change (transition_date (Julian1WithoutLeap n) year) with (transition_date (Julian1WithoutLeap n) 0).
    destruct (transition_date (Julian1WithoutLeap n) 0) as [[m md]| |]; try discriminate.
    cbn [rday_dn]. destruct (md_of_ordinal false n) as [m' d'].
    exists m, md. split; [reflexivity|]. assert (m = m' /\ md = d') as [-> ->] by lia. repeat split; lia.
  - rewrite td_j0_leap_only. rewrite is_leap_year_eq. cbn [rday_dn].
    destruct (is_leap year) eqn:El.
    + pose proof (forall_range_spec _ _ _ j0_sweep_leap n ltac:(lia)) as H. unfold j0_check in H.
      destruct (transition_date (Julian0WithLeap n) 2000) as [[m md]| |]; try discriminate.
      exists m, md. split; [reflexivity|]. unfold dn_of_ymd, ordinal_of_md, dn_of_yo. rewrite El. repeat split; lia.
    + pose proof (forall_range_spec _ _ _ j0_sweep_common n ltac:(lia)) as H. unfold j0_check in H.
      destruct (transition_date (Julian0WithLeap n) 2001) as [[m md]| |]; try discriminate.
      exists m, md. split; [reflexivity|]. unfold dn_of_ymd, ordinal_of_md, dn_of_yo. rewrite El. repeat split; lia.
  - destruct Hd as (Hm & Hw & Hwd). unfold transition_date.
    rewrite (dse_eq year m 1 Hy Hm ltac:(lia)). rewrite is_leap_year_eq.
    unfold TZ_DAYS_PER_WEEK. unfold_ops.
    replace (chk in_usize (m - 1)) with (Val (m - 1)) by (symmetry; apply chk_in; range_solver).
    cbv [bind]. rewrite (dim_eq m Hm). cbv beta iota.
    cbn [rday_dn]. rewrite (dim_leap (is_leap year) m Hm).
    set (dim := days_in_month false m).
    assert (Hdim : 28 <= dim <= 31) by (subst dim; apply in12 in Hm; repeat (destruct Hm as [->|Hm]); try subst m; cbn; lia).
    clearbody dim.
    assert (Hdse : -800000000000 <= dse_val year m 1 <= 800000000000).
    { destruct (dse_spec year m 1 Hy Hm ltac:(lia)) as (r & Hr & Hb). rewrite (dse_eq year m 1 Hy Hm ltac:(lia)) in Hr.
      injection Hr as <-. exact Hb. }
    unfold dse_val in *. set (first := dn_of_ymd year m 1) in *.
    assert (Hlin : forall md, dn_of_ymd year m md = first + md - 1).
    { intros md. subst first. unfold dn_of_ymd, ordinal_of_md, dn_of_yo. lia. }
    clearbody first. unfold weekday_of_dn, EPOCH_DN in *.
    assert (Hb2z : b2z (is_leap year) = if is_leap year then 1 else 0) by reflexivity.
    destruct (m =? 2) eqn:Em2.
    + rewrite Hb2z. destruct (is_leap year); cbn [andb]; repeat chk_next'.
      all: match goal with |- context [match (if ?c then _ else _) with _ => _ end] => destruct c eqn:E end.
      all: repeat chk_next'.
      all: eexists _, _; split; [reflexivity|]; rewrite Hlin.
      all: match goal with |- context [if ?c then _ else _] => destruct c eqn:E2 end; lia.
    + cbn [andb]. repeat chk_next'.
      match goal with |- context [match (if ?c then _ else _) with _ => _ end] => destruct c eqn:E end.
      all: repeat chk_next'.
      all: eexists _, _; split; [reflexivity|]; rewrite Hlin.
      all: match goal with |- context [if ?c then _ else _] => destruct c eqn:E2 end; lia.
Qed.

Lemma rule_unix_time_eq d year tt : day_ok d -> -2147483650 <= year <= 2147483650 ->
  -10000000000 <= tt <= 10000000000 ->
  rule_unix_time d year tt = Val ((rday_dn year (conv_day d) - EPOCH_DN) * 86400 + tt).
Proof.
  intros Hd Hy Ht. unfold rule_unix_time.
  destruct (transition_date_eq d year Hd Hy) as (m & md & Htd & Hm & Hmd & Heq).
  rewrite Htd. cbv [bind]. rewrite (dse_eq year m md Hy Hm ltac:(lia)).
  destruct (dse_spec year m md Hy Hm ltac:(lia)) as (r & Hr & Hb).
  rewrite (dse_eq year m md Hy Hm ltac:(lia)) in Hr. injection Hr as <-.
  unfold dse_val in *. rewrite Heq in *. unfold TZ_SECONDS_PER_DAY. unfold_ops.
  repeat chk_next'. reflexivity.
Qed.

(* ------------------------------------------------------------------ *)

(** the year [from_timespec] computes, as a pure function: days since 2000-03-01, 400-year cycles,
    then the year inside the cycle (January and February belong to the next year) *)
Definition fts_rem_year (rd2 : Z) : Z :=
  let c100 := Z.min (rd2 / 36524) 3 in let rd3 := rd2 - c100 * 36524 in
  let c4y := Z.min (rd3 / 1461) 24 in let rd4 := rd3 - c4y * 1461 in
  let ry := Z.min (rd4 / 365) 3 in let rd5 := rd4 - ry * 365 in
  2000 + ry + c4y * 4 + c100 * 100 + (if 306 <=? rd5 then 1 else 0).
Definition fts_year (t : Z) : Z :=
  let d := (t - 951868800) / 86400 in fts_rem_year (d mod 146097) + 400 * (d / 146097).

Definition ml_check (rd5 : Z) : bool :=
  match month_loop TZR_DAY_IN_MONTHS_LEAP_YEAR_FROM_MARCH 0 rd5 with
  | Val (mo, rd6) => Bool.eqb (mo + 2 >=? 12) (306 <=? rd5) && (0 <=? mo) && (mo <=? 11) && (0 <=? rd6) && (rd6 <=? 30)
  | _ => false
  end.
Lemma ml_sweep : forall_range ml_check 0 366 = true.
Proof. vm_compute. reflexivity. Qed.

Lemma from_timespec_year t : -1000000000000000 <= t <= 1000000000000000 ->
  exists mo md h mi s, from_timespec t = Val (Ok (fts_year t, mo, md, h, mi, s)).
Proof.
  intros Ht. unfold from_timespec, checked_sub, chko, fts_year.
  unfold TZR_UNIX_OFFSET_SECS, TZ_SECONDS_PER_DAY, TZR_DAYS_PER_400_YEARS, TZR_DAYS_PER_100_YEARS,
    TZR_DAYS_PER_4_YEARS, TZR_DAYS_PER_NORMAL_YEAR, TZR_OFFSET_YEAR, TZR_MONTHS_PER_YEAR,
    TZR_SECONDS_PER_HOUR, TZR_SECONDS_PER_MINUTE, TZR_MINUTES_PER_HOUR.
  replace (in_i64 (t - 951868800)) with true by (symmetry; range_solver).
  set (seconds := t - 951868800) in *.
  assert (Hs : -1000000951868800 <= seconds <= 1000000000000000) by lia.
  clearbody seconds. clear Ht t.
  unfold_ops. repeat chk_next'. cbv [bind].
  set (q0 := Z.quot seconds 86400) in *. set (r0 := Z.rem seconds 86400) in *.
  assert (Hnorm : exists rs,
    (if r0 <? 0 then bind (chk in_i64 (r0 + 86400)) (fun rs => bind (chk in_i64 (q0 - 1)) (fun rd => Val (rs, rd)))
     else Val (r0, q0)) = Val (rs, seconds / 86400) /\ 0 <= rs < 86400).
  { destruct (r0 <? 0) eqn:E.
    - repeat chk_next'. cbv [bind]. repeat chk_next'. eexists. split; [f_equal; f_equal; subst q0 r0; lia|subst r0; lia].
    - eexists. split; [f_equal; f_equal; subst q0 r0; lia|subst r0; lia]. }
  destruct Hnorm as (rs & Heq & Hrs). cbv [bind] in Heq. rewrite Heq. clear Heq. cbv beta iota.
  clear q0 r0. set (rd := seconds / 86400) in *.
  assert (Hrd : -11574085093 <= rd <= 11574074075) by (subst rd; lia). clearbody rd. clear Hs seconds.
  repeat chk_next'.
  set (c4 := Z.quot rd 146097) in *. set (d4 := Z.rem rd 146097) in *.
  assert (Hn2 : (if d4 <? 0 then Val (d4 + 146097, c4 - 1) else Val (d4, c4)) = Val (rd mod 146097, rd / 146097)).
  { destruct (d4 <? 0) eqn:E; f_equal; f_equal; subst c4 d4; lia. }
  rewrite Hn2. clear Hn2 c4 d4. cbv beta iota.
  set (rd2 := rd mod 146097) in *. set (cy := rd / 146097) in *.
  assert (Hrd2 : 0 <= rd2 < 146097) by (subst rd2; lia).
  assert (Hcy : -100000 <= cy <= 100000) by (subst cy; lia).
  clearbody rd2 cy. clear Hrd rd.
  repeat chk_next'. unfold fts_rem_year. cbv zeta.
  rewrite (Z.quot_div_nonneg rd2 36524) by lia.
  set (c100 := Z.min (rd2 / 36524) 3) in *.
  assert (Hc100 : 0 <= c100 <= 3 /\ 0 <= rd2 - c100 * 36524 <= 36524) by (subst c100; lia).
  clearbody c100. repeat chk_next'.
  set (rd3 := rd2 - c100 * 36524) in *. clearbody rd3.
  rewrite (Z.quot_div_nonneg rd3 1461) by lia.
  set (c4y := Z.min (rd3 / 1461) 24) in *.
  assert (Hc4y : 0 <= c4y <= 24 /\ 0 <= rd3 - c4y * 1461 <= 1460) by (subst c4y; lia).
  clearbody c4y. repeat chk_next'.
  set (rd4 := rd3 - c4y * 1461) in *. clearbody rd4.
  rewrite (Z.quot_div_nonneg rd4 365) by lia.
  set (ry := Z.min (rd4 / 365) 3) in *.
  assert (Hry : 0 <= ry <= 3 /\ 0 <= rd4 - ry * 365 <= 365) by (subst ry; lia).
  clearbody ry. repeat chk_next'.
  set (rd5 := rd4 - ry * 365) in *. clearbody rd5.
  pose proof (forall_range_spec _ _ _ ml_sweep rd5 ltac:(lia)) as Hml. unfold ml_check in Hml.
  destruct (month_loop TZR_DAY_IN_MONTHS_LEAP_YEAR_FROM_MARCH 0 rd5) as [[mo rd6]| |]; try discriminate.
  cbv beta iota. change (as_usize 12) with 12. chk_next'.
  destruct (mo + 2 >=? 12) eqn:Emo; repeat chk_next'.
  - replace (306 <=? rd5) with true by (destruct (306 <=? rd5); [reflexivity|cbn in Hml; discriminate]).
    match goal with |- context [if ?c then _ else _] => replace c with true by (symmetry; range_solver) end.
    rewrite as_i32_id by range_solver. eexists _, _, _, _, _. unfold ok. f_equal. f_equal. f_equal. f_equal. f_equal. f_equal. f_equal. lia.
  - replace (306 <=? rd5) with false by (destruct (306 <=? rd5); [cbn in Hml; discriminate|reflexivity]).
    match goal with |- context [if ?c then _ else _] => replace c with true by (symmetry; range_solver) end.
    rewrite as_i32_id by range_solver. eexists _, _, _, _, _. unfold ok. f_equal. f_equal. f_equal. f_equal. f_equal. f_equal. f_equal. lia.
Qed.

Definition yr_check (r : Z) : bool := fts_rem_year r =? year_of_dn (r + 730180).
Lemma yr_sweep : forall_range yr_check 0 146097 = true.
Proof. vm_compute. reflexivity. Qed.

Lemma fts_year_spec t : fts_year t = utc_year t.
Proof.
  unfold fts_year, utc_year, EPOCH_DN. cbv zeta.
  set (d := (t - 951868800) / 86400).
  replace (t / 86400 + 719163) with ((d mod 146097 + 730180) + 146097 * (d / 146097)) by (subst d; lia).
  unfold year_of_dn. rewrite yo_of_dn_period. cbn [fst].
  pose proof (forall_range_spec _ _ _ yr_sweep (d mod 146097) ltac:(lia)) as H. unfold yr_check, year_of_dn in H. lia.
Qed.

(* ------------------------------------------------------------------ *)

Definition conv_rule (a : alt_time) : srule :=
  mk_srule (ut_offset (a_std a)) (ut_offset (a_dst a)) (conv_day (dst_start a)) (dst_start_time a)
           (conv_day (dst_end a)) (dst_end_time a).

Lemma year_start_succ y : year_start y + 365 * 86400 <= year_start (y + 1).
Proof.
  unfold year_start, dn_of_ymd, dn_of_yo, ordinal_of_md. rewrite dby_succ. unfold days_in_year.
  assert (Hc : forall l, cum_days l 1 = 0) by (intros []; reflexivity). rewrite !Hc.
  destruct (is_leap y); lia.
Qed.
Lemma utc_year_bounds t : year_start (utc_year t) <= t < year_start (utc_year t + 1).
Proof.
  unfold utc_year, year_of_dn. set (n := t / 86400 + EPOCH_DN).
  destruct (yo_of_dn_valid n) as [Hv Hd]. destruct (yo_of_dn n) as [y o]. cbn [fst snd] in *.
  unfold year_start, dn_of_ymd, dn_of_yo, ordinal_of_md, valid_yo in *. rewrite dby_succ.
  assert (Hc : forall l, cum_days l 1 = 0) by (intros []; reflexivity). rewrite !Hc.
  unfold days_in_year in *. subst n. unfold EPOCH_DN in *. destruct (is_leap y); lia.
Qed.


Definition model_dst (t S1 E1 S0 E0 Sn En : Z) : bool :=
  if S0 <=? E0 then
    if t <? S0 then (if t <? E1 then S1 <=? t else false)
    else if t <? E0 then true
    else (if Sn <=? t then t <? En else false)
  else
    if t <? E0 then (if t <? S1 then t <? E1 else true)
    else if t <? S0 then false
    else (if En <=? t then Sn <=? t else true).

(* step 1: the model function is [model_dst] of the six transition instants around the year *)
Lemma alt_find_pure a t : alt_ok a -> -1000000000000000 <= t <= 1000000000000000 ->
  let r := conv_rule a in let y := utc_year t in
  alt_find_local_time_type a t =
  Val (Ok (if model_dst t (rule_start_utc r (y - 1)) (rule_end_utc r (y - 1)) (rule_start_utc r y) (rule_end_utc r y)
                          (rule_start_utc r (y + 1)) (rule_end_utc r (y + 1))
           then a_dst a else a_std a)).
Proof.
  intros (Hs & Hd & Hds & Hde & Hst & Het) Ht r y.
  unfold alt_find_local_time_type.
  pose proof (ltt_ok_off _ Hs) as Hso'. pose proof (ltt_ok_off _ Hd) as Hdo'.
  unfold_ops. repeat chk_next'. cbv [bind rbind].
  destruct (from_timespec_year t Ht) as (mo & md & hh & mi & ss & ->).
  rewrite fts_year_spec. fold y.
  assert (Hy : -40000000 <= y <= 40000000).
  { pose proof (fts_year_spec t) as E. fold y in E. rewrite <- E. unfold fts_year, fts_rem_year. cbv zeta.
    destruct (306 <=? _); lia. }
  replace (negb ((i32_min + 2 <=? y) && (y <=? i32_max - 2))) with false by (unfold i32_min, i32_max; lia).
  assert (ES : forall k, -2147483650 <= k <= 2147483650 ->
     rule_unix_time (dst_start a) k (dst_start_time a - ut_offset (a_std a)) = Val (rule_start_utc r k)).
  { intros k Hk. rewrite rule_unix_time_eq by (assumption || lia). f_equal.
    unfold rule_start_utc, r, conv_rule. cbn [r_start r_start_time r_std]. lia. }
  assert (EE : forall k, -2147483650 <= k <= 2147483650 ->
     rule_unix_time (dst_end a) k (dst_end_time a - ut_offset (a_dst a)) = Val (rule_end_utc r k)).
  { intros k Hk. rewrite rule_unix_time_eq by (assumption || lia). f_equal.
    unfold rule_end_utc, r, conv_rule. cbn [r_end r_end_time r_dst]. lia. }
  rewrite (ES y), (EE y) by lia. cbv beta iota.
  repeat chk_next'.
  rewrite (ES (y - 1)), (EE (y - 1)), (ES (y + 1)), (EE (y + 1)) by lia. cbv beta iota.
  unfold model_dst.
  repeat match goal with |- context [if ?c then _ else _] => destruct c end; reflexivity.
Qed.

(* step 2: under the premise, [model_dst] is the oracle's [rule_is_dst] (pure arithmetic) *)
Lemma model_dst_spec t std dst S2 E2 S1 E1 S0 E0 Sn En Enn ys2 ys1 ys0 ysn ysnn :
  -86400 < std < 86400 -> -86400 < dst < 86400 ->
  (ys2 + 86400 < S2 + std < ys1 - 86400 /\ ys2 + 86400 < S2 + dst < ys1 - 86400 /\
   ys2 + 86400 < E2 + std < ys1 - 86400 /\ ys2 + 86400 < E2 + dst < ys1 - 86400) ->
  (ys1 + 86400 < S1 + std < ys0 - 86400 /\ ys1 + 86400 < S1 + dst < ys0 - 86400 /\
   ys1 + 86400 < E1 + std < ys0 - 86400 /\ ys1 + 86400 < E1 + dst < ys0 - 86400) ->
  (ys0 + 86400 < S0 + std < ysn - 86400 /\ ys0 + 86400 < S0 + dst < ysn - 86400 /\
   ys0 + 86400 < E0 + std < ysn - 86400 /\ ys0 + 86400 < E0 + dst < ysn - 86400) -> S0 <> E0 ->
  (ysn + 86400 < Sn + std < ysnn - 86400 /\ ysn + 86400 < Sn + dst < ysnn - 86400 /\
   ysn + 86400 < En + std < ysnn - 86400 /\ ysn + 86400 < En + dst < ysnn - 86400) ->
  (S1 <? E1) = (S0 <? E0) -> ys0 <= t < ysn ->
  model_dst t S1 E1 S0 E0 Sn En =
  ((S2 <=? t) && (t <? (if S2 <? E2 then E2 else E1))
   || (S1 <=? t) && (t <? (if S1 <? E1 then E1 else E0))
   || (S0 <=? t) && (t <? (if S0 <? E0 then E0 else En))
   || (Sn <=? t) && (t <? (if Sn <? En then En else Enn))).
Proof.
  intros Hso Hdo P2 P1 P0 Hne Pn Hreg Hyb. unfold model_dst.
  assert (N2 : (S2 <=? t) && (t <? (if S2 <? E2 then E2 else E1)) = false) by (destruct (S2 <? E2); lia).
  assert (Nn : (Sn <=? t) && (t <? (if Sn <? En then En else Enn)) = false) by lia.
  rewrite N2, Nn, orb_false_r. cbn [orb].
  destruct (S0 <? E0) eqn:B0; rewrite Hreg.
  - replace (S0 <=? E0) with true by lia.
    replace ((S1 <=? t) && (t <? E1)) with false by lia. cbn [orb].
    destruct (t <? S0) eqn:C1.
    + replace (t <? E1) with false by lia. lia.
    + destruct (t <? E0) eqn:C2; [lia|]. replace (Sn <=? t) with false by lia. lia.
  - replace (S0 <=? E0) with false by lia.
    destruct (t <? E0) eqn:C1.
    + replace (t <? S1) with false by lia. lia.
    + destruct (t <? S0) eqn:C2; [lia|]. replace (En <=? t) with false by lia. lia.
Qed.

Lemma premise_year_prop r k : premise_year r k = true ->
  (year_start k + 86400 < rule_start_utc r k + r_std r < year_start (k + 1) - 86400 /\
   year_start k + 86400 < rule_start_utc r k + r_dst r < year_start (k + 1) - 86400 /\
   year_start k + 86400 < rule_end_utc r k + r_std r < year_start (k + 1) - 86400 /\
   year_start k + 86400 < rule_end_utc r k + r_dst r < year_start (k + 1) - 86400) /\
  rule_start_utc r k <> rule_end_utc r k.
Proof.
  unfold premise_year. cbn [forallb].
  generalize (year_start k) (year_start (k + 1)) (rule_start_utc r k) (rule_end_utc r k) (r_std r) (r_dst r).
  intros. lia.
Qed.

Lemma rule_is_dst_unfold r t :
  rule_is_dst r t =
  (let y := utc_year t in
   (rule_start_utc r (y - 2) <=? t) && (t <? (if rule_start_utc r (y - 2) <? rule_end_utc r (y - 2) then rule_end_utc r (y - 2) else rule_end_utc r (y - 2 + 1)))
   || (rule_start_utc r (y - 1) <=? t) && (t <? (if rule_start_utc r (y - 1) <? rule_end_utc r (y - 1) then rule_end_utc r (y - 1) else rule_end_utc r (y - 1 + 1)))
   || (rule_start_utc r y <=? t) && (t <? (if rule_start_utc r y <? rule_end_utc r y then rule_end_utc r y else rule_end_utc r (y + 1)))
   || (rule_start_utc r (y + 1) <=? t) && (t <? (if rule_start_utc r (y + 1) <? rule_end_utc r (y + 1) then rule_end_utc r (y + 1) else rule_end_utc r (y + 1 + 1)))).
Proof. reflexivity. Qed.

Theorem rule_offset_spec a t : alt_ok a -> -1000000000000000 <= t <= 1000000000000000 ->
  let r := conv_rule a in let y := utc_year t in
  -86400 < r_std r < 86400 -> -86400 < r_dst r < 86400 ->
  premise_year r (y - 2) = true -> premise_year r (y - 1) = true ->
  premise_year r y = true -> premise_year r (y + 1) = true ->
  (rule_start_utc r (y - 1) <? rule_end_utc r (y - 1)) = (rule_start_utc r y <? rule_end_utc r y) ->
  alt_find_local_time_type a t = Val (Ok (if rule_is_dst r t then a_dst a else a_std a)).
Proof.
  intros Ha Ht r y Hso Hdo P2 P1 P0 Pn Hreg.
  rewrite (alt_find_pure a t Ha Ht). fold r y.
  apply premise_year_prop in P2, P1, P0, Pn.
  destruct P2 as [P2 _], P1 as [P1 _], P0 as [P0 N0], Pn as [Pn _].
  pose proof (utc_year_bounds t) as Hyb. fold y in Hyb.
  rewrite rule_is_dst_unfold. cbv zeta. fold y.
  replace (y - 2 + 1) with (y - 1) in * by lia. replace (y - 1 + 1) with y in * by lia.
  rewrite (model_dst_spec t (r_std r) (r_dst r) _ _ _ _ _ _ _ _ (rule_end_utc r (y + 1 + 1)) _ _ _ _ _ Hso Hdo P2 P1 P0 N0 Pn Hreg Hyb).
  reflexivity.
Qed.

(* ------------------------------------------------------------------ *)

(** The two transitions of the rule in year y as a transition table: in the order in which they
    occur, with the type in force before the first of them *)
Definition year_table (a : alt_time) (y : Z) : list (Z * ltt) * ltt :=
  let r := conv_rule a in
  if rule_start_utc r y + ut_offset (a_std a) <? rule_end_utc r y + ut_offset (a_dst a)
  then ([(rule_start_utc r y, a_dst a); (rule_end_utc r y, a_std a)], a_std a)
  else ([(rule_end_utc r y, a_std a); (rule_start_utc r y, a_dst a)], a_dst a).

(* wall clock -> candidates for a rule: the answer is the table scan over the year's two
   transitions (the rule code is the transition-table code specialised to two transitions), off
   the excepted boundary seconds, when the two windows are disjoint and in order *)
Theorem rule_local_as_table a y l : alt_ok a -> -2147483650 <= y <= 2147483650 ->
  ut_offset (a_std a) <> ut_offset (a_dst a) ->
  let '(ps, first) := year_table a y in
  ordered (windows (offs ps) (ut_offset first)) = true ->
  excepted_table (offs ps) (ut_offset first) l = false ->
  alt_find_local_time_type_from_local a y l = Val (Ok (table_answer ps first l)).
Proof.
  intros (Hs & Hd & Hds & Hde & Hst & Het) Hy Hne.
  pose proof (ltt_ok_off _ Hs) as Hso. pose proof (ltt_ok_off _ Hd) as Hdo.
  unfold alt_find_local_time_type_from_local, year_table.
  rewrite !rule_unix_time_eq by (assumption || lia).
  cbv [bind].
  set (r := conv_rule a).
  assert (ES : (rday_dn y (conv_day (dst_start a)) - EPOCH_DN) * 86400 + 0 + dst_start_time a
               = rule_start_utc r y + ut_offset (a_std a)).
  { unfold rule_start_utc, r, conv_rule. cbn [r_start r_start_time r_std]. lia. }
  assert (EE : (rday_dn y (conv_day (dst_end a)) - EPOCH_DN) * 86400 + 0 + dst_end_time a
               = rule_end_utc r y + ut_offset (a_dst a)).
  { unfold rule_end_utc, r, conv_rule. cbn [r_end r_end_time r_dst]. lia. }
  assert (BS : -70000000000000000 <= rule_start_utc r y <= 70000000000000000).
  { destruct (rule_unix_time_spec (dst_start a) y (dst_start_time a - ut_offset (a_std a)) Hds Hy ltac:(lia)) as (v & Hv & Hb).
    rewrite rule_unix_time_eq in Hv by (assumption || lia). injection Hv as <-.
    unfold rule_start_utc, r, conv_rule. cbn [r_start r_start_time r_std]. lia. }
  assert (BE : -70000000000000000 <= rule_end_utc r y <= 70000000000000000).
  { destruct (rule_unix_time_spec (dst_end a) y (dst_end_time a - ut_offset (a_dst a)) Hde Hy ltac:(lia)) as (v & Hv & Hb).
    rewrite rule_unix_time_eq in Hv by (assumption || lia). injection Hv as <-.
    unfold rule_end_utc, r, conv_rule. cbn [r_end r_end_time r_dst]. lia. }
  unfold_ops.
  set (S := rule_start_utc r y) in *. set (E := rule_end_utc r y) in *.
  set (std := ut_offset (a_std a)) in *. set (dst := ut_offset (a_dst a)) in *.
  replace ((rday_dn y (conv_day (dst_start a)) - EPOCH_DN) * 86400 + 0) with (S + std - dst_start_time a) by lia.
  replace ((rday_dn y (conv_day (dst_end a)) - EPOCH_DN) * 86400 + 0) with (E + dst - dst_end_time a) by lia.
  repeat chk_next'.
  replace (S + std - dst_start_time a + dst_start_time a) with (S + std) by lia.
  replace (E + dst - dst_end_time a + dst_end_time a) with (E + dst) by lia.
  replace (S + std + dst - std) with (S + dst) by lia.
  replace (E + dst + std - dst) with (E + std) by lia.
  clearbody S E. clear ES EE.
  destruct (S + std <? E + dst) eqn:Hn; cbn [offs map fst snd windows ordered excepted_table]; fold std dst;
    intros Hord Hex; unfold table_answer; cbn [scanL]; fold std dst.
  - (* start before end *)
    destruct (Z.compare_spec std dst) as [Hc|Hc|Hc]; [contradiction| |].
    + replace (S + std ?= S + dst) with Lt by (symmetry; apply Z.compare_lt_iff; lia).
      replace (E + dst ?= E + std) with Gt by (symmetry; apply Z.compare_gt_iff; lia).
      repeat match goal with |- context [if ?c then _ else _] => destruct c eqn:? end; try reflexivity; exfalso; lia.
    + replace (S + std ?= S + dst) with Gt by (symmetry; apply Z.compare_gt_iff; lia).
      replace (E + dst ?= E + std) with Lt by (symmetry; apply Z.compare_lt_iff; lia).
      repeat match goal with |- context [if ?c then _ else _] => destruct c eqn:? end; try reflexivity; exfalso; lia.
  - destruct (Z.compare_spec std dst) as [Hc|Hc|Hc]; [contradiction| |].
    + replace (S + std ?= S + dst) with Lt by (symmetry; apply Z.compare_lt_iff; lia).
      replace (E + dst ?= E + std) with Gt by (symmetry; apply Z.compare_gt_iff; lia).
      repeat match goal with |- context [if ?c then _ else _] => destruct c eqn:? end; try reflexivity; exfalso; lia.
    + replace (S + std ?= S + dst) with Gt by (symmetry; apply Z.compare_gt_iff; lia).
      replace (E + dst ?= E + std) with Lt by (symmetry; apply Z.compare_lt_iff; lia).
      repeat match goal with |- context [if ?c then _ else _] => destruct c eqn:? end; try reflexivity; exfalso; lia.
Qed.

(* ------------------------------------------------------------------ *)
(** * Zones with a footer rule / TZ strings: instants at or after the last transition *)
Definition rule_hyps (a : alt_time) (t : Z) : Prop :=
  let r := conv_rule a in let y := utc_year t in
  alt_ok a /\ -1000000000000000 <= t <= 1000000000000000 /\
  -86400 < r_std r < 86400 /\ -86400 < r_dst r < 86400 /\
  premise_year r (y - 2) = true /\ premise_year r (y - 1) = true /\
  premise_year r y = true /\ premise_year r (y + 1) = true /\
  (rule_start_utc r (y - 1) <? rule_end_utc r (y - 1)) = (rule_start_utc r y <? rule_end_utc r y).

Theorem offset_at_rule z a t :
  leap_seconds z = [] -> extra_rule z = Some (Alternate a) ->
  (transitions z = [] \/ exists lst, last_of (transitions z) = Some lst /\ tr_time lst <= t) ->
  rule_hyps a t ->
  find_local_time_type z t = Val (Ok (if rule_is_dst (conv_rule a) t then a_dst a else a_std a)).
Proof.
  intros Hl Hr Hpos (Ha & Ht & Hs & Hd & P2 & P1 & P0 & Pn & Hreg).
  pose proof (rule_offset_spec a t Ha Ht Hs Hd P2 P1 P0 Pn Hreg) as H.
  unfold find_local_time_type. rewrite Hr.
  destruct Hpos as [He|(lst & Hlst & Hle)].
  - rewrite He. cbn [last_of rev]. cbn [rule_find_local_time_type]. rewrite H. reflexivity.
  - rewrite Hlst. unfold unix_time_to_unix_leap_time. rewrite Hl. cbn [leap_loop oor_to rbind].
    replace (t >=? tr_time lst) with true by lia. cbn [rule_find_local_time_type]. rewrite H. reflexivity.
Qed.

(* the oracle's view of the same instants *)
Lemma zone_off_rule first tr r t :
  (match last_trans tr with Some tl => tl < t | None => True end) ->
  zone_off (mk_szone first tr (Some (inr r))) t = Some (if rule_is_dst r t then r_dst r else r_std r).
Proof.
  unfold zone_off. cbn [z_trans z_rule z_first rule_off].
  destruct (last_trans tr) as [tl|]; [|reflexivity]. intros H. replace (tl <? t) with true by lia. reflexivity.
Qed.

(** * TZ strings (no transitions): wall clock -> candidates is the scan over the year's table *)
Theorem from_local_rule_zone z a first y l :
  transitions z = [] -> index (local_time_types z) 0 = Val first -> extra_rule z = Some (Alternate a) ->
  alt_ok a -> -2147483650 <= y <= 2147483650 -> ut_offset (a_std a) <> ut_offset (a_dst a) ->
  let '(ps, prev) := year_table a y in
  ordered (windows (offs ps) (ut_offset prev)) = true ->
  excepted_table (offs ps) (ut_offset prev) l = false ->
  find_local_time_type_from_local z y l = Val (Ok (table_answer ps prev l)).
Proof.
  intros Ht Hf Hr Ha Hy Hne.
  pose proof (rule_local_as_table a y l Ha Hy Hne) as H.
  destruct (year_table a y) as [ps prev]. intros Hord Hex. specialize (H Hord Hex).
  unfold find_local_time_type_from_local. rewrite Ht, Hf, Hr. cbn [bind rule_find_local_time_type_from_local].
  rewrite H. reflexivity.
Qed.

Lemma from_timespec_utc_year t : -1000000000000000 <= t <= 1000000000000000 ->
  exists mo md h mi s, from_timespec t = Val (Ok (utc_year t, mo, md, h, mi, s)).
Proof. intros Ht. rewrite <- fts_year_spec. exact (from_timespec_year t Ht). Qed.

(* ------------------------------------------------------------------ *)
(** * Wall clock -> candidates for a TZ string, against the oracle *)
(** the oracle's DST predicate around year k, in terms of the two transitions of year k:
    pure arithmetic over the transition instants of the years k-3 .. k+3 *)
Lemma rule_is_dst_year_arith t k yt std dst
  (S3 E3 S2 E2 S1 E1 S0 E0 Sn En Sn2 En2 En3 : Z) (y3 y2 y1 y0 yn yn2 yn3 : Z) :
  -86400 < std < 86400 -> -86400 < dst < 86400 ->
  (y3 + 86400 < S3 + std < y2 - 86400 /\ y3 + 86400 < S3 + dst < y2 - 86400 /\ y3 + 86400 < E3 + std < y2 - 86400 /\ y3 + 86400 < E3 + dst < y2 - 86400) ->
  (y2 + 86400 < S2 + std < y1 - 86400 /\ y2 + 86400 < S2 + dst < y1 - 86400 /\ y2 + 86400 < E2 + std < y1 - 86400 /\ y2 + 86400 < E2 + dst < y1 - 86400) ->
  (y1 + 86400 < S1 + std < y0 - 86400 /\ y1 + 86400 < S1 + dst < y0 - 86400 /\ y1 + 86400 < E1 + std < y0 - 86400 /\ y1 + 86400 < E1 + dst < y0 - 86400) ->
  (y0 + 86400 < S0 + std < yn - 86400 /\ y0 + 86400 < S0 + dst < yn - 86400 /\ y0 + 86400 < E0 + std < yn - 86400 /\ y0 + 86400 < E0 + dst < yn - 86400) ->
  (yn + 86400 < Sn + std < yn2 - 86400 /\ yn + 86400 < Sn + dst < yn2 - 86400 /\ yn + 86400 < En + std < yn2 - 86400 /\ yn + 86400 < En + dst < yn2 - 86400) ->
  (yn2 + 86400 < Sn2 + std < yn3 - 86400 /\ yn2 + 86400 < Sn2 + dst < yn3 - 86400 /\ yn2 + 86400 < En2 + std < yn3 - 86400 /\ yn2 + 86400 < En2 + dst < yn3 - 86400) ->
  S0 <> E0 -> (S1 <? E1) = (S0 <? E0) ->
  (y0 <= t + std < yn \/ y0 <= t + dst < yn) ->
  (* the four intervals the oracle looks at, for the three possible UTC years of t *)
  forall b : bool,
  (yt = k - 1 -> b = ((S3 <=? t) && (t <? (if S3 <? E3 then E3 else E2)) || (S2 <=? t) && (t <? (if S2 <? E2 then E2 else E1))
                      || (S1 <=? t) && (t <? (if S1 <? E1 then E1 else E0)) || (S0 <=? t) && (t <? (if S0 <? E0 then E0 else En)))) ->
  (yt = k -> b = ((S2 <=? t) && (t <? (if S2 <? E2 then E2 else E1)) || (S1 <=? t) && (t <? (if S1 <? E1 then E1 else E0))
                  || (S0 <=? t) && (t <? (if S0 <? E0 then E0 else En)) || (Sn <=? t) && (t <? (if Sn <? En then En else En2)))) ->
  (yt = k + 1 -> b = ((S1 <=? t) && (t <? (if S1 <? E1 then E1 else E0)) || (S0 <=? t) && (t <? (if S0 <? E0 then E0 else En))
                      || (Sn <=? t) && (t <? (if Sn <? En then En else En2)) || (Sn2 <=? t) && (t <? (if Sn2 <? En2 then En2 else En3)))) ->
  (yt = k - 1 \/ yt = k \/ yt = k + 1) ->
  b = (if S0 <? E0 then (S0 <=? t) && (t <? E0) else (t <? E0) || (S0 <=? t)).
Proof.
  intros Hs Hd P3 P2 P1 P0 Pn Pn2 Hne Hreg Hl b H1 H2 H3 Hy.
  destruct (S0 <? E0) eqn:B0;
  destruct Hy as [Hy|[Hy|Hy]]; [rewrite (H1 Hy)|rewrite (H2 Hy)|rewrite (H3 Hy)|rewrite (H1 Hy)|rewrite (H2 Hy)|rewrite (H3 Hy)];
  rewrite ?Hreg; clear H1 H2 H3;
  destruct (S3 <? E3) eqn:?, (S2 <? E2) eqn:?, (Sn <? En) eqn:?, (Sn2 <? En2) eqn:?; lia.
Qed.

(** hypotheses on a rule around the naive year k *)
Definition rule_year_hyps (r : srule) (k : Z) : Prop :=
  -86400 < r_std r < 86400 /\ -86400 < r_dst r < 86400 /\
  premise_year r (k - 3) = true /\ premise_year r (k - 2) = true /\ premise_year r (k - 1) = true /\
  premise_year r k = true /\ premise_year r (k + 1) = true /\ premise_year r (k + 2) = true /\
  (rule_start_utc r (k - 1) <? rule_end_utc r (k - 1)) = (rule_start_utc r k <? rule_end_utc r k).

Lemma utc_year_near k t : year_start k - 86400 < t < year_start (k + 1) + 86400 ->
  utc_year t = k - 1 \/ utc_year t = k \/ utc_year t = k + 1.
Proof.
  intros H. pose proof (utc_year_bounds t) as Hb. set (y := utc_year t) in *.
  destruct (Z_lt_dec y (k - 1)) as [L|L].
  { exfalso. assert (year_start (y + 1) <= year_start (k - 1)).
    { clear - L. assert (forall n, 0 <= n -> year_start (y + 1) <= year_start (y + 1 + n)).
      { intros n Hn. pattern n. apply natlike_ind; [rewrite Z.add_0_r; lia| |exact Hn].
        intros x Hx IH. pose proof (year_start_succ (y + 1 + x)). replace (y + 1 + Z.succ x) with (y + 1 + x + 1) by lia. lia. }
      specialize (H (k - 1 - (y + 1)) ltac:(lia)). replace (y + 1 + (k - 1 - (y + 1))) with (k - 1) in H by lia. exact H. }
    pose proof (year_start_succ (k - 1)). replace (k - 1 + 1) with k in * by lia. lia. }
  destruct (Z_lt_dec (k + 1) y) as [G|G].
  { exfalso. assert (year_start (k + 2) <= year_start y).
    { clear - G. assert (forall n, 0 <= n -> year_start (k + 2) <= year_start (k + 2 + n)).
      { intros n Hn. pattern n. apply natlike_ind; [rewrite Z.add_0_r; lia| |exact Hn].
        intros x Hx IH. pose proof (year_start_succ (k + 2 + x)). replace (k + 2 + Z.succ x) with (k + 2 + x + 1) by lia. lia. }
      specialize (H (y - (k + 2)) ltac:(lia)). replace (k + 2 + (y - (k + 2))) with y in H by lia. exact H. }
    pose proof (year_start_succ (k + 1)). replace (k + 1 + 1) with (k + 2) in * by lia. lia. }
  lia.
Qed.

(* the oracle's DST predicate for an instant whose wall reading (on either clock) falls in year k *)
Lemma rule_is_dst_year r k t : rule_year_hyps r k ->
  (year_start k <= t + r_std r < year_start (k + 1) \/ year_start k <= t + r_dst r < year_start (k + 1)) ->
  rule_is_dst r t =
  (if rule_start_utc r k <? rule_end_utc r k
   then (rule_start_utc r k <=? t) && (t <? rule_end_utc r k)
   else (t <? rule_end_utc r k) || (rule_start_utc r k <=? t)).
Proof.
  intros (Hs & Hd & P3 & P2 & P1 & P0 & Pn & Pn2 & Hreg) Hl.
  apply premise_year_prop in P3, P2, P1, P0, Pn, Pn2.
  destruct P3 as [P3 _], P2 as [P2 _], P1 as [P1 _], P0 as [P0 N0], Pn as [Pn _], Pn2 as [Pn2 _].
  replace (k - 3 + 1) with (k - 2) in * by lia. replace (k - 2 + 1) with (k - 1) in * by lia.
  replace (k - 1 + 1) with k in * by lia. replace (k + 1 + 1) with (k + 2) in * by lia.
  replace (k + 2 + 1) with (k + 3) in * by lia.
  assert (Hnear : year_start k - 86400 < t < year_start (k + 1) + 86400) by lia.
  pose proof (utc_year_near k t Hnear) as Hy.
  apply (rule_is_dst_year_arith t k (utc_year t) (r_std r) (r_dst r)
           (rule_start_utc r (k - 3)) (rule_end_utc r (k - 3)) (rule_start_utc r (k - 2)) (rule_end_utc r (k - 2))
           (rule_start_utc r (k - 1)) (rule_end_utc r (k - 1)) (rule_start_utc r k) (rule_end_utc r k)
           (rule_start_utc r (k + 1)) (rule_end_utc r (k + 1)) (rule_start_utc r (k + 2)) (rule_end_utc r (k + 2))
           (rule_end_utc r (k + 3))
           (year_start (k - 3)) (year_start (k - 2)) (year_start (k - 1)) (year_start k) (year_start (k + 1))
           (year_start (k + 2)) (year_start (k + 3)) Hs Hd P3 P2 P1 P0 Pn Pn2 N0 Hreg Hl).
  - intros E. rewrite rule_is_dst_unfold, E. cbv zeta.
    replace (k - 1 - 2) with (k - 3) by lia. replace (k - 3 + 1) with (k - 2) by lia.
    replace (k - 1 - 1) with (k - 2) by lia. replace (k - 2 + 1) with (k - 1) by lia.
    replace (k - 1 + 1) with k by lia. replace (k + 1) with (k + 1) by lia. reflexivity.
  - intros E. rewrite rule_is_dst_unfold, E. cbv zeta.
    replace (k - 2 + 1) with (k - 1) by lia. replace (k - 1 + 1) with k by lia.
    replace (k + 1 + 1) with (k + 2) by lia. reflexivity.
  - intros E. rewrite rule_is_dst_unfold, E. cbv zeta.
    replace (k + 1 - 2) with (k - 1) by lia. replace (k - 1 + 1) with k by lia.
    replace (k + 1 - 1) with k by lia. replace (k + 1 + 1) with (k + 2) by lia. replace (k + 2 + 1) with (k + 3) by lia.
    reflexivity.
  - exact Hy.
Qed.

(* the year's two-transition table is at the oracle's offset, for such instants *)
Lemma year_table_off a k t : rule_year_hyps (conv_rule a) k ->
  let r := conv_rule a in
  let '(ps, first) := year_table a k in
  ordered (windows (offs ps) (ut_offset first)) = true ->
  (year_start k <= t + r_std r < year_start (k + 1) \/ year_start k <= t + r_dst r < year_start (k + 1)) ->
  table_off (offs ps) (ut_offset first) t = (if rule_is_dst r t then r_dst r else r_std r).
Proof.
  intros H r. pose proof (rule_is_dst_year r k t H) as Hd.
  unfold year_table. fold r.
  change (ut_offset (a_std a)) with (r_std r). change (ut_offset (a_dst a)) with (r_dst r).
  set (S := rule_start_utc r k) in *. set (E := rule_end_utc r k) in *.
  set (std := r_std r) in *. set (dst := r_dst r) in *.
  destruct (S + std <? E + dst) eqn:Ho; cbn [offs map fst snd windows ordered table_off];
    change (ut_offset (a_std a)) with std; change (ut_offset (a_dst a)) with dst;
    intros Hord Hl; rewrite (Hd Hl).
  - assert (S < E) by lia. replace (S <? E) with true by lia.
    destruct (S <=? t) eqn:C1; cbn [andb].
    + destruct (E <=? t) eqn:C2; [replace (t <? E) with false by lia|replace (t <? E) with true by lia]; reflexivity.
    + reflexivity.
  - assert (E < S) by lia. replace (S <? E) with false by lia.
    destruct (E <=? t) eqn:C1.
    + replace (t <? E) with false by lia. cbn [orb]. destruct (S <=? t); reflexivity.
    + replace (t <? E) with true by lia. reflexivity.
Qed.

(** Full classification for a TZ string (rule-only zone): the answer of the rule code for a wall
    reading of year k lists exactly the oracle's instants, earliest first *)
Theorem rule_zone_classification z a first l :
  let k := utc_year l in let r := conv_rule a in
  transitions z = [] -> index (local_time_types z) 0 = Val first -> extra_rule z = Some (Alternate a) ->
  alt_ok a -> -2147483650 <= k <= 2147483650 -> r_std r <> r_dst r -> rule_year_hyps r k ->
  let '(ps, prev) := year_table a k in
  ordered (windows (offs ps) (ut_offset prev)) = true ->
  excepted_table (offs ps) (ut_offset prev) l = false ->
  exists m, find_local_time_type_from_local z k l = Val (Ok m) /\
  let S := instants_of_wall (mk_szone (ut_offset first) [] (Some (inr r))) l in
  match m with
  | MNone => S = []
  | MSingle x => forall t, In t S <-> t = l - ut_offset x
  | MAmbiguous x y => l - ut_offset x < l - ut_offset y /\
                      forall t, In t S <-> t = l - ut_offset x \/ t = l - ut_offset y
  end.
Proof.
  intros k r Ht Hf Hr Ha Hk Hne Hyp.
  pose proof (from_local_rule_zone z a first k l Ht Hf Hr Ha Hk Hne) as Hm.
  pose proof (fun t => year_table_off a k t Hyp) as Hoff. cbv zeta in Hoff. fold r in Hoff.
  destruct (year_table a k) as [ps prev] eqn:Eyt. intros Hord Hex.
  exists (table_answer ps prev l). split; [exact (Hm Hord Hex)|].
  (* the year table is increasing *)
  assert (Hinc : increasing (offs ps) = true).
  { unfold year_table in Eyt. destruct (_ <? _) in Eyt; injection Eyt as <- <-;
      cbn [offs map fst snd windows ordered increasing] in *; lia. }
  pose proof (table_classification ps prev l Hinc Hord Hex) as Hc. cbv zeta in *.
  pose proof (utc_year_bounds l) as Hlb. fold k in Hlb.
  (* membership in S(l) = the table's [maps] *)
  assert (Hvals : forall t, table_off (offs ps) (ut_offset prev) t = r_std r \/ table_off (offs ps) (ut_offset prev) t = r_dst r).
  { intros t. unfold year_table in Eyt. destruct (_ <? _) in Eyt; injection Eyt as <- <-;
      cbn [offs map fst snd table_off]; repeat match goal with |- context [if ?c then _ else _] => destruct c end; auto. }
  assert (Hiff : forall t, In t (instants_of_wall (mk_szone (ut_offset first) [] (Some (inr r))) l)
                           <-> maps (offs ps) (ut_offset prev) t l).
  { intros t. rewrite instants_of_wall_spec. unfold zone_off. cbn [z_trans z_rule z_first last_trans rev rule_off].
    unfold maps. split.
    - intros [Hz _]. injection Hz as Hz.
      change (ut_offset (a_dst a)) with (r_dst r) in Hz. change (ut_offset (a_std a)) with (r_std r) in Hz.
      rewrite (Hoff t Hord); [lia|]. destruct (rule_is_dst r t); [right|left]; lia.
    - intros Hmaps. assert (Hw : year_start k <= t + r_std r < year_start (k + 1) \/ year_start k <= t + r_dst r < year_start (k + 1)).
      { destruct (Hvals t) as [E|E]; rewrite E in Hmaps; [left|right]; lia. }
      change (ut_offset (a_dst a)) with (r_dst r). change (ut_offset (a_std a)) with (r_std r).
      rewrite <- (Hoff t Hord Hw). split; [f_equal; lia|].
      unfold zone_offsets. cbn [z_trans z_rule z_first map app]. rewrite In_dedup.
      replace (l - t) with (table_off (offs ps) (ut_offset prev) t) by lia.
      destruct (Hvals t) as [E|E]; rewrite E; cbn; auto. }
  destruct (table_answer ps prev l) as [|x|x y].
  - destruct (instants_of_wall _ l) as [|t rest] eqn:E; [reflexivity|].
    exfalso. apply (Hc t). apply Hiff. left. reflexivity.
  - destruct Hc as [Hx Hu]. intros t. rewrite Hiff. split; [apply Hu|intros ->; exact Hx].
  - destruct Hc as (Hx & Hy & Hlt & Hu). split; [exact Hlt|]. intros t. rewrite Hiff.
    split; [apply Hu|intros [->| ->]; assumption].
Qed.

(* the judge's excepted seconds cover those of the year table *)
Lemma excepted_wall_year_table a first l :
  let r := conv_rule a in
  let '(ps, prev) := year_table a (utc_year l) in
  excepted_wall (mk_szone first [] (Some (inr r))) l = false ->
  excepted_table (offs ps) (ut_offset prev) l = false.
Proof.
  intros r. unfold year_table. fold r.
  unfold excepted_wall, excepted_rule. cbn [z_trans z_first z_rule excepted_table orb].
  set (y := utc_year l).
  set (F := fun yy : Z => _).
  assert (HF : existsb F [y - 2; y - 1; y; y + 1; y + 2] = false -> F y = false).
  { intros H. destruct (F y) eqn:E; [|reflexivity]. rewrite <- H. symmetry. apply existsb_exists.
    exists y. split; [cbn; auto|exact E]. }
  change (ut_offset (a_std a)) with (r_std r). change (ut_offset (a_dst a)) with (r_dst r).
  destruct (rule_start_utc r y + r_std r <? rule_end_utc r y + r_dst r); cbv beta iota; cbn [offs map fst snd excepted_table];
    change (ut_offset (a_std a)) with (r_std r); change (ut_offset (a_dst a)) with (r_dst r);
    intros H; apply HF in H; subst F; cbv beta in H;
    set (S := rule_start_utc r y) in *; set (E := rule_end_utc r y) in *;
    set (std := r_std r) in *; set (dst := r_dst r) in *; clearbody S E std dst; clear - H; lia.
Qed.
