(** C11 -- reader soundness, resolution half: for a field set that passed the range checks of the
    [Parsed] setters ([setter_ok], Proofs/C11Sound.v), Parsed::to_datetime succeeds ONLY when the
    fields name an existing date ([valid]), the day of week written (if any) is the date's
    ([weekday_ok]) and the value is representable ([representable]); otherwise it returns an error
    value.  The converse of Proofs/C11Resolve.v. *)
From Coq Require Import ZArith List Bool Lia ZifyBool.
From V Require Import Base.Int Base.IntLemmas Base.IO Spec.Gregorian Model.TimeDelta.
From V Require Model.Date Model.Time.
From V Require Import Model.DateTime Model.Parsed.
From V Require Import Proofs.C08Sweeps Proofs.C08Date Proofs.C08Days Proofs.C08 Proofs.Date Proofs.DateIso
  Proofs.GregorianForms Proofs.C14 Proofs.C14Date Proofs.C04.
From V Require Import Spec.Rfc2822 Proofs.C11Resolve.
From V Require Proofs.C11Sound.
Import ListNotations.
Open Scope Z_scope.
Ltac Zify.zify_post_hook ::= Z.to_euclidean_division_equations.

(** from_local_datetime on a valid date, in or out of the supported range *)
Lemma from_local_gen y o d t off : repr y o d -> time_ok t -> off_ok off ->
  let n := dn_of_yo y o + (Time.tsecs t - off) / 86400 in
  from_local_datetime off (mk_ndt d t) =
  Val (if dn_in_range n
       then MSingle (mk_dtz (mk_ndt (date_of_dn n) (Time.mk_time ((Time.tsecs t - off) mod 86400) (Time.tfrac t))) off)
       else MNone).
Proof.
  intros H Ht Ho n. unfold from_local_datetime, ndt_checked_sub_offset. cbn [nd_time nd_date].
  rewrite overflowing_sub_offset_spec by assumption. cbv [bind].
  set (days := (Time.tsecs t - off) / 86400) in *.
  assert (Hd : -1 <= days <= 1) by (unfold days; destruct Ht as [Hs _]; unfold off_ok in Ho; lia).
  unfold shift_date_checked.
  destruct (days =? -1) eqn:E1.
  - rewrite (pred_opt_spec y o d H). replace (dn_of_yo y o - 1) with n by (unfold n; lia).
    destruct (dn_in_range n); cbv [obind bind date_if]; reflexivity.
  - destruct (days =? 1) eqn:E2.
    + rewrite (succ_opt_spec y o d H). replace (dn_of_yo y o + 1) with n by (unfold n; lia).
      destruct (dn_in_range n); cbv [obind bind date_if]; reflexivity.
    + cbv [obind bind]. replace n with (dn_of_yo y o) by (unfold n; lia).
      rewrite (repr_dn_in_range y o d H). rewrite (date_of_dn_of_repr y o d H). reflexivity.
Qed.

Section ResolveInv.
  Variable f : fields.
  Hypothesis Hset : C11Sound.setter_ok f.

  Let Y := year_of f.
  Let m := f_month f.
  Let dd := f_day f.
  Let o := ordinal_of_md (is_leap Y) m dd.
  Let date := mkdate Y o.
  Let s := second_of f.
  Let lsecs := f_hour f * 3600 + f_minute f * 60 + (if s =? 60 then 59 else s).
  Let lfrac := if s =? 60 then 1000000000 else 0.
  Let off := zone_offset (f_zone f).
  Let P := resolve_fields f.

  Lemma ri_time : to_naive_time P = Val (Ok (Time.mk_time lsecs lfrac)).
  Proof.
    destruct (rf_time_fields f) as (T1 & T2 & T3 & T4 & T5 & _). fold P in T1, T2, T3, T4, T5.
    destruct Hset as (_ & _ & _ & Hh & Hmi & Hs & _). fold s in Hs.
    unfold to_naive_time. rewrite T1, T2, T3, T4, T5. unfold contains.
    replace ((0 <=? f_hour f / 12) && (f_hour f / 12 <=? 1)) with true by lia.
    replace ((0 <=? f_hour f mod 12) && (f_hour f mod 12 <=? 11)) with true by lia.
    cbv [ebind bind]. unfold mul_u32, add_u32.
    rewrite chk_in by (unfold in_u32, in_range, u32_max; lia). cbv [bind].
    rewrite chk_in by (unfold in_u32, in_range, u32_max; lia). cbv [bind].
    replace ((0 <=? f_minute f) && (f_minute f <=? 59)) with true by lia. cbv iota beta.
    change (unwrap_or (f_second f) 0) with s.
    replace (f_hour f / 12 * 12 + f_hour f mod 12) with (f_hour f) by lia.
    unfold lsecs, lfrac.
    destruct ((0 <=? s) && (s <=? 59)) eqn:E59.
    - replace (s =? 60) with false by lia. cbv iota beta.
      rewrite chk_in by (unfold in_u32, in_range, u32_max; lia). cbv [bind].
      rewrite from_hms_nano_ok by lia. reflexivity.
    - replace (s =? 60) with true by lia. cbv iota beta.
      rewrite chk_in by (unfold in_u32, in_range, u32_max; lia). cbv [bind].
      rewrite from_hms_nano_ok by lia. reflexivity.
  Qed.
  Lemma ri_lsecs : 0 <= lsecs < 86400.
  Proof.
    destruct Hset as (_ & _ & _ & Hh & Hmi & Hs & _). fold s in Hs. unfold lsecs. destruct (s =? 60) eqn:E; lia.
  Qed.

  (** the date part: from_ymd_opt decides *)
  Lemma ri_date_head :
    to_naive_date P =
    (let! dt := ok_or_r (Val (C08Date.date_if (year_in_range Y && valid_ymd Y m dd) date)) OutOfRange in
     let* v := andr (verify_isoweekdate P dt) (verify_ordinal P dt) in
     if negb v then Val (Err Impossible) else Val (Ok dt)).
  Proof.
    destruct (rf_date_fields f) as (F1 & F2 & F3 & F4 & F5 & F6 & F7 & F8 & F9 & F10 & F11 & F12 & F13 & F14).
    fold P Y m dd in F1, F2, F3, F4, F5, F6, F7, F8, F9, F10, F11, F12, F13, F14.
    destruct Hset as (Hd & Hm & Hy & _).
    unfold to_naive_date. rewrite F1, F2, F3, F4, F5, F6, F7, F8, F9, F10, F13, F14.
    change (resolve_year (Some Y) None None) with (Val (Ok (Some Y))).
    change (resolve_year None None None) with (Val (Ok (@None Z))).
    cbv [ebind bind].
    assert (HYi : in_i32 Y = true) by (unfold in_i32, in_range; fold Y in Hy; lia).
    rewrite from_ymd_opt_spec by (try exact HYi; unfold in_u32, in_range, u32_max; fold m dd in Hd, Hm; lia).
    change (mk_ymd Y m dd) with date.
    destruct (year_in_range Y && valid_ymd Y m dd); cbv [C08Date.date_if ok_or_r ok_or bind ebind]; [|reflexivity].
    destruct (andr (verify_isoweekdate P date) (verify_ordinal P date)) as [v| |]; [|reflexivity|reflexivity].
    destruct v; reflexivity.
  Qed.
  Lemma ri_date_bad : year_in_range Y && valid_ymd Y m dd = false -> to_naive_date P = Val (Err OutOfRange).
  Proof. intros E. rewrite ri_date_head, E. reflexivity. Qed.

  Section Good.
    Hypothesis Hgood : year_in_range Y && valid_ymd Y m dd = true.
    Lemma ri_repr : repr Y o date.
    Proof.
      apply andb_prop in Hgood. destruct Hgood as [Hy Hymd]. unfold valid_ymd in Hymd.
      destruct (ordinal_of_md_valid (is_leap Y) m dd ltac:(lia) ltac:(lia)) as [Ho _].
      split; [exact Hy|]. split; [|reflexivity]. unfold valid_yo, days_in_year. fold o in Ho. destruct (is_leap Y); lia.
    Qed.
    Lemma ri_date_good : to_naive_date P = Val (if weekday_ok f then Ok date else Err Impossible).
    Proof.
      destruct (rf_date_fields f) as (F1 & F2 & F3 & F4 & F5 & F6 & F7 & F8 & F9 & F10 & F11 & F12 & F13 & F14).
      fold P Y m dd in F1, F2, F3, F4, F5, F6, F7, F8, F9, F10, F11, F12, F13, F14.
      pose proof ri_repr as Hr.
      rewrite ri_date_head, Hgood. cbv [C08Date.date_if ok_or_r ok_or bind ebind].
      rewrite (verify_iso_weekday Y o date P Hr F4 F5 F6 F11).
      rewrite (verify_ordinal_complete Y o date P Hr) by (rewrite ?F13, ?F9, ?F10; discriminate).
      rewrite F12. unfold weekday_ok. change (local_dn f) with (dn_of_yo Y o).
      destruct (f_wd f) as [w|]; cbv [andr bind].
      - destruct (w =? weekday_of_dn (dn_of_yo Y o)); reflexivity.
      - reflexivity.
    Qed.
  End Good.

  (** to_datetime succeeds only on valid, consistent, representable fields *)
  Theorem to_datetime_ok_inv z : to_datetime P = Val (Ok z) ->
    valid f = true /\ weekday_ok f = true /\ representable f = true.
  Proof.
    intros H.
    destruct (rf_time_fields f) as (_ & _ & _ & _ & _ & T6 & T7). fold P off in T6, T7.
    pose proof Hset as (Hd & Hm & Hy & Hh & Hmi & Hs & Hz & Hyv & Hoff). fold off in Hoff.
    pose proof ri_lsecs as Hls.
    unfold to_datetime in H. rewrite T7, ?T6 in H. cbv [ebind bind] in H. unfold to_naive_datetime_with_offset in H.
    rewrite ri_time in H.
    destruct (year_in_range Y && valid_ymd Y m dd) eqn:Ed.
    2:{ rewrite (ri_date_bad Ed), T6 in H. cbv [bind] in H. discriminate. }
    rewrite (ri_date_good Ed) in H.
    destruct (weekday_ok f) eqn:Ew.
    2:{ rewrite T6 in H. cbv [bind] in H. discriminate. }
    cbv [bind] in H. pose proof (ri_repr Ed) as Hr.
    destruct (dt_timestamp_total date (Time.mk_time lsecs lfrac)) as (ts & Hts & Htsr).
    { exists Y, o. exact Hr. } { cbn [Time.tsecs]. exact Hls. }
    rewrite Hts in H. cbv [bind] in H. unfold sub_i64 in H.
    rewrite chk_in in H by (unfold in_i64, in_range, i64_min, i64_max; unfold i32_min, i32_max in Hoff; lia).
    cbv [bind] in H. rewrite T6 in H. cbv [ebind bind ok_or] in H.
    rewrite C14.east_opt_spec in H.
    destruct ((-86400 <? off) && (off <? 86400)) eqn:Eo; [|discriminate].
    cbv [bind] in H.
    assert (Htok : time_ok (Time.mk_time lsecs lfrac)).
    { unfold time_ok. cbn [Time.tsecs Time.tfrac]. split; [exact Hls|]. unfold lfrac. destruct (s =? 60); lia. }
    rewrite (from_local_gen Y o date _ off Hr Htok ltac:(unfold off_ok; lia)) in H. cbn [Time.tsecs] in H.
    destruct (dn_in_range (dn_of_yo Y o + (lsecs - off) / 86400)) eqn:En; [|discriminate].
    apply andb_prop in Ed. destruct Ed as [Ey Eymd].
    split; [|split; [reflexivity|]].
    - unfold valid. fold Y m dd s. rewrite Eymd, Hz. fold s in Hs. cbn [andb]. lia.
    - unfold representable. fold off Y. rewrite Eo, Ey. cbn [andb].
      change (local_dn f) with (dn_of_yo Y o). replace (utc_shift f) with (lsecs - off) by reflexivity. exact En.
  Qed.
End ResolveInv.
