(** C11 -- reader soundness, token level: whenever a scanner call of parse_rfc2822 succeeds, the
    corresponding token function of the specification (Spec/Rfc2822.v) succeeds with the same
    value and remainder.  These are the converses of the lemmas of Proofs/C11Scan.v. *)
From Coq Require Import ZArith List Bool Lia ZifyBool String.
From V Require Model.Date Model.Time Model.Parsed.
From V Require Import Base.Int Base.IntLemmas Base.IO Base.Utf8 Base.Lift Gen.ScanTables Gen.Rfc2822Consts Model.Scan Model.DateTime
  Model.Rfc2822 Spec.Gregorian Spec.Rfc2822 Spec.Rfc2822Lenient Proofs.Utf8 Proofs.Scan Proofs.C11 Proofs.C11Scan.
From V Require Proofs.C13Safe Proofs.C11Total.
Import ListNotations.
Open Scope Z_scope.

Lemma pbind_inv_ {X Y} (x : PR X) (f : X -> PR Y) r :
  pbind x f = Val (POk r) -> exists a, x = Val (POk a) /\ f a = Val (POk r).
Proof. destruct x as [[a|e]| |]; cbn; intros H; try discriminate. eauto. Qed.
Lemma bind_inv_ {X Y} (x : R X) (f : X -> R Y) r : bind x f = Val r -> exists a, x = Val a /\ f a = Val r.
Proof. destruct x; cbn; intros H; try discriminate. eauto. Qed.

(** * Numbers *)
Lemma npl_inv : forall l i min max n r v, number_pure_loop l i min max n = POk (r, v) -> i <= max ->
  min <= i + blen l ->
  exists ds, l = ds ++ r /\ forallb is_ascii_digit ds = true /\ v = digits_value ds n /\ i + blen ds <= max /\
    (i + blen ds < max -> not_digit_start r = true /\ min <= i + blen ds).
Proof.
  induction l as [|c t IH]; intros i min max n r v H Hi Hmin.
  - cbn [number_pure_loop] in H. injection H as <- <-. exists []. rewrite blen_nil in *.
    cbn [app forallb digits_value not_digit_start]. repeat split; try lia.
  - cbn [number_pure_loop] in H. destruct (max <=? i) eqn:Emax.
    { injection H as <- <-. exists []. rewrite blen_nil. cbn [app forallb digits_value]. repeat split; try lia. }
    destruct (is_ascii_digit c) eqn:Ed; cbn [negb] in H.
    + destruct (i64_max <? n * 10 + (c - 48)); [discriminate|].
      rewrite blen_cons in Hmin.
      destruct (IH (i + 1) min max (n * 10 + (c - 48)) r v H ltac:(lia) ltac:(lia)) as (ds & Hl & Hd & Hv & Hb & Hn).
      exists (c :: ds). rewrite blen_cons. cbn [app forallb digits_value]. rewrite Ed, Hd, <- Hl.
      repeat split; try lia; try reflexivity; apply Hn; lia.
    + destruct (i <? min) eqn:Em; [discriminate|]. injection H as <- <-. exists []. rewrite blen_nil.
      cbn [app forallb digits_value not_digit_start]. rewrite Ed. repeat split; try lia.
Qed.

Lemma take_digits_of ds : forall r, forallb is_ascii_digit ds = true -> not_digit_start r = true ->
  take_digits (ds ++ r) = (map (fun c => c - 48) ds, r).
Proof.
  induction ds as [|a ds IH]; intros r Hd Hr.
  - cbn [app map]. destruct r as [|c t]; [reflexivity|]. cbn [take_digits]. rewrite is_digit_ascii_digit.
    cbn [not_digit_start] in Hr. destruct (is_ascii_digit c); [discriminate|reflexivity].
  - cbn [app take_digits map]. rewrite is_digit_ascii_digit. cbn [forallb] in Hd. apply andb_prop in Hd.
    destruct Hd as [Ha Hds]. rewrite Ha. rewrite IH by assumption. reflexivity.
Qed.

(** day: [number(s, 1, 2)] followed by something that is not a digit *)
Lemma day_inv s r v : utf8_valid s = true -> number s 1 2 = Val (POk (r, v)) -> not_digit_start r = true ->
  rec_day s = Some (v, r).
Proof.
  intros Hv H Hr. rewrite number_ok in H by (assumption || lia). injection H as H. unfold number_pure in H.
  destruct (blen s <? 1) eqn:El; [discriminate|].
  destruct (npl_inv _ _ _ _ _ _ _ H ltac:(lia) ltac:(lia)) as (ds & Hs & Hd & Hval & Hb & Hn).
  unfold rec_day. rewrite Hs, take_digits_of by assumption.
  rewrite <- (value_of_digits ds 0) in Hval.
  destruct ds as [|a [|b [|c ds]]].
  - rewrite blen_nil in *. lia.
  - cbn [map] in *. rewrite Hval. reflexivity.
  - cbn [map] in *. rewrite Hval. reflexivity.
  - rewrite !blen_cons in Hb. pose proof (blen_nonneg ds). lia.
Qed.

(** year: [number(s, 2, usize::MAX)] *)
Lemma year_inv s r v : utf8_valid s = true -> blen s <= u64_max ->
  number s 2 R2_YEAR_MAX = Val (POk (r, v)) ->
  rec_year s = Some (blen s - blen r, v, r) /\ 2 <= blen s - blen r /\ 0 <= v < 10 ^ (blen s - blen r) /\
  utf8_valid r = true /\ blen r <= blen s.
Proof.
  intros Hv Hl H. unfold R2_YEAR_MAX in H. rewrite number_ok in H by (assumption || lia). injection H as H. unfold number_pure in H.
  destruct (blen s <? 2) eqn:El; [discriminate|].
  destruct (npl_inv _ _ _ _ _ _ _ H ltac:(lia) ltac:(lia)) as (ds & Hs & Hd & Hval & Hb & Hn).
  assert (Hbl : blen s = blen ds + blen r) by (rewrite Hs at 1; apply blen_app).
  pose proof (blen_nonneg r) as Hr0. pose proof (blen_nonneg ds) as Hd0.
  assert (Hnd : not_digit_start r = true /\ 2 <= blen ds).
  { destruct (Z_lt_dec (0 + blen ds) 18446744073709551615) as [Hlt|Hge]; [apply Hn; exact Hlt|].
    unfold u64_max in Hl. assert (blen r = 0) by lia. rewrite (blen_0 r) by assumption. split; [reflexivity|lia]. }
  destruct Hnd as [Hnd H2].
  unfold rec_year. rewrite Hs at 1. rewrite take_digits_of by assumption.
  rewrite map_length. change (Z.of_nat (List.length ds)) with (blen ds).
  replace (2 <=? blen ds) with true by lia. rewrite value_of_digits, <- Hval.
  replace (blen s - blen r) with (blen ds) by lia. split; [reflexivity|]. split; [exact H2|].
  pose proof (digits_value_bound ds 0 Hd ltac:(lia)) as Hbd. pose proof (digits_value_mono ds 0 Hd ltac:(lia)) as Hmo.
  rewrite <- Hval in Hbd, Hmo. split; [lia|]. split; [|lia].
  pose proof (all_digits_forall ds Hd) as Hascii. rewrite Hs, utf8_valid_app_ascii in Hv by exact Hascii. exact Hv.
Qed.

(** * Names *)
Definition lor_ok (a : Z) : bool :=
  if (97 <=? Z.lor a 32) && (Z.lor a 32 <=? 122) then (lower a =? Z.lor a 32) && (a <=? 127) else true.
Lemma lor_sweep : forall_range lor_ok 0 256 = true.
Proof. vm_compute. reflexivity. Qed.
Lemma lor_lower_inv a k : 0 <= a <= 255 -> Z.lor a 32 = k -> 97 <= k <= 122 -> lower a = k /\ 0 <= a <= 127.
Proof.
  intros Ha Hk Hr. pose proof (forall_range_spec _ _ _ lor_sweep a ltac:(lia)) as H. unfold lor_ok in H.
  rewrite Hk in H. replace ((97 <=? k) && (k <=? 122)) with true in H by lia. lia.
Qed.
Lemma valid_head_range a r : utf8_valid (a :: r) = true -> 0 <= a <= 255.
Proof.
  cbn [utf8_valid]. intros H.
  destruct ((0 <=? a) && (a <=? 127)) eqn:E1; [lia|].
  destruct ((194 <=? a) && (a <=? 223)) eqn:E2; [lia|].
  destruct ((224 <=? a) && (a <=? 239)) eqn:E3; [lia|].
  destruct ((240 <=? a) && (a <=? 244)) eqn:E4; [lia|discriminate].
Qed.
Lemma name3_case a b c t k1 k2 k3 : utf8_valid (a :: b :: c :: t) = true ->
  bytes_eqb [Z.lor a 32; Z.lor b 32; Z.lor c 32] [k1; k2; k3] = true ->
  97 <= k1 <= 122 -> 97 <= k2 <= 122 -> 97 <= k3 <= 122 ->
  name3 (a :: b :: c :: t) = Some ([k1; k2; k3], t) /\ utf8_valid t = true /\ str_from (a :: b :: c :: t) 3 = Val t.
Proof.
  intros Hv E R1 R2 R3. cbn [bytes_eqb] in E.
  assert (E1 : Z.lor a 32 = k1) by lia. assert (E2 : Z.lor b 32 = k2) by lia. assert (E3 : Z.lor c 32 = k3) by lia.
  destruct (lor_lower_inv a k1 (valid_head_range _ _ Hv) E1 R1) as [La Ha].
  pose proof Hv as Hv1. rewrite utf8_valid_ascii in Hv1 by exact Ha.
  destruct (lor_lower_inv b k2 (valid_head_range _ _ Hv1) E2 R2) as [Lb Hb].
  pose proof Hv1 as Hv2. rewrite utf8_valid_ascii in Hv2 by exact Hb.
  destruct (lor_lower_inv c k3 (valid_head_range _ _ Hv2) E3 R3) as [Lc Hc].
  destruct (valid3 a b c t Hv Ha Hb Hc) as [Hvt Hst].
  split; [cbn [name3]; rewrite La, Lb, Lc; reflexivity|]. split; [exact Hvt|apply str_from_3; exact Hst].
Qed.

Lemma month_inv s r m0 : utf8_valid s = true -> short_month0 s = Val (POk (r, m0)) ->
  month_name s = Some (m0 + 1, r) /\ utf8_valid r = true.
Proof.
  intros Hv H. unfold short_month0, SHORT_MONTH_LEN, SHORT_MONTH_BIT, SHORT_MONTH_REST in H.
  destruct (blen s <? 3) eqn:El; [discriminate|].
  destruct s as [|a [|b [|c t]]]; try (rewrite ?blen_cons, ?blen_nil in El; lia).
  rewrite key3_cons in H. cbn [bind] in H.
  destruct (assoc_bytes [Z.lor a 32; Z.lor b 32; Z.lor c 32] SHORT_MONTH_ARMS) as [mv|] eqn:Ea; [|discriminate].
  unfold SHORT_MONTH_ARMS in Ea. cbn [assoc_bytes] in Ea.
  repeat match type of Ea with
  | (if ?cnd then _ else _) = _ =>
      destruct cnd eqn:E;
      [ injection Ea as <-;
        destruct (name3_case a b c t _ _ _ Hv E ltac:(lia) ltac:(lia) ltac:(lia)) as (N & Hvt & Hsf);
        rewrite Hsf in H; cbn [bind pok] in H; injection H as <- <-;
        split; [unfold month_name, obind; rewrite N; reflexivity|exact Hvt]
      | clear E ]
  end.
  discriminate.
Qed.
Lemma weekday_inv s r w : utf8_valid s = true -> short_weekday s = Val (POk (r, w)) ->
  day_name s = Some (w, r) /\ utf8_valid r = true.
Proof.
  intros Hv H. unfold short_weekday, SHORT_WEEKDAY_LEN, SHORT_WEEKDAY_BIT, SHORT_WEEKDAY_REST in H.
  destruct (blen s <? 3) eqn:El; [discriminate|].
  destruct s as [|a [|b [|c t]]]; try (rewrite ?blen_cons, ?blen_nil in El; lia).
  rewrite key3_cons in H. cbn [bind] in H.
  destruct (assoc_bytes [Z.lor a 32; Z.lor b 32; Z.lor c 32] SHORT_WEEKDAY_ARMS) as [mv|] eqn:Ea; [|discriminate].
  unfold SHORT_WEEKDAY_ARMS in Ea. cbn [assoc_bytes] in Ea.
  repeat match type of Ea with
  | (if ?cnd then _ else _) = _ =>
      destruct cnd eqn:E;
      [ injection Ea as <-;
        destruct (name3_case a b c t _ _ _ Hv E ltac:(lia) ltac:(lia) ltac:(lia)) as (N & Hvt & Hsf);
        rewrite Hsf in H; cbn [bind pok] in H; injection H as <- <-;
        split; [unfold day_name, obind; rewrite N; reflexivity|exact Hvt]
      | clear E ]
  end.
  discriminate.
Qed.

(** * Zones *)
Lemma tz_tail_nocolon_inv neg s r off : utf8_valid s = true ->
  tz_tail neg s (fun s => pok s) false = Val (POk (r, off)) ->
  exists hh mm r1, take2 s = Some (hh, r1) /\ take2 r1 = Some (mm, r) /\ mm <= 59 /\
    off = (if neg then -1 else 1) * (hh * 3600 + mm * 60) /\ utf8_valid r = true.
Proof.
  intros Hv H. unfold tz_tail in H.
  destruct s as [|h1 [|h2 s2]]; try (cbn [tz_digits perr_ pbind bind] in H; discriminate).
  cbn [tz_digits] in H.
  destruct (is_ascii_digit h1) eqn:E1; [|cbn [andb perr_ pbind bind] in H; discriminate].
  destruct (is_ascii_digit h2) eqn:E2; [|cbn [andb perr_ pbind bind] in H; discriminate].
  cbn [andb] in H. pose proof (digit_range h1 E1). pose proof (digit_range h2 E2).
  rewrite two_digit_value_ok in H by assumption. cbv [plift bind pbind] in H.
  assert (Hv2 : utf8_valid s2 = true) by (rewrite !utf8_valid_ascii in Hv by lia; exact Hv).
  rewrite str_from_2 in H by (apply utf8_valid_starts_ok; exact Hv2). cbv [bind pbind pok] in H.
  destruct s2 as [|m1 [|m2 s4]]; try (cbn [tz_digits perr_] in H; discriminate).
  cbn [tz_digits] in H.
  change TZ_MIN_TENS_LO with 48 in H. change TZ_MIN_TENS_HI with 53 in H.
  change TZ_MIN_OOR_TENS_LO with 54 in H. change TZ_MIN_OOR_TENS_HI with 57 in H.
  destruct ((48 <=? m1) && (m1 <=? 53) && is_ascii_digit m2) eqn:Em.
  2:{ destruct ((54 <=? m1) && (m1 <=? 57) && is_ascii_digit m2); cbv [perr_] in H; discriminate. }
  apply andb_prop in Em. destruct Em as [Em1 Em2]. pose proof (digit_range m2 Em2).
  assert (Dm1 : is_ascii_digit m1 = true) by (unfold is_ascii_digit; lia).
  rewrite two_digit_value_ok in H by assumption. cbv [plift bind pbind] in H.
  rewrite !blen_cons in H. pose proof (blen_nonneg s4). replace (1 + (1 + blen s4) >=? 2) with true in H by lia.
  assert (Hv4 : utf8_valid s4 = true) by (rewrite !utf8_valid_ascii in Hv2 by lia; exact Hv2).
  rewrite str_from_2 in H by (apply utf8_valid_starts_ok; exact Hv4). cbv [plift bind pbind] in H.
  change TZ_SECS_PER_HOUR with 3600 in H. change TZ_SECS_PER_MINUTE with 60 in H.
  unfold mul_i32, add_i32, neg_i32 in H.
  rewrite chk_in in H by (unfold in_i32, in_range, i32_min, i32_max; lia). cbv [bind] in H.
  rewrite chk_in in H by (unfold in_i32, in_range, i32_min, i32_max; lia). cbv [bind] in H.
  rewrite chk_in in H by (unfold in_i32, in_range, i32_min, i32_max; lia). cbv [bind] in H.
  assert (Hr : r = s4 /\ off = (if neg then -1 else 1) * ((10 * (h1 - 48) + (h2 - 48)) * 3600 + (10 * (m1 - 48) + (m2 - 48)) * 60)).
  { destruct neg.
    - rewrite chk_in in H by (unfold in_i32, in_range, i32_min, i32_max; lia). cbv [bind pok] in H.
      injection H as <- <-. split; [reflexivity|lia].
    - cbv [pok] in H. injection H as <- <-. split; [reflexivity|lia]. }
  destruct Hr as [-> ->].
  exists (10 * (h1 - 48) + (h2 - 48)), (10 * (m1 - 48) + (m2 - 48)), (m1 :: m2 :: s4).
  split; [unfold take2; change (is_digit h1) with (is_ascii_digit h1); change (is_digit h2) with (is_ascii_digit h2); rewrite E1, E2; reflexivity|].
  split; [unfold take2; change (is_digit m1) with (is_ascii_digit m1); change (is_digit m2) with (is_ascii_digit m2); rewrite Dm1, Em2; reflexivity|].
  split; [lia|]. split; [reflexivity|exact Hv4].
Qed.

Lemma all2_eqb_eq a : forall b, blen a = blen b -> all2 Z.eqb a b = true -> a = b.
Proof.
  induction a as [|x a IH]; intros [|y b] Hl H.
  - reflexivity.
  - rewrite blen_nil, blen_cons in Hl. pose proof (blen_nonneg b). lia.
  - rewrite blen_nil, blen_cons in Hl. pose proof (blen_nonneg a). lia.
  - cbn [all2] in H. apply andb_prop in H. destruct H as [H1 H2]. rewrite !blen_cons in Hl.
    f_equal; [lia|apply IH; [lia|exact H2]].
Qed.
Lemma assoc_lc_zone key o : assoc_lc key TZ2822_NAMES = Some o ->
  (key = [122] /\ o = 0) \/ lookup key zone_names = Some o.
Proof.
  unfold TZ2822_NAMES. cbn [assoc_lc]. intros H.
  repeat match type of H with
  | (if ?cnd then _ else _) = _ =>
      destruct cnd eqn:E;
      [ apply andb_prop in E; destruct E as [E1 E2]; injection H as <-;
        apply all2_eqb_eq in E2; [|rewrite blen_map; lia]; cbv in E2; subst key;
        first [left; split; reflexivity | right; reflexivity]
      | clear E ]
  end.
  discriminate.
Qed.
Lemma lookup_single_zone x : lookup [x] zone_names = None.
Proof. rewrite zone_names_eq. cbn [lookup bytes_eqb]. rewrite ?andb_false_r. reflexivity. Qed.

Lemma zone_inv s r off : utf8_valid s = true -> timezone_offset_2822 s = Val (POk (r, off)) ->
  exists z, rec_zone s = Some (z, r) /\ valid_zone z = true /\ zone_offset z = off /\ utf8_valid r = true.
Proof.
  intros Hv H. unfold timezone_offset_2822 in H.
  destruct (take_alpha_spec s) as (name & Hs & Hfst & Halpha & Hlen & Hrest).
  rewrite Hlen in H.
  assert (Hta : take_alpha s = (name, snd (take_alpha s))) by (destruct (take_alpha s); cbn [fst snd] in *; subst; reflexivity).
  remember (snd (take_alpha s)) as rest eqn:Hresteq.
  pose proof (alpha_forall name Halpha) as Hascii.
  assert (Hvr : utf8_valid rest = true) by (rewrite Hs, utf8_valid_app_ascii in Hv by exact Hascii; exact Hv).
  destruct (blen name >? 0) eqn:E.
  - (* a name *)
    rewrite Hs in H. rewrite slice_to_app in H. cbv [bind] in H.
    rewrite str_from_app in H by (apply utf8_valid_starts_ok; exact Hvr). cbv [bind] in H.
    rewrite assoc_ic_lc, map_tolower_alpha in H by exact Halpha.
    destruct s as [|c t]; [destruct name; [rewrite blen_nil in E; lia|discriminate]|].
    assert (Hc : is_ascii_alphabetic c = true).
    { destruct name as [|x nm]; [rewrite blen_nil in E; lia|]. cbn [app] in Hs. injection Hs as -> _.
      cbn [forallb] in Halpha. apply andb_prop in Halpha. exact (proj1 Halpha). }
    assert (Hsign : (c =? 43) || (c =? 45) = false).
    { unfold is_ascii_alphabetic, is_ascii_uppercase, is_ascii_lowercase in Hc. lia. }
    unfold rec_zone. rewrite Hsign, Hta.
    destruct (assoc_lc (map lower name) TZ2822_NAMES) as [o|] eqn:Eo.
    + unfold mul_i32, TZ2822_SECS_PER_HOUR, chk in H. destruct (in_i32 (o * 3600)); cbv [bind pok] in H; [|discriminate].
      injection H as <- <-.
      destruct (assoc_lc_zone _ _ Eo) as [[Hk ->]|Hk].
      * rewrite Hk. rewrite lookup_single_zone. destruct name as [|l [|l2 nm]]; try discriminate.
        cbn [map] in Hk. injection Hk as Hk. replace (lower l =? 106) with false by lia.
        exists ZMil. repeat split; try reflexivity; exact Hvr.
      * rewrite Hk. exists (ZName o). repeat split; try reflexivity; exact Hvr.
    + destruct (blen name =? 1) eqn:E1; [|cbv [perr_] in H; discriminate].
      destruct name as [|l [|l2 nm]]; [rewrite blen_nil in E1; lia| |rewrite !blen_cons in E1; pose proof (blen_nonneg nm); lia].
      change (index [l] 0) with (Val l) in H. cbv [bind] in H.
      destruct (in_ranges l TZ2822_MILITARY) eqn:Em; [|cbv [perr_] in H; discriminate].
      cbv [pok] in H. injection H as <- <-. cbn [map]. rewrite lookup_single_zone.
      assert (Hj : lower l =? 106 = false).
      { unfold in_ranges, TZ2822_MILITARY in Em. cbn [existsb] in Em. unfold lower. destruct ((65 <=? l) && (l <=? 90)) eqn:Eu; lia. }
      rewrite Hj. exists ZMil. repeat split; try reflexivity; exact Hvr.
  - (* a numeric zone *)
    assert (name = []) by (destruct name; [reflexivity|rewrite blen_cons in E; pose proof (blen_nonneg name); lia]).
    subst name. cbn [app] in Hs.
    rewrite timezone_offset_unfold in H. cbn [andb] in H.
    pose proof (ncp_valid s Hv) as Hn. destruct s as [|c r0]; [rewrite Hn in H; cbv [perr_ pbind bind] in H; discriminate|].
    change (len_utf8 43) with 1 in H. change (len_utf8 45) with 1 in H. cbn [negb] in H.
    destruct Hn as [[Hc Hn]|[Hc (cp & r' & Hn & Hcp & _)]]; rewrite Hn in H.
    + destruct (utf8_valid_tail_ascii c r0 Hc Hv) as [Hvr0 Hsr0].
      unfold rec_zone.
      destruct (c =? 43) eqn:E43.
      { rewrite str_from_1 in H by exact Hsr0. cbv [bind pbind pok] in H.
        destruct (tz_tail_nocolon_inv _ _ _ _ Hvr0 H) as (hh & mm & r1 & T1 & T2 & Hmm & Hoff & Hvo).
        cbn [orb]. unfold obind. rewrite T1, T2. replace (c =? 45) with false by lia.
        exists (ZNum false hh mm). cbn [valid_zone zone_offset]. repeat split; try lia; try reflexivity; exact Hvo. }
      destruct (c =? 45) eqn:E45.
      { rewrite str_from_1 in H by exact Hsr0. cbv [bind pbind pok] in H.
        destruct (tz_tail_nocolon_inv _ _ _ _ Hvr0 H) as (hh & mm & r1 & T1 & T2 & Hmm & Hoff & Hvo).
        cbn [orb]. unfold obind. rewrite T1, T2.
        exists (ZNum true hh mm). cbn [valid_zone zone_offset]. repeat split; try lia; try reflexivity; exact Hvo. }
      destruct (c =? TZ_MINUS_SIGN); cbv [perr_ pbind bind] in H; discriminate.
    + replace (cp =? 43) with false in H by lia. replace (cp =? 45) with false in H by lia.
      destruct (cp =? TZ_MINUS_SIGN); cbv [perr_ pbind bind] in H; discriminate.
Qed.

(** * White space, comments, the optional parts *)
Lemma space_inv s r : space s = Val (POk r) -> uws1 s = Some r.
Proof.
  unfold space, uws1. cbv zeta. destruct (blen (trim_start s) <? blen s).
  - intros H. injection H as <-. reflexivity.
  - destruct (is_empty s); discriminate.
Qed.
Lemma uws1_trim s r : uws1 s = Some r -> r = trim_start s.
Proof. unfold uws1. cbv zeta. destruct (blen (trim_start s) <? blen s); [intros H; injection H as <-; reflexivity|discriminate]. Qed.
Lemma trim_start_digit c t : is_ascii_digit c = true -> trim_start (c :: t) = c :: t.
Proof.
  intros H. pose proof (digit_range c H). unfold trim_start, trim_start_matches. cbn [List.length trim_start_matches_fuel].
  rewrite next_code_point_ascii by lia. replace (is_whitespace c) with false by (unfold is_whitespace; lia). reflexivity.
Qed.
Lemma uws1_not_digit s r : uws1 s = Some r -> not_digit_start s = true.
Proof.
  unfold uws1. cbv zeta. destruct s as [|c t]; [reflexivity|]. cbn [not_digit_start].
  destruct (is_ascii_digit c) eqn:E; [|reflexivity]. rewrite trim_start_digit by exact E. rewrite Z.ltb_irrefl. discriminate.
Qed.

Lemma comment_rest_of_scan s rest : utf8_valid s = true -> blen s <= u64_max ->
  comment_2822 s = Val (POk (rest, tt)) -> comment_rest (uws0 s) = Some rest.
Proof. intros Hv Hl H. apply comment_rest_exact. apply (proj1 (comment_exact s rest Hv Hl)). exact H. Qed.
Lemma comment_scan_of_rest s rest : utf8_valid s = true -> blen s <= u64_max ->
  comment_rest (uws0 s) = Some rest -> comment_2822 s = Val (POk (rest, tt)).
Proof. intros Hv Hl H. apply (proj2 (comment_exact s rest Hv Hl)). apply comment_rest_exact. exact H. Qed.

Lemma opt_weekday_inv p s p' s1 : utf8_valid s = true -> Parsed.pget Parsed.F_weekday p = None ->
  opt_weekday p s = Val (POk (p', s1)) ->
  exists wd, rec_dow s = (wd, s1) /\
    p' = match wd with Some w => Parsed.pput Parsed.F_weekday (Some w) p | None => p end /\ utf8_valid s1 = true.
Proof.
  intros Hv Hp H. unfold opt_weekday in H.
  destruct (short_weekday s) as [[[s_ w]|e]| |] eqn:E; cbn [bind] in H; try discriminate.
  - destruct (weekday_inv s s_ w Hv E) as [Hdn Hvs].
    destruct s_ as [|x s_']; [cbn [starts_with_byte negb] in H; discriminate|].
    unfold R2_WEEKDAY_SEP in H. cbn [starts_with_byte] in H.
    destruct (x =? 44) eqn:Ex; cbn [negb] in H; [|discriminate]. assert (x = 44) by lia. subst x.
    destruct (utf8_valid_tail_ascii 44 s_' ltac:(lia) Hvs) as [Hv0 Hs0].
    rewrite str_from_1 in H by exact Hs0. cbn [bind] in H. unfold Parsed.set_weekday in H. rewrite set_ifc_fresh in H by exact Hp.
    cbn [pset pbind bind pok] in H. injection H as <- <-.
    exists (Some w). split; [unfold rec_dow; rewrite Hdn; reflexivity|]. split; [reflexivity|exact Hv0].
  - cbv [pok] in H. injection H as <- <-. exists None. split; [|split; [reflexivity|exact Hv]].
    unfold rec_dow. destruct (day_name s) as [[w r]|] eqn:Edn; [|reflexivity].
    destruct (day_name_scan s w r Hv Edn) as (Hsw & _). rewrite Hsw in E. discriminate.
Qed.

Lemma pset_checked_inv fld lo hi cast p v p' : Parsed.pget fld p = None ->
  pset (Parsed.set_checked fld lo hi cast p v) = Val (POk p') ->
  lo <= v <= hi /\ p' = Parsed.pput fld (Some (cast v)) p.
Proof.
  intros Hn H. unfold Parsed.set_checked, Parsed.contains in H.
  destruct ((lo <=? v) && (v <=? hi)) eqn:E; cbn [negb] in H; [|cbn [pset perr_] in H; discriminate].
  unfold Parsed.set_if_consistent in H. rewrite Hn in H. cbn [pset pok] in H. injection H as <-. split; [lia|reflexivity].
Qed.
Lemma set_hour_inv p v sh p' : Parsed.pget Parsed.F_hour_div_12 p = None -> Parsed.pget Parsed.F_hour_mod_12 p = None ->
  Parsed.set_hour p v = Val sh -> pset sh = Val (POk p') ->
  0 <= v <= 23 /\ p' = Parsed.pput Parsed.F_hour_mod_12 (Some (v mod 12)) (Parsed.pput Parsed.F_hour_div_12 (Some (v / 12)) p).
Proof.
  intros H1 H2 Hs Hp.
  destruct (Z_le_dec 0 v) as [L0|L0]; [destruct (Z_le_dec v 23) as [L1|L1]|].
  - rewrite set_hour_fresh in Hs by (assumption || lia). injection Hs as <-. cbn [pset pok] in Hp. injection Hp as <-.
    split; [lia|reflexivity].
  - exfalso. unfold Parsed.set_hour, Parsed.contains in Hs.
    replace ((0 <=? v) && (v <=? 11)) with false in Hs by lia. replace ((12 <=? v) && (v <=? 23)) with false in Hs by lia.
    cbn [bind] in Hs. injection Hs as <-. cbn [pset perr_] in Hp. discriminate.
  - exfalso. unfold Parsed.set_hour, Parsed.contains in Hs.
    replace ((0 <=? v) && (v <=? 11)) with false in Hs by lia. replace ((12 <=? v) && (v <=? 23)) with false in Hs by lia.
    cbn [bind] in Hs. injection Hs as <-. cbn [pset perr_] in Hp. discriminate.
Qed.

Lemma two_inv s r v : utf8_valid s = true -> number s 2 2 = Val (POk (r, v)) ->
  take2 s = Some (v, r) /\ utf8_valid r = true /\ 0 <= v <= 99.
Proof.
  intros Hv H. rewrite number_2 in H by exact Hv. injection H as H. rewrite take2_two, H.
  destruct (two_digits_valid s r v Hv H) as [H1 H2]. auto.
Qed.

Lemma opt_second_inv p s p' s1 : utf8_valid s = true -> Parsed.pget Parsed.F_second p = None ->
  opt_second p s = Val (POk (p', s1)) ->
  exists sec, rec_second_u s = Some (sec, s1) /\
    p' = match sec with Some v => Parsed.pput Parsed.F_second (Some v) p | None => p end /\
    match sec with Some v => 0 <= v <= 60 | None => True end /\ utf8_valid s1 = true /\ blen s1 <= blen s.
Proof.
  intros Hv Hp H. unfold opt_second, R2_TIME_SEP2 in H.
  destruct (trim_start_valid s Hv) as [Hv0 Hl0].
  rewrite char_ok in H by (exact Hv0 || lia). unfold rec_second_u, uws0.
  destruct (trim_start s) as [|c t] eqn:Et.
  - cbn [bind pok] in H. injection H as <- <-. exists None. repeat split; auto; lia.
  - destruct (c =? 58) eqn:Ec.
    + assert (c = 58) by lia. subst c. cbn [bind] in H. change (R2_SECOND_TRIM =? 1) with true in H. cbv iota in H.
      destruct (utf8_valid_tail_ascii 58 t ltac:(lia) Hv0) as [Hvt _].
      destruct (trim_start_valid t Hvt) as [Hvt0 Hlt0].
      apply pbind_inv_ in H. destruct H as ([r v] & Hn & H).
      unfold R2_SECOND_MIN, R2_SECOND_MAX in Hn. destruct (two_inv _ _ _ Hvt0 Hn) as (T & Hvr & Hrange).
      apply pbind_inv_ in H. destruct H as (p2 & Hset & H).
      unfold Parsed.set_second in Hset. destruct (pset_checked_inv _ _ _ _ _ _ _ Hp Hset) as [Hr ->].
      rewrite as_u32_small in H by (unfold u32_max; lia). cbv [pok] in H. injection H as <- <-.
      exists (Some v). unfold obind. rewrite T. pose proof (take2_len _ _ _ T). rewrite blen_cons in Hl0.
      repeat split; auto; lia.
    + cbn [bind pok] in H. injection H as <- <-. exists None. repeat split; auto; lia.
Qed.

Lemma comments_inv : forall fuel s, utf8_valid s = true -> blen s <= u64_max ->
  comments_loop fuel s = Val [] -> comments_to_end_u fuel s = true.
Proof.
  induction fuel as [|f IH]; intros s Hv Hl H; [discriminate|].
  cbn [comments_loop] in H. cbn [comments_to_end_u]. destruct s as [|c0 s0]; [reflexivity|].
  set (s := c0 :: s0) in *.
  pose proof (V.Proofs.C11Total.comment_2822_safe s Hv Hl) as Hsafe.
  destruct (comment_2822 s) as [[[s_out u]|e]| |] eqn:Ec; cbn [bind] in H; try discriminate.
  destruct u. rewrite (comment_rest_of_scan s s_out Hv Hl Ec). cbn [V.Proofs.C13Safe.safe fst] in Hsafe.
  destruct Hsafe as [Hvo Hlo]. apply IH; [exact Hvo|lia|exact H].
Qed.
