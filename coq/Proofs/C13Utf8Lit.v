(** C13 — literals of a format need not be ASCII: concatenation of well-formed UTF-8 strings, the first
    code point of a well-formed prefix, and the item-level round trip of ANY well-formed literal
    (the counterpart of [item_lit] of C13View.v, which asks for an ASCII literal).  Used by the class
    of C13Static.v ([it_static (Literal l) r = utf8_valid l]). *)
From Coq Require Import ZArith List Bool Lia ZifyBool.
From V Require Import Base.Int Base.IntLemmas Base.IO Base.Utf8 Model.Scan Model.Items
  Proofs.Utf8 Proofs.C13Reads Proofs.C13View.
Import ListNotations.
Open Scope Z_scope.
Ltac Zify.zify_post_hook ::= Z.to_euclidean_division_equations.

(** * well-formedness of a concatenation: a well-formed prefix can be dropped *)
Lemma utf8_valid_app_gen_n n : forall a b, (List.length a <= n)%nat -> utf8_valid a = true ->
  utf8_valid (a ++ b) = utf8_valid b.
Proof.
  induction n as [|n IH]; intros a b Hl Hv.
  - destruct a; [reflexivity|cbn [List.length] in Hl; lia].
  - destruct a as [|x r]; [reflexivity|]. cbn [List.length] in Hl. cbn [app]. cbn [utf8_valid] in *.
    destruct ((0 <=? x) && (x <=? 127)); [apply IH; [lia|exact Hv]|].
    destruct ((194 <=? x) && (x <=? 223)).
    { destruct r as [|y r']; [discriminate Hv|]. cbn [app List.length] in *.
      apply andb_prop in Hv. destruct Hv as [Hy Hv]. rewrite Hy. cbn [andb]. apply IH; [lia|exact Hv]. }
    destruct ((224 <=? x) && (x <=? 239)).
    { destruct r as [|y [|z r']]; try discriminate Hv. cbn [app List.length] in *.
      apply andb_prop in Hv. destruct Hv as [Hy Hv]. rewrite Hy. cbn [andb]. apply IH; [lia|exact Hv]. }
    destruct ((240 <=? x) && (x <=? 244)); [|discriminate Hv].
    destruct r as [|y [|z [|u r']]]; try discriminate Hv. cbn [app List.length] in *.
    apply andb_prop in Hv. destruct Hv as [Hy Hv]. rewrite Hy. cbn [andb]. apply IH; [lia|exact Hv].
Qed.
Lemma utf8_valid_app_gen a b : utf8_valid a = true -> utf8_valid (a ++ b) = utf8_valid b.
Proof. exact (utf8_valid_app_gen_n (List.length a) a b (le_n _)). Qed.
Lemma utf8_valid_app2 a b : utf8_valid a = true -> utf8_valid b = true -> utf8_valid (a ++ b) = true.
Proof. intros Ha Hb. rewrite utf8_valid_app_gen by exact Ha. exact Hb. Qed.

(** * the first code point of a well-formed non-empty prefix does not depend on what follows *)
Lemma ncp_app a b : utf8_valid a = true -> a <> [] ->
  exists c r, next_code_point a = Some (c, r) /\ next_code_point (a ++ b) = Some (c, r ++ b).
Proof.
  intros Hv Hne. destruct a as [|x r]; [contradiction|]. clear Hne. cbn [utf8_valid] in Hv. cbn [app next_code_point].
  destruct (x <? 128) eqn:E0; [eexists; eexists; split; reflexivity|].
  destruct ((0 <=? x) && (x <=? 127)) eqn:E1; [exfalso; lia|].
  destruct ((194 <=? x) && (x <=? 223)) eqn:E2.
  { destruct r as [|y r']; [discriminate Hv|]. cbn [app]. replace (x <? 224) with true by lia.
    eexists; eexists; split; reflexivity. }
  destruct ((224 <=? x) && (x <=? 239)) eqn:E3.
  { destruct r as [|y [|z r']]; try discriminate Hv. cbn [app].
    replace (x <? 224) with false by lia. replace (x <? 240) with true by lia.
    eexists; eexists; split; reflexivity. }
  destruct ((240 <=? x) && (x <=? 244)) eqn:E4; [|discriminate Hv].
  destruct r as [|y [|z [|u r']]]; try discriminate Hv. cbn [app].
  replace (x <? 224) with false by lia. replace (x <? 240) with false by lia.
  eexists; eexists; split; reflexivity.
Qed.
Lemma starts_ws_app a b : utf8_valid a = true -> a <> [] -> starts_ws (a ++ b) = starts_ws a.
Proof.
  intros Hv Hne. destruct (ncp_app a b Hv Hne) as (c & r & E1 & E2). unfold starts_ws. rewrite E1, E2. reflexivity.
Qed.
Lemma starts_ws_byte c r : 0 <= c <= 127 -> starts_ws (c :: r) = is_whitespace c.
Proof. intros H. unfold starts_ws. rewrite next_code_point_ascii by lia. reflexivity. Qed.
(* the first byte of a well-formed string that starts with (Unicode) white space: an ASCII white-space
   byte or a lead byte >= 194 (never a byte the scanners treat as white space on their own) *)
Lemma ws_byte_nonascii c : ~ (0 <= c <= 127) -> ws_byte c = false.
Proof. intros H. unfold ws_byte. destruct ((0 <=? c) && (c <=? 127)) eqn:E; [exfalso; lia|reflexivity]. Qed.

(** * the item-level round trip of any well-formed literal *)
Lemma item_lit_utf8 a l rest : utf8_valid l = true -> utf8_valid rest = true -> item_rt a (Literal l) l W_none rest.
Proof.
  intros Hl Hr. split; [reflexivity|]. split.
  - cbn [reads_b]. rewrite (utf8_valid_starts_ok rest Hr).
    assert (E : bytes_eqb l l = true).
    { clear. induction l as [|c r IH]; [reflexivity|]. cbn [bytes_eqb]. rewrite Z.eqb_refl, IH. reflexivity. }
    rewrite E. reflexivity.
  - exact (utf8_valid_app2 l rest Hl Hr).
Qed.
