(** Proofs for C12, part 4: the item list of every format string of the documented family
    (documented specifiers with optional padding modifier, and arbitrary valid UTF-8 text between
    them) agrees with the documentation table, so [format_spec] holds for the whole family. *)
From Coq Require Import ZArith List Bool Lia ZifyBool.
From V Require Import Base.Int Base.IO Base.IntLemmas Base.Lift Spec.Gregorian Spec.StrftimeDoc
  Model.Items Gen.Strftime Gen.Locales Model.Strftime Model.Format Proofs.C12 Proofs.C12Str Proofs.C12Tok.
Import ListNotations.
Open Scope Z_scope.

(** the documented family, decided by scanning: every '%' starts a table row (optionally with a
    padding modifier); scanning stops at a row that is an error by the table (modifier on a
    non-numeric or composite specifier), since formatting stops there *)
Definition scan_percent (scan : bytes -> bool) (r : bytes) : bool :=
  let '(pad, r1) := split_mod r in
  match lookup doc_table r1 with
  | None => false
  | Some (e, rest) =>
      match e, pad with
      | ENum _ _, _ => scan rest
      | _, None => scan rest
      | _, Some _ => true
      end
  end.
Fixpoint wf_scan (fuel : nat) (s : bytes) : bool :=
  match fuel with
  | O => true
  | S f =>
    match s with
    | [] => true
    | c :: r => if c =? 37 then scan_percent (wf_scan f) r else wf_scan f r
    end
  end.
Definition documented_family (fmt : bytes) : Prop :=
  utf8_valid fmt = true /\ wf_scan (S (List.length fmt)) fmt = true.

(** decomposition of a '%' position into a table row *)
Lemma percent_row r pad r1 :
  split_mod r = (pad, r1) ->
  exists m, In m modifiers /\ r = m ++ r1 /\
            (pad = None -> m = []) /\ (forall p, pad = Some p -> exists c, m = [c] /\ modifier c = Some p).
Proof.
  unfold split_mod. intros H. destruct r as [|c r'].
  - injection H as <- <-. exists []. cbn. repeat split; auto. intros p Hp. discriminate.
  - destruct (modifier c) as [p|] eqn:Em.
    + injection H as <- <-. exists [c]. split.
      * unfold modifier in Em. unfold modifiers.
        destruct (c =? 45) eqn:E1; [apply Z.eqb_eq in E1; subst; cbn; auto|].
        destruct (c =? 95) eqn:E2; [apply Z.eqb_eq in E2; subst; cbn; auto|].
        destruct (c =? 48) eqn:E3; [apply Z.eqb_eq in E3; subst; cbn; auto|discriminate].
      * repeat split; auto; [discriminate|]. intros p' Hp'. injection Hp' as <-. exists c. auto.
    + injection H as <- <-. exists []. cbn. repeat split; auto. intros p Hp. discriminate.
Qed.

Lemma ascii_names : Forall (fun ne => Forall (fun c => 0 <= c < 128) (fst ne)) doc_table.
Proof. unfold doc_table. repeat (apply Forall_cons; [cbn; repeat constructor; lia|]). apply Forall_nil. Qed.
Lemma names_nonempty : Forall (fun ne => fst ne <> []) doc_table.
Proof. unfold doc_table. repeat (apply Forall_cons; [cbn; discriminate|]). apply Forall_nil. Qed.
Lemma modifiers_ascii m : In m modifiers -> Forall (fun c => 0 <= c < 128) m.
Proof. unfold modifiers. cbn. intros [<-|[<-|[<-|[<-|[]]]]]; repeat constructor; lia. Qed.

Lemma valid_ascii_prefix p : Forall (fun c => 0 <= c < 128) p ->
  forall s, utf8_valid (p ++ s) = true -> utf8_valid s = true.
Proof.
  induction 1 as [|c p Hc _ IH]; intros s H; [exact H|].
  cbn [app] in H. apply valid_ascii_tail in H; [|lia]. apply IH. exact H.
Qed.

(** fuel independence *)
Lemma toks_fuel comp : forall f1 f2 s, (List.length s < f1)%nat -> (List.length s < f2)%nat ->
  toks comp f1 s = toks comp f2 s.
Proof.
  induction f1 as [|f1 IH]; intros f2 s H1 H2; [lia|]. destruct f2 as [|f2]; [lia|].
  destruct s as [|c r]; [reflexivity|]. rewrite !toks_unfold. cbn [List.length] in *.
  destruct (c =? 37).
  - unfold toks_percent.
    destruct (split_mod r) as [pad r1] eqn:Ep.
    destruct (percent_row _ _ _ Ep) as (m & _ & Hr & _).
    destruct (lookup doc_table r1) as [[e rest]|] eqn:El; [|reflexivity].
    destruct (lookup_sound _ _ _ _ El) as (name & _ & Hs).
    assert (Hlen : (List.length rest <= List.length r)%nat).
    { subst r r1. rewrite !app_length. lia. }
    rewrite (IH f2 rest) by lia. reflexivity.
  - rewrite (IH f2 r) by lia. reflexivity.
Qed.
Lemma wf_scan_fuel : forall f1 f2 s, (List.length s < f1)%nat -> (List.length s < f2)%nat ->
  wf_scan f1 s = wf_scan f2 s.
Proof.
  induction f1 as [|f1 IH]; intros f2 s H1 H2; [lia|]. destruct f2 as [|f2]; [lia|].
  destruct s as [|c r]; [reflexivity|]. cbn [wf_scan List.length] in *.
  destruct (c =? 37).
  - unfold scan_percent.
    destruct (split_mod r) as [pad r1] eqn:Ep.
    destruct (percent_row _ _ _ Ep) as (m & _ & Hr & _).
    destruct (lookup doc_table r1) as [[e rest]|] eqn:El; [|reflexivity].
    destruct (lookup_sound _ _ _ _ El) as (name & _ & Hs).
    assert (Hlen : (List.length rest <= List.length r)%nat).
    { subst r r1. rewrite !app_length. lia. }
    rewrite (IH f2 rest) by lia. reflexivity.
  - apply IH; lia.
Qed.

(** text on the documentation side *)
Lemma toks_text comp : forall it rm f, ~ In 37 it ->
  toks comp (List.length it + f) (it ++ rm) = map (fun c => KText [c]) it ++ toks comp f rm.
Proof.
  induction it as [|c it IH]; intros rm f Hn; [reflexivity|].
  cbn [List.length Nat.add app map]. rewrite toks_unfold.
  replace (c =? 37) with false by (symmetry; apply Z.eqb_neq; intros ->; apply Hn; left; reflexivity).
  f_equal. apply IH. intros Hin. apply Hn. right. exact Hin.
Qed.
Lemma wf_scan_text : forall it rm f, ~ In 37 it ->
  wf_scan (List.length it + f) (it ++ rm) = wf_scan f rm.
Proof.
  induction it as [|c it IH]; intros rm f Hn; [reflexivity|].
  cbn [List.length Nat.add app wf_scan].
  replace (c =? 37) with false by (symmetry; apply Z.eqb_neq; intros ->; apply Hn; left; reflexivity).
  apply IH. intros Hin. apply Hn. right. exact Hin.
Qed.

(** normal forms *)
Lemma norm_app_congr A : forall X Y, norm_items X = norm_items Y -> norm_items (A ++ X) = norm_items (A ++ Y).
Proof.
  induction A as [|a A IH]; intros X Y H; [exact H|].
  cbn [app norm_items]. rewrite (IH X Y H). reflexivity.
Qed.
Lemma norm_lit_unfold s l :
  norm_items (Literal s :: l) = match norm_items l with
                                | Literal b :: r' => Literal (s ++ b) :: r'
                                | r' => Literal s :: r' end.
Proof. reflexivity. Qed.
Lemma norm_singletons : forall it X, it <> [] ->
  norm_items (map (fun c => Literal [c]) it ++ X) = norm_items (Literal it :: X).
Proof.
  induction it as [|c it IH]; intros X Hne; [congruence|].
  destruct it as [|c' it'].
  - reflexivity.
  - change (map (fun c0 => Literal [c0]) (c :: c' :: it') ++ X)
      with (Literal [c] :: (map (fun c0 => Literal [c0]) (c' :: it') ++ X)).
    rewrite norm_lit_unfold, IH by discriminate. rewrite !norm_lit_unfold.
    destruct (norm_items X) as [|[b|b|n p|f|] r']; reflexivity.
Qed.
Lemma norm_space_literal s X : norm_items (Space s :: X) = norm_items (Literal s :: X).
Proof. reflexivity. Qed.

Lemma upto_err_app A : forall X, (forall t, In t A -> t <> KErr) -> upto_err (A ++ X) = A ++ upto_err X.
Proof.
  induction A as [|a A IH]; intros X H; [reflexivity|].
  cbn [app upto_err]. destruct a; try (f_equal; apply IH; intros t Ht; apply H; right; exact Ht).
  exfalso. apply (H KErr); [left; reflexivity|reflexivity].
Qed.

(** draining the queue *)
Lemma drain_queue : forall q f rm acc, forallb not_err q = true ->
  sf_until_err (List.length q + f) (mk_sfi rm q false) acc = sf_until_err f (mk_sfi rm [] false) (rev q ++ acc).
Proof.
  induction q as [|i q IH]; intros f rm acc H; [reflexivity|].
  cbn [forallb] in H. apply andb_prop in H. destruct H as [Hi Hq].
  cbn [List.length Nat.add sf_until_err]. unfold sf_next. cbn [sf_queue sf_remainder sf_lenient]. cbv [bind].
  destruct i; try discriminate Hi; rewrite IH by exact Hq; cbn [rev]; rewrite <- app_assoc; reflexivity.
Qed.

Definition mtext (s : bytes) (l : list Item) : list Item :=
  match l with Literal b :: r' => Literal (s ++ b) :: r' | r' => Literal s :: r' end.
Lemma mtext_mtext s b Z0 : mtext s (mtext b Z0) = mtext (s ++ b) Z0.
Proof. destruct Z0 as [|[c|c|n p|f|] r']; cbn [mtext]; rewrite ?app_assoc; reflexivity. Qed.
Lemma norm_lit_mtext s X : norm_items (Literal s :: X) = mtext s (norm_items X).
Proof. cbn [norm_items]. unfold mtext. destruct (norm_items X) as [|[b|b|n p|f|] r']; reflexivity. Qed.
Lemma norm_space_mtext s X : norm_items (Space s :: X) = mtext s (norm_items X).
Proof. cbn [norm_items]. unfold mtext. destruct (norm_items X) as [|[b|b|n p|f|] r']; reflexivity. Qed.
Lemma norm_no_space A : forall b r', norm_items A <> Space b :: r'.
Proof.
  induction A as [|a A IHA]; intros b r' En; [discriminate|].
  destruct a; try discriminate En.
  - rewrite norm_lit_mtext in En. unfold mtext in En. destruct (norm_items A) as [|[]]; discriminate.
  - rewrite norm_space_mtext in En. unfold mtext in En. destruct (norm_items A) as [|[]]; discriminate.
Qed.
Lemma norm_app_norm_l A : forall X, norm_items (A ++ X) = norm_items (norm_items A ++ X).
Proof.
  induction A as [|a A IH]; intros X; [reflexivity|].
  assert (T : forall s, mtext s (norm_items (A ++ X)) = norm_items (mtext s (norm_items A) ++ X)).
  { intros s. rewrite IH. destruct (norm_items A) as [|[b|b|n p|f|] r'] eqn:En; cbn [mtext app];
      rewrite ?norm_lit_mtext; try reflexivity.
    all: try apply mtext_mtext.
    all: try (exfalso; exact (norm_no_space A _ _ En)). }
  destruct a; cbn [app]; rewrite ?norm_lit_mtext, ?norm_space_mtext; try apply T.
  - cbn [norm_items app]. f_equal. apply IH.
  - cbn [norm_items app]. f_equal. apply IH.
  - cbn [norm_items app]. f_equal. apply IH.
Qed.
Lemma norm_app_congr2 A A' X X' :
  norm_items A = norm_items A' -> norm_items X = norm_items X' -> norm_items (A ++ X) = norm_items (A' ++ X').
Proof.
  intros HA HX. rewrite (norm_app_norm_l A), (norm_app_norm_l A'), HA. apply norm_app_congr. exact HX.
Qed.

Definition not_kerr (t : tok) : bool := match t with KErr => false | _ => true end.
Lemma rows_noerr : Forall (fun ne => Forall (fun m => row_is_err (snd ne) m = false ->
                              forallb not_kerr (row_toks tokens_simple (snd ne) m) = true) modifiers) doc_table.
Proof.
  unfold doc_table, modifiers.
  repeat (apply Forall_cons; [repeat (apply Forall_cons; [cbn [snd]; intros _; vm_compute; reflexivity|]); apply Forall_nil|]).
  apply Forall_nil.
Qed.

Lemma table_row {P : bytes -> entry -> bytes -> Prop} :
  Forall (fun ne => Forall (P (fst ne) (snd ne)) modifiers) doc_table ->
  forall name e m, In (name, e) doc_table -> In m modifiers -> P name e m.
Proof.
  intros H name e m Hn Hm. pose proof (proj1 (Forall_forall _ _) H _ Hn) as H1. cbn [fst snd] in H1.
  exact (proj1 (Forall_forall _ _) H1 _ Hm).
Qed.

Lemma until_err_cons f st it : it <> IError ->
  sf_until_err f st [it] = rmap (fun l => it :: l) (sf_until_err f st []).
Proof. intros _. rewrite sf_until_err_acc. reflexivity. Qed.

(** * The main induction *)
Lemma tok_main : forall (n : nat) r, (List.length r <= n)%nat -> utf8_valid r = true ->
  wf_scan (S (List.length r)) r = true ->
  forall fuel, (13 * List.length r < fuel)%nat ->
  exists items, sf_until_err fuel (mk_sfi r [] false) [] = Val items /\
    norm_items items =
    norm_items (map item_of_tok (upto_err (toks tokens_simple (S (List.length r)) r))).
Proof.
  induction n as [|n IH]; intros r Hl Hv Hwf fuel Hf.
  { destruct r; [|cbn in Hl; lia]. destruct fuel; [lia|]. exists []. split; reflexivity. }
  destruct r as [|b0 r'].
  { destruct fuel; [lia|]. exists []. split; reflexivity. }
  destruct fuel as [|f0]; [lia|].
  destruct (b0 =? 37) eqn:E37.
  - (* a specifier *)
    apply Z.eqb_eq in E37. subst b0.
    cbn [wf_scan] in Hwf. change (37 =? 37) with true in Hwf. cbv beta iota in Hwf.
    unfold scan_percent in Hwf. destruct (split_mod r') as [pad r1] eqn:Ep.
    destruct (percent_row _ _ _ Ep) as (m & Hm & Hr & Hpn & Hps).
    destruct (lookup doc_table r1) as [[e rest]|] eqn:El; [|discriminate].
    destruct (lookup_sound _ _ _ _ El) as (name & Hin & Hs).
    subst r1 r'.
    pose proof (table_row rows_model name e m Hin Hm) as Hmodel.
    pose proof (table_row rows_doc name e m Hin Hm) as Hdoc.
    assert (Hvrest : utf8_valid rest = true).
    { apply valid_ascii_tail in Hv; [|lia].
      apply (valid_ascii_prefix m (modifiers_ascii m Hm)) in Hv.
      pose proof (proj1 (Forall_forall _ _) ascii_names _ Hin) as Hn. cbn [fst] in Hn.
      apply (valid_ascii_prefix name Hn) in Hv. exact Hv. }
    specialize (Hmodel rest (valid_head_ok _ Hvrest)).
    assert (Hname : name <> []) by (exact (proj1 (Forall_forall _ _) names_nonempty _ Hin)).
    assert (Hlen : (List.length rest + 2 <= List.length (37%Z :: m ++ name ++ rest))%nat).
    { cbn [List.length]. rewrite !app_length. destruct name; [congruence|]. cbn [List.length]. lia. }
    rewrite (Hdoc tokens_simple (List.length (37 :: m ++ name ++ rest)) rest).
    destruct (row_is_err e m) eqn:Eerr.
    + (* a row the table calls an error *)
      destruct Hmodel as (rm & q & Hp).
      exists [IError]. split; [|reflexivity].
      cbn [sf_until_err]. unfold sf_next. cbn [sf_queue sf_remainder sf_lenient]. rewrite Hp. reflexivity.
    + destruct Hmodel as (i0 & q & Hp & Hnorm & Hne).
      assert (Hscan : wf_scan (S (List.length rest)) rest = true).
      { rewrite (wf_scan_fuel _ (S (List.length (m ++ name ++ rest))) rest) by (cbn [List.length] in Hlen; lia).
        destruct e, pad; try exact Hwf;
          try (destruct (Hps _ eq_refl) as (c & -> & _); discriminate Eerr). }
      pose proof Hp as Hq. apply parse_next_item_consumes in Hq; [|left; reflexivity].
      destruct Hq as [_ Hq]. apply queue_ok_short in Hq.
      assert (Hfuel : exists f1, f0 = (List.length q + f1)%nat /\ (13 * List.length rest < f1)%nat).
      { exists (f0 - List.length q)%nat. lia. }
      destruct Hfuel as (f1 & -> & Hf1).
      destruct (IH rest ltac:(cbn [List.length] in *; lia) Hvrest Hscan f1 Hf1) as (items & Hi & Hn).
      exists ((i0 :: q) ++ items). split.
      * cbn [sf_until_err]. unfold sf_next. cbn [sf_queue sf_remainder sf_lenient]. rewrite Hp. cbv [bind].
        cbn [forallb] in Hne. apply andb_prop in Hne. destruct Hne as [Hne0 Hneq].
        assert (Hstep : sf_until_err (List.length q + f1) (mk_sfi rest q false) [i0] = Val ((i0 :: q) ++ items)).
        { rewrite drain_queue by exact Hneq. rewrite sf_until_err_acc, Hi. unfold rmap, bind.
          rewrite rev_app_distr, rev_involutive. reflexivity. }
        destruct i0; try discriminate Hne0; exact Hstep.
      * pose proof (table_row (P := fun _ e m => row_is_err e m = false -> forallb not_kerr (row_toks tokens_simple e m) = true)
                       rows_noerr name e m Hin Hm) as Hnk. cbv beta in Hnk. specialize (Hnk Eerr).
        rewrite upto_err_app.
        2:{ intros t Ht ->. rewrite forallb_forall in Hnk. specialize (Hnk _ Ht). discriminate. }
        rewrite map_app. apply norm_app_congr2; [exact Hnorm|].
        rewrite Hn. rewrite (toks_fuel tokens_simple (S (List.length rest)) (List.length (37 :: m ++ name ++ rest)) rest)
          by lia. reflexivity.
  - (* text *)
    destruct (first_char_not_percent b0 r' Hv ltac:(lia)) as (c0 & Hnc & Ec0).
    destruct (text_step false [] (b0 :: r') c0 Hv Hnc Ec0) as (k & Hk & Hvk & Hn37 & Hp).
    set (r := b0 :: r') in *. set (it := firstn k r) in *. set (rm := skipn k r) in *.
    assert (Hsplit : r = it ++ rm) by (symmetry; apply firstn_skipn).
    assert (Hlit : List.length it = k) by (unfold it; apply firstn_length_le; lia).
    assert (Hlrm : List.length r = (k + List.length rm)%nat) by (rewrite Hsplit at 1; rewrite app_length; lia).
    assert (Hscan : wf_scan (S (List.length rm)) rm = true).
    { rewrite <- (wf_scan_text it rm (S (List.length rm)) Hn37), <- Hsplit.
      replace (List.length it + S (List.length rm))%nat with (S (List.length r)) by lia. exact Hwf. }
    destruct (IH rm ltac:(lia) Hvk Hscan f0 ltac:(lia)) as (items & Hi & Hn).
    set (item := if is_whitespace c0 then Space it else Literal it) in *.
    exists (item :: items). split.
    + cbn [sf_until_err]. unfold sf_next. cbn [sf_queue sf_remainder sf_lenient]. rewrite Hp. cbv [bind].
      assert (Hstep : sf_until_err f0 (mk_sfi rm [] false) [item] = Val (item :: items)).
      { rewrite sf_until_err_acc, Hi. reflexivity. }
      unfold item in *. destruct (is_whitespace c0); exact Hstep.
    + replace (toks tokens_simple (S (List.length r)) r)
        with (map (fun c => KText [c]) it ++ toks tokens_simple (S (List.length rm)) rm).
      2:{ rewrite <- (toks_text tokens_simple it rm (S (List.length rm)) Hn37), <- Hsplit. f_equal. lia. }
      rewrite upto_err_app by (intros t Ht ->; apply in_map_iff in Ht; destruct Ht as (c & Hc & _); discriminate).
      rewrite map_app, map_map. cbn [item_of_tok].
      rewrite norm_singletons by (intros E; rewrite E in Hlit; cbn in Hlit; lia).
      assert (Hitem : norm_items (item :: items) = norm_items (Literal it :: items))
        by (unfold item; destruct (is_whitespace c0); reflexivity).
      rewrite Hitem. change (Literal it :: items) with ([Literal it] ++ items).
      change (Literal it :: map item_of_tok (upto_err (toks tokens_simple (S (List.length rm)) rm)))
        with ([Literal it] ++ map item_of_tok (upto_err (toks tokens_simple (S (List.length rm)) rm))).
      apply norm_app_congr. exact Hn.
Qed.

(** tokenization_documented_family: every format string of the documented family yields the
    documented item list *)
Theorem tokenization_documented_family : forall fmt, documented_family fmt -> tokenization_agrees fmt.
Proof.
  intros fmt [Hv Hwf]. unfold tokenization_agrees, strict_items, doc_items, tokens.
  apply (tok_main (List.length fmt) fmt (le_n _) Hv Hwf). unfold sf_bound. lia.
Qed.

(** format_spec on the family, without side condition on the item list *)
Theorem format_spec_family : forall a sv fmt, args_view a sv -> documented_family fmt ->
  claim (doc_format sv fmt) (delayed_display a (sf_new fmt)).
Proof. intros a sv fmt Hv Hf. apply format_spec; [exact Hv|apply tokenization_documented_family; exact Hf]. Qed.

(** * The hypotheses are inhabited *)
Definition ex_date : Z := match Date.from_yo_opt 2001 189 with Val (Some d) => d | _ => 0 end.
Definition ex_args : fmt_args :=
  mk_fa (Some ex_date) (Some (Time.mk_time 2094 1026490000)) (Some ([43; 48; 57; 58; 51; 48], 34200)).
Definition ex_sval : sval :=
  mk_sval (Some (dn_of_yo 2001 189)) (Some 2094) 26490000 true (Some 34200) false
          (Some (unix_secs (dn_of_yo 2001 189) 2094 - 34200)).
Lemma ex_args_view : args_view ex_args ex_sval.
Proof.
  constructor; cbn [ex_args ex_sval fa_date fa_time fa_off sv_dn sv_sod sv_nano sv_leap sv_off sv_utc sv_unix].
  - constructor.
    + vm_compute. reflexivity.
    + split; vm_compute; reflexivity.
    + exists 2001, 7, 8. repeat split; try (vm_compute; reflexivity); try lia.
    + split; [vm_compute; reflexivity|]. vm_compute. split; discriminate.
    + vm_compute. reflexivity.
    + eexists. split; [vm_compute; reflexivity|]. repeat split; try (vm_compute; reflexivity); vm_compute; discriminate.
    + vm_compute. reflexivity.
  - unfold time_view. cbn [Time.tsecs Time.tfrac]. repeat split; lia.
  - split; [reflexivity|]. split; [lia|]. vm_compute. reflexivity.
  - eexists _, _. repeat split.
Qed.
Definition ex_fmt : bytes :=
  [37; 89; 45; 37; 109; 45; 37; 100; 84; 37; 72; 58; 37; 77; 58; 37; 83; 37; 46; 102; 37; 58; 122; 32; 195; 169;
   32; 37; 99; 32; 37; 45; 100; 32; 37; 95; 72; 32; 37; 43; 32; 37; 37].   (* "%Y-%m-%dT%H:%M:%S%.f%:z é %c %-d %_H %+ %%" *)
Lemma ex_family : documented_family ex_fmt.
Proof. split; vm_compute; reflexivity. Qed.
Lemma ex_format : delayed_display ex_args (sf_new ex_fmt) =
  match doc_format ex_sval ex_fmt with ROk s => fok s | _ => ferr end.
Proof.
  pose proof (format_spec_family _ _ _ ex_args_view ex_family) as H.
  destruct (doc_format ex_sval ex_fmt) eqn:E; cbn [claim] in H; try exact H.
  exfalso. vm_compute in E. discriminate.
Qed.
