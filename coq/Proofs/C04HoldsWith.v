(** C04 — judge acceptance for the field setters (z.with, 11 fields) and z.ymdhms.  The judge's
    [replace_field] against [new_time] (fields 7-10) and [new_dn_id] (fields 0-6); with_year to a
    year outside the nominal range is the first open class of [moved].  z.ymdhms: a year outside
    the nominal range is refused (the judge accepts that or the exact instant).
    Continues Proofs/C04HoldsMoved.v. *)
From Coq Require Import ZArith List Bool Lia ZifyBool String.
From V Require Import Base.Int Base.IntLemmas Base.IO Gen.DateTimeConsts Spec.Gregorian Spec.TimeOfDay Model.TimeDelta.
From V Require Model.Date Model.Time Judge.C04 Proofs.GregorianForms Proofs.C08Days Proofs.C08Date Proofs.Time.
From V Require Import Model.DateTime Model.C04 Proofs.C04 Proofs.C04Date Proofs.C04Wide Proofs.C04Ops
  Proofs.C04Holds Proofs.HoldsLib Proofs.C04HoldsMoved Proofs.C04HoldsMonths.
Import ListNotations.
Open Scope Z_scope.
Ltac Zify.zify_post_hook ::= Z.to_euclidean_division_equations.

Module J := V.Judge.C04.

(** the functional theorems of the setters filter with [keep]: a refusal is the range or the second
    open class *)
Lemma keep_checked a w' f' r :
  (if keep (w' - dz_off a) f'
   then exists z, r = Val (Some z) /\ dtz_ok z /\ dz_off z = dz_off a /\ wall z = w' /\ frac (dz_utc z) = f'
   else r = Val None) ->
  checked_ok a w' f' r.
Proof.
  intros P. destruct (keep (w' - dz_off a) f') eqn:Ek.
  - left. exact P.
  - right. split; [exact P|]. destruct (keep_false _ _ Ek) as [H | H]; [left; exact H|right; right; exact H].
Qed.

Definition with_ok (a : dtz) (field x : Z) : Prop :=
  match J.replace_field field (wall a) (frac (dz_utc a)) x with
  | Some (w', f') => checked_ok a w' f' (dz_with field a x)
  | None => dz_with field a x = Val None
  end.

(** ** time fields: the judge's [replace_field] is [new_time] on the second of the day *)
Lemma replace_time field w f x : 7 <= field <= 10 ->
  J.replace_field field w f x =
  match new_time field (w mod 86400) f x with Some (s', f') => Some (w / 86400 * 86400 + s', f') | None => None end.
Proof.
  intros Hf. unfold J.replace_field, new_time, J.DAY. cbv beta zeta.
  destruct (ymd_of_dn (w / 86400)) as [[y mo] d].
  assert (Hc : field = 7 \/ field = 8 \/ field = 9 \/ field = 10) by lia.
  destruct Hc as [-> | [-> | [-> | ->]]]; cbn [Z.eqb Pos.eqb].
  - destruct (x <? 24); [|reflexivity]. f_equal. f_equal. ring.
  - destruct (x <? 60); [|reflexivity]. f_equal. f_equal. ring.
  - destruct (x <? 60); [|reflexivity]. f_equal. f_equal. ring.
  - destruct (x <? 2000000000); [|reflexivity]. f_equal. f_equal. lia.
Qed.

Lemma with_time_core a field x : dtz_ok a -> 7 <= field <= 10 -> in_u32 x = true -> with_ok a field x.
Proof.
  intros Ha Hf Hx. pose proof (with_timefield_u field a x Ha Hf Hx) as P.
  unfold with_ok. rewrite (replace_time field (wall a) (frac (dz_utc a)) x Hf).
  destruct (new_time field (wall a mod 86400) (frac (dz_utc a)) x) as [[s' f']|]; [|exact P].
  apply keep_checked. exact P.
Qed.

(** ** date fields: the judge's calendar ([jdn]: the new day number whenever such a date exists)
       against [new_dn_id] (which also asks for a supported year, and knows the identity case) *)
Definition jdn (field n x : Z) : option Z :=
  let '(y, m, d) := ymd_of_dn n in
  if field =? 0 then if valid_ymd x m d then Some (dn_of_ymd x m d) else None
  else if field =? 1 then if valid_ymd y x d then Some (dn_of_ymd y x d) else None
  else if field =? 2 then if valid_ymd y (x + 1) d then Some (dn_of_ymd y (x + 1) d) else None
  else if field =? 3 then if valid_ymd y m x then Some (dn_of_ymd y m x) else None
  else if field =? 4 then if valid_ymd y m (x + 1) then Some (dn_of_ymd y m (x + 1)) else None
  else if field =? 5 then if valid_yo y x then Some (dn_of_yo y x) else None
  else if valid_yo y (x + 1) then Some (dn_of_yo y (x + 1)) else None.

Lemma replace_date field w f x : 0 <= field <= 6 ->
  J.replace_field field w f x =
  match jdn field (w / 86400) x with Some n' => Some (n' * 86400 + w mod 86400, f) | None => None end.
Proof.
  intros Hf. unfold J.replace_field, jdn, J.DAY. cbv beta zeta.
  destruct (ymd_of_dn (w / 86400)) as [[y mo] d].
  assert (Hc : field = 0 \/ field = 1 \/ field = 2 \/ field = 3 \/ field = 4 \/ field = 5 \/ field = 6) by lia.
  destruct Hc as [-> | [-> | [-> | [-> | [-> | [-> | ->]]]]]]; cbn [Z.eqb Pos.eqb];
    match goal with |- context [if ?c then Some _ else None] => destruct c end; reflexivity.
Qed.

Lemma dn_id_vs_j field n x : 0 <= field <= 6 ->
  match new_dn_id field n x with
  | Some n' => jdn field n x = Some n'
  | None => jdn field n x = None \/ exists n', jdn field n x = Some n' /\ n' <> n /\ dn_in_range n' = false
  end.
Proof.
  intros Hf. unfold new_dn_id, new_dn, jdn.
  pose proof (GregorianForms.ymd_of_dn_valid n) as V.
  destruct (ymd_of_dn n) as [[y mo] d] eqn:Ey. destruct V as [Vv Vd]. cbn [fst].
  assert (Hc : field = 0 \/ field = 1 \/ field = 2 \/ field = 3 \/ field = 4 \/ field = 5 \/ field = 6) by lia.
  destruct Hc as [-> | [-> | [-> | [-> | [-> | [-> | ->]]]]]]; cbn [Z.eqb Pos.eqb andb].
  - destruct (y =? x) eqn:Eyx.
    + assert (x = y) by lia. subst x. rewrite Vv, Vd. reflexivity.
    + destruct (valid_ymd x mo d) eqn:Ev.
      * destruct (year_in_range x) eqn:Eyr; cbn [andb]; [reflexivity|].
        right. exists (dn_of_ymd x mo d). split; [reflexivity|]. split; [|rewrite (dn_of_ymd_range _ _ _ Ev); exact Eyr].
        intros E. pose proof (GregorianForms.ymd_of_dn_of_ymd x mo d Ev) as R. rewrite E, Ey in R.
        injection R as R1. lia.
      * rewrite andb_false_r. left. reflexivity.
  - destruct (valid_ymd y x d); [reflexivity|left; reflexivity].
  - destruct (valid_ymd y (x + 1) d); [reflexivity|left; reflexivity].
  - destruct (valid_ymd y mo x); [reflexivity|left; reflexivity].
  - destruct (valid_ymd y mo (x + 1)); [reflexivity|left; reflexivity].
  - destruct (valid_yo y x); [reflexivity|left; reflexivity].
  - destruct (valid_yo y (x + 1)); [reflexivity|left; reflexivity].
Qed.

Lemma with_date_core a field x : dtz_ok a -> 0 <= field <= 6 ->
  (if field =? 0 then in_i32 x else in_u32 x) = true -> with_ok a field x.
Proof.
  intros Ha Hf Hx. pose proof (with_datefield_all field a x Ha Hf Hx) as P.
  pose proof (dn_id_vs_j field (wall a / 86400) x Hf) as D.
  unfold with_ok. rewrite (replace_date field (wall a) (frac (dz_utc a)) x Hf).
  destruct (new_dn_id field (wall a / 86400) x) as [n'|].
  - rewrite D. apply keep_checked. exact P.
  - destruct D as [D | (n' & D & Hne & Hr)]; rewrite D; [exact P|].
    right. split; [exact P|]. right. left.
    apply (open1_intro _ _ _ n'); [lia| |exact Hr]. fold (wall a). exact Hne.
Qed.

Lemma with_core a field x : dtz_ok a -> 0 <= field <= 10 ->
  (if field =? 0 then in_i32 x else in_u32 x) = true -> with_ok a field x.
Proof.
  intros Ha Hf Hx. destruct (Z_le_gt_dec field 6) as [H6 | H6].
  - apply with_date_core; [exact Ha|lia|exact Hx].
  - apply with_time_core; [exact Ha|lia|]. replace (field =? 0) with false in Hx by lia. exact Hx.
Qed.

Theorem holds_with a field x : dtz_ok a ->
  (0 <=? field) && (field <=? 10) && (if field =? 0 then in_i32 x else in_u32 x) = true ->
  J.judge B"z.with" [VInt field; enc_dtz a; VInt x] (run B"z.with" [VInt field; enc_dtz a; VInt x]) = JOk.
Proof.
  intros Ha Hd. pose proof Hd as Hd'. apply andb_prop in Hd'. destruct Hd' as [Hf Hx].
  change (run B"z.with" [VInt field; enc_dtz a; VInt x]) with
    (match dec_dtz (enc_dtz a), (if field =? 0 then arg_i32 (VInt x) else arg_u32 (VInt x)) with
     | Some x0, Some k => if (0 <=? field) && (field <=? 10) then val_of_R vo_dtz (dz_with field x0 k) else VBad
     | _, _ => VBad end).
  assert (Ex : (if field =? 0 then arg_i32 (VInt x) else arg_u32 (VInt x)) = Some x).
  { destruct (field =? 0); [apply arg_i32_int|apply arg_u32_int]; exact Hx. }
  rewrite (dec_dtz_enc a Ha), Ex, Hf.
  match goal with |- J.judge _ _ ?out = _ =>
    change (J.judge B"z.with" [VInt field; enc_dtz a; VInt x] out) with
      (match J.z_of_arg (enc_dtz a) with
       | Some (u, f, off) =>
           if (0 <=? field) && (field <=? 10) && (if field =? 0 then in_i32 x else in_u32 x) then
             match J.replace_field field (u + off) f x with
             | Some (w', f') => J.moved VSome VNone u off w' f' out
             | None => judge_eq VNone out
             end
           else JSkip
       | None => JSkip end) end.
  rewrite (j_z a Ha), Hd. fold (wall a).
  pose proof (with_core a field x Ha ltac:(lia) Hx) as C. unfold with_ok in C.
  destruct (J.replace_field field (wall a) (frac (dz_utc a)) x) as [[w' f']|].
  - apply (moved_checked a w' f' _ C).
  - rewrite C. apply hl_judge_eq_refl.
Qed.

(** * z.ymdhms *)
Lemma ymd_word y m d : year_in_range y = true -> valid_ymd y m d = true ->
  nominal (C08Date.mk_ymd y m d) /\ dn (C08Date.mk_ymd y m d) = dn_of_ymd y m d.
Proof.
  intros Hy Hv. unfold valid_ymd in Hv.
  destruct (GregorianForms.ordinal_of_md_valid (is_leap y) m d ltac:(lia) ltac:(lia)) as [Ho _].
  assert (Hvo : valid_yo y (ordinal_of_md (is_leap y) m d) = true)
    by (unfold valid_yo, days_in_year; destruct (is_leap y); lia).
  pose proof (C08Date.repr_mk y _ Hy Hvo) as Hr. fold (C08Date.mk_ymd y m d) in Hr.
  split; [exact (nominal_of_repr _ _ _ Hr)|]. rewrite (dn_of_repr _ _ _ Hr). reflexivity.
Qed.

Theorem holds_ymdhms off y m d h mi s : off_ok off ->
  in_i32 y && in_u32 m && in_u32 d && in_u32 h && in_u32 mi && in_u32 s = true ->
  J.judge B"z.ymdhms" [VInt off; VInt y; VInt m; VInt d; VInt h; VInt mi; VInt s]
    (run B"z.ymdhms" [VInt off; VInt y; VInt m; VInt d; VInt h; VInt mi; VInt s]) = JOk.
Proof.
  intros Ho Hd. pose proof Hd as Hd'.
  apply andb_prop in Hd'. destruct Hd' as [Hd' Is]. apply andb_prop in Hd'. destruct Hd' as [Hd' Imi].
  apply andb_prop in Hd'. destruct Hd' as [Hd' Ih]. apply andb_prop in Hd'. destruct Hd' as [Hd' Id].
  apply andb_prop in Hd'. destruct Hd' as [Iy Im].
  change (run B"z.ymdhms" [VInt off; VInt y; VInt m; VInt d; VInt h; VInt mi; VInt s]) with
    (match arg_off (VInt off), arg_i32 (VInt y), arg_u32 (VInt m), arg_u32 (VInt d) with
     | Some off, Some y, Some m, Some d =>
         match arg_u32 (VInt h), arg_u32 (VInt mi), arg_u32 (VInt s) with
         | Some h, Some mi, Some s => val_of_R v_mlt (with_ymd_and_hms off y m d h mi s)
         | _, _, _ => VBad end
     | _, _, _, _ => VBad end).
  rewrite (m_off off Ho), (arg_i32_int y Iy), (arg_u32_int m Im), (arg_u32_int d Id),
    (arg_u32_int h Ih), (arg_u32_int mi Imi), (arg_u32_int s Is).
  match goal with |- J.judge _ _ ?out = _ =>
    change (J.judge B"z.ymdhms" [VInt off; VInt y; VInt m; VInt d; VInt h; VInt mi; VInt s] out) with
      (match J.off_of_arg (VInt off) with
       | Some off =>
           if in_i32 y && in_u32 m && in_u32 d && in_u32 h && in_u32 mi && in_u32 s then
             if valid_ymd y m d && (h <? 24) && (mi <? 60) && (s <? 60) then
               let u := dn_of_ymd y m d * J.DAY + h * 3600 + mi * 60 + s - off in
               if year_in_range y then judge_eq (J.exp_mlt_z u 0 off) out
               else J.judge_either (VTup []) (J.exp_mlt_z u 0 off) out
             else judge_eq (VTup []) out
           else JSkip
       | None => JSkip end) end.
  rewrite (j_off off Ho), Hd. cbv zeta. unfold J.DAY.
  unfold with_ymd_and_hms. rewrite (C08Date.from_ymd_opt_spec y m d Iy Im Id). cbn [bind].
  assert (N0 : 0 <= h /\ 0 <= mi /\ 0 <= s) by (unfold in_u32, in_range in Ih, Imi, Is; lia).
  destruct (valid_ymd y m d) eqn:Ev.
  - destruct (year_in_range y) eqn:Ey; cbn [andb C08Date.date_if].
    + rewrite (Time.from_hms_opt_spec h mi s Ih Imi Is). cbn [bind]. unfold hms_ok.
      destruct (h <? 24) eqn:Eh; cbn [andb]; [|apply hl_judge_eq_refl].
      destruct (mi <? 60) eqn:Emi; cbn [andb]; [|apply hl_judge_eq_refl].
      destruct (s <? 60) eqn:Es; cbn [andb]; [|apply hl_judge_eq_refl].
      destruct (ymd_word y m d Ey Ev) as [Hn Hdn].
      set (t := Time.mk_time (secs_of_hms h mi s) 0).
      assert (Ht : time_ok t) by (unfold time_ok, t, secs_of_hms; cbn [Time.tsecs Time.tfrac]; lia).
      pose proof (from_local_fails_iff off (mk_ndt (C08Date.mk_ymd y m d) t) (conj Hn Ht) Ho) as P.
      assert (Eu : usecs (mk_ndt (C08Date.mk_ymd y m d) t) - off = dn_of_ymd y m d * 86400 + h * 3600 + mi * 60 + s - off).
      { unfold usecs. cbn [nd_date nd_time]. rewrite Hdn. unfold t, secs_of_hms. cbn [Time.tsecs]. lia. }
      rewrite Eu in P. unfold J.exp_mlt_z.
      change (J.in_rng (dn_of_ymd y m d * 86400 + h * 3600 + mi * 60 + s - off))
        with (in_rng (dn_of_ymd y m d * 86400 + h * 3600 + mi * 60 + s - off)).
      destruct (in_rng (dn_of_ymd y m d * 86400 + h * 3600 + mi * 60 + s - off)).
      * destruct P as (z & E & Hz & Eo & Ez & Ef). rewrite E. cbn [val_of_R v_mlt enc_mlt].
        change (frac (mk_ndt (C08Date.mk_ymd y m d) t)) with 0 in Ef.
        rewrite (enc_dtz_j z Hz), Eo, Ez, Ef. apply hl_judge_eq_refl.
      * rewrite P. apply hl_judge_eq_refl.
    + cbn [val_of_R v_mlt enc_mlt].
      destruct ((h <? 24) && (mi <? 60) && (s <? 60)); [apply either_l|apply hl_judge_eq_refl].
  - rewrite andb_false_r. cbn [andb C08Date.date_if val_of_R v_mlt enc_mlt]. apply hl_judge_eq_refl.
Qed.
