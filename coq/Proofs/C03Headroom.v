(** C03 — DateTime<Tz> +- Days when the local reading lies in the one-day headroom outside
    NaiveDateTime's range (the sentinel date words BEFORE_MIN / AFTER_MAX): the day shift on the two
    literal words is computed (same-year fast path: swept over its finite range; 400-year-cycle
    path: the proof of Proofs/C08AddDays.v [add_days_spec] replayed for a year one outside the
    range), which removes the premise of [zone_days_exact_partial]. *)
From Coq Require Import ZArith List Bool Lia ZifyBool.
From V Require Import Base.Int Base.IntLemmas Base.Bits Base.Lift Base.Table Gen.DateTables
  Spec.Gregorian Model.Date Proofs.C08Sweeps Proofs.C08Date Proofs.C08Days Proofs.C08AddDays.
Import ListNotations.
Open Scope Z_scope.
Ltac Zify.zify_post_hook ::= Z.to_euclidean_division_equations.

(** * the 400-year-cycle path of [add_days] for a date word of a year in [MIN_YEAR-1, MAX_YEAR+1] *)
Lemma add_days_slow d y o k :
  Z.shiftr (Z.land d D_ORDINAL_MASK) 4 = o -> d_leap_year d = is_leap y -> d_year d = y -> d_ordinal d = o ->
  -262144 <= y <= 262143 -> valid_yo y o = true -> -95746677 <= dn_of_yo y o <= 95745946 ->
  in_i32 k = true -> (0 <? o + k) && (o + k <=? days_in_year y) = false ->
  add_days d k = Val (date_if (dn_in_range (dn_of_yo y o + k)) (date_of_dn (dn_of_yo y o + k))).
Proof.
  intros Hob Hleap Hyear Hord Hyb Ho Hnb Hk Hfast.
  pose proof (lo_facts_of y o Ho) as [_ Fo _ _ _ _ _].
  unfold add_days, shr. rewrite Hob, Hleap. unfold checked_add at 1. unfold chko.
  replace (365 + (if is_leap y then 1 else 0)) with (days_in_year y) by (unfold days_in_year; destruct (is_leap y); lia).
  replace (match (if in_i32 (o + k) then Some (o + k) else None) with
           | Some ordinal => if (0 <? ordinal) && (ordinal <=? days_in_year y)
                             then Some (Z.lor (Z.land d (not_i32 D_ORDINAL_MASK)) (shl_i32 ordinal 4)) else None
           | None => None end) with (@None Z).
  2:{ destruct (in_i32 (o + k)); [|reflexivity]. rewrite Hfast. reflexivity. }
  rewrite Hyear, Hord. unfold div_mod_floor. rewrite div_euclid_pos, rem_euclid_pos by lia.
  unfold chk. replace (in_i32 (y / 400)) with true by solve_in. cbn [bind].
  rewrite as_u32_id by solve_in.
  set (r := y mod 400). set (q := y / 400).
  assert (Hr : 0 <= r < 400) by (unfold r; lia).
  assert (Hvr : valid_yo r o = true).
  { unfold r. replace (y mod 400) with (y + 400 * (- (y / 400))) by lia. rewrite valid_yo_period. assumption. }
  rewrite yo_to_cycle_spec by lia. cbn [bind].
  pose proof (cyc_bounds r o Hr Hvr) as Hcb. set (cyc := dn_of_yo r o + 365) in *.
  assert (Hn : dn_of_yo y o = cyc - 365 + 146097 * q).
  { unfold cyc, r, q. replace y with (y mod 400 + 400 * (y / 400)) at 1 by lia. rewrite dn_of_yo_period. lia. }
  rewrite as_i32_id by solve_in. unfold checked_add, chko.
  destruct (in_i32 (cyc + k)) eqn:Ec.
  2:{ replace (dn_in_range (dn_of_yo y o + k)) with false; [reflexivity|].
      unfold dn_in_range, DN_MIN, DN_MAX. solve_in. }
  unfold D_DAYS_PER_400Y. rewrite div_euclid_pos, rem_euclid_pos by lia. unfold chk.
  replace (in_i32 ((cyc + k) / 146097)) with true by solve_in. cbn [bind].
  set (cq := (cyc + k) / 146097). set (c' := (cyc + k) mod 146097).
  unfold add_i32, chk. replace (in_i32 (q + cq)) with true by (unfold q, cq; solve_in). cbn [bind].
  rewrite as_u32_id by (unfold c'; solve_in).
  destruct (cyc_facts c' ltac:(unfold c'; lia)) as (Hr' & Hv' & Hd' & Hcy).
  rewrite Hcy. cbn [bind].
  set (r' := fst (yo_of_dn (c' - 365))) in *. set (o' := snd (yo_of_dn (c' - 365))) in *.
  rewrite as_i32_id by solve_in.
  unfold yf_from_year_mod_400, tget. rewrite as_u64_id by solve_in.
  destruct (yflags_facts r') as (Etab & _). replace (r' mod 400) with r' in Etab by lia. rewrite Etab. cbn [bind].
  unfold mul_i32, chk. replace (in_i32 ((q + cq) * 400)) with true by (unfold q, cq; solve_in). cbn [bind].
  replace (in_i32 ((q + cq) * 400 + r')) with true by (unfold q, cq; solve_in). cbn [bind].
  set (y'' := (q + cq) * 400 + r').
  replace (yflags r') with (yflags y'') by (rewrite (yflags_mod y''); f_equal; unfold y''; lia).
  pose proof (lo_facts_of r' o' Hv') as [_ Fo' _ _ _ _ _].
  rewrite foaf_spec by (unfold y'', q, cq; solve_in).
  assert (Hsum : dn_of_yo y o + k = (c' - 365) + 146097 * (q + cq)) by (unfold c', cq; lia).
  assert (Hyo : yo_of_dn (dn_of_yo y o + k) = (y'', o')).
  { rewrite Hsum, yo_of_dn_period. fold r' o'. f_equal. unfold y''. lia. }
  assert (Hv'' : valid_yo y'' o' = true).
  { unfold y''. replace ((q + cq) * 400 + r') with (r' + 400 * (q + cq)) by lia. rewrite valid_yo_period. assumption. }
  assert (Hdn : dn_of_yo y'' o' = dn_of_yo y o + k).
  { unfold y''. replace ((q + cq) * 400 + r') with (r' + 400 * (q + cq)) by lia. rewrite dn_of_yo_period. lia. }
  rewrite Hv'', andb_true_r. rewrite <- Hdn at 1. rewrite dn_in_range_iff by assumption.
  unfold date_of_dn. rewrite Hyo. reflexivity.
Qed.

Lemma add_days_BEFORE_MIN_slow k : in_i32 k = true -> (0 <? 366 + k) && (k <=? 0) = false ->
  add_days D_BEFORE_MIN k = Val (date_if (dn_in_range (DN_MIN - 1 + k)) (date_of_dn (DN_MIN - 1 + k))).
Proof.
  intros Hk Hf.
  rewrite (add_days_slow D_BEFORE_MIN (-262144) 366 k); try reflexivity; try assumption; try (vm_compute; intuition congruence).
  replace ((0 <? 366 + k) && (366 + k <=? days_in_year (-262144))) with ((0 <? 366 + k) && (k <=? 0)); [exact Hf|].
  change (days_in_year (-262144)) with 366. lia.
Qed.
Lemma add_days_AFTER_MAX_slow k : in_i32 k = true -> (0 <? 1 + k) && (k <=? 364) = false ->
  add_days D_AFTER_MAX k = Val (date_if (dn_in_range (DN_MAX + 1 + k)) (date_of_dn (DN_MAX + 1 + k))).
Proof.
  intros Hk Hf.
  rewrite (add_days_slow D_AFTER_MAX 262143 1 k); try reflexivity; try assumption; try (vm_compute; intuition congruence).
  replace ((0 <? 1 + k) && (1 + k <=? days_in_year 262143)) with ((0 <? 1 + k) && (k <=? 364)); [exact Hf|].
  change (days_in_year 262143) with 365. lia.
Qed.

(** * the same-year fast path on the two words: finite, swept.
    BEFORE_MIN - n days (1 <= n <= 365) is a word of the year MIN_YEAR-1; stepping it forward one day
    (the carry of taking the offset off again) stays below MIN.  AFTER_MAX + n days (1 <= n <= 364)
    is a word of the year MAX_YEAR+1; stepping it back one day stays above MAX. *)
Definition before_min_back_ok (n : Z) : bool :=
  match add_days D_BEFORE_MIN (- n) with
  | Val (Some w) => match succ_opt w with Val (Some w1) => w1 <? D_MIN | Val None => true | _ => false end
  | _ => false
  end.
Lemma before_min_back_sweep : forall_range before_min_back_ok 1 365 = true.
Proof. vm_compute. reflexivity. Qed.
Definition after_max_fwd_ok (n : Z) : bool :=
  match add_days D_AFTER_MAX n with
  | Val (Some w) => match pred_opt w with Val (Some w1) => D_MAX <? w1 | Val None => true | _ => false end
  | _ => false
  end.
Lemma after_max_fwd_sweep : forall_range after_max_fwd_ok 1 364 = true.
Proof. vm_compute. reflexivity. Qed.

Lemma headroom_zero :
  add_days D_BEFORE_MIN 0 = Val (Some D_BEFORE_MIN) /\ add_days D_AFTER_MAX 0 = Val (Some D_AFTER_MAX) /\
  succ_opt D_BEFORE_MIN = Val (Some D_MIN) /\ pred_opt D_AFTER_MAX = Val (Some D_MAX).
Proof. vm_compute. repeat split. Qed.
