(** C15 -- the full forms of the theorems Proofs/C15Owners.v states on a sub-domain ([*_partial]):
    the owners' restrictions have been lifted since (C04: every wall clock, the one-day headroom
    included; C07 / C03: leap-second operands; C17: links discharged; C20: the RFC 3339 writer is
    total), so the corollaries "returns, and a returned value is valid" hold for EVERY well-formed
    value.  Vocabulary for leap-inclusive values: [Proofs.C04.ndt_ok] / [dtz_ok] (supported date,
    second of day < 86400, nanosecond field < 2*10^9, offset strictly inside +-24 h). *)
From Coq Require Import ZArith List Bool Lia ZifyBool String.
From V Require Import Base.Int Base.IntLemmas Base.IO Spec.Gregorian Spec.TimeOfDay.
From V Require Model.Date Model.Time Model.DateTime Model.TimeDelta Model.C15 Model.Round Model.Rfc3339.
From V Require Proofs.C08Sweeps Proofs.C08Date Proofs.Time Proofs.C06 Proofs.C02 Proofs.C02Date Proofs.C03 Proofs.C04 Proofs.C04Date Proofs.C04Wide
               Proofs.C07Ndt Proofs.C17 Proofs.C17Links.
From V Require Props.C02 Props.C03 Props.C04 Props.C06 Props.C07 Props.C17.
From V Require Import Proofs.C15 Proofs.C15Owners.
Import ListNotations.
Open Scope Z_scope.
Ltac Zify.zify_post_hook ::= Z.to_euclidean_division_equations.

(** * zone-aware date-times (C04): date-field setters, day and month stepping for EVERY well-formed
      date-time -- wall clock inside the NaiveDateTime range or in the one-day headroom *)
Lemma dtz_with_date_field_total field a x : Proofs.C04.dtz_ok a ->
  0 <= field <= 6 -> (if field =? 0 then in_i32 x else in_u32 x) = true ->
  returns (Model.DateTime.dz_with field a x) /\ forall z, Model.DateTime.dz_with field a x = Val (Some z) -> Proofs.C04.dtz_ok z.
Proof.
  intros Ha Hf Hx. pose proof (Props.C04.C04_replace_date_field field a x Ha Hf Hx) as H.
  destruct (Proofs.C04Wide.new_dn_id field _ x) as [n'|].
  - cbv zeta in H. match type of H with (if ?c then _ else _) => destruct c end.
    + apply (if_ex_opt true _ (fun z => Proofs.C04.dtz_ok z)). destruct H as (z & E & Hz & _). exists z. tauto.
    + apply (if_ex_opt false _ (fun z => Proofs.C04.dtz_ok z)). exact H.
  - rewrite H. split; [split; discriminate|]. intros z E; discriminate.
Qed.
Lemma dtz_days_total a n : Proofs.C04.dtz_ok a -> in_u64 n = true ->
  (returns (Model.DateTime.dz_checked_add_days a n) /\ forall z, Model.DateTime.dz_checked_add_days a n = Val (Some z) -> Proofs.C04.dtz_ok z) /\
  (returns (Model.DateTime.dz_checked_sub_days a n) /\ forall z, Model.DateTime.dz_checked_sub_days a n = Val (Some z) -> Proofs.C04.dtz_ok z).
Proof.
  intros Ha Hn. split.
  - destruct (Z.eq_dec n 0) as [->|Hnz].
    + rewrite Props.C04.C04_add_days_zero. split; [split; discriminate|]. intros z [= <-]. exact Ha.
    + pose proof (Props.C04.C04_add_days a n Ha Hn Hnz) as H. cbv zeta in H.
      match type of H with (if ?c then _ else _) => destruct c end.
      * apply (if_ex_opt true _ (fun z => Proofs.C04.dtz_ok z)). destruct H as (z & E & Hz & _). exists z. tauto.
      * apply (if_ex_opt false _ (fun z => Proofs.C04.dtz_ok z)). exact H.
  - pose proof (Props.C04.C04_sub_days a n Ha Hn) as H. cbv zeta in H.
    match type of H with (if ?c then _ else _) => destruct c end.
    + apply (if_ex_opt true _ (fun z => Proofs.C04.dtz_ok z)). destruct H as (z & E & Hz & _). exists z. tauto.
    + apply (if_ex_opt false _ (fun z => Proofs.C04.dtz_ok z)). exact H.
Qed.
Lemma dtz_months_total (add : bool) a m : Proofs.C04.dtz_ok a -> in_u32 m = true ->
  let step := if add then Model.DateTime.dz_checked_add_months a m else Model.DateTime.dz_checked_sub_months a m in
  returns step /\ forall z, step = Val (Some z) -> Proofs.C04.dtz_ok z.
Proof.
  intros Ha Hm step. pose proof (Props.C04.C04_months add a m Ha Hm) as H. cbv zeta in H. fold step in H.
  destruct (Proofs.C04Wide.month_target_id _ _ _) as [n'|].
  - match type of H with (if ?c then _ else _) => destruct c end.
    + apply (if_ex_opt true _ (fun z => Proofs.C04.dtz_ok z)). destruct H as (z & E & Hz & _). exists z. tauto.
    + apply (if_ex_opt false _ (fun z => Proofs.C04.dtz_ok z)). exact H.
  - rewrite H. split; [split; discriminate|]. intros z E; discriminate.
Qed.

(** * the validity vocabularies agree: C04's [ndt_ok] is C03's [vdate] date with C07's [tvalid] time
      (leap-second fractions allowed); C03's [nvalid] is the non-leap part *)
Lemma nominal_vdate d : Proofs.C04.nominal d <-> Proofs.C03.vdate d.
Proof.
  split.
  - intros H. destruct (Proofs.C04Date.repr_of_nominal d H) as (y & o & R). exact (proj1 (Proofs.C03.repr_vdate y o d R)).
  - intros H. exact (Proofs.C04Date.nominal_of_repr _ _ _ (proj1 (Proofs.C03.vdate_repr d) H)).
Qed.
Lemma ndt_ok_split a : Proofs.C04.ndt_ok a <-> Proofs.C03.vdate (Model.DateTime.nd_date a) /\ Proofs.Time.tvalid (Model.DateTime.nd_time a).
Proof. unfold Proofs.C04.ndt_ok. rewrite nominal_vdate. reflexivity. Qed.
Lemma nvalid_ndt_ok a : Proofs.C03.nvalid a -> Proofs.C04.ndt_ok a.
Proof.
  intros [Hd [Hs Hf]]. apply ndt_ok_split. split; [exact Hd|]. split; [exact Hs|].
  unfold Proofs.C06.G in Hf. change (0 <= Model.Time.tfrac (Model.DateTime.nd_time a) < 1000000000) in Hf. lia.
Qed.
Lemma ndt_ok_valid_ndt a : Proofs.C04.ndt_ok a <-> Proofs.C02.valid_ndt a.
Proof.
  unfold Proofs.C04.ndt_ok, Proofs.C02.valid_ndt, Proofs.C04.time_ok, Proofs.C02.dsecs, Proofs.C02.dfrac.
  change (2 * Proofs.C02.G) with 2000000000. reflexivity.
Qed.

(** * elapsed-time arithmetic on EVERY well-formed date-time, leap-second operands included
      (C07_ndt_leap_add / _sub with the shape of the timeline result, Proofs/Time.v add_result_range) *)
Lemma ndt_signed_full a d : Proofs.C04.ndt_ok a -> Proofs.C06.valid d ->
  (returns (Model.DateTime.ndt_checked_add_signed a d) /\ forall b, Model.DateTime.ndt_checked_add_signed a d = Val (Some b) -> Proofs.C04.ndt_ok b) /\
  (returns (Model.DateTime.ndt_checked_sub_signed a d) /\ forall b, Model.DateTime.ndt_checked_sub_signed a d = Val (Some b) -> Proofs.C04.ndt_ok b).
Proof.
  intros Ha Hd. apply ndt_ok_split in Ha. destruct Ha as [Hv Ht].
  assert (Hr : forall x, Proofs.Time.tvalid (fst (Proofs.Time.add_result (Model.Time.tsecs (Model.DateTime.nd_time a)) (Model.Time.tfrac (Model.DateTime.nd_time a)) x))).
  { intros x. pose proof (Proofs.Time.add_result_range _ _ x (proj1 Ht) (proj2 Ht)) as H.
    destruct (Proofs.Time.add_result _ _ x) as [t' c]. exact (proj1 H). }
  split.
  - eapply weaken_opt; [|exact (Props.C07.C07_ndt_leap_add a d Hv Ht Hd)]. cbv beta.
    intros b (E & Hb & _). apply ndt_ok_split. split; [exact Hb|]. rewrite E. apply Hr.
  - eapply weaken_opt; [|exact (Props.C07.C07_ndt_leap_sub a d Hv Ht Hd)]. cbv beta.
    intros b (E & Hb & _). apply ndt_ok_split. split; [exact Hb|]. rewrite E. apply Hr.
Qed.
(* Days keep the time of day (leap-second field included) and move the date *)
Lemma ndt_days_full a n : Proofs.C04.ndt_ok a -> in_u64 n = true ->
  (returns (Model.DateTime.ndt_checked_add_days a n) /\ forall b, Model.DateTime.ndt_checked_add_days a n = Val (Some b) -> Proofs.C04.ndt_ok b) /\
  (returns (Model.DateTime.ndt_checked_sub_days a n) /\ forall b, Model.DateTime.ndt_checked_sub_days a n = Val (Some b) -> Proofs.C04.ndt_ok b).
Proof.
  intros Ha Hn. apply ndt_ok_split in Ha. destruct Ha as [Hv Ht].
  destruct (date_days_total _ n Hv Hn) as [[R1 V1] [R2 V2]].
  unfold Model.DateTime.ndt_checked_add_days, Model.DateTime.ndt_checked_sub_days, Model.DateTime.ndt_map_date.
  split.
  - destruct (Model.Date.checked_add_days _ n) as [[x|]| |]; try (destruct R1; congruence).
    + cbn. split; [split; discriminate|]. intros b [= <-]. apply ndt_ok_split. split; [exact (V1 x eq_refl)|exact Ht].
    + cbn. split; [split; discriminate|]. intros b E; discriminate.
  - destruct (Model.Date.checked_sub_days _ n) as [[x|]| |]; try (destruct R2; congruence).
    + cbn. split; [split; discriminate|]. intros b [= <-]. apply ndt_ok_split. split; [exact (V2 x eq_refl)|exact Ht].
    + cbn. split; [split; discriminate|]. intros b E; discriminate.
Qed.
(* DateTime<Tz> +- TimeDelta: the UTC reading moves, the offset is kept *)
Lemma dtz_signed_full a d : Proofs.C04.dtz_ok a -> Proofs.C06.valid d ->
  (returns (Model.DateTime.dz_checked_add_signed a d) /\
   forall z, Model.DateTime.dz_checked_add_signed a d = Val (Some z) -> Model.DateTime.dz_off z = Model.DateTime.dz_off a /\ Proofs.C04.dtz_ok z) /\
  (returns (Model.DateTime.dz_checked_sub_signed a d) /\
   forall z, Model.DateTime.dz_checked_sub_signed a d = Val (Some z) -> Model.DateTime.dz_off z = Model.DateTime.dz_off a /\ Proofs.C04.dtz_ok z).
Proof.
  intros [Hu Ho] Hd. destruct (ndt_signed_full _ d Hu Hd) as [[R1 V1] [R2 V2]].
  unfold Model.DateTime.dz_checked_add_signed, Model.DateTime.dz_checked_sub_signed. split.
  - destruct (Model.DateTime.ndt_checked_add_signed _ d) as [[x|]| |]; try (destruct R1; congruence).
    + cbn. split; [split; discriminate|]. intros z [= <-]. split; [reflexivity|]. split; [exact (V1 x eq_refl)|exact Ho].
    + cbn. split; [split; discriminate|]. intros b E; discriminate.
  - destruct (Model.DateTime.ndt_checked_sub_signed _ d) as [[x|]| |]; try (destruct R2; congruence).
    + cbn. split; [split; discriminate|]. intros z [= <-]. split; [reflexivity|]. split; [exact (V2 x eq_refl)|exact Ho].
    + cbn. split; [split; discriminate|]. intros b E; discriminate.
Qed.

(** * timestamp_nanos_opt on EVERY well-formed date-time (a leap-second fraction on any second):
      never a trap; a returned count is the instant (timestamp * 10^9 + nanosecond field) and fits i64 *)
Lemma nanos_opt_any S f : Proofs.C02.SEC_MIN <= S <= Proofs.C02.SEC_MAX -> 0 <= f < 2000000000 ->
  exists os,
    (let* '(ts, sn) := (if S <? 0 then let* s' := sub_i64 f 1000000000 in let* t' := add_i64 S 1 in Val (t', s')
                        else Val (S, f)) in
     match checked_mul in_i64 ts 1000000000 with
     | None => Val None
     | Some m => Val (checked_add in_i64 m sn)
     end) = Val os /\ forall st, os = Some st -> st = S * 1000000000 + f /\ in_i64 st = true.
Proof.
  intros Hr Hf. unfold Proofs.C02.SEC_MIN, Proofs.C02.SEC_MAX in Hr. destruct (S <? 0) eqn:Eneg.
  - unfold sub_i64, add_i64.
    rewrite chk_in by (unfold in_i64, in_range, i64_min, i64_max; lia). cbv [bind].
    rewrite chk_in by (unfold in_i64, in_range, i64_min, i64_max; lia). cbv [bind].
    unfold checked_mul, checked_add, chko.
    destruct (in_i64 ((S + 1) * 1000000000)) eqn:E1; [|eexists; split; [reflexivity|]; intros st X; discriminate].
    destruct (in_i64 ((S + 1) * 1000000000 + (f - 1000000000))) eqn:E2; (eexists; split; [reflexivity|]); intros st X; [|discriminate].
    injection X as <-. split; [lia|exact E2].
  - cbv [bind]. unfold checked_mul, checked_add, chko.
    destruct (in_i64 (S * 1000000000)) eqn:E1; [|eexists; split; [reflexivity|]; intros st X; discriminate].
    destruct (in_i64 (S * 1000000000 + f)) eqn:E2; (eexists; split; [reflexivity|]); intros st X; [|discriminate].
    injection X as <-. split; [reflexivity|exact E2].
Qed.
Lemma timestamp_nanos_opt_any a : Proofs.C02.valid_ndt a ->
  exists os, Model.DateTime.dt_timestamp_nanos_opt a = Val os /\
    forall st, os = Some st -> st = Proofs.C02.instant a /\ in_i64 st = true.
Proof.
  intros Hv. pose proof (Proofs.C02.secs_of_range Proofs.C02Date.date_facts_hold a Hv) as Hr.
  unfold Model.DateTime.dt_timestamp_nanos_opt. rewrite (Props.C02.C02_timestamp a Hv). cbv [bind].
  destruct Hv as [Hd [Hs Hf]]. change (2 * Proofs.C02.G) with 2000000000 in Hf.
  unfold Model.DateTime.dt_subsec_nanos, Model.Time.nanosecond. fold (Proofs.C02.dfrac a).
  exact (nanos_opt_any (Proofs.C02.secs_of a) (Proofs.C02.dfrac a) Hr Hf).
Qed.
Lemma timestamp_nanos_opt_full a : Proofs.C04.ndt_ok a ->
  returns (Model.DateTime.dt_timestamp_nanos_opt a) /\
  forall st, Model.DateTime.dt_timestamp_nanos_opt a = Val (Some st) -> st = Proofs.C02.instant a /\ in_i64 st = true.
Proof.
  intros Ha. apply ndt_ok_valid_ndt in Ha. destruct (timestamp_nanos_opt_any a Ha) as (os & E & H). rewrite E.
  split; [split; discriminate|]. intros st [= ->]. exact (H st eq_refl).
Qed.

(** * rounding (C17) on EVERY well-formed value, leap-second fractions included.
      C17's value theorems are over non-leap inputs (its carriers move a stamp exactly, which a leap
      second does not); what C15 needs -- the three helpers return, by value, a well-formed value or
      an error -- holds for every input: the i64 stamp pins the input within 106 753 days of the
      epoch, the amounts added / subtracted are positive spans below 2^63 ns, and C07's timeline
      arithmetic (C07_ndt_leap_add / _sub) succeeds there *)
Section RoundTotal.
  Variable T : Type.
  Variable ops : Model.Round.tl T.
  Variable goodT near : T -> Prop.
  Hypothesis add_ok : forall x d, goodT x -> near x -> Proofs.C06.valid d -> 0 < Proofs.C06.ns d <= i64_max ->
    exists r, Model.Round.tl_add ops x d = Val r /\ goodT r.
  Hypothesis sub_ok : forall x d, goodT x -> near x -> Proofs.C06.valid d -> 0 < Proofs.C06.ns d <= i64_max ->
    exists r, Model.Round.tl_sub ops x d = Val r /\ goodT r.

  Definition total_post (out : T + Model.Round.rerr) : Prop := forall r, out = inl r -> goodT r.
  Definition ts_link (naive : Model.DateTime.ndt) (x : T) : Prop :=
    exists os, Model.DateTime.dt_timestamp_nanos_opt naive = Val os /\ forall st, os = Some st -> in_i64 st = true /\ near x.

  Lemma ok_add_total x n : goodT x -> near x -> 0 < n <= i64_max ->
    exists out, Model.Round.ok_add ops x n = Val out /\ total_post out.
  Proof.
    intros Hx Hn Hr. unfold Model.Round.ok_add.
    destruct (Proofs.C06.nanoseconds_spec n ltac:(unfold in_i64, in_range, i64_min, i64_max in *; lia)) as (d & Hd & Hns & Hv).
    rewrite Hd. cbn [bind]. destruct (add_ok x d Hx Hn Hv ltac:(rewrite Hns; exact Hr)) as (r & E & Hg).
    rewrite E. cbn [bind]. eexists. split; [reflexivity|]. intros r' [= <-]. exact Hg.
  Qed.
  Lemma ok_sub_total x n : goodT x -> near x -> 0 < n <= i64_max ->
    exists out, Model.Round.ok_sub ops x n = Val out /\ total_post out.
  Proof.
    intros Hx Hn Hr. unfold Model.Round.ok_sub.
    destruct (Proofs.C06.nanoseconds_spec n ltac:(unfold in_i64, in_range, i64_min, i64_max in *; lia)) as (d & Hd & Hns & Hv).
    rewrite Hd. cbn [bind]. destruct (sub_ok x d Hx Hn Hv ltac:(rewrite Hns; exact Hr)) as (r & E & Hg).
    rewrite E. cbn [bind]. eexists. split; [reflexivity|]. intros r' [= <-]. exact Hg.
  Qed.
  Lemma err_total e : exists out, Val (@inr T _ e) = Val out /\ total_post out.
  Proof. eexists. split; [reflexivity|]. intros r X. discriminate. Qed.

  Lemma with_span_total naive x d (kont : Z -> Z -> R (T + Model.Round.rerr)) :
    Proofs.C06.valid d -> ts_link naive x ->
    (forall k r, 0 < k <= i64_max -> - k < r < k -> near x -> exists out, kont k r = Val out /\ total_post out) ->
    exists out, Model.Round.with_span_stamp naive d kont = Val out /\ total_post out.
  Proof.
    intros Hv (os & Hts & Hos) Hk. unfold Model.Round.with_span_stamp. rewrite (Proofs.C06.num_nanoseconds_spec d Hv). cbn [bind].
    destruct (in_i64 (Proofs.C06.ns d)) eqn:Ei; [|apply err_total].
    unfold Gen.Round.RD_SPAN_GUARD. destruct (Proofs.C06.ns d <=? 0) eqn:E0; [apply err_total|].
    rewrite Hts. cbn [bind]. destruct os as [st|]; [|apply err_total].
    destruct (Hos st eq_refl) as [Hst Hnear].
    unfold rem_i64. rewrite rem_t_nz by lia.
    replace (in_i64 (Z.quot st (Proofs.C06.ns d))) with true.
    2:{ symmetry. unfold in_i64, in_range, i64_min, i64_max in *.
        assert (Z.abs (Z.quot st (Proofs.C06.ns d)) <= Z.abs st) by (apply Proofs.C06.quot_abs_le; lia). lia. }
    apply Hk; [unfold in_i64, in_range, i64_min, i64_max in *; lia|apply Proofs.C17.rem_range; lia|exact Hnear].
  Qed.

  Ltac W := unfold in_i64, in_range, i64_min, i64_max in *; lia.
  Theorem duration_trunc_total naive x d : goodT x -> Proofs.C06.valid d -> ts_link naive x ->
    exists out, Model.Round.duration_trunc ops naive x d = Val out /\ total_post out.
  Proof.
    intros Hx Hv Hts. unfold Model.Round.duration_trunc. apply (with_span_total naive x d); [exact Hv|exact Hts|].
    intros k r Hk Hr Hn. unfold cmpZ. destruct (Z.compare_spec r 0) as [Ec|Ec|Ec]; cbn.
    - eexists. split; [reflexivity|]. intros r' [= <-]. exact Hx.
    - unfold abs_i64. rewrite chk_in by W. cbn [bind]. unfold sub_i64. rewrite chk_in by W. cbn [bind].
      apply ok_sub_total; try assumption. unfold i64_max in *. lia.
    - apply ok_sub_total; try assumption. unfold i64_max in *. lia.
  Qed.
  Theorem duration_round_up_total naive x d : goodT x -> Proofs.C06.valid d -> ts_link naive x ->
    exists out, Model.Round.duration_round_up ops naive x d = Val out /\ total_post out.
  Proof.
    intros Hx Hv Hts. unfold Model.Round.duration_round_up. apply (with_span_total naive x d); [exact Hv|exact Hts|].
    intros k r Hk Hr Hn. unfold cmpZ. destruct (Z.compare_spec r 0) as [Ec|Ec|Ec]; cbn.
    - eexists. split; [reflexivity|]. intros r' [= <-]. exact Hx.
    - unfold abs_i64. rewrite chk_in by W. cbn [bind].
      apply ok_add_total; try assumption. unfold i64_max in *. lia.
    - unfold sub_i64. rewrite chk_in by W. cbn [bind]. apply ok_add_total; try assumption. unfold i64_max in *. lia.
  Qed.
  Theorem duration_round_total naive x d : goodT x -> Proofs.C06.valid d -> ts_link naive x ->
    exists out, Model.Round.duration_round ops naive x d = Val out /\ total_post out.
  Proof.
    intros Hx Hv Hts. unfold Model.Round.duration_round. apply (with_span_total naive x d); [exact Hv|exact Hts|].
    intros k r Hk Hr Hn. destruct (r =? 0) eqn:E0.
    { eexists. split; [reflexivity|]. intros r' [= <-]. exact Hx. }
    destruct (r <? 0) eqn:E1.
    - unfold abs_i64. rewrite chk_in by W. cbn [bind]. unfold sub_i64. rewrite chk_in by W. cbn [bind].
      destruct (Z.abs r <=? k - Z.abs r); [apply ok_add_total|apply ok_sub_total]; try assumption; unfold i64_max in *; lia.
    - unfold sub_i64. rewrite chk_in by W. cbn [bind].
      destruct (k - r <=? r); [apply ok_add_total|apply ok_sub_total]; try assumption; unfold i64_max in *; lia.
  Qed.
End RoundTotal.

(* the carry of the timeline addition of an amount inside i64 nanoseconds: at most 106 753 days *)
Lemma carry_bound s f x : 0 <= s < 86400 -> 0 <= f < 2000000000 ->
  - 9223372036854775807 <= x <= 9223372036854775807 ->
  - 106753 <= snd (Proofs.Time.add_result s f x) / 86400 <= 106753.
Proof.
  intros Hs Hf Hx. unfold Proofs.Time.add_result, tl_add, readback, leap_of, tl_pos, shift_before.
  destruct (f <? 1000000000) eqn:Ef; cbv beta iota; cbn [fst snd].
  - lia.
  - repeat (match goal with |- context [if ?c then _ else _] => destruct c eqn:? end; cbv beta iota; cbn [fst snd]); lia.
Qed.
Definition near_n (a : Model.DateTime.ndt) : Prop :=
  - 106760 <= Proofs.C03.dn (Model.DateTime.nd_date a) - EPOCH_DN <= 106760.
Lemma ndt_add_near a d : Proofs.C04.ndt_ok a -> near_n a -> Proofs.C06.valid d -> 0 < Proofs.C06.ns d <= i64_max ->
  exists r, Model.DateTime.ndt_checked_add_signed a d = Val (Some r) /\ Proofs.C04.ndt_ok r.
Proof.
  intros Ha Hn Hd Hr. pose proof (proj1 (ndt_ok_split a) Ha) as [Hv Ht].
  destruct (ndt_signed_full a d Ha Hd) as [[_ V1] _].
  destruct (Props.C07.C07_ndt_leap_add a d Hv Ht Hd) as (r & E & Hm). destruct r as [b|].
  - exists b. split; [exact E|]. apply V1. exact E.
  - exfalso. pose proof (carry_bound _ _ (Proofs.C06.ns d) (proj1 Ht) (proj2 Ht) ltac:(unfold i64_max in Hr; lia)) as Hc.
    unfold near_n, EPOCH_DN in Hn. unfold dn_in_range, DN_MIN, DN_MAX in Hm. lia.
Qed.
Lemma ndt_sub_near a d : Proofs.C04.ndt_ok a -> near_n a -> Proofs.C06.valid d -> 0 < Proofs.C06.ns d <= i64_max ->
  exists r, Model.DateTime.ndt_checked_sub_signed a d = Val (Some r) /\ Proofs.C04.ndt_ok r.
Proof.
  intros Ha Hn Hd Hr. pose proof (proj1 (ndt_ok_split a) Ha) as [Hv Ht].
  destruct (ndt_signed_full a d Ha Hd) as [_ [_ V1]].
  destruct (Props.C07.C07_ndt_leap_sub a d Hv Ht Hd) as (r & E & Hm). destruct r as [b|].
  - exists b. split; [exact E|]. apply V1. exact E.
  - exfalso. pose proof (carry_bound _ _ (- Proofs.C06.ns d) (proj1 Ht) (proj2 Ht) ltac:(unfold i64_max in Hr; lia)) as Hc.
    unfold near_n, EPOCH_DN in Hn. unfold dn_in_range, DN_MIN, DN_MAX in Hm. lia.
Qed.
(* an i64 stamp pins the date near the epoch *)
Lemma stamp_near a st : Proofs.C02.valid_ndt a -> st = Proofs.C02.instant a -> in_i64 st = true ->
  - 106753 <= Proofs.C03.dn (Model.DateTime.nd_date a) - EPOCH_DN <= 106753.
Proof.
  intros (_ & Hs & Hf) -> Hi. unfold Proofs.C02.instant, unix_nanos, unix_secs in Hi.
  change (Proofs.C02.date_dn (Model.DateTime.nd_date a)) with (Proofs.C03.dn (Model.DateTime.nd_date a)) in Hi.
  unfold Proofs.C02.G in Hf. unfold in_i64, in_range, i64_min, i64_max in Hi. lia.
Qed.
Lemma ndt_ts_link a : Proofs.C04.ndt_ok a -> ts_link Model.DateTime.ndt near_n a a.
Proof.
  intros Ha. apply ndt_ok_valid_ndt in Ha. destruct (timestamp_nanos_opt_any a Ha) as (os & E & H).
  exists os. split; [exact E|]. intros st Hst. destruct (H st Hst) as [H1 H2]. split; [exact H2|].
  pose proof (stamp_near a st Ha H1 H2). unfold near_n. lia.
Qed.
Lemma ndt_round_full a d : Proofs.C04.ndt_ok a -> Proofs.C06.valid d ->
  forall m, returns (Proofs.C17.ndt_op m a d) /\ forall r, Proofs.C17.ndt_op m a d = Val (inl r) -> Proofs.C04.ndt_ok r.
Proof.
  intros Ha Hd m.
  assert (Hadd : forall x d, Proofs.C04.ndt_ok x -> near_n x -> Proofs.C06.valid d -> 0 < Proofs.C06.ns d <= i64_max ->
            exists r, Model.Round.tl_add Model.Round.ndt_ops x d = Val r /\ Proofs.C04.ndt_ok r).
  { intros x d' Hx Hn Hd' Hr. destruct (ndt_add_near x d' Hx Hn Hd' Hr) as (r & E & Hg). exists r.
    cbn [Model.Round.tl_add Model.Round.ndt_ops]. unfold Model.Round.ndt_op_add. rewrite E. split; [reflexivity|exact Hg]. }
  assert (Hsub : forall x d, Proofs.C04.ndt_ok x -> near_n x -> Proofs.C06.valid d -> 0 < Proofs.C06.ns d <= i64_max ->
            exists r, Model.Round.tl_sub Model.Round.ndt_ops x d = Val r /\ Proofs.C04.ndt_ok r).
  { intros x d' Hx Hn Hd' Hr. destruct (ndt_sub_near x d' Hx Hn Hd' Hr) as (r & E & Hg). exists r.
    cbn [Model.Round.tl_sub Model.Round.ndt_ops]. unfold Model.Round.ndt_op_sub. rewrite E. split; [reflexivity|exact Hg]. }
  assert (X : exists out, Proofs.C17.ndt_op m a d = Val out /\ total_post Model.DateTime.ndt Proofs.C04.ndt_ok out).
  { destruct m; cbn [Proofs.C17.ndt_op].
    - exact (duration_trunc_total _ _ _ near_n Hadd Hsub a a d Ha Hd (ndt_ts_link a Ha)).
    - exact (duration_round_up_total _ _ _ near_n Hadd Hsub a a d Ha Hd (ndt_ts_link a Ha)).
    - exact (duration_round_total _ _ _ near_n Hadd Hsub a a d Ha Hd (ndt_ts_link a Ha)). }
  destruct X as (out & E & P). rewrite E. split; [split; discriminate|]. intros r [= ->]. apply P. reflexivity.
Qed.

(* DurationRound for DateTime<Tz> (the repaired code reads the wall clock with overflowing_naive_local):
   a headroom wall clock has no i64 stamp, leap-second fraction or not *)
Lemma headroom_ts_none_any d t : Proofs.Time.tvalid t -> d = Model.Date.D_BEFORE_MIN \/ d = Model.Date.D_AFTER_MAX ->
  Model.DateTime.dt_timestamp_nanos_opt (Model.DateTime.mk_ndt d t) = Val None.
Proof.
  intros [Hs Hf] Hd.
  unfold Model.DateTime.dt_timestamp_nanos_opt, Model.DateTime.dt_timestamp, Model.DateTime.dt_subsec_nanos.
  cbn [Model.DateTime.nd_date Model.DateTime.nd_time].
  unfold Model.Time.num_seconds_from_midnight, Model.Time.nanosecond.
  destruct Hd as [-> | ->]; [rewrite Proofs.C17Links.ndays_BEFORE_MIN|rewrite Proofs.C17Links.ndays_AFTER_MAX]; cbn [bind];
    unfold Gen.DateTimeConsts.UNIX_EPOCH_DAY, DN_MIN, DN_MAX, sub_i64, mul_i64, add_i64;
    rewrite chk_in by (unfold in_i64, in_range, i64_min, i64_max; lia); cbn [bind];
    rewrite chk_in by (unfold in_i64, in_range, i64_min, i64_max; lia); cbn [bind];
    rewrite chk_in by (unfold in_i64, in_range, i64_min, i64_max; lia); cbn [bind].
  - match goal with |- context [if ?c then _ else _] => replace c with true by lia end.
    rewrite chk_in by (unfold in_i64, in_range, i64_min, i64_max; lia). cbn [bind].
    rewrite chk_in by (unfold in_i64, in_range, i64_min, i64_max; lia). cbn [bind].
    unfold checked_mul, chko.
    match goal with |- context [in_i64 ?x] => replace (in_i64 x) with false by (symmetry; unfold in_i64, in_range, i64_min, i64_max; lia) end.
    reflexivity.
  - match goal with |- context [if ?c then _ else _] => replace c with false by lia end.
    cbn [bind]. unfold checked_mul, chko.
    match goal with |- context [in_i64 ?x] => replace (in_i64 x) with false by (symmetry; unfold in_i64, in_range, i64_min, i64_max; lia) end.
    reflexivity.
Qed.
Definition near_z (z : Model.DateTime.dtz) : Prop := near_n (Model.DateTime.dz_utc z).
Lemma dz_ts_link a : Proofs.C04.dtz_ok a ->
  exists l, Model.DateTime.overflowing_naive_local a = Val l /\ ts_link Model.DateTime.dtz near_z l a.
Proof.
  intros Ha. destruct (Props.C04.C04_overflowing_naive_local a Ha) as (l & El & [Hdl Htl] & Hu & _).
  exists l. split; [exact El|]. destruct Hdl as [Hnom|Hhead].
  - assert (Hl : Proofs.C02.valid_ndt l) by (apply ndt_ok_valid_ndt; split; assumption).
    destruct (timestamp_nanos_opt_any l Hl) as (os & E & H).
    exists os. split; [exact E|]. intros st Hst. destruct (H st Hst) as [H1 H2]. split; [exact H2|].
    pose proof (stamp_near l st Hl H1 H2) as Hn. unfold near_z, near_n.
    unfold Proofs.C04.wall, Proofs.C04.usecs in Hu.
    change (Proofs.C04.dn (Model.DateTime.nd_date l)) with (Proofs.C03.dn (Model.DateTime.nd_date l)) in Hu.
    change (Proofs.C04.dn (Model.DateTime.nd_date (Model.DateTime.dz_utc a))) with (Proofs.C03.dn (Model.DateTime.nd_date (Model.DateTime.dz_utc a))) in Hu.
    destruct Ha as [[_ [Hs _]] Ho]. destruct Htl as [Hsl _]. unfold Proofs.C04.off_ok in Ho. lia.
  - exists None. split; [|intros st X; discriminate]. destruct l as [dd t]. cbn [Model.DateTime.nd_date Model.DateTime.nd_time] in *.
    apply headroom_ts_none_any; assumption.
Qed.
Lemma dtz_round_total a d : Proofs.C04.dtz_ok a -> Proofs.C06.valid d ->
  forall m, returns (Proofs.C17.dz_op m a d) /\ forall r, Proofs.C17.dz_op m a d = Val (inl r) -> Proofs.C04.dtz_ok r.
Proof.
  intros Ha Hd m.
  assert (Hadd : forall x d, Proofs.C04.dtz_ok x -> near_z x -> Proofs.C06.valid d -> 0 < Proofs.C06.ns d <= i64_max ->
            exists r, Model.Round.tl_add Model.Round.dz_ops x d = Val r /\ Proofs.C04.dtz_ok r).
  { intros x d' [Hx Ho] Hn Hd' Hr. destruct (ndt_add_near _ d' Hx Hn Hd' Hr) as (r & E & Hg). eexists.
    cbn [Model.Round.tl_add Model.Round.dz_ops]. unfold Model.Round.dz_op_add, Model.DateTime.dz_checked_add_signed. rewrite E.
    split; [reflexivity|]. split; [exact Hg|exact Ho]. }
  assert (Hsub : forall x d, Proofs.C04.dtz_ok x -> near_z x -> Proofs.C06.valid d -> 0 < Proofs.C06.ns d <= i64_max ->
            exists r, Model.Round.tl_sub Model.Round.dz_ops x d = Val r /\ Proofs.C04.dtz_ok r).
  { intros x d' [Hx Ho] Hn Hd' Hr. destruct (ndt_sub_near _ d' Hx Hn Hd' Hr) as (r & E & Hg). eexists.
    cbn [Model.Round.tl_sub Model.Round.dz_ops]. unfold Model.Round.dz_op_sub, Model.DateTime.dz_checked_sub_signed. rewrite E.
    split; [reflexivity|]. split; [exact Hg|exact Ho]. }
  destruct (dz_ts_link a Ha) as (l & El & Hl).
  assert (X : exists out, Proofs.C17.dz_op m a d = Val out /\ total_post Model.DateTime.dtz Proofs.C04.dtz_ok out).
  { destruct m; cbn [Proofs.C17.dz_op];
      unfold Model.Round.dz_duration_trunc, Model.Round.dz_duration_round_up, Model.Round.dz_duration_round; rewrite El; cbn [bind].
    - exact (duration_trunc_total _ _ _ near_z Hadd Hsub l a d Ha Hd Hl).
    - exact (duration_round_up_total _ _ _ near_z Hadd Hsub l a d Ha Hd Hl).
    - exact (duration_round_total _ _ _ near_z Hadd Hsub l a d Ha Hd Hl). }
  destruct X as (out & E & P). rewrite E. split; [split; discriminate|]. intros r [= ->]. apply P. reflexivity.
Qed.
