(** C08 — the executable judge (Judge/C08.v, written from the property text over Spec/Gregorian.v)
    accepts the model's output: month stepping and the seven date setters, for every in-domain case. *)
From Coq Require Import ZArith List Bool Lia ZifyBool String.
From V Require Import Base.Int Base.IntLemmas Base.IO Base.Lift Base.Table Gen.DateTables
  Spec.Gregorian Model.Date Model.DateExtra Proofs.C08Sweeps Proofs.C08Date Proofs.C08Days Proofs.C08AddDays
  Proofs.C08.
From V Require Model.Time Model.DateTime Model.C08 Judge.C08.
From V Require Import Model.TimeDelta.
Import ListNotations.
Open Scope Z_scope.
Ltac Zify.zify_post_hook ::= Z.to_euclidean_division_equations.

Module M := V.Model.C08.
Module J := V.Judge.C08.


Definition denc (y o : Z) : val := VTup [VInt y; VInt o].

Lemma dec_date_enc y o : year_in_range y = true -> valid_yo y o = true ->
  DateTime.dec_date (denc y o) = Some (mkdate y o).
Proof.
  intros Hy Ho. pose proof (year_range_bounds y Hy). pose proof (lo_facts_of y o Ho) as [_ Fo _ _ _ _ _].
  unfold DateTime.dec_date, denc.
  replace (in_i32 y && in_u32 o) with true by (symmetry; apply andb_true_intro; split; solve_in).
  rewrite from_yo_opt_spec by solve_in. rewrite Hy, Ho. reflexivity.
Qed.
Lemma enc_date_repr y o d : repr y o d -> DateTime.enc_date d = denc y o.
Proof. intros H. destruct (repr_md y o d H) as (E1 & E2 & _). unfold DateTime.enc_date, denc. rewrite E1, E2. reflexivity. Qed.
Lemma judge_eq_opt_date (b : bool) y o :
  judge_eq (if b then VSome (denc y o) else VNone) (if b then VSome (denc y o) else VNone) = JOk.
Proof. unfold judge_eq, denc. destruct b; cbn; rewrite ?Z.eqb_refl; reflexivity. Qed.

Lemma jd_arg_enc y o : year_in_range y = true -> valid_yo y o = true ->
  J.jd_arg (denc y o) = Some (J.mk_jd y (month_of y o) (day_of y o) o (dn_of_yo y o)).
Proof.
  intros Hy Ho. unfold J.jd_arg, denc, J.jd_of_yo. rewrite Hy, Ho. cbn [andb].
  unfold month_of, day_of. destruct (md_of_ordinal (is_leap y) o). reflexivity.
Qed.

(** the model's month-step result, encoded, is the judge's expected value *)
Lemma shift_enc y o k : year_in_range y = true -> valid_yo y o = true ->
  M.vo_date (shift_months y o k) =
  J.exp_shift (J.mk_jd y (month_of y o) (day_of y o) o (dn_of_yo y o)) k.
Proof.
  intros Hy Ho. unfold J.exp_shift. cbn [J.jy J.jm J.jd].
  destruct (shift_months y o k) as [d'|] eqn:S.
  - destruct (shift_months_fields y o k d' Ho S) as (Hy' & R & _). cbv zeta in Hy', R.
    rewrite Hy'. unfold M.vo_date, val_of_option. rewrite (enc_date_repr _ _ _ R). reflexivity.
  - unfold shift_months in S. fold (month_of y o) (day_of y o) in S.
    destruct (year_in_range ((12 * y + (month_of y o - 1) + k) / 12)); [discriminate S|reflexivity].
Qed.

Lemma run_addm a b : M.run (B"d8.addm") [a; b] =
  match DateTime.dec_date a, arg_u32 b with
  | Some d, Some n => val_of_R M.vo_date (checked_add_months d n) | _, _ => VBad end.
Proof. reflexivity. Qed.
Lemma run_subm a b : M.run (B"d8.subm") [a; b] =
  match DateTime.dec_date a, arg_u32 b with
  | Some d, Some n => val_of_R M.vo_date (checked_sub_months d n) | _, _ => VBad end.
Proof. reflexivity. Qed.
Lemma judge_addm a n out : J.judge (B"d8.addm") [a; VInt n] out =
  match J.jd_arg a with Some x => if in_u32 n then judge_eq (J.exp_shift x n) out else JSkip | None => JSkip end.
Proof. reflexivity. Qed.
Lemma judge_subm a n out : J.judge (B"d8.subm") [a; VInt n] out =
  match J.jd_arg a with Some x => if in_u32 n then judge_eq (J.exp_shift x (- n)) out else JSkip | None => JSkip end.
Proof. reflexivity. Qed.

Lemma judge_eq_refl_shift x k : judge_eq (J.exp_shift x k) (J.exp_shift x k) = JOk.
Proof. unfold J.exp_shift, J.enc_ymd, J.enc_yo. apply judge_eq_opt_date. Qed.

Theorem holds_addm y o n : year_in_range y = true -> valid_yo y o = true -> in_u32 n = true ->
  J.judge (B"d8.addm") [denc y o; VInt n] (M.run (B"d8.addm") [denc y o; VInt n]) = JOk.
Proof.
  intros Hy Ho Hn. rewrite run_addm, judge_addm, dec_date_enc, jd_arg_enc by assumption.
  unfold arg_u32. rewrite Hn.
  rewrite (checked_add_months_spec y o _ n (repr_mk y o Hy Ho) Hn). cbn [val_of_R].
  rewrite shift_enc by assumption. apply judge_eq_refl_shift.
Qed.
Theorem holds_subm y o n : year_in_range y = true -> valid_yo y o = true -> in_u32 n = true ->
  J.judge (B"d8.subm") [denc y o; VInt n] (M.run (B"d8.subm") [denc y o; VInt n]) = JOk.
Proof.
  intros Hy Ho Hn. rewrite run_subm, judge_subm, dec_date_enc, jd_arg_enc by assumption.
  unfold arg_u32. rewrite Hn.
  rewrite (checked_sub_months_spec y o _ n (repr_mk y o Hy Ho) Hn). cbn [val_of_R].
  rewrite shift_enc by assumption. apply judge_eq_refl_shift.
Qed.

(** * Field replacement *)
Definition fname (f : Z) : bytes :=
  if f =? 0 then B"year" else if f =? 1 then B"month" else if f =? 2 then B"month0"
  else if f =? 3 then B"day" else if f =? 4 then B"day0" else if f =? 5 then B"ordinal" else B"ordinal0".

Lemma run_with s a b : M.run (B"d8.with") [VStr s; a; b] =
  match M.field_of s with
  | Some f => match DateTime.dec_date a, M.arg_field f b with
              | Some d, Some x => val_of_R M.vo_date (M.d_with f d x) | _, _ => VBad end
  | None => VBad end.
Proof. reflexivity. Qed.
Lemma judge_with s a v out : J.judge (B"d8.with") [VStr s; a; VInt v] out =
  match J.jfield s, J.jd_arg a with
  | Some f, Some x => if J.field_arg_ok f v then judge_eq (J.exp_with f x v) out else JSkip
  | _, _ => JSkip end.
Proof. reflexivity. Qed.

Lemma enc_ymd_if y m dd : 
  M.vo_date (date_if (year_in_range y && valid_ymd y m dd) (mk_ymd y m dd)) = J.exp_ymd y m dd.
Proof.
  unfold J.exp_ymd. destruct (year_in_range y && valid_ymd y m dd) eqn:E; [|reflexivity].
  apply andb_prop in E. destruct E as [Hy Hv]. cbn [date_if M.vo_date val_of_option].
  rewrite (enc_date_repr _ _ _ (mk_ymd_repr y m dd Hy Hv)). reflexivity.
Qed.
Lemma enc_yo_if y o : 
  M.vo_date (date_if (year_in_range y && valid_yo y o) (mkdate y o)) = J.exp_yo y o.
Proof.
  unfold J.exp_yo. destruct (year_in_range y && valid_yo y o) eqn:E; [|reflexivity].
  apply andb_prop in E. destruct E as [Hy Hv]. cbn [date_if M.vo_date val_of_option].
  rewrite (enc_date_repr _ _ _ (repr_mk y o Hy Hv)). reflexivity.
Qed.
Lemma judge_eq_exp_ymd y m dd : judge_eq (J.exp_ymd y m dd) (J.exp_ymd y m dd) = JOk.
Proof. unfold J.exp_ymd, J.enc_ymd, J.enc_yo. apply judge_eq_opt_date. Qed.
Lemma judge_eq_exp_yo y o : judge_eq (J.exp_yo y o) (J.exp_yo y o) = JOk.
Proof. unfold J.exp_yo, J.enc_yo. apply judge_eq_opt_date. Qed.

Theorem holds_with f y o x : 0 <= f <= 6 -> year_in_range y = true -> valid_yo y o = true ->
  J.field_arg_ok f x = true ->
  J.judge (B"d8.with") [VStr (fname f); denc y o; VInt x] (M.run (B"d8.with") [VStr (fname f); denc y o; VInt x]) = JOk.
Proof.
  intros Hf Hy Ho Hx. rewrite run_with, judge_with, dec_date_enc, jd_arg_enc by assumption.
  pose proof (repr_mk y o Hy Ho) as R.
  assert (f = 0 \/ f = 1 \/ f = 2 \/ f = 3 \/ f = 4 \/ f = 5 \/ f = 6) as C by lia.
  destruct C as [->|[->|[->|[->|[->|[->| ->]]]]]];
  match goal with |- context [M.field_of (fname ?k)] =>
    change (M.field_of (fname k)) with (Some k); change (J.jfield (fname k)) with (Some k) end;
  cbv beta iota; rewrite Hx; unfold J.field_arg_ok in Hx; cbn [Z.eqb Pos.eqb] in Hx;
  unfold M.arg_field, arg_i32, arg_u32; cbn [Z.eqb Pos.eqb]; rewrite Hx;
  unfold M.d_with, J.exp_with; cbn [Z.eqb Pos.eqb J.jy J.jm J.jd].
  - rewrite (with_year_spec y o _ R x Hx). cbn [val_of_R]. fold (month_of y o) (day_of y o).
    rewrite enc_ymd_if. apply judge_eq_exp_ymd.
  - rewrite (with_month_spec y o _ R x Hx). cbn [val_of_R]. fold (day_of y o).
    rewrite <- (andb_true_l (valid_ymd y x (day_of y o))), <- Hy. rewrite enc_ymd_if. apply judge_eq_exp_ymd.
  - rewrite (with_month0_spec y o _ R x Hx). cbn [val_of_R]. fold (day_of y o).
    rewrite <- (andb_true_l (valid_ymd y (x + 1) (day_of y o))), <- Hy. rewrite enc_ymd_if. apply judge_eq_exp_ymd.
  - rewrite (with_day_spec y o _ R x Hx). cbn [val_of_R]. fold (month_of y o).
    rewrite <- (andb_true_l (valid_ymd y (month_of y o) x)), <- Hy. rewrite enc_ymd_if. apply judge_eq_exp_ymd.
  - rewrite (with_day0_spec y o _ R x Hx). cbn [val_of_R]. fold (month_of y o).
    rewrite <- (andb_true_l (valid_ymd y (month_of y o) (x + 1))), <- Hy. rewrite enc_ymd_if. apply judge_eq_exp_ymd.
  - rewrite (with_ordinal_spec y o _ R x Hx). cbn [val_of_R].
    rewrite <- (andb_true_l (valid_yo y x)), <- Hy. rewrite enc_yo_if. apply judge_eq_exp_yo.
  - rewrite (with_ordinal0_spec y o _ R x Hx). cbn [val_of_R].
    rewrite <- (andb_true_l (valid_yo y (x + 1))), <- Hy. rewrite enc_yo_if. apply judge_eq_exp_yo.
Qed.

(** * Weeks, n-th weekday, years elapsed *)
Lemma enc_dn_if n : M.vo_date (date_if (dn_in_range n) (date_of_dn n)) = J.exp_dn n.
Proof.
  unfold J.exp_dn. destruct (dn_in_range n) eqn:E; [|reflexivity]. cbn [date_if M.vo_date val_of_option].
  destruct (date_of_dn_repr n E) as [R _]. rewrite (enc_date_repr _ _ _ R).
  unfold J.enc_dn, denc, J.enc_yo. destruct (yo_of_dn n). reflexivity.
Qed.
Lemma judge_eq_exp_dn n : judge_eq (J.exp_dn n) (J.exp_dn n) = JOk.
Proof. unfold J.exp_dn, J.enc_dn, J.enc_yo. destruct (yo_of_dn n) as [y o]. apply (judge_eq_opt_date _ y o). Qed.

Lemma run_wfirst a b : M.run (B"d8.wfirst") [a; b] =
  match DateTime.dec_date a, M.arg_wd b with
  | Some d, Some w => val_of_R M.vo_date (week_checked_first_day (d_week d w)) | _, _ => VBad end.
Proof. reflexivity. Qed.
Lemma run_wlast a b : M.run (B"d8.wlast") [a; b] =
  match DateTime.dec_date a, M.arg_wd b with
  | Some d, Some w => val_of_R M.vo_date (week_checked_last_day (d_week d w)) | _, _ => VBad end.
Proof. reflexivity. Qed.
Lemma judge_wfirst a w out : J.judge (B"d8.wfirst") [a; VInt w] out =
  match J.jd_arg a with
  | Some x => if (0 <=? w) && (w <=? 6) then judge_eq (J.exp_dn (J.week_first x w)) out else JSkip
  | None => JSkip end.
Proof. reflexivity. Qed.
Lemma judge_wlast a w out : J.judge (B"d8.wlast") [a; VInt w] out =
  match J.jd_arg a with
  | Some x => if (0 <=? w) && (w <=? 6) then judge_eq (J.exp_dn (J.week_first x w + 6)) out else JSkip
  | None => JSkip end.
Proof. reflexivity. Qed.

Theorem holds_week_bounds y o w : year_in_range y = true -> valid_yo y o = true -> 0 <= w <= 6 ->
  J.judge (B"d8.wfirst") [denc y o; VInt w] (M.run (B"d8.wfirst") [denc y o; VInt w]) = JOk /\
  J.judge (B"d8.wlast") [denc y o; VInt w] (M.run (B"d8.wlast") [denc y o; VInt w]) = JOk.
Proof.
  intros Hy Ho Hw. pose proof (repr_mk y o Hy Ho) as R.
  rewrite run_wfirst, run_wlast, judge_wfirst, judge_wlast, dec_date_enc, jd_arg_enc by assumption.
  unfold M.arg_wd. replace ((0 <=? w) && (w <=? 6)) with true by lia.
  rewrite (week_first_spec y o _ w R Hw), (week_last_spec y o _ w R Hw). cbn [val_of_R].
  rewrite !enc_dn_if. unfold J.week_first. cbn [J.jn]. fold (week_start (dn_of_yo y o) w).
  split; apply judge_eq_exp_dn.
Qed.

Lemma run_nthwd a b c e : M.run (B"d8.nthwd") [a; b; c; e] =
  match arg_i32 a, arg_u32 b, M.arg_wd c, M.arg_u8 e with
  | Some y, Some m, Some w, Some n => val_of_R M.vo_date (from_weekday_of_month_opt y m w n)
  | _, _, _, _ => VBad end.
Proof. reflexivity. Qed.
Lemma judge_nthwd y m w n out : J.judge (B"d8.nthwd") [VInt y; VInt m; VInt w; VInt n] out =
  if in_i32 y && in_u32 m && (0 <=? w) && (w <=? 6) && in_u8 n then judge_eq (J.exp_nth y m w n) out else JSkip.
Proof. reflexivity. Qed.

Theorem holds_nthwd y m w n : in_i32 y = true -> in_u32 m = true -> 0 <= w <= 6 -> in_u8 n = true ->
  J.judge (B"d8.nthwd") [VInt y; VInt m; VInt w; VInt n] (M.run (B"d8.nthwd") [VInt y; VInt m; VInt w; VInt n]) = JOk.
Proof.
  intros Hy Hm Hw Hn. rewrite run_nthwd, judge_nthwd. unfold arg_i32, arg_u32, M.arg_wd, M.arg_u8.
  rewrite Hy, Hm, Hn. replace ((0 <=? w) && (w <=? 6)) with true by lia.
  replace (true && true && (0 <=? w) && (w <=? 6) && true) with true by lia.
  rewrite (nth_weekday_spec y m w n Hy Hm Hw Hn). cbn [val_of_R].
  unfold nth_weekday, J.exp_nth.
  destruct (year_in_range y && (1 <=? m) && (m <=? 12) && (1 <=? n)) eqn:E; [|reflexivity].
  set (day := 1 + (w - weekday_of_dn (dn_of_ymd y m 1)) mod 7 + 7 * (n - 1)).
  destruct (day <=? days_in_month (is_leap y) m) eqn:E2; [|reflexivity].
  cbn [date_if M.vo_date val_of_option].
  assert (Hyr : year_in_range y = true) by (destruct (year_in_range y); [reflexivity|cbn in E; discriminate E]).
  assert (Hv : valid_ymd y m day = true).
  { rewrite Hyr in E. cbn [andb] in E. unfold valid_ymd, day in *. solve_in. }
  rewrite (enc_date_repr _ _ _ (mk_ymd_repr y m day Hyr Hv)).
  unfold judge_eq, J.enc_ymd, J.enc_yo, denc. cbn. rewrite !Z.eqb_refl. reflexivity.
Qed.

Lemma run_years a b : M.run (B"d8.years") [a; b] =
  match DateTime.dec_date a, DateTime.dec_date b with
  | Some d, Some base => val_of_R M.vo_int (years_since d base) | _, _ => VBad end.
Proof. reflexivity. Qed.
Lemma judge_years a b out : J.judge (B"d8.years") [a; b] out =
  match J.jd_arg a, J.jd_arg b with
  | Some x, Some z => judge_eq (J.exp_years (J.jy x) (J.jm x) (J.jd x) 0 (J.jy z) (J.jm z) (J.jd z) 0) out
  | _, _ => JSkip end.
Proof. reflexivity. Qed.

Theorem holds_years y1 o1 y0 o0 : year_in_range y1 = true -> valid_yo y1 o1 = true ->
  year_in_range y0 = true -> valid_yo y0 o0 = true ->
  J.judge (B"d8.years") [denc y1 o1; denc y0 o0] (M.run (B"d8.years") [denc y1 o1; denc y0 o0]) = JOk.
Proof.
  intros Hy1 Ho1 Hy0 Ho0. rewrite run_years, judge_years, !dec_date_enc, !jd_arg_enc by assumption.
  rewrite (years_since_spec _ _ _ _ _ _ (repr_mk y1 o1 Hy1 Ho1) (repr_mk y0 o0 Hy0 Ho0)). cbn [val_of_R J.jy J.jm J.jd].
  unfold years_between, J.exp_years, J.lex3_lt. rewrite Z.ltb_irrefl, !andb_false_r, !orb_false_r.
  set (e := (month_of y1 o1 <? month_of y0 o0) || _).
  destruct (0 <=? y1 - y0 - (if e then 1 else 0)); unfold judge_eq; cbn; rewrite ?Z.eqb_refl; reflexivity.
Qed.
