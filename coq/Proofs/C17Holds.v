(** C17, top level: for every op and every argument list, whenever the independent judge
    (Judge/C17.v) has an opinion it accepts the model's output.  Assembled from
    - the span operations: [ndt_spec_all] / [dz_spec_all] (Proofs/C17.v) with the links of
      Proofs/C17Links.v (for a zone-aware value with the offset fixed, so that the result provably
      keeps the offset), and the codec bridges of Proofs/C03HoldsAr.v;
    - the sub-second operations: the unfolded methods and the one-step lemmas of Proofs/C17Ops.v
      (leap-second readings included) and, for NaiveTime, [time_round_subsecs_spec] /
      [time_trunc_subsecs_spec] of Proofs/C17.v. *)
From Coq Require Import ZArith List Bool Lia ZifyBool String.
From V Require Import Base.Int Base.IntLemmas Base.IO Spec.Gregorian Model.TimeDelta Model.DateTime Model.C17
  Proofs.HoldsLib Proofs.C17Ops.
From V Require Model.Date Model.Time.
From V Require Gen.DateTimeConsts Proofs.C06 Proofs.C08Days Proofs.C03 Proofs.C03Holds Proofs.C03HoldsAr Proofs.C17 Proofs.C17Links Judge.C17.
Import ListNotations.
Open Scope Z_scope.
Ltac Zify.zify_post_hook ::= Z.to_euclidean_division_equations.
Module J := V.Judge.C17.
Module A3 := V.Proofs.C03HoldsAr.

Notation nvalid := V.Proofs.C03.nvalid.
Notation inst := V.Proofs.C03.inst.
Notation zgood_at := V.Proofs.C17Links.zgood_at.
Notation zwall := V.Proofs.C17Links.zwall.

Definition HOLDS (s : string) (args : list val) : Prop :=
  J.judge (bytes_of_string s) args (run (bytes_of_string s) args) <> JSkip ->
  J.judge (bytes_of_string s) args (run (bytes_of_string s) args) = JOk.

(** * 1. argument bridges: what the judge reads is what the model decodes *)
Lemma ndt_of_inv yv ov sv fv dn sod frac : J.ndt_of yv ov sv fv = Some (dn, sod, frac) ->
  exists y o, yv = VInt y /\ ov = VInt o /\ sv = VInt sod /\ fv = VInt frac /\
    year_in_range y = true /\ valid_yo y o = true /\ 0 <= sod < 86400 /\ 0 <= frac < 2000000000 /\ dn = dn_of_yo y o.
Proof.
  unfold J.ndt_of. destruct yv as [y| | | | | | | |]; try discriminate. destruct ov as [o| | | | | | | |]; try discriminate.
  destruct sv as [s| | | | | | | |]; try discriminate. destruct fv as [f| | | | | | | |]; try discriminate.
  unfold J.valid_date, J.G.
  destruct (year_in_range y && valid_yo y o && (0 <=? s) && (s <? 86400) && (0 <=? f) && (f <? 2 * 1000000000)) eqn:E; [|discriminate].
  intros [= <- <- <-]. do 4 (apply andb_prop in E; destruct E as [E ?]). apply andb_prop in E. destruct E as [Hy Ho].
  exists y, o. repeat split; auto; lia.
Qed.
Lemma dec_ndt_any y o s f : year_in_range y = true -> valid_yo y o = true -> 0 <= s < 86400 -> 0 <= f < 2000000000 ->
  exists a, dec_ndt (VTup [VInt y; VInt o; VInt s; VInt f]) = Some a /\ ndt_ok a /\
    dnum (nd_date a) = dn_of_yo y o /\ nd_time a = Time.mk_time s f.
Proof.
  intros Hy Ho Hs Hf. destruct (V.Proofs.C03Holds.dec_date_ok y o Hy Ho) as (x & Hx & Vx & Dx & _).
  exists (mk_ndt x (Time.mk_time s f)). split; [|split; [|split]].
  - unfold dec_ndt. change (VTup [VInt y; VInt o]) with (V.Proofs.C03Holds.vd y o). rewrite Hx. unfold Time.dec_time.
    replace ((0 <=? s) && (s <? 86400) && (0 <=? f) && (f <? 2000000000)) with true by lia. reflexivity.
  - split; [exact Vx|]. unfold P17.time_ok. cbn [nd_time Time.tsecs Time.tfrac]. lia.
  - exact Dx.
  - reflexivity.
Qed.
Lemma ndt_ok_nvalid a : ndt_ok a -> Time.tfrac (nd_time a) < 1000000000 -> nvalid a.
Proof. intros [Hd [Hs Hf]] Hl. split; [exact Hd|]. unfold P3.tvalid, V.Proofs.C06.G. lia. Qed.
Lemma inst_of_view a dn s f : dnum (nd_date a) = dn -> nd_time a = Time.mk_time s f -> inst a = unix_nanos dn s f.
Proof. intros <- E. unfold P3.inst. rewrite E. reflexivity. Qed.

Lemma span_bridge v k : J.span_of v = Some k -> exists d, dec_td v = Some d /\ valid d /\ ns d = k.
Proof.
  unfold J.span_of, J.G, J.TD_RMAX.
  destruct v as [| | | |l| | | |]; try discriminate.
  destruct l as [|[s| | | | | | | |] l]; try discriminate.
  destruct l as [|[n| | | | | | | |] l]; try discriminate.
  destruct l; try discriminate.
  cbv zeta. match goal with |- context [if ?c then _ else _] => destruct c eqn:E end; [|discriminate].
  intros [= <-].
  assert (Hs : in_i64 s = true) by in_solve. assert (Hn : in_u32 n = true) by in_solve.
  unfold dec_td. rewrite Hs, Hn. cbn [andb]. pose proof (V.Proofs.C06.td_new_spec s n Hs Hn) as T.
  destruct (td_new s n) as [d|].
  - destruct T as (E1 & E2 & V). exists d. split; [reflexivity|]. split; [exact V|].
    unfold V.Proofs.C06.ns, V.Proofs.C06.G. rewrite E1, E2. reflexivity.
  - exfalso. apply T. unfold V.Proofs.C06.in_rng, V.Proofs.C06.G, V.Proofs.C06.RMIN, V.Proofs.C06.RMAX. lia.
Qed.
Lemma offset_bridge v off : J.offset_of v = Some off -> v = VInt off /\ east_opt off = Some off /\ L17.off_ok off.
Proof.
  unfold J.offset_of. destruct v as [z| | | | | | | |]; try discriminate.
  destruct ((-86400 <? z) && (z <? 86400)) eqn:E; [|discriminate]. intros [= <-].
  split; [reflexivity|]. split; [|unfold L17.off_ok; lia].
  unfold east_opt, V.Gen.DateTimeConsts.FO_EAST_LO, V.Gen.DateTimeConsts.FO_EAST_HI. rewrite E. reflexivity.
Qed.

(** * 2. the span operations *)
Lemma err_dur : enc_rerr DurationExceedsLimit = J.E_DUR. Proof. reflexivity. Qed.
Lemma err_ts : enc_rerr TimestampExceedsLimit = J.E_TS. Proof. reflexivity. Qed.

(* what [helper_post] says is what [judge_span] checks *)
Lemma span_post_holds {T} (stampT : T -> Z) (goodT : T -> Prop) (encT : T -> val) (f : Z -> Z -> Z)
      (x : T) (k : Z) (o : T + rerr) (enc : Z -> option val) :
  P17.helper_post T stampT goodT f x k o ->
  (forall r, goodT r -> stampT r = f (stampT x) k -> match enc (f (stampT x) k) with Some e => e = encT r | None => True end) ->
  J.judge_span f (stampT x) k enc (enc_res encT o) <> JSkip ->
  J.judge_span f (stampT x) k enc (enc_res encT o) = JOk.
Proof.
  intros P Henc. unfold J.judge_span. unfold P17.helper_post in P.
  change ((k <=? 0) || (i64_max <? k)) with (P17.span_bad k).
  destruct (P17.span_bad k) eqn:Eb.
  - subst o. cbn [enc_res]. rewrite err_dur. destruct (negb (in_i64 (stampT x))); cbn [andb]; intros _.
    + rewrite hl_val_eqb_refl. reflexivity.
    + apply hl_judge_eq_refl.
  - cbn [andb]. destruct (in_i64 (stampT x)) eqn:Ei; cbn [negb] in *.
    + destruct P as (r & -> & Hg & Hs & _). cbn [enc_res]. specialize (Henc r Hg Hs).
      destruct (enc (f (stampT x) k)) as [e|]; [|congruence]. intros _. subst e. apply hl_judge_eq_refl.
    + subst o. cbn [enc_res]. rewrite err_ts. intros _. apply hl_judge_eq_refl.
Qed.

Lemma representable_nvalid r : nvalid r -> J.representable (inst r) = true.
Proof. intros H. pose proof (P3.nvalid_inst_range r H). unfold J.representable. lia. Qed.

Ltac skip_shapes :=
  repeat match goal with |- context [match ?x with _ => _ end] => is_var x; destruct x; try congruence end.
Lemma naive_shape f args out : J.judge_naive f args out <> JSkip ->
  exists yv ov sv fv dv, args = [VTup [yv; ov; sv; fv]; dv].
Proof. unfold J.judge_naive. skip_shapes. intros _. repeat eexists. Qed.
Lemma zoned_shape f args out : J.judge_zoned f args out <> JSkip ->
  exists yv ov sv fv offv dv, args = [VTup [yv; ov; sv; fv; offv]; dv].
Proof. unfold J.judge_zoned. skip_shapes. intros _. repeat eexists. Qed.

Lemma naive_holds m args :
  J.judge_naive (P17.spec_of m) args (sh_n_td (P17.ndt_op m) args) <> JSkip ->
  J.judge_naive (P17.spec_of m) args (sh_n_td (P17.ndt_op m) args) = JOk.
Proof.
  intros H0. destruct (naive_shape _ _ _ H0) as (yv & ov & sv & fv & dv & ->). revert H0. unfold J.judge_naive.
  destruct (J.ndt_of yv ov sv fv) as [[[dn sod] frac]|] eqn:E1; [|congruence].
  destruct (J.span_of dv) as [k|] eqn:E2; [|congruence].
  destruct (J.G <=? frac) eqn:EL; [congruence|]. unfold J.G in EL.
  destruct (ndt_of_inv _ _ _ _ _ _ _ E1) as (y & o & -> & -> & -> & -> & Hy & Ho & Hs & Hf & ->).
  destruct (dec_ndt_any y o sod frac Hy Ho Hs Hf) as (a & Ha & Hok & Hdn & Htm).
  destruct (span_bridge dv k E2) as (d & Hd & Hv & Hns).
  assert (Hnv : nvalid a) by (apply ndt_ok_nvalid; [exact Hok|rewrite Htm; cbn [Time.tfrac]; lia]).
  pose proof (inst_of_view a _ _ _ Hdn Htm) as Hi.
  unfold sh_n_td. rewrite Ha, Hd.
  destruct (P17.ndt_spec_all inst nvalid L17.ndt_links_hold m a d Hnv Hv) as (o' & Eo & P). rewrite Eo. cbn [val_of_R].
  rewrite Hns in P. rewrite <- Hi.
  apply (span_post_holds inst nvalid enc_ndt (P17.spec_of m) a k o' _ P).
  intros r Hr Hsr. rewrite <- Hsr. rewrite (representable_nvalid r Hr). exact (eq_sym (A3.enc_ndt_inst r Hr)).
Qed.

(* zone-aware, offset fixed: the links hold for [zgood_at off], so the result keeps the offset *)
Lemma dz_links_at off : L17.off_ok off -> P17.dz_links zwall (zgood_at off).
Proof.
  intros Ho. split; [|split].
  - intros z Hz. exact (L17.zlocal_ts z (L17.zgood_at_good off z Ho Hz)).
  - intros z d Hz Hd Hw. pose proof Hz as [Hu Hoff]. pose proof (L17.zgood_at_good off z Ho Hz) as Hg.
    destruct (L17.zadd_exact_range z d Hg Hd) as (r & E & G1 & G2).
    { unfold L17.zwall, L17.off_ok in *. rewrite Hoff in *. unfold L17.GN, P17.W_LO, P17.W_HI, NS_MIN, NS_MAX in *. lia. }
    exists r. rewrite Hoff in G1. auto.
  - intros z d Hz Hd Hw. pose proof Hz as [Hu Hoff]. pose proof (L17.zgood_at_good off z Ho Hz) as Hg.
    destruct (L17.zsub_exact_range z d Hg Hd) as (r & E & G1 & G2).
    { unfold L17.zwall, L17.off_ok in *. rewrite Hoff in *. unfold L17.GN, P17.W_LO, P17.W_HI, NS_MIN, NS_MAX in *. lia. }
    exists r. rewrite Hoff in G1. auto.
Qed.

Lemma zoned_holds m args :
  J.judge_zoned (P17.spec_of m) args (sh_z_td (P17.dz_op m) args) <> JSkip ->
  J.judge_zoned (P17.spec_of m) args (sh_z_td (P17.dz_op m) args) = JOk.
Proof.
  intros H0. destruct (zoned_shape _ _ _ H0) as (yv & ov & sv & fv & offv & dv & ->). revert H0. unfold J.judge_zoned.
  destruct (J.ndt_of yv ov sv fv) as [[[dn sod] frac]|] eqn:E1; [|congruence].
  destruct (J.offset_of offv) as [off|] eqn:E3; [|congruence].
  destruct (J.span_of dv) as [k|] eqn:E2; [|congruence].
  destruct (J.G <=? frac) eqn:EL; [congruence|]. unfold J.G in EL.
  destruct (ndt_of_inv _ _ _ _ _ _ _ E1) as (y & o & -> & -> & -> & -> & Hy & Ho & Hs & Hf & ->).
  destruct (offset_bridge offv off E3) as (-> & Heast & Hoff).
  destruct (dec_ndt_any y o sod frac Hy Ho Hs Hf) as (a & Ha & Hok & Hdn & Htm).
  destruct (span_bridge dv k E2) as (d & Hd & Hv & Hns).
  assert (Hnv : nvalid a) by (apply ndt_ok_nvalid; [exact Hok|rewrite Htm; cbn [Time.tfrac]; lia]).
  pose proof (inst_of_view a _ _ _ Hdn Htm) as Hi.
  unfold sh_z_td, dec_dtz. rewrite Ha, Heast, Hd.
  set (z := mk_dtz a off). assert (Hz : zgood_at off z) by (split; [exact Hnv|reflexivity]).
  destruct (P17.dz_spec_all zwall (zgood_at off) (dz_links_at off Hoff) m z d Hz Hv) as (o' & Eo & P). rewrite Eo. cbn [val_of_R].
  rewrite Hns in P.
  replace (unix_nanos (dn_of_yo y o) sod frac + off * J.G) with (zwall z)
    by (unfold L17.zwall, z, L17.GN, J.G; cbn [dz_utc dz_off]; rewrite Hi; reflexivity).
  apply (span_post_holds zwall (zgood_at off) enc_dtz (P17.spec_of m) z k o' _ P).
  intros r [Hr Hro] Hsr. rewrite <- Hsr.
  replace (zwall r - off * J.G) with (inst (dz_utc r)) by (unfold L17.zwall, L17.GN, J.G; rewrite Hro; lia).
  rewrite (representable_nvalid _ Hr). destruct r as [u ro]. cbn [dz_utc dz_off] in *. subst ro.
  exact (eq_sym (A3.enc_dtz_inst u off Hr)).
Qed.

Lemma holds_trunc args : HOLDS "rd.trunc" args. Proof. exact (naive_holds P17.MTrunc args). Qed.
Lemma holds_round args : HOLDS "rd.round" args. Proof. exact (naive_holds P17.MRound args). Qed.
Lemma holds_up args : HOLDS "rd.up" args. Proof. exact (naive_holds P17.MUp args). Qed.
Lemma holds_ztrunc args : HOLDS "rd.ztrunc" args. Proof. exact (zoned_holds P17.MTrunc args). Qed.
Lemma holds_zround args : HOLDS "rd.zround" args. Proof. exact (zoned_holds P17.MRound args). Qed.
Lemma holds_zup args : HOLDS "rd.zup" args. Proof. exact (zoned_holds P17.MUp args). Qed.

(** * 3. the sub-second operations *)
(* the judge's local definitions, named ([judge_sub_unfold] below: the judge IS this) *)
Definition jgo (round : bool) (digits dn sod field : Z) (enc : Z -> Z -> Z -> option val) (out : val) : verdict :=
  let leap := J.G <=? field in
  let f := if leap then field - J.G else field in
  let '(f', carry) := J.sub_frac round digits f in
  let e := if carry then enc dn (sod + 1) 0 else enc dn sod (if leap then f' + J.G else f') in
  match e with Some e => judge_eq e out | None => JSkip end.
Definition jdate_fields (dn sod : Z) : option (list val) :=
  let '(dn, sod) := if sod =? 86400 then (dn + 1, 0) else (dn, sod) in
  if dn_in_range dn then let '(y, o) := yo_of_dn dn in Some [VInt y; VInt o; VInt sod] else None.
Definition enc1 (_ sod f : Z) : option val := Some (VTup [VInt (sod mod 86400); VInt f]).
Definition enc_tail (tail : list val) (dn sod f : Z) : option val :=
  match jdate_fields dn sod with Some l => Some (VTup (l ++ VInt f :: tail)) | None => None end.

Lemma judge_sub_unfold round kind v digits out :
  J.judge_sub round [VInt kind; v; VInt digits] out =
  if negb (in_u16 digits) then JSkip else
  if kind =? 1 then
    match v with
    | VTup [VInt s; VInt fr] =>
        if (0 <=? s) && (s <? 86400) && (0 <=? fr) && (fr <? 2 * J.G) then jgo round digits 0 s fr enc1 out else JSkip
    | _ => JSkip
    end
  else if kind =? 2 then
    match v with
    | VTup [y; o; s; fr] =>
        match J.ndt_of y o s fr with
        | Some (dn, sod, field) => jgo round digits dn sod field (enc_tail []) out
        | None => JSkip
        end
    | _ => JSkip
    end
  else if kind =? 3 then
    match v with
    | VTup [y; o; s; fr; off] =>
        match J.ndt_of y o s fr, J.offset_of off with
        | Some (dn, sod, field), Some off => jgo round digits dn sod field (enc_tail [VInt off]) out
        | _, _ => JSkip
        end
    | _ => JSkip
    end
  else JSkip.
Proof. reflexivity. Qed.

(* arithmetic of a span dividing one second *)
Lemma lo_step f sp : 0 < sp -> (sp | GG) -> 0 <= f < GG -> f - f mod sp + sp <= GG.
Proof.
  intros Hsp [c Hc] Hf. pose proof (Z.div_mod f sp ltac:(lia)) as Hdm.
  assert (Hq : f / sp < c) by (apply Z.div_lt_upper_bound; [lia|]; rewrite Z.mul_comm, <- Hc; lia).
  replace (f - f mod sp + sp) with (sp * (f / sp + 1)) by lia. rewrite Hc, Z.mul_comm.
  apply Z.mul_le_mono_nonneg_r; lia.
Qed.
Lemma leap_mod f sp : 0 < sp -> (sp | GG) -> (f + GG) mod sp = f mod sp.
Proof. intros Hsp [c Hc]. rewrite Hc. apply Z.mod_add. lia. Qed.

(* one carrier value: the nanosecond reader, the identity, a step within the second (up / down) and
   a step into the next second, each with the encoding the judge expects *)
Lemma sub_holds_core {T} (ops : tl T) (encT : T -> val) (enc : Z -> Z -> Z -> option val) (x : T)
      (dn sod field f base : Z) (inj : Z -> Z) (round : bool) digits :
  0 <= digits -> field = base + f -> 0 <= f < GG -> 0 <= base <= GG -> lim_of field = base + GG ->
  (forall f', inj f' = base + f') ->
  tl_nanosecond ops x = Val field ->
  enc dn sod field = Some (encT x) ->
  (forall n, 0 < n < GG -> field + n < lim_of field ->
     exists r, tl_add ops x (mk_td 0 n) = Val r /\ enc dn sod (field + n) = Some (encT r)) ->
  (forall n, 0 < n < GG -> n <= f ->
     exists r, tl_sub ops x (mk_td 0 n) = Val r /\ enc dn sod (field - n) = Some (encT r)) ->
  (forall n, 0 < n < GG -> field + n = lim_of field ->
     match enc dn (sod + 1) 0 with Some e => val_of_R encT (tl_add ops x (mk_td 0 n)) = e | None => True end) ->
  let out := val_of_R encT (if round then round_subsecs ops x digits else trunc_subsecs ops x digits) in
  let v := (let '(f', carry) := J.sub_frac round digits f in
            match (if carry then enc dn (sod + 1) 0 else enc dn sod (inj f')) with
            | Some e => judge_eq e out | None => JSkip end) in
  v <> JSkip -> v = JOk.
Proof.
  intros Hd Hfield Hf Hbase Hlim Hinj Hn Hid Hadd Hsub Hcarry out v. subst v out.
  pose proof (sub_span_bounds digits Hd) as Hb. destruct (P17.sub_span_divides digits Hd) as [_ Hdiv].
  change P17.GG with GG in Hdiv.
  assert (Hu : 0 <= field <= u32_max) by (unfold u32_max, GG in *; lia).
  assert (Hmod : field mod sub_span digits = f mod sub_span digits).
  { rewrite Hfield. destruct (Z.eq_dec base 0) as [->|Hb0]; [reflexivity|].
    assert (base = GG) by (unfold lim_of in Hlim; destruct (GG <=? field); unfold GG in *; lia). subst base.
    rewrite Z.add_comm. apply leap_mod; [lia|exact Hdiv]. }
  pose proof (lo_step f (sub_span digits) ltac:(lia) Hdiv Hf) as Hlo.
  pose proof (Z.mod_pos_bound f (sub_span digits) ltac:(lia)) as Hm.
  pose proof (Z.mod_le f (sub_span digits) ltac:(lia) ltac:(lia)) as Hdf.
  unfold J.sub_frac.
  rewrite (round_subsecs_unfold ops x digits field Hd Hn Hu), (trunc_subsecs_unfold ops x digits field Hd Hn Hu).
  rewrite Hmod. change J.G with GG.
  set (sp := sub_span digits) in *. set (d := f mod sp) in *. clearbody d. clearbody sp.
  assert (Hsame : enc dn sod (inj (f - d)) = enc dn sod (field - d)) by (rewrite Hinj; f_equal; lia).
  destruct (d =? 0) eqn:E0.
  - (* already on a multiple *)
    replace (d >? 0) with false by lia. rewrite andb_false_r. cbn [negb andb].
    replace (if round then Val x else Val x) with (Val x) by (destruct round; reflexivity). cbn [val_of_R].
    rewrite Hsame. replace (field - d) with field by lia. rewrite Hid. intros _. apply hl_judge_eq_refl.
  - replace (d >? 0) with true by lia. cbn [negb]. rewrite andb_true_r.
    destruct round; cbn [andb].
    + destruct (sp - d <=? d) eqn:E2.
      * destruct (f - d + sp =? GG) eqn:E3.
        -- specialize (Hcarry (sp - d) ltac:(unfold GG in *; lia) ltac:(lia)).
           destruct (enc dn (sod + 1) 0) as [e|]; [|congruence]. intros _. rewrite Hcarry. apply hl_judge_eq_refl.
        -- destruct (Hadd (sp - d) ltac:(unfold GG in *; lia) ltac:(lia)) as (r & Er & Ee). rewrite Er. cbn [val_of_R].
           replace (inj (f - d + sp)) with (field + (sp - d)) by (rewrite Hinj; lia). rewrite Ee. intros _. apply hl_judge_eq_refl.
      * destruct (Hsub d ltac:(unfold GG in *; lia) ltac:(lia)) as (r & Er & Ee). rewrite Er. cbn [val_of_R].
        rewrite Hsame, Ee. intros _. apply hl_judge_eq_refl.
    + destruct (Hsub d ltac:(unfold GG in *; lia) ltac:(lia)) as (r & Er & Ee). rewrite Er. cbn [val_of_R].
      rewrite Hsame, Ee. intros _. apply hl_judge_eq_refl.
Qed.

Lemma sub_holds_generic {T} (ops : tl T) (encT : T -> val) (enc : Z -> Z -> Z -> option val) (x : T)
      (dn sod field : Z) (round : bool) digits :
  0 <= digits -> 0 <= field < 2 * GG ->
  tl_nanosecond ops x = Val field ->
  enc dn sod field = Some (encT x) ->
  (forall n, 0 < n < GG -> field + n < lim_of field ->
     exists r, tl_add ops x (mk_td 0 n) = Val r /\ enc dn sod (field + n) = Some (encT r)) ->
  (forall n, 0 < n < GG -> n <= field mod GG ->
     exists r, tl_sub ops x (mk_td 0 n) = Val r /\ enc dn sod (field - n) = Some (encT r)) ->
  (forall n, 0 < n < GG -> field + n = lim_of field ->
     match enc dn (sod + 1) 0 with Some e => val_of_R encT (tl_add ops x (mk_td 0 n)) = e | None => True end) ->
  let out := val_of_R encT (if round then round_subsecs ops x digits else trunc_subsecs ops x digits) in
  jgo round digits dn sod field enc out <> JSkip -> jgo round digits dn sod field enc out = JOk.
Proof.
  intros Hd Hf Hn Hid Hadd Hsub Hcarry out. unfold jgo. change J.G with GG.
  destruct (GG <=? field) eqn:EL.
  - apply (sub_holds_core ops encT enc x dn sod field (field - GG) GG (fun f' => f' + GG) round digits); auto;
      try (unfold lim_of; rewrite EL); try (unfold GG in *; lia).
    all: try (intros f'; lia).
    all: intros n H1 H2; apply Hsub; [exact H1|]; unfold GG in *; lia.
  - apply (sub_holds_core ops encT enc x dn sod field field 0 (fun f' => f') round digits); auto;
      try (unfold lim_of; rewrite EL); try (unfold GG in *; lia).
    all: try (intros f'; lia).
    all: intros n H1 H2; apply Hsub; [exact H1|]; unfold GG in *; lia.
Qed.

(** ** the three carriers *)
(* NaiveTime: [time_expected] (Proofs/C17.v) is what the judge expects *)
Lemma time_jgo round digits s fr : 0 <= s < 86400 ->
  jgo round digits 0 s fr enc1 (Time.enc_time (P17.time_expected round digits (Time.mk_time s fr))) = JOk.
Proof.
  intros Hs. unfold jgo, P17.time_expected. cbn [Time.tsecs Time.tfrac]. change P17.GG with J.G.
  destruct (J.sub_frac round digits (if J.G <=? fr then fr - J.G else fr)) as [f' [|]]; unfold enc1, Time.enc_time;
    cbn [Time.tsecs Time.tfrac]; apply hl_judge_eq_of; [reflexivity|].
  rewrite (Z.mod_small s 86400) by lia. reflexivity.
Qed.

(* date-time fields with a tail (nothing for NaiveDateTime, the offset for DateTime<FixedOffset>) *)
Definition enc_b (tail : list val) (b : ndt) : val :=
  VTup ([VInt (Date.d_year (nd_date b)); VInt (Date.d_ordinal (nd_date b)); VInt (Time.tsecs (nd_time b))]
        ++ VInt (Time.tfrac (nd_time b)) :: tail).

Lemma jdate_fields_ok b dn sod : vdate (nd_date b) ->
  (if sod =? 86400 then dnum (nd_date b) = dn + 1 /\ Time.tsecs (nd_time b) = 0
   else dnum (nd_date b) = dn /\ Time.tsecs (nd_time b) = sod) ->
  jdate_fields dn sod =
    Some [VInt (Date.d_year (nd_date b)); VInt (Date.d_ordinal (nd_date b)); VInt (Time.tsecs (nd_time b))].
Proof.
  intros Hd H. pose proof (P3.vdate_range _ Hd) as Rg. destruct Hd as (_ & Ho & _).
  unfold jdate_fields. destruct (sod =? 86400); destruct H as [H1 H2]; rewrite <- H1, H2;
    (replace (dn_in_range (dnum (nd_date b))) with true by (unfold dn_in_range; lia));
    unfold P3.dn; rewrite V.Proofs.C08Days.yo_of_dn_of_yo by exact Ho; reflexivity.
Qed.
Lemma enc_tail_ok tail b dn sod f : vdate (nd_date b) ->
  (if sod =? 86400 then dnum (nd_date b) = dn + 1 /\ Time.tsecs (nd_time b) = 0
   else dnum (nd_date b) = dn /\ Time.tsecs (nd_time b) = sod) ->
  Time.tfrac (nd_time b) = f -> enc_tail tail dn sod f = Some (enc_b tail b).
Proof.
  intros Hd H Hf. unfold enc_tail. rewrite (jdate_fields_ok b dn sod Hd H). unfold enc_b. rewrite Hf. reflexivity.
Qed.

Lemma ndt_steps tail a dn s fr : ndt_ok a -> dnum (nd_date a) = dn -> nd_time a = Time.mk_time s fr ->
  enc_tail tail dn s fr = Some (enc_b tail a) /\
  (forall n, 0 < n < GG -> fr + n < lim_of fr ->
     exists b, ndt_checked_add_signed a (mk_td 0 n) = Val (Some b) /\ enc_tail tail dn s (fr + n) = Some (enc_b tail b)) /\
  (forall n, 0 < n < GG -> n <= fr mod GG ->
     exists b, ndt_checked_sub_signed a (mk_td 0 n) = Val (Some b) /\ enc_tail tail dn s (fr - n) = Some (enc_b tail b)) /\
  (forall n, 0 < n < GG -> fr + n = lim_of fr ->
     exists r, ndt_checked_add_signed a (mk_td 0 n) = Val r /\
       match r with
       | Some b => enc_tail tail dn (s + 1) 0 = Some (enc_b tail b)
       | None => enc_tail tail dn (s + 1) 0 = None
       end).
Proof.
  intros Hok Hdn Htm. pose proof Hok as [Hd [Hs Hf]]. rewrite Htm in Hs, Hf. cbn [Time.tsecs Time.tfrac] in Hs, Hf.
  pose proof (P3.vdate_range _ Hd) as Rg. rewrite Hdn in Rg.
  split; [|split; [|split]].
  - apply enc_tail_ok; [exact Hd| |rewrite Htm; reflexivity].
    replace (s =? 86400) with false by lia. rewrite Htm. split; [exact Hdn|reflexivity].
  - intros n Hn Hlt. destruct (ndt_add_small a n Hok Hn) as (r & E & R). cbv zeta in R. rewrite Htm in R.
    cbn [Time.tsecs Time.tfrac] in R. set (L := lim_of fr) in *.
    replace (L <=? fr + n) with false in R by lia. cbn [andb] in R. rewrite Hdn in R.
    destruct r as [b|].
    + destruct R as (R1 & R2 & R3). exists b. split; [exact E|].
      apply enc_tail_ok; [exact R2| |rewrite R1; reflexivity].
      replace (s =? 86400) with false by lia. rewrite R1. cbn [Time.tsecs]. split; [lia|reflexivity].
    + exfalso. unfold dn_in_range in R. lia.
  - intros n Hn Hle. destruct (ndt_sub_small a n Hok Hn) as (b & E & R1 & R2 & R3).
    { rewrite Htm. exact Hle. }
    rewrite Htm in R1. cbn [Time.tsecs Time.tfrac] in R1. exists b. split; [exact E|].
    apply enc_tail_ok; [exact R2| |rewrite R1; reflexivity].
    replace (s =? 86400) with false by lia. rewrite R1. cbn [Time.tsecs]. split; [lia|reflexivity].
  - intros n Hn Heq. destruct (ndt_add_small a n Hok Hn) as (r & E & R). cbv zeta in R. rewrite Htm in R.
    cbn [Time.tsecs Time.tfrac] in R. set (L := lim_of fr) in *.
    replace (L <=? fr + n) with true in R by lia. cbn [andb] in R. rewrite Hdn in R.
    exists r. split; [exact E|]. destruct (s + 1 =? 86400) eqn:E86.
    + destruct r as [b|].
      * destruct R as (R1 & R2 & R3). apply enc_tail_ok; [exact R2| |rewrite R1; cbn [Time.tfrac]; lia].
        rewrite E86, R1. cbn [Time.tsecs]. split; [lia|]. replace (s + 1) with 86400 by lia. reflexivity.
      * unfold enc_tail, jdate_fields. rewrite E86, R. reflexivity.
    + destruct r as [b|].
      * destruct R as (R1 & R2 & R3). apply enc_tail_ok; [exact R2| |rewrite R1; cbn [Time.tfrac]; lia].
        rewrite E86, R1. cbn [Time.tsecs]. split; [lia|apply Z.mod_small; lia].
      * exfalso. unfold dn_in_range in R. lia.
Qed.

Lemma holds_sub_ndt (round : bool) digits a dn s fr : 0 <= digits -> ndt_ok a -> dnum (nd_date a) = dn -> nd_time a = Time.mk_time s fr ->
  let out := val_of_R enc_ndt (if round then round_subsecs ndt_ops a digits else trunc_subsecs ndt_ops a digits) in
  jgo round digits dn s fr (enc_tail []) out <> JSkip -> jgo round digits dn s fr (enc_tail []) out = JOk.
Proof.
  intros Hd Hok Hdn Htm. destruct (ndt_steps [] a dn s fr Hok Hdn Htm) as (S1 & S2 & S3 & S4).
  pose proof Hok as [_ [_ Hf]]. rewrite Htm in Hf. cbn [Time.tfrac] in Hf.
  apply (sub_holds_generic ndt_ops enc_ndt (enc_tail []) a dn s fr round digits Hd).
  - unfold GG. lia.
  - cbn [tl_nanosecond ndt_ops]. unfold Time.nanosecond. rewrite Htm. reflexivity.
  - exact S1.
  - intros n H1 H2. destruct (S2 n H1 H2) as (b & E & Ee). exists b. split; [|exact Ee].
    cbn [tl_add ndt_ops]. unfold ndt_op_add, unwrap_r. rewrite E. reflexivity.
  - intros n H1 H2. destruct (S3 n H1 H2) as (b & E & Ee). exists b. split; [|exact Ee].
    cbn [tl_sub ndt_ops]. unfold ndt_op_sub, unwrap_r. rewrite E. reflexivity.
  - intros n H1 H2. destruct (S4 n H1 H2) as (r & E & Ee).
    cbn [tl_add ndt_ops]. unfold ndt_op_add, unwrap_r. rewrite E. destruct r as [b|]; rewrite Ee; [reflexivity|exact I].
Qed.

Lemma holds_sub_dtz (round : bool) digits a off dn s fr : 0 <= digits -> ndt_ok a -> L17.off_ok off ->
  dnum (nd_date a) = dn -> nd_time a = Time.mk_time s fr ->
  let z := mk_dtz a off in
  let out := val_of_R enc_dtz (if round then round_subsecs dz_ops z digits else trunc_subsecs dz_ops z digits) in
  jgo round digits dn s fr (enc_tail [VInt off]) out <> JSkip -> jgo round digits dn s fr (enc_tail [VInt off]) out = JOk.
Proof.
  intros Hd Hok Hoff Hdn Htm z. destruct (ndt_steps [VInt off] a dn s fr Hok Hdn Htm) as (S1 & S2 & S3 & S4).
  pose proof Hok as [_ [_ Hf]]. rewrite Htm in Hf. cbn [Time.tfrac] in Hf.
  assert (Hz : dtz_ok z) by (split; assumption).
  apply (sub_holds_generic dz_ops enc_dtz (enc_tail [VInt off]) z dn s fr round digits Hd).
  - unfold GG. lia.
  - cbn [tl_nanosecond dz_ops]. rewrite (dz_nano_any z Hz). unfold z. cbn [dz_utc]. rewrite Htm. reflexivity.
  - exact S1.
  - intros n H1 H2. destruct (S2 n H1 H2) as (b & E & Ee). exists (mk_dtz b off). split; [|exact Ee].
    cbn [tl_add dz_ops]. unfold dz_op_add, unwrap_r, dz_checked_add_signed, obind. unfold z. cbn [dz_utc dz_off]. rewrite E. reflexivity.
  - intros n H1 H2. destruct (S3 n H1 H2) as (b & E & Ee). exists (mk_dtz b off). split; [|exact Ee].
    cbn [tl_sub dz_ops]. unfold dz_op_sub, unwrap_r, dz_checked_sub_signed, obind. unfold z. cbn [dz_utc dz_off]. rewrite E. reflexivity.
  - intros n H1 H2. destruct (S4 n H1 H2) as (r & E & Ee).
    cbn [tl_add dz_ops]. unfold dz_op_add, unwrap_r, dz_checked_add_signed, obind. unfold z. cbn [dz_utc dz_off]. rewrite E.
    destruct r as [b|]; rewrite Ee; [reflexivity|exact I].
Qed.

(** ** the two dispatcher ops, every kind, every digit count *)
Definition sub_fn (round : bool) : forall T, tl T -> T -> Z -> R T :=
  fun T => if round then @round_subsecs T else @trunc_subsecs T.
Lemma sub_op_holds round args :
  J.judge_sub round args (subsec_op (sub_fn round) args) <> JSkip ->
  J.judge_sub round args (subsec_op (sub_fn round) args) = JOk.
Proof.
  set (f := sub_fn round).
  destruct args as [|k [|v [|dg [|? ?]]]];
    try (unfold J.judge_sub; congruence);
    try (unfold J.judge_sub; destruct k; try congruence; destruct dg; congruence).
  destruct k as [kind| | | | | | | |]; try (unfold J.judge_sub; congruence).
  destruct dg as [digits| | | | | | | |]; try (unfold J.judge_sub; congruence).
  rewrite judge_sub_unfold. destruct (in_u16 digits) eqn:Eu; cbn [negb]; [|congruence].
  assert (Hd : 0 <= digits) by in_solve.
  destruct (subsec_dispatch f v digits Eu) as (D1 & D2 & D3 & _).
  destruct (kind =? 1) eqn:K1.
  { assert (kind = 1) by lia. subst kind. rewrite D1. clear D1 D2 D3.
    destruct v as [| | | |l| | | |]; try congruence.
    destruct l as [|[s| | | | | | | |] l]; try congruence.
    destruct l as [|[fr| | | | | | | |] l]; try congruence.
    destruct l; try congruence.
    destruct ((0 <=? s) && (s <? 86400) && (0 <=? fr) && (fr <? 2 * J.G)) eqn:E; [|congruence]. intros _. unfold J.G in E.
    unfold Time.dec_time. replace ((0 <=? s) && (s <? 86400) && (0 <=? fr) && (fr <? 2000000000)) with true by lia.
    assert (Hok : time_ok (Time.mk_time s fr)) by (unfold P17.time_ok; cbn [Time.tsecs Time.tfrac]; lia).
    subst f. destruct round; unfold sub_fn.
    - rewrite (P17.time_round_subsecs_spec _ digits Hok Hd). cbn [val_of_R]. apply time_jgo. lia.
    - rewrite (P17.time_trunc_subsecs_spec _ digits Hok Hd). cbn [val_of_R]. apply time_jgo. lia. }
  destruct (kind =? 2) eqn:K2.
  { assert (kind = 2) by lia. subst kind. rewrite D2. clear D1 D2 D3.
    destruct v as [| | | |l| | | |]; try congruence.
    destruct l as [|yv [|ov [|sv [|fv [|? ?]]]]]; try congruence.
    destruct (J.ndt_of yv ov sv fv) as [[[dn sod] field]|] eqn:E1; [|congruence].
    destruct (ndt_of_inv _ _ _ _ _ _ _ E1) as (y & o & -> & -> & -> & -> & Hy & Ho & Hs & Hf & ->).
    destruct (dec_ndt_any y o sod field Hy Ho Hs Hf) as (a & Ha & Hok & Hdn & Htm). rewrite Ha.
    subst f. destruct round; unfold sub_fn.
    - exact (holds_sub_ndt true digits a _ sod field Hd Hok Hdn Htm).
    - exact (holds_sub_ndt false digits a _ sod field Hd Hok Hdn Htm). }
  destruct (kind =? 3) eqn:K3; [|congruence].
  assert (kind = 3) by lia. subst kind. rewrite D3. clear D1 D2 D3.
  destruct v as [| | | |l| | | |]; try congruence.
  destruct l as [|yv [|ov [|sv [|fv [|offv [|? ?]]]]]]; try congruence.
  destruct (J.ndt_of yv ov sv fv) as [[[dn sod] field]|] eqn:E1; [|congruence].
  destruct (J.offset_of offv) as [off|] eqn:E3; [|congruence].
  destruct (ndt_of_inv _ _ _ _ _ _ _ E1) as (y & o & -> & -> & -> & -> & Hy & Ho & Hs & Hf & ->).
  destruct (offset_bridge offv off E3) as (-> & Heast & Hoff).
  destruct (dec_ndt_any y o sod field Hy Ho Hs Hf) as (a & Ha & Hok & Hdn & Htm).
  unfold dec_dtz. rewrite Ha, Heast.
  subst f. destruct round; unfold sub_fn.
  - exact (holds_sub_dtz true digits a off _ sod field Hd Hok Hoff Hdn Htm).
  - exact (holds_sub_dtz false digits a off _ sod field Hd Hok Hoff Hdn Htm).
Qed.
Lemma holds_rsub args : HOLDS "rd.rsub" args. Proof. exact (sub_op_holds true args). Qed.
Lemma holds_tsub args : HOLDS "rd.tsub" args. Proof. exact (sub_op_holds false args). Qed.

(** * 4. top level *)
Ltac op_case_at o s lem :=
  destruct (op_is o s) eqn:?;
  [match goal with H : op_is o s = true |- _ => apply hl_op_is_eq in H; subst; apply lem end|].
Tactic Notation "op_case" constr(s) constr(lem) :=
  match goal with o : bytes |- _ => op_case_at o s lem end.

Theorem C17_holds op args :
  J.judge op args (run op args) <> JSkip -> J.judge op args (run op args) = JOk.
Proof.
  op_case "rd.trunc"%string holds_trunc. op_case "rd.round"%string holds_round. op_case "rd.up"%string holds_up.
  op_case "rd.ztrunc"%string holds_ztrunc. op_case "rd.zround"%string holds_zround. op_case "rd.zup"%string holds_zup.
  op_case "rd.rsub"%string holds_rsub. op_case "rd.tsub"%string holds_tsub.
  intros H. exfalso. apply H. unfold J.judge.
  repeat match goal with E : op_is _ _ = false |- _ => rewrite E; clear E end. reflexivity.
Qed.
Corollary C17_never_bad op args : not_bad (J.judge op args (run op args)).
Proof. apply hl_never_bad. apply C17_holds. Qed.

(** * 5. nine or more digits at the level of the dispatcher ops: the argument comes back unchanged *)
Lemma dec_ndt_ok v a : dec_ndt v = Some a -> ndt_ok a /\ enc_ndt a = v.
Proof.
  unfold dec_ndt. destruct v as [| | | |l| | | |]; try discriminate.
  destruct l as [|y [|o [|s [|f [|? ?]]]]]; try discriminate.
  destruct (dec_date (VTup [y; o])) as [d|] eqn:Ed; [|discriminate].
  destruct (Time.dec_time (VTup [s; f])) as [t|] eqn:Et; [|discriminate]. intros [= <-].
  destruct y as [y| | | | | | | |]; try discriminate Ed. destruct o as [o| | | | | | | |]; try discriminate Ed.
  destruct (dec_date_some _ _ _ Ed) as (V & Ey & Eo). destruct (dec_time_ok _ _ Et) as (Ht & Ee).
  split; [split; assumption|]. unfold enc_ndt. cbn [nd_date nd_time]. rewrite Ey, Eo.
  unfold Time.enc_time in Ee. injection Ee as <- <-. reflexivity.
Qed.
Lemma dec_dtz_ok v z : dec_dtz v = Some z -> dtz_ok z /\ enc_dtz z = v.
Proof.
  unfold dec_dtz. destruct v as [| | | |l| | | |]; try discriminate.
  destruct l as [|y [|o [|s [|f [|offv [|? ?]]]]]]; try discriminate; try (destruct offv; discriminate).
  destruct offv as [off| | | | | | | |]; try discriminate.
  destruct (dec_ndt (VTup [y; o; s; f])) as [u|] eqn:Eu; [|discriminate].
  destruct (east_opt off) as [e|] eqn:Ee; [|discriminate]. intros [= <-].
  destruct (dec_ndt_ok _ _ Eu) as (Hu & Hen).
  split.
  - split; [exact Hu|]. cbn [dz_off]. unfold east_opt, V.Gen.DateTimeConsts.FO_EAST_LO, V.Gen.DateTimeConsts.FO_EAST_HI in Ee.
    destruct ((-86400 <? off) && (off <? 86400)) eqn:E; [|discriminate]. unfold L17.off_ok. lia.
  - unfold enc_dtz. cbn [dz_utc dz_off]. unfold enc_ndt in Hen. injection Hen as <- <- <- <-. reflexivity.
Qed.

Theorem subsecs_ge9_ops kind v digits : in_u16 digits = true -> 9 <= digits ->
  kind = 1 \/ kind = 2 \/ kind = 3 ->
  run (B"rd.rsub") [VInt kind; v; VInt digits] <> VBad ->
  run (B"rd.rsub") [VInt kind; v; VInt digits] = v /\ run (B"rd.tsub") [VInt kind; v; VInt digits] = v.
Proof.
  intros Hu Hd Hk.
  change (run (B"rd.rsub") [VInt kind; v; VInt digits]) with (subsec_op (@round_subsecs) [VInt kind; v; VInt digits]).
  change (run (B"rd.tsub") [VInt kind; v; VInt digits]) with (subsec_op (@trunc_subsecs) [VInt kind; v; VInt digits]).
  destruct (subsec_dispatch (@round_subsecs) v digits Hu) as (R1 & R2 & R3 & _).
  destruct (subsec_dispatch (@trunc_subsecs) v digits Hu) as (T1 & T2 & T3 & _).
  destruct (subsecs_ge9_unchanged_all_kinds digits Hd) as (G1 & G2 & G3).
  destruct Hk as [->|[->| ->]].
  - rewrite R1, T1. destruct (Time.dec_time v) as [t|] eqn:E; [|congruence]. intros _.
    destruct (dec_time_ok v t E) as (Ht & Ee). destruct (G1 t Ht) as [-> ->]. cbn [val_of_R]. auto.
  - rewrite R2, T2. destruct (dec_ndt v) as [a|] eqn:E; [|congruence]. intros _.
    destruct (dec_ndt_ok v a E) as ([_ Ht] & Ee). destruct (G2 a Ht) as [-> ->]. cbn [val_of_R]. auto.
  - rewrite R3, T3. destruct (dec_dtz v) as [z|] eqn:E; [|congruence]. intros _.
    destruct (dec_dtz_ok v z E) as (Hz & Ee). destruct (G3 z Hz) as [-> ->]. cbn [val_of_R]. auto.
Qed.

(** the whole u16 range of digit counts in one statement: the span, the judge's acceptance of both
    ops for every kind and value, and the fixed point from 9 digits on *)
Theorem subsecs_whole_u16 digits : in_u16 digits = true ->
  span_for_digits digits = 10 ^ (9 - Z.min 9 digits) /\
  (forall round kind v,
     let args := [VInt kind; v; VInt digits] in
     J.judge_sub round args (subsec_op (sub_fn round) args) <> JSkip ->
     J.judge_sub round args (subsec_op (sub_fn round) args) = JOk) /\
  (9 <= digits -> forall kind v, kind = 1 \/ kind = 2 \/ kind = 3 ->
     run (B"rd.rsub") [VInt kind; v; VInt digits] <> VBad ->
     run (B"rd.rsub") [VInt kind; v; VInt digits] = v /\ run (B"rd.tsub") [VInt kind; v; VInt digits] = v).
Proof.
  intros Hu. split; [|split].
  - apply P17.span_for_digits_spec. in_solve.
  - intros round kind v args. apply sub_op_holds.
  - intros Hd kind v. apply subsecs_ge9_ops; assumption.
Qed.

(* non-vacuity: the ends of u16, a leap-second carry across midnight and across a year, all kinds *)
Lemma holds_examples :
  in_u16 0 = true /\ in_u16 65535 = true /\ in_u16 65536 = false /\
  J.judge (B"rd.rsub") [VInt 2; VTup [VInt 2016; VInt 366; VInt 86399; VInt 1750500000]; VInt 0]
    (run (B"rd.rsub") [VInt 2; VTup [VInt 2016; VInt 366; VInt 86399; VInt 1750500000]; VInt 0]) = JOk /\
  J.judge (B"rd.tsub") [VInt 3; VTup [VInt 2016; VInt 366; VInt 86399; VInt 1750500000; VInt 3600]; VInt 1]
    (run (B"rd.tsub") [VInt 3; VTup [VInt 2016; VInt 366; VInt 86399; VInt 1750500000; VInt 3600]; VInt 1]) = JOk /\
  run (B"rd.rsub") [VInt 1; VTup [VInt 86399; VInt 1999999999]; VInt 65535] = VTup [VInt 86399; VInt 1999999999] /\
  J.judge (B"rd.zround") [VTup [VInt 2012; VInt 347; VInt 66150; VInt 0; VInt (-3600)]; VTup [VInt 300; VInt 0]]
    (run (B"rd.zround") [VTup [VInt 2012; VInt 347; VInt 66150; VInt 0; VInt (-3600)]; VTup [VInt 300; VInt 0]]) = JOk.
Proof. vm_compute. repeat split. Qed.
