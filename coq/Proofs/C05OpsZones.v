(** C05: the lookup contract [lookup_ok] of Proofs/C05Ops.v discharged for the three kinds of zone:
    - [lookup_table]: a transition table without footer (TZif v1, or v2+ with an empty footer);
    - [lookup_rule]: a POSIX rule alone (TZ strings);
    - [lookup_composite]: a transition table followed by a footer rule (Proofs/C05OpsComposite.v).
    On the way: the round trip of a rule-only zone on EXACTLY the judge's years y-2..y+2
    ([rule_rt5], compare C05_roundtrip_rule_zone which asks for y-3..y+2). *)
From Coq Require Import ZArith List Bool Lia ZifyBool String.
From V Require Import Base.Int Base.IO Spec.Gregorian Spec.Zone.
From V Require Import Model.TzParser Model.TzRule Model.TzLookup Model.C05.
From V Require Import Proofs.TzCommon Proofs.TzEval Proofs.C05 Proofs.C05Composite Proofs.C05Glue Proofs.C05Judge Proofs.C05Wide Proofs.C05Full Proofs.C05Holds Proofs.C05Ops.
Import ListNotations.
Open Scope Z_scope.
Ltac Zify.zify_post_hook ::= Z.to_euclidean_division_equations.

(** * Table-only zones *)
(* the candidates of the scan are types of the table *)
Lemma scanL_cands : forall ps prev l,
  match scanL ps prev l with
  | inl m => forall o, contains m o -> o = ut_offset prev \/ In o (map snd (offs ps))
  | inr last => ut_offset last = ut_offset prev \/ In (ut_offset last) (map snd (offs ps))
  end.
Proof.
  induction ps as [|[t1 after] rest IH]; intros prev l; cbn [scanL].
  - left. reflexivity.
  - cbn [offs map snd In]. fold (offs rest).
    specialize (IH after l).
    assert (Hrec : match scanL rest after l with
                   | inl m => forall o, contains m o -> o = ut_offset prev \/ (ut_offset after = o \/ In o (map snd (offs rest)))
                   | inr last => ut_offset last = ut_offset prev \/ (ut_offset after = ut_offset last \/ In (ut_offset last) (map snd (offs rest)))
                   end).
    { destruct (scanL rest after l) as [m|last].
      - intros o Ho. destruct (IH o Ho) as [E|E]; [right; left; symmetry; exact E|right; right; exact E].
      - destruct IH as [E|E]; [right; left; symmetry; exact E|right; right; exact E]. }
    destruct (t1 + ut_offset prev ?= t1 + ut_offset after);
      repeat match goal with |- context [if ?c then _ else _] => destruct c end;
      try exact Hrec; intros o Ho; cbn [contains] in Ho; try contradiction;
      try (destruct Ho as [Ho|Ho]); subst o; auto.
Qed.

Lemma spacing_ok_table first tr w : J.spacing_ok (mk_szone first tr None) w = spacing_table tr first && true.
Proof. reflexivity. Qed.

Theorem lookup_table zone ps first :
  table_zone zone ps first -> leap_seconds zone = [] -> extra_rule zone = None ->
  increasing (offs ps) = true -> zlen (transitions zone) < 4611686018427387904 ->
  lookup_ok zone (szone_of ps first).
Proof.
  intros Hz Hl Hr Hinc Hlen. split.
  - intros t o _ _ Ho.
    destruct (offset_at_table zone ps first t Hz Hl Hr Hinc Hlen) as (lt & Hlt & Hzo).
    exists lt. split; [exact Hlt|]. rewrite Ho in Hzo. injection Hzo as ->. reflexivity.
  - intros w l Hsp He. exact (holds_loc_table zone ps first (utc_year w) w l Hz Hr Hinc Hsp He).
  - intros t o Hsp _ Ho _ _ _. unfold szone_of in Hsp. rewrite spacing_ok_table, andb_true_r in Hsp.
    unfold szone_of in Ho. rewrite zone_off_table in Ho. injection Ho as <-.
    set (l := t + table_off (offs ps) (ut_offset first) t).
    exists (table_answer ps first l). split; [apply from_local_table; assumption|].
    split; [apply table_roundtrip; exact Hsp|]. split.
    + intros o' Hc. unfold zone_offsets, szone_of. cbn [z_first z_trans z_rule]. rewrite In_dedup, app_nil_r.
      pose proof (scanL_cands ps first l) as K. unfold table_answer in Hc.
      destruct (scanL ps first l) as [m|last].
      * destruct (K o' Hc) as [E|E]; [left; symmetry; exact E|right; exact E].
      * cbn [contains] in Hc. subst o'. destruct K as [E|E]; [left; symmetry; exact E|right; exact E].
    + intros a b E. unfold table_answer in E. destruct (scanL ps first l) as [m|last] eqn:Es; [|discriminate].
      subst m. exact (scanL_order _ _ _ _ _ Es).
Qed.

(** * Rule-only zones *)
Lemma rule_answer_cands a k l o : contains (rule_answer a k l) o ->
  o = ut_offset (a_std a) \/ o = ut_offset (a_dst a).
Proof.
  unfold rule_answer, rule_answer_of. cbv zeta.
  destruct (ut_offset (a_std a) ?= ut_offset (a_dst a));
    repeat match goal with |- context [if ?c then _ else _] => destruct c end;
    cbn [contains]; intros H; try contradiction; try (destruct H as [H|H]); subst o; auto.
Qed.

Lemma from_local_rule_only z a first k l :
  transitions z = [] -> index (local_time_types z) 0 = Val first -> extra_rule z = Some (Alternate a) ->
  alt_ok a -> -2147483650 <= k <= 2147483650 ->
  find_local_time_type_from_local z k l = Val (Ok (rule_answer a k l)) /\
  alt_find_local_time_type_from_local a k l = Val (Ok (rule_answer a k l)).
Proof.
  intros Ht Hf Hr Ha Hk. split; [|exact (rule_local_total a k l Ha Hk)].
  unfold find_local_time_type_from_local. rewrite Ht, Hf, Hr.
  cbn [bind rule_find_local_time_type_from_local]. rewrite (rule_local_total a k l Ha Hk). reflexivity.
Qed.

(* the round trip from the year formula alone *)
Lemma rule_rt_gen a t : let r := conv_rule a in let o := roff r t in let l := t + o in let k := utc_year l in
  r_std r <> r_dst r -> year_formula r k ->
  ordered (windows (offs (fst (year_table a k))) (ut_offset (snd (year_table a k)))) = true ->
  contains (rule_answer a k l) o.
Proof.
  intros r o l k Hne Hyf Hord.
  pose proof (rule_answer_contains a k l t Hne) as Hcont. cbv zeta in Hcont. fold r in Hcont.
  destruct (year_table a k) as [ps prev]. cbn [fst snd] in Hord.
  pose proof (utc_year_bounds l) as Hlb. fold k in Hlb.
  assert (Hw : year_start k <= t + r_std r < year_start (k + 1) \/ year_start k <= t + r_dst r < year_start (k + 1)).
  { unfold l, o, roff in Hlb. destruct (rule_is_dst r t); [right|left]; lia. }
  pose proof (Hyf t Hw) as Hd.
  assert (Eo : o = if yform (rule_start_utc r k) (rule_end_utc r k) t then r_dst r else r_std r)
    by (unfold o, roff; rewrite Hd; reflexivity).
  rewrite Eo. apply (Hcont Hord). rewrite <- Eo. reflexivity.
Qed.

(* the judge's conditions at a reading of a rule, in the form the theorems use *)
Lemma judge_rule_reading a w : alt_ok a -> let r := conv_rule a in let k := utc_year w in
  J.ts_ok w = true -> J.premise_at r w = true -> J.spacing_rule_self r k = true ->
  -86400 < r_std r < 86400 -> -86400 < r_dst r < 86400 ->
  -2147483650 <= k <= 2147483650 /\ year_formula r k /\
  ordered (windows (offs (fst (year_table a k))) (ut_offset (snd (year_table a k)))) = true.
Proof.
  intros Ha r k Hts Hp Hself O1 O2.
  destruct (premise_at_inv r w Hp) as (P2 & P1 & P0 & Pn & Pn2). fold k in P2, P1, P0, Pn, Pn2.
  destruct (spacing_self_year_table a k Hself) as [Hord Hreg].
  pose proof (utc_year_ts_ok w Hts) as Hk0.
  assert (Hk : -262143 <= utc_year w <= 262142).
  { unfold J.ts_ok in Hts.
    assert (Hb : J.TS_MIN <= w <= J.TS_MAX) by (unfold J.TS_MIN, J.TS_MAX in *; lia).
    pose proof (utc_year_mono _ _ (proj1 Hb)) as H1. pose proof (utc_year_mono _ _ (proj2 Hb)) as H2.
    assert (E1 : utc_year J.TS_MIN = -262143) by (vm_compute; reflexivity).
    assert (E2 : utc_year J.TS_MAX = 262142) by (vm_compute; reflexivity). lia. }
  fold k in Hk, Hk0. split; [exact Hk0|]. split; [|exact Hord].
  intros t Hw. apply (rule_is_dst_year5 a k t Ha ltac:(lia)); [|exact Hw].
  unfold rule_year_hyps5. fold r. repeat (split; [assumption|]). exact Hreg.
Qed.

Lemma fo_ok_bounds o : J.fo_ok o = true -> -86400 < o < 86400.
Proof. unfold J.fo_ok. lia. Qed.

(* the judge's conditions at an instant of a rule *)
Lemma judge_rule_instant a t : alt_ok a -> let r := conv_rule a in
  J.ts_ok t = true -> J.premise_at r t = true -> J.spacing_rule_self r (utc_year t) = true ->
  J.fo_ok (r_std r) = true -> J.fo_ok (r_dst r) = true -> rule_hyps a t.
Proof.
  intros Ha r Hts Hp Hself O1 O2.
  destruct (premise_at_inv r t Hp) as (P2 & P1 & P0 & Pn & Pn2).
  destruct (spacing_self_year_table a _ Hself) as [_ Hreg].
  apply fo_ok_bounds in O1, O2.
  unfold rule_hyps. fold r. cbv zeta. split; [exact Ha|].
  split; [unfold J.ts_ok, J.TS_MIN, J.TS_MAX in Hts; lia|].
  repeat (split; [assumption|]). exact Hreg.
Qed.

Lemma offsets_ok_rule first tr r : J.offsets_ok (mk_szone first tr (Some (inr r))) = true ->
  J.fo_ok (r_std r) = true /\ J.fo_ok (r_dst r) = true.
Proof.
  unfold J.offsets_ok. intros H. rewrite forallb_forall in H. split; apply H; unfold zone_offsets;
    cbn [z_first z_trans z_rule]; rewrite In_dedup; right; apply in_or_app; right; cbn; auto.
Qed.

Theorem lookup_rule zone a first :
  let r := conv_rule a in
  transitions zone = [] -> index (local_time_types zone) 0 = Val first -> leap_seconds zone = [] ->
  extra_rule zone = Some (Alternate a) -> alt_ok a -> r_std r <> r_dst r ->
  J.fo_ok (r_std r) = true -> J.fo_ok (r_dst r) = true ->
  lookup_ok zone (mk_szone (ut_offset first) [] (Some (inr r))).
Proof.
  intros r Ht Hf Hl Hr Ha Hne O1 O2. split.
  - intros t o Hsp Hd Ho. unfold at_spaced in Hsp. cbn [z_rule] in Hsp.
    rewrite in_dom_rule_only in Hd. apply andb_prop in Hd. destruct Hd as [Hts Hp].
    pose proof (judge_rule_instant a t Ha Hts Hp Hsp O1 O2) as Hh.
    pose proof (offset_at_rule zone a t Hl Hr (or_introl Ht) Hh) as Hat. fold r in Hat.
    rewrite (zone_off_rule (ut_offset first) [] r t I) in Ho. injection Ho as <-.
    eexists. split; [exact Hat|]. destruct (rule_is_dst r t); reflexivity.
  - intros w l Hsp He. exact (holds_loc_rule5 zone a first w l Ht Hf Hr Ha Hne Hsp He).
  - intros t o Hsp _ Ho Hd2 _ _.
    rewrite (zone_off_rule (ut_offset first) [] r t I) in Ho. fold (roff r t) in Ho. injection Ho as <-.
    rewrite in_dom_rule_only in Hd2. apply andb_prop in Hd2. destruct Hd2 as [Hts Hp].
    rewrite spacing_ok_rule_only, andb_true_r in Hsp.
    destruct (judge_rule_reading a (t + roff r t) Ha Hts Hp Hsp (fo_ok_bounds _ O1) (fo_ok_bounds _ O2)) as (Hk & Hyf & Hord).
    destruct (from_local_rule_only zone a first _ (t + roff r t) Ht Hf Hr Ha Hk) as [Hm Halt].
    exists (rule_answer a (utc_year (t + roff r t)) (t + roff r t)). split; [exact Hm|].
    split; [exact (rule_rt_gen a t Hne Hyf Hord)|]. split.
    + intros o' Hc. destruct (rule_answer_cands _ _ _ _ Hc) as [-> | ->];
        unfold zone_offsets; cbn [z_first z_trans z_rule map app]; rewrite In_dedup; cbn; auto.
    + intros x y E. rewrite E in Halt. exact (alt_local_order _ _ _ _ _ Halt).
Qed.
