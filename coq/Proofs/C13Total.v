(** C13 -- slice safety of the reader for EVERY item list, the Fixed::RFC2822 item included.
    Model/Parse.v has its own transcription of parse_rfc2822 (table-driven constants of
    Gen/ParseTable.v); the totality argument of Proofs/C11Total.v is redone on that copy.  The
    RFC 2822 reader needs an input of a length a Rust string can have (usize arithmetic of the year
    length and of the comment scanner), so the invariant carried through the item loop is: the
    remainder is well-formed UTF-8 and not longer than the input.  The length half is proved for
    every arm of parse_internal by inversion (every remainder is produced by [str_from],
    [trim_start_matches] or is the input itself). *)
From Coq Require Import ZArith List Bool Lia ZifyBool.
From V Require Import Base.Int Base.IntLemmas Base.IO Base.Utf8 Gen.ScanTables Model.Scan Model.Items
  Gen.ParseTable Proofs.Utf8 Proofs.Scan Model.Parse Proofs.C13 Proofs.C13Reads Proofs.C13Safe Proofs.C11Total.
From V Require Model.Parsed Model.Rfc2822 Proofs.C11.
Import ListNotations.
Open Scope Z_scope.
Ltac Zify.zify_post_hook ::= Z.to_euclidean_division_equations.

Module P11 := V.Proofs.C11.

(** * Length of the remainders of the scanners (no hypothesis on the input) *)
Lemma ncp_len s c r : next_code_point s = Some (c, r) -> blen r <= blen s.
Proof.
  destruct s as [|x r0]; [discriminate|]. cbn [next_code_point].
  destruct (x <? 128). { intros H. injection H as _ <-. rewrite blen_cons. lia. }
  destruct r0 as [|y r1]; [discriminate|].
  destruct (x <? 224). { intros H. injection H as _ <-. rewrite !blen_cons. lia. }
  destruct r1 as [|z r2]; [discriminate|].
  destruct (x <? 240). { intros H. injection H as _ <-. rewrite !blen_cons. lia. }
  destruct r2 as [|w r3]; [discriminate|].
  intros H. injection H as _ <-. rewrite !blen_cons. lia.
Qed.
Lemma trim_fuel_len p : forall fuel s, blen (trim_start_matches_fuel fuel p s) <= blen s.
Proof.
  induction fuel as [|f IH]; intros s; cbn [trim_start_matches_fuel]; [lia|].
  destruct (next_code_point s) as [[c r]|] eqn:E; [|lia]. destruct (p c); [|lia].
  pose proof (ncp_len s c r E). specialize (IH r). lia.
Qed.
Lemma trim_matches_len p s : blen (trim_start_matches p s) <= blen s.
Proof. apply trim_fuel_len. Qed.
Lemma trim_start_len s : blen (trim_start s) <= blen s.
Proof. apply trim_matches_len. Qed.

Lemma number_loop_len s : forall l i min max n r v,
  number_loop s l i min max n = Val (POk (r, v)) -> blen r <= blen s.
Proof.
  assert (End : forall max n r v, number_end s max n = Val (POk (r, v)) -> blen r <= blen s).
  { intros max n r v H. unfold number_end in H. apply bind_inv in H. destruct H as (rest & Hr & H).
    injection H as <- <-. exact (str_from_len _ _ _ Hr). }
  induction l as [|c t IH]; intros i min max n r v H; cbn [number_loop] in H; [exact (End _ _ _ _ H)|].
  destruct (max <=? i); [exact (End _ _ _ _ H)|].
  destruct (negb (is_ascii_digit c)).
  - destruct (i <? min); [discriminate|]. apply bind_inv in H. destruct H as (rest & Hr & H).
    injection H as <- <-. exact (str_from_len _ _ _ Hr).
  - destruct (checked_mul in_i64 n 10) as [n10|]; [|discriminate].
    apply bind_inv in H. destruct H as (d & _ & H).
    destruct (checked_add in_i64 n10 d) as [n'|]; [|discriminate]. exact (IH _ _ _ _ _ _ H).
Qed.
Lemma number_len s min max r v : number s min max = Val (POk (r, v)) -> blen r <= blen s.
Proof.
  unfold number. intros H. apply bind_inv in H. destruct H as (u & _ & H).
  destruct (blen s <? min); [discriminate|]. exact (number_loop_len _ _ _ _ _ _ _ _ H).
Qed.
Lemma nanosecond_len s r v : nanosecond s = Val (POk (r, v)) -> blen r <= blen s.
Proof.
  unfold nanosecond. intros H. apply pbind_inv in H. destruct H as ([s1 v1] & E1 & H). apply number_len in E1.
  apply bind_inv in H. destruct H as (consumed & _ & H). apply bind_inv in H. destruct H as (scale & _ & H).
  destruct (checked_mul in_i64 v1 scale); [|discriminate]. injection H as <- <-.
  pose proof (trim_matches_len is_ascii_digit s1). lia.
Qed.
Lemma nanosecond_fixed_len s d r v : nanosecond_fixed s d = Val (POk (r, v)) -> blen r <= blen s.
Proof.
  unfold nanosecond_fixed. intros H. apply pbind_inv in H. destruct H as ([s1 v1] & E1 & H). apply number_len in E1.
  apply bind_inv in H. destruct H as (scale & _ & H).
  destruct (checked_mul in_i64 v1 scale); [|discriminate]. injection H as <- <-. exact E1.
Qed.
Lemma consume_suffix_len s suffix r : consume_suffix s suffix = Val r -> blen r <= blen s.
Proof.
  unfold consume_suffix. destruct (blen s >=? blen suffix); [|intros H; injection H as <-; lia].
  intros H. apply bind_inv in H. destruct H as (pre & _ & H).
  destruct (eq_ignore_ascii_case pre suffix); [exact (str_from_len _ _ _ H)|injection H as <-; lia].
Qed.
Lemma short_or_long_month0_len s r v : short_or_long_month0 s = Val (POk (r, v)) -> blen r <= blen s.
Proof.
  unfold short_or_long_month0. intros H. apply pbind_inv in H. destruct H as ([s1 m0] & E1 & H). apply short_month0_len in E1.
  apply bind_inv in H. destruct H as (suffix & _ & H). apply bind_inv in H. destruct H as (s2 & E2 & H).
  apply consume_suffix_len in E2. injection H as <- <-. lia.
Qed.
Lemma short_or_long_weekday_len s r v : short_or_long_weekday s = Val (POk (r, v)) -> blen r <= blen s.
Proof.
  unfold short_or_long_weekday. intros H. apply pbind_inv in H. destruct H as ([s1 m0] & E1 & H). apply short_weekday_len in E1.
  apply bind_inv in H. destruct H as (suffix & _ & H). apply bind_inv in H. destruct H as (s2 & E2 & H).
  apply consume_suffix_len in E2. injection H as <- <-. lia.
Qed.
Lemma colon_or_space_len t t' : colon_or_space t = Val (POk t') -> blen t' <= blen t.
Proof. unfold colon_or_space. intros H. injection H as <-. apply trim_matches_len. Qed.

(** * Length of the remainder of every arm of parse_internal except the RFC 2822 item *)
Definition lenle (s : bytes) (r : PR (Model.Parsed.parsed * bytes)) : Prop :=
  forall a, r = Val (POk a) -> blen (snd a) <= blen s.

Lemma set_then_len (x : PR Model.Parsed.parsed) (s0 s : bytes) : blen s <= blen s0 ->
  lenle s0 (let+ p := x in pok (p, s)).
Proof.
  intros Hl a H. apply pbind_inv in H. destruct H as (p' & _ & H). injection H as <-. exact Hl.
Qed.

Lemma parse_numeric_len p s spec : lenle s (parse_numeric p s spec).
Proof.
  intros [p' s'] H. cbn [snd]. unfold parse_numeric in H.
  destruct (zassoc (numeric_idx spec) PN_TABLE) as [[[width signed] code]|]; [|discriminate].
  cbv zeta in H. pose proof (trim_start_len s) as Ht. set (s1 := trim_start s) in *.
  apply pbind_inv in H. destruct H as ([s2 v] & Eread & H).
  assert (L2 : blen s2 <= blen s1).
  { destruct signed; [|exact (number_len _ _ _ _ _ Eread)].
    destruct (starts_with_byte s1 45).
    - apply bind_inv in Eread. destruct Eread as (t & Et & Eread). apply str_from_len in Et.
      apply pbind_inv in Eread. destruct Eread as ([s_ v_] & En & Eread). apply number_len in En.
      destruct (checked_sub in_i64 0 v_); [|discriminate]. injection Eread as <- <-. lia.
    - destruct (starts_with_byte s1 43); [|exact (number_len _ _ _ _ _ Eread)].
      apply bind_inv in Eread. destruct Eread as (t & Et & Eread). apply str_from_len in Et.
      apply number_len in Eread. lia. }
  apply pbind_inv in H. destruct H as (p2 & _ & H). injection H as <- <-. lia.
Qed.
Lemma parse_tz_item_len p s idx : lenle s (parse_tz_item p s idx).
Proof.
  intros [p' s'] H. cbn [snd]. unfold parse_tz_item in H.
  destruct (zassoc idx P_TZ_FLAGS) as [[[az am] ams]|]; [|discriminate].
  apply pbind_inv in H. destruct H as ([s1 off] & E & H).
  apply (timezone_offset_len _ _ _ _ _ _ _ colon_or_space_len) in E. pose proof (trim_start_len s).
  apply pbind_inv in H. destruct H as (p2 & _ & H). injection H as <- <-. lia.
Qed.
Lemma parse_dot_nanosecond_len p s : lenle s (parse_dot_nanosecond p s).
Proof.
  intros [p' s'] H. cbn [snd]. unfold parse_dot_nanosecond in H. destruct (starts_with_byte s 46).
  - apply bind_inv in H. destruct H as (s1 & E1 & H). apply str_from_len in E1.
    apply pbind_inv in H. destruct H as ([s2 nano] & E2 & H). apply nanosecond_len in E2.
    apply pbind_inv in H. destruct H as (p2 & _ & H). injection H as <- <-. lia.
  - injection H as <- <-. lia.
Qed.
Lemma parse_nodot_len p s idx : lenle s (parse_nodot p s idx).
Proof.
  intros [p' s'] H. cbn [snd]. unfold parse_nodot in H. destruct (zassoc idx P_NODOT) as [[minlen d]|]; [|discriminate].
  destruct (blen s <? minlen); [discriminate|].
  apply pbind_inv in H. destruct H as ([s2 nano] & E2 & H). apply nanosecond_fixed_len in E2.
  apply pbind_inv in H. destruct H as (p2 & _ & H). injection H as <- <-. exact E2.
Qed.
Lemma parse_ampm_len p s : lenle s (parse_ampm p s).
Proof.
  intros [p' s'] H. cbn [snd]. unfold parse_ampm in H. destruct (blen s <? P_AMPM_LEN); [discriminate|].
  apply bind_inv in H. destruct H as (a & _ & H). apply bind_inv in H. destruct H as (b & _ & H).
  destruct (assoc_bytes [Z.lor a P_AMPM_BIT; Z.lor b P_AMPM_BIT] P_AMPM_ARMS); [|discriminate].
  apply pbind_inv in H. destruct H as (p2 & _ & H).
  apply bind_inv in H. destruct H as (r & Er & H). injection H as <- <-. exact (str_from_len _ _ _ Er).
Qed.

Definition fixed_not2822 (spec : Fixed) : bool := match spec with F_RFC2822 => false | _ => true end.
Definition item_not2822 (it : Item) : bool := match it with IFixed f => fixed_not2822 f | _ => true end.

Lemma parse_fixed_len relaxed p s spec : (forall p s, lenle s (relaxed p s)) -> fixed_not2822 spec = true ->
  lenle s (parse_fixed relaxed p s spec).
Proof.
  intros Hrel Hok. destruct spec as [ | | | | | | | | | | | | | | | | | | | i]; try discriminate; cbn [parse_fixed].
  - intros [p' s'] H. cbn [snd]. apply pbind_inv in H. destruct H as ([s1 m0] & E & H). apply short_month0_len in E.
    apply bind_inv in H. destruct H as (m & _ & H). apply pbind_inv in H. destruct H as (p2 & _ & H). injection H as <- <-. exact E.
  - intros [p' s'] H. cbn [snd]. apply pbind_inv in H. destruct H as ([s1 m0] & E & H). apply short_or_long_month0_len in E.
    apply bind_inv in H. destruct H as (m & _ & H). apply pbind_inv in H. destruct H as (p2 & _ & H). injection H as <- <-. exact E.
  - intros [p' s'] H. cbn [snd]. apply pbind_inv in H. destruct H as ([s1 wd] & E & H). apply short_weekday_len in E.
    apply pbind_inv in H. destruct H as (p2 & _ & H). injection H as <- <-. exact E.
  - intros [p' s'] H. cbn [snd]. apply pbind_inv in H. destruct H as ([s1 wd] & E & H). apply short_or_long_weekday_len in E.
    apply pbind_inv in H. destruct H as (p2 & _ & H). injection H as <- <-. exact E.
  - apply parse_ampm_len.
  - apply parse_ampm_len.
  - apply parse_dot_nanosecond_len.
  - apply parse_dot_nanosecond_len.
  - apply parse_dot_nanosecond_len.
  - apply parse_dot_nanosecond_len.
  - intros [p' s'] H. cbn [snd]. injection H as <- <-. apply trim_matches_len.
  - apply parse_tz_item_len.
  - apply parse_tz_item_len.
  - apply parse_tz_item_len.
  - apply parse_tz_item_len.
  - apply parse_tz_item_len.
  - apply parse_tz_item_len.
  - apply Hrel.
  - destruct i; first [apply parse_tz_item_len|apply parse_nodot_len].
Qed.

Lemma parse_item_len relaxed p s it : (forall p s, lenle s (relaxed p s)) -> item_not2822 it = true ->
  lenle s (parse_item relaxed p s it).
Proof.
  intros Hrel Hok. destruct it as [l|w|spec pad|spec|]; cbn [parse_item item_not2822] in *.
  - intros [p' s'] H. cbn [snd]. destruct (blen s <? blen l); [discriminate|].
    destruct (negb (starts_with s l)); [discriminate|].
    apply bind_inv in H. destruct H as (r & Er & H). injection H as <- <-. exact (str_from_len _ _ _ Er).
  - intros [p' s'] H. cbn [snd]. injection H as <- <-. apply trim_start_len.
  - apply parse_numeric_len.
  - apply parse_fixed_len; assumption.
  - intros a H. discriminate.
Qed.

Lemma parse_items_len relaxed : (forall p s, lenle s (relaxed p s)) ->
  forall items p s, forallb item_not2822 items = true -> lenle s (parse_items relaxed p s items).
Proof.
  intros Hrel. induction items as [|it r IH]; intros p s Hok; cbn [parse_items].
  - intros [p' s'] H. injection H as <- <-. cbn [snd]. lia.
  - cbn [forallb] in Hok. apply andb_prop in Hok. destruct Hok as [H1 H2].
    intros a H. apply pbind_inv in H. destruct H as ([p1 s1] & E1 & H).
    pose proof (parse_item_len relaxed p s it Hrel H1 _ E1) as L1. cbn [snd] in L1.
    pose proof (IH p1 s1 H2 _ H) as L2. lia.
Qed.

Lemma relaxed_len p s : lenle s (parse_rfc3339_relaxed p s).
Proof.
  intros [p' s'] H. cbn [snd]. unfold parse_rfc3339_relaxed in H. cbv zeta in H.
  assert (Hd : forall (p : Model.Parsed.parsed) (s : bytes),
             lenle s ((fun (_ : Model.Parsed.parsed) (_ : bytes) => @OutOfFuel (presult (Model.Parsed.parsed * bytes))) p s))
    by (intros p0 s0 a Ha; discriminate).
  apply pbind_inv in H. destruct H as ([p1 s1] & E1 & H).
  pose proof (parse_items_len _ Hd P_RELAXED_DATE_ITEMS p s eq_refl _ E1) as L1. cbn [snd] in L1.
  apply pbind_inv in H. destruct H as (s2 & E2 & H).
  assert (L2 : blen s2 <= blen s1).
  { destruct s1 as [|c r]; [discriminate|]. destruct (existsb (Z.eqb c) P_RELAXED_SEPARATORS); [|discriminate].
    unfold plift in E2. apply bind_inv in E2. destruct E2 as (t & Et & E2). injection E2 as <-. exact (str_from_len _ _ _ Et). }
  apply pbind_inv in H. destruct H as ([p3 s3] & E3 & H).
  pose proof (parse_items_len _ Hd P_RELAXED_TIME_ITEMS p1 s2 eq_refl _ E3) as L3. cbn [snd] in L3.
  pose proof (trim_start_len s3) as L4. set (s4 := trim_start s3) in *.
  apply bind_inv in H. destruct H as (utc & _ & H).
  apply pbind_inv in H. destruct H as ([s5 off] & E5 & H).
  assert (L5 : blen s5 <= blen s4).
  { destruct utc.
    - apply bind_inv in E5. destruct E5 as (t & Et & E5). injection E5 as <- <-. exact (str_from_len _ _ _ Et).
    - destruct P_RELAXED_TZ_FLAGS as [[z mm] ms]. exact (timezone_offset_len _ _ _ _ _ _ _ colon_or_space_len E5). }
  apply pbind_inv in H. destruct H as (p6 & _ & H). injection H as <- <-. lia.
Qed.

(** * The RFC 2822 item (the transcription of Model/Parse.v) *)
Definition GL (s0 : bytes) (x : Model.Parsed.parsed * bytes) : Prop := wf (snd x) /\ blen (snd x) <= blen s0.

Lemma skip_comments_eq : forall fuel s, skip_comments fuel s = Model.Rfc2822.comments_loop fuel s.
Proof.
  induction fuel as [|f IH]; intros s; [reflexivity|]. cbn [skip_comments Model.Rfc2822.comments_loop].
  destruct (comment_2822 s) as [[[r u]|e]| |]; cbn [bind]; auto.
Qed.

Lemma consume_number_safe p s s0 lohi code : wf s -> blen s <= blen s0 -> 0 <= fst lohi <= snd lohi ->
  In code [0; 1; 2; 3; 4; 5; 6; 7; 8; 9; 10; 12; 13; 15; 16; 17; 18; 19; 20; 21; 100; 101] ->
  safe (consume_number p s lohi code) (GL s0).
Proof.
  intros Hv Hl Hm Hc. unfold consume_number.
  eapply safe_pbind; [apply number_safe_len; [exact Hv|exact Hm]|].
  intros [s' v] (W & L & _). cbn [fst snd] in W, L.
  eapply safe_pbind; [apply set_by_code_safe; exact Hc|]. intros p' _. apply safe_pok. split; [exact W|cbn [snd]; lia].
Qed.

Lemma rfc2822_year_total yearlen year : 0 <= year -> (yearlen = 3 -> year <= 999) ->
  exists y, rfc2822_year P2822_YEAR_RULES yearlen year = Val y.
Proof.
  intros H0 H3. unfold P2822_YEAR_RULES. cbn [rfc2822_year].
  destruct ((yearlen =? 2) && (0 <=? year) && (year <=? 49)) eqn:E1.
  { unfold add_i64. rewrite chk_in by (unfold in_i64, in_range, i64_min, i64_max; lia). eauto. }
  destruct ((yearlen =? 2) && (50 <=? year) && (year <=? 99)) eqn:E2.
  { unfold add_i64. rewrite chk_in by (unfold in_i64, in_range, i64_min, i64_max; lia). eauto. }
  destruct ((yearlen =? 3) && (0 <=? year) && (year <=? 9223372036854775807)) eqn:E3; [|eauto].
  unfold add_i64. rewrite chk_in by (unfold in_i64, in_range, i64_min, i64_max; lia). eauto.
Qed.

Theorem parse_rfc2822_copy_safe p s : wf s -> blen s <= u64_max -> safe (parse_rfc2822 p s) (GL s).
Proof.
  intros Hv Hl. unfold parse_rfc2822. cbv zeta.
  destruct (P11.trim_start_valid s Hv) as [Hv1 Hl1].
  (* optional day of week *)
  eapply (safe_pbind _ _ (GL s)).
  { pose proof (short_weekday_safe (trim_start s) Hv1) as Hw. pose proof (short_weekday_len (trim_start s)) as Hlen.
    destruct (short_weekday (trim_start s)) as [[[s_ wd]|e]| |]; cbn [safe] in Hw; try contradiction; cbn [bind].
    - destruct Hw as [Hw1 Hw2]. cbn [fst snd] in Hw1, Hw2. specialize (Hlen s_ wd eq_refl).
      destruct s_ as [|c r]; cbn [starts_with_byte negb]; [exact I|].
      destruct (c =? 44) eqn:Ec; cbn [negb]; [|exact I]. assert (c = 44) by lia. subst c.
      destruct (str_from_safe_ascii 44 r ltac:(lia) Hw1) as [Hs Hr]. rewrite Hs. cbn [bind].
      eapply safe_pbind; [apply setq_safe|]. intros p' _. apply safe_pok.
      rewrite blen_cons in Hlen. split; [exact Hr|cbn [snd]; lia].
    - apply safe_pok. split; [exact Hv1|exact Hl1]. }
  intros [p1 s2] (Hv2 & Hl2). cbn [fst snd] in Hv2, Hl2.
  destruct (P11.trim_start_valid s2 Hv2) as [Hv3 Hl3].
  (* day *)
  eapply safe_pbind; [apply (consume_number_safe p1 (trim_start s2) s); [exact Hv3|lia|cbn; lia|cbn; tauto]|].
  intros [p2 s4] (Hv4 & Hl4). cbn [fst snd] in Hv4, Hl4.
  eapply safe_pbind; [apply space_safe_len; exact Hv4|]. intros s5 [Hv5 Hl5].
  (* month *)
  eapply safe_pbind; [apply short_month0_safe_len; exact Hv5|].
  intros [s6 m0] ([Hv6 Hm] & Hl6). cbn [fst snd] in Hv6, Hm, Hl6.
  rewrite add_i64_small by lia. cbn [bind].
  eapply safe_pbind; [apply setq_safe|]. intros p3 _.
  eapply safe_pbind; [apply space_safe_len; exact Hv6|]. intros s7 [Hv7 Hl7].
  (* year *)
  eapply safe_pbind; [apply number_safe_len; [exact Hv7|cbn; lia]|].
  intros [s8 year] (Hv8 & Hl8 & Hy0 & Hy3). cbn [fst snd] in Hv8, Hl8, Hy0, Hy3.
  pose proof (blen_nonneg s8) as Hn8.
  unfold sub_usize. rewrite chk_in by (unfold in_usize, in_u64, in_range, u64_max in *; lia). cbn [bind].
  destruct (rfc2822_year_total (blen s7 - blen s8) year Hy0 Hy3) as (y & Hy). rewrite Hy. cbn [bind].
  eapply safe_pbind; [apply setq_safe|]. intros p4 _.
  eapply safe_pbind; [apply space_safe_len; exact Hv8|]. intros s9 [Hv9 Hl9].
  (* hour *)
  eapply safe_pbind; [apply (consume_number_safe p4 s9 s); [exact Hv9|lia|cbn; lia|cbn; tauto]|].
  intros [p5 s10] (Hv10 & Hl10). cbn [fst snd] in Hv10, Hl10.
  destruct (P11.trim_start_valid s10 Hv10) as [Hv11 Hl11].
  eapply safe_pbind; [apply char_safe_len; [exact Hv11|lia]|]. intros s12 [Hv12 Hl12].
  destruct (P11.trim_start_valid s12 Hv12) as [Hv13 Hl13].
  (* minute *)
  eapply safe_pbind; [apply (consume_number_safe p5 (trim_start s12) s); [exact Hv13|lia|cbn; lia|cbn; tauto]|].
  intros [p6 s14] (Hv14 & Hl14). cbn [fst snd] in Hv14, Hl14.
  (* optional second *)
  eapply (safe_pbind _ _ (GL s)).
  { destruct (P11.trim_start_valid s14 Hv14) as [Hv15 Hl15].
    pose proof (char_safe_len (trim_start s14) 58 Hv15 ltac:(lia)) as Hc.
    destruct (char (trim_start s14) 58) as [[s_|e]| |]; cbn [safe] in Hc; try contradiction; cbn [bind].
    - destruct Hc as [Hc1 Hc2].
      set (s3 := if P2822_SECOND_TRIM then trim_start s_ else s_).
      assert (H3 : wf s3 /\ blen s3 <= blen s_).
      { unfold s3. destruct P2822_SECOND_TRIM; [apply P11.trim_start_valid; exact Hc1|split; [exact Hc1|lia]]. }
      apply consume_number_safe; [exact (proj1 H3)|lia|cbn; lia|cbn; tauto].
    - apply safe_pok. split; [exact Hv14|exact Hl14]. }
  intros [p7 s15] (Hv15 & Hl15). cbn [fst snd] in Hv15, Hl15.
  eapply safe_pbind; [apply space_safe_len; exact Hv15|]. intros s16 [Hv16 Hl16].
  (* zone *)
  eapply safe_pbind; [apply timezone_offset_2822_safe; exact Hv16|].
  intros [s17 off] [Hv17 Hl17]. cbn [fst snd] in Hv17, Hl17.
  eapply safe_pbind; [apply setq_safe|]. intros p8 _.
  (* comments *)
  rewrite skip_comments_eq.
  destruct (comments_loop_safe (S (List.length s17)) s17 Hv17 ltac:(lia) ltac:(lia)) as (s18 & Hc & Hv18 & Hl18).
  rewrite Hc. cbn [bind]. apply safe_pok. split; [exact Hv18|cbn [snd]; lia].
Qed.

(** * parse_internal / parse / parse_and_remainder for every item list *)
(** the only condition on the item list: literals are strings (what [Item::Literal(&str)] guarantees) *)
Definition item_wf (it : Item) : bool := match it with Literal l => utf8_valid l | _ => true end.

Lemma item_wf_ok it : item_wf it = true -> item_not2822 it = true -> item_ok it = true.
Proof. destruct it as [l|w|spec pad|spec|]; cbn; auto; destruct spec; cbn; auto. Qed.
Lemma item_is2822 it : item_not2822 it = false -> it = IFixed F_RFC2822.
Proof. destruct it as [l|w|spec pad|spec|]; cbn; try discriminate. destruct spec; cbn; try discriminate. reflexivity. Qed.

Theorem parse_items_safe_all : forall items p s, forallb item_wf items = true -> wf s -> blen s <= u64_max ->
  safe (parse_items parse_rfc3339_relaxed p s items) (GL s).
Proof.
  induction items as [|it r IH]; intros p s Hok Hv Hl; cbn [parse_items].
  - apply safe_pok. split; [exact Hv|cbn [snd]; lia].
  - cbn [forallb] in Hok. apply andb_prop in Hok. destruct Hok as [H1 H2].
    eapply (safe_pbind _ _ (GL s)).
    + destruct (item_not2822 it) eqn:E.
      * apply safe_and.
        -- apply parse_item_safe; [exact parse_rfc3339_relaxed_safe|exact (item_wf_ok it H1 E)|exact Hv].
        -- intros a Ha. exact (parse_item_len parse_rfc3339_relaxed p s it relaxed_len E a Ha).
      * rewrite (item_is2822 it E). cbn [parse_item parse_fixed]. apply parse_rfc2822_copy_safe; assumption.
    + intros [p' s'] [W L]. cbn [snd] in W, L.
      eapply safe_weaken; [apply (IH p' s' H2 W); lia|]. intros x [W' L']. split; [exact W'|lia].
Qed.

Theorem parse_internal_safe_all items p s : forallb item_wf items = true -> wf s -> blen s <= u64_max ->
  safe (parse_internal p s items) good.
Proof.
  intros Hok Hv Hl. eapply safe_weaken; [apply parse_items_safe_all; eassumption|]. intros x [W _]. exact W.
Qed.

Corollary parse_never_panics_all items p s : forallb item_wf items = true -> utf8_valid s = true -> blen s <= u64_max ->
  parse p s items <> Panic /\ parse p s items <> OutOfFuel /\
  parse_and_remainder p s items <> Panic /\ parse_and_remainder p s items <> OutOfFuel.
Proof.
  intros Hok Hv Hl. pose proof (parse_internal_safe_all items p s Hok Hv Hl) as H.
  unfold parse, parse_and_remainder, parse_end.
  destruct (parse_internal p s items) as [[[p' s']|e]| |]; cbn in *; try contradiction.
  - destruct (is_empty s'); repeat split; discriminate.
  - repeat split; discriminate.
Qed.

From Coq Require Import String.
(** the hypotheses are inhabited: "at " followed by the RFC 2822 item; a closed and an unclosed
    trailing comment *)
Definition ex_items : list Item := [Literal (bytes_of_string "at "%string); IFixed F_RFC2822].
Definition ex_input_closed : bytes := bytes_of_string "at Tue, 1 Jul 2003 10:52:37 +0200 (x)"%string.
Definition ex_input_open : bytes := bytes_of_string "at Tue, 1 Jul 2003 10:52:37 +0200 (x"%string.
Lemma ex_total :
  forallb item_wf ex_items = true /\
  (exists p, parse Model.Parsed.parsed_new ex_input_closed ex_items = Val (POk p)) /\
  parse Model.Parsed.parsed_new ex_input_open ex_items = Val (PErr TooLong).
Proof. split; [reflexivity|]. split; [eexists; vm_compute; reflexivity|vm_compute; reflexivity]. Qed.
