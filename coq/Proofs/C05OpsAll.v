(** C05_holds in direct form (no contract record in the statement) for the three kinds of zone, and a
    concrete inhabitant: the case line of corpus/C05/straddle.case (EET until 2023-12-31T22:00:00Z,
    then CET with the footer CET-1CEST,M3.5.0,M10.5.0/3), parsed by the case protocol itself. *)
From Coq Require Import ZArith List Bool Lia ZifyBool String.
From V Require Import Base.Int Base.IO Spec.Gregorian Spec.Zone.
From V Require Import Model.TzParser Model.TzRule Model.TzLookup Model.C05.
From V Require Import Proofs.TzCommon Proofs.C05 Proofs.C05Composite Proofs.C05Glue Proofs.C05Judge Proofs.C05Wide Proofs.C05Full Proofs.C05Holds Proofs.C05Ops Proofs.C05OpsZones Proofs.C05OpsComposite.
Import ListNotations.
Open Scope Z_scope.

Theorem holds_table op src zm xs zone ps first :
  zone_of_src src = Some (Val (Ok zone)) -> J.dec_zone src zm = Some (szone_of ps first) ->
  table_zone zone ps first -> leap_seconds zone = [] -> extra_rule zone = None ->
  increasing (offs ps) = true -> zlen (transitions zone) < 4611686018427387904 ->
  covered_op op = true -> (forall x, In x (elems xs) -> spaced_elem op (szone_of ps first) x = true) ->
  J.judge op [src; zm; xs] (run op [src; zm; xs]) <> JSkip ->
  J.judge op [src; zm; xs] (run op [src; zm; xs]) = JOk.
Proof.
  intros Hs Hd Hz Hl Hr Hinc Hlen. apply (holds_ops op src zm xs zone (szone_of ps first)); [|exact Hs|exact Hd].
  exact (lookup_table zone ps first Hz Hl Hr Hinc Hlen).
Qed.

Theorem holds_rule op src zm xs zone a first :
  let r := conv_rule a in let rz := mk_szone (ut_offset first) [] (Some (inr r)) in
  zone_of_src src = Some (Val (Ok zone)) -> J.dec_zone src zm = Some rz ->
  transitions zone = [] -> index (local_time_types zone) 0 = Val first -> leap_seconds zone = [] ->
  extra_rule zone = Some (Alternate a) -> alt_ok a -> r_std r <> r_dst r ->
  J.fo_ok (r_std r) = true -> J.fo_ok (r_dst r) = true ->
  covered_op op = true -> (forall x, In x (elems xs) -> spaced_elem op rz x = true) ->
  J.judge op [src; zm; xs] (run op [src; zm; xs]) <> JSkip ->
  J.judge op [src; zm; xs] (run op [src; zm; xs]) = JOk.
Proof.
  intros r rz Hs Hd Ht Hf Hl Hr Ha Hne O1 O2. apply (holds_ops op src zm xs zone rz); [|exact Hs|exact Hd].
  exact (lookup_rule zone a first Ht Hf Hl Hr Ha Hne O1 O2).
Qed.

Theorem holds_composite op src zm xs zone ps first a :
  let r := conv_rule a in let cz := mk_szone (ut_offset first) (offs ps) (Some (inr r)) in
  zone_of_src src = Some (Val (Ok zone)) -> J.dec_zone src zm = Some cz ->
  table_zone zone ps first -> leap_seconds zone = [] -> extra_rule zone = Some (Alternate a) ->
  alt_ok a -> r_std r <> r_dst r -> increasing (offs ps) = true ->
  zlen (transitions zone) < 4611686018427387904 ->
  footer_continues_wide cz = true ->
  rule_year_hyps r (footer_year_lo cz) -> rule_year_hyps r (footer_year_hi cz) ->
  covered_op op = true -> (forall x, In x (elems xs) -> spaced_elem op cz x = true) ->
  J.judge op [src; zm; xs] (run op [src; zm; xs]) <> JSkip ->
  J.judge op [src; zm; xs] (run op [src; zm; xs]) = JOk.
Proof.
  intros r cz Hs Hd Hz Hl Hr Ha Hne Hinc Hlen Hfc Hy1 Hy2. apply (holds_ops op src zm xs zone cz); [|exact Hs|exact Hd].
  exact (lookup_composite zone ps first a Hz Hl Hr Ha Hne Hinc Hlen Hfc Hy1 Hy2).
Qed.

(** * Inhabited *)
Definition exh_line : string := "lz.loc x545a69663200000000000000000000000000000000000000000000000000000000000001000000030000000d6591e4600100001c20000000000e10000400001c20010845455400434554004345535400545a69663200000000000000000000000000000000000000000000000000000000000001000000030000000d000000006591e4600100001c20000000000e10000400001c200108454554004345540043455354000a4345542d31434553542c4d332e352e302c4d31302e352e302f330a (7200,((1704060000,3600)),some((3600,7200,(2,3,5,0),7200,(2,10,5,0),10800)),2175557203) (1704065400,1704069000,1704067200,1704060000)".
Definition exh_case := Eval vm_compute in parse_case (bytes_of_string exh_line).
Definition exh_src := Eval vm_compute in match exh_case with Some (_, s :: _) => s | _ => VNone end.
Definition exh_zm := Eval vm_compute in match exh_case with Some (_, _ :: z :: _) => z | _ => VNone end.
Definition exh_xs := Eval vm_compute in match exh_case with Some (_, _ :: _ :: x :: _) => x | _ => VNone end.

Lemma exh_facts :
  zone_of_src exh_src = Some (Val (Ok strad_zone)) /\ J.dec_zone exh_src exh_zm = Some strad_cz /\
  elems exh_xs = [1704065400; 1704069000; 1704067200; 1704060000] /\
  forallb (spaced_elem B"lz.loc" strad_cz) (elems exh_xs) = true /\
  forallb (spaced_elem B"lz.rt" strad_cz) (elems exh_xs) = true /\
  forallb (spaced_elem B"lz.at" strad_cz) (elems exh_xs) = true /\
  J.judge B"lz.loc" [exh_src; exh_zm; exh_xs] (run B"lz.loc" [exh_src; exh_zm; exh_xs]) = JOk /\
  J.judge B"lz.sel" [exh_src; exh_zm; exh_xs] (run B"lz.sel" [exh_src; exh_zm; exh_xs]) = JOk /\
  J.judge B"lz.rt" [exh_src; exh_zm; exh_xs] (run B"lz.rt" [exh_src; exh_zm; exh_xs]) = JOk /\
  J.judge B"lz.at" [exh_src; exh_zm; exh_xs] (run B"lz.at" [exh_src; exh_zm; exh_xs]) = JOk /\
  J.judge B"lz.env" [exh_src; exh_zm; VInt 1; exh_xs] (run B"lz.env" [exh_src; exh_zm; VInt 1; exh_xs]) = JOk.
Proof. vm_compute. repeat split; reflexivity. Qed.
