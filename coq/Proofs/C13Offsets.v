(** C13 -- END TO END statements for DateTime<FixedOffset> and the items that do not carry the offset
    back: the timestamp "%s" (the instant comes back, the offset is lost: the result has offset 0),
    "%::z" (prints +hh:mm:ss, the reader stops after the minutes: TooLong for EVERY value; through
    parse_and_remainder the value comes back with ":00" left over), "%:::z" (prints +hh, the reader
    insists on minutes: TooShort for EVERY value), "%Z" (prints the offset's Display name, the reader
    skips a run of non-white-space and sets no field: next to %z / %:z the value comes back; alone the
    offset is lost: NotEnough for DateTime, the wall clock for NaiveDateTime).
    The value domain is [valid_dtz] of Proofs/C13Zoned.v (whole-minute offsets strictly inside +-24 h,
    wall-clock date a NaiveDate). *)
From Coq Require Import ZArith List Bool Lia ZifyBool.
From V Require Import Base.Int Base.IntLemmas Base.IO Base.Utf8 Model.Scan Model.Items Gen.ParseTable Gen.Strftime
  Proofs.Utf8 Proofs.Scan Model.Parse Proofs.C13 Proofs.C13Reads Proofs.C13Fmt Proofs.C13Digits Proofs.C13Time
  Proofs.C13Date Proofs.C13View Proofs.C13DateTime Proofs.C13TimeForms Proofs.C13Zoned Proofs.C13OneWay Proofs.C13Stamp
  Spec.StrftimeDoc.
From V Require Model.Parsed Model.Format Model.Date Model.Time Model.DateTime Model.Strftime Proofs.C12 Proofs.C14
  Proofs.C14Stamp Proofs.C08Sweeps Proofs.C08 Proofs.C04 Proofs.C04Date Proofs.C09Time Proofs.C09Show Proofs.C09Zoned
  Proofs.C08AddDays Spec.Gregorian.
Import ListNotations.
Open Scope Z_scope.
Ltac Zify.zify_post_hook ::= Z.to_euclidean_division_equations.
Import Model.Parsed.
Import Spec.Gregorian.

(** * 0. generalities: the loop over a concatenated item list, a segment in front of a tail *)
Lemma parse_items_app relaxed : forall l1 l2 p s,
  parse_items relaxed p s (l1 ++ l2) =
  (let+ '(p', s') := parse_items relaxed p s l1 in parse_items relaxed p' s' l2).
Proof.
  induction l1 as [|it r IH]; intros l2 p s; [reflexivity|].
  cbn [app parse_items]. destruct (parse_item relaxed p s it) as [[[p' s']|e]| |]; cbn [pbind bind]; try reflexivity.
  apply IH.
Qed.

Lemma parse_of_remainder p s items r : parse_and_remainder p s items = r -> parse p s items = parse_end r.
Proof. intros <-. reflexivity. Qed.

Lemma seg_parse_tail a items texts ws tail relaxed p : seg_ok a items texts ws tail ->
  parse_items relaxed p (concat texts ++ tail) items = (let+ p' := run_writes ws p in pok (p', tail)).
Proof.
  intros (Hr & Hu & _). pose proof (F2_length _ _ _ Hr) as Hl.
  pose proof (unambiguous_sound relaxed (combine items texts) tail ws Hu p) as H.
  rewrite text_of_combine, map_fst_combine in H by exact Hl. exact H.
Qed.

Lemma write_items_app a items texts l2 t2 :
  Forall2 (renders a) items texts -> Forall2 (renders a) l2 t2 ->
  Model.Format.write_items a (items ++ l2) [] = Model.Format.fok (concat texts ++ concat t2).
Proof.
  intros H1 H2. rewrite (write_items_texts a (items ++ l2) (texts ++ t2) [] (Forall2_app H1 H2)).
  rewrite concat_app. reflexivity.
Qed.

(* the lazily driven loop of parse_and_remainder over a format string *)
Lemma sf_lift_rem fmt items p s :
  Model.Strftime.sf_take (S (Model.Strftime.sf_bound fmt)) (Model.Strftime.sf_new fmt) [] = Val (Some items) ->
  (List.length items < S (Model.Strftime.sf_bound fmt))%nat ->
  parse_internal_sf p s fmt = parse_and_remainder p s items.
Proof.
  intros Ht Hlen. destruct (sf_take_yields _ _ [] items Ht) as (l & Hl & Hy). cbn [rev app] in Hl. subst l.
  unfold parse_internal_sf, parse_and_remainder, parse_internal.
  exact (parse_sf_loop_items items _ _ _ _ Hy Hlen).
Qed.

(** * 1. the wall clock of a value of [valid_dtz] and the formatter's arguments *)
Definition wall_dn (yu ou : Z) (z : Model.DateTime.dtz) : Z :=
  dn_of_yo yu ou + (Model.Time.tsecs (Model.DateTime.nd_time (Model.DateTime.dz_utc z)) + Model.DateTime.dz_off z) / 86400.
Definition wall_clock (yu ou : Z) (z : Model.DateTime.dtz) : Model.DateTime.ndt :=
  Model.DateTime.mk_ndt (Proofs.C08AddDays.date_of_dn (wall_dn yu ou z))
    (Model.Time.mk_time ((Model.Time.tsecs (Model.DateTime.nd_time (Model.DateTime.dz_utc z)) + Model.DateTime.dz_off z) mod 86400)
                        (Model.Time.tfrac (Model.DateTime.nd_time (Model.DateTime.dz_utc z)))).
Definition wall_y yu ou z := fst (yo_of_dn (wall_dn yu ou z)).
Definition wall_o yu ou z := snd (yo_of_dn (wall_dn yu ou z)).
Definition dtz_fa (yu ou : Z) (z : Model.DateTime.dtz) : Model.Format.fmt_args :=
  Model.Format.mk_fa (Some (Model.DateTime.nd_date (wall_clock yu ou z))) (Some (Model.DateTime.nd_time (wall_clock yu ou z)))
                     (Some (offset_text (Model.DateTime.dz_off z) true 0, Model.DateTime.dz_off z)).

Lemma dtz_fa_ok yu ou z : valid_dtz yu ou z ->
  Model.Format.fa_of_dtz z = Val (dtz_fa yu ou z) /\
  Proofs.C08Sweeps.repr (wall_y yu ou z) (wall_o yu ou z) (Model.DateTime.nd_date (wall_clock yu ou z)) /\
  valid_time (Model.DateTime.nd_time (wall_clock yu ou z)).
Proof.
  intros (Hr & Hvt & Ho & Hm & Hw). destruct z as [[du [su fu]] off].
  unfold dtz_fa, wall_clock, wall_y, wall_o, wall_dn.
  cbn [Model.DateTime.dz_utc Model.DateTime.dz_off Model.DateTime.nd_date Model.DateTime.nd_time Model.Time.tsecs Model.Time.tfrac] in *.
  pose proof (Proofs.C09Zoned.local_repr yu ou su off Hw) as Hlr.
  pose proof (valid_time_dom su fu Hvt) as Htd.
  pose proof (Proofs.C09Zoned.local_of yu ou du su fu off Hr Htd Ho Hm Hw) as Hlocal.
  split; [|split].
  - unfold Model.Format.fa_of_dtz. rewrite Hlocal. cbn [bind Model.DateTime.dz_off].
    rewrite Proofs.C12.fixed_offset_display_minutes by assumption. reflexivity.
  - exact Hlr.
  - destruct Hvt as [Hs Hf]. cbn [Model.Time.tsecs Model.Time.tfrac] in *. split; cbn [Model.Time.tsecs Model.Time.tfrac].
    + lia.
    + destruct Hf as [Hf|[H59 Hf]]; [left; exact Hf|right]. split; [lia|exact Hf].
Qed.

(* the printed offset of a whole-minute offset, byte by byte *)
Definition off_h (off : Z) := Z.abs off / 3600.
Definition off_m (off : Z) := Z.abs off / 60 mod 60.
Lemma off_hm off : -86400 < off < 86400 -> off mod 60 = 0 ->
  0 <= off_h off < 24 /\ 0 <= off_m off < 60 /\ off_h off * 3600 + off_m off * 60 = Z.abs off /\
  (Z.abs off + 30) / 60 / 60 = off_h off /\ (Z.abs off + 30) / 60 mod 60 = off_m off /\ Z.abs off mod 60 = 0.
Proof. intros Ho Hm. unfold off_h, off_m. lia. Qed.

Lemma offset_text_bytes off : -86400 < off < 86400 -> off mod 60 = 0 ->
  offset_text off true 0 =
    [Proofs.C12.off_sign off; 48 + off_h off / 10; 48 + off_h off mod 10; 58; 48 + off_m off / 10; 48 + off_m off mod 10] /\
  offset_text off true 1 =
    [Proofs.C12.off_sign off; 48 + off_h off / 10; 48 + off_h off mod 10; 58; 48 + off_m off / 10; 48 + off_m off mod 10; 58; 48; 48] /\
  offset_text off false 2 = [Proofs.C12.off_sign off; 48 + off_h off / 10; 48 + off_h off mod 10].
Proof.
  intros Ho Hm. destruct (off_hm off Ho Hm) as (HH & HM & _ & E1 & E2 & E3).
  rewrite !Proofs.C12.offset_text_unfold. cbv zeta. cbn [Z.eqb Pos.eqb].
  rewrite E1, E2, E3. fold (off_h off) (off_m off).
  rewrite (pad2_eq (off_h off)) by lia. rewrite (pad2_eq (off_m off)) by lia. rewrite (pad2_eq 0) by lia.
  repeat split.
Qed.

Lemma off_sign_cases off : (Proofs.C12.off_sign off = 43 /\ 0 <= off) \/ (Proofs.C12.off_sign off = 45 /\ off < 0).
Proof. unfold Proofs.C12.off_sign. destruct (off <? 0) eqn:E; [right|left]; split; try reflexivity; lia. Qed.

Lemma off_value_printed off : -86400 < off < 86400 -> off mod 60 = 0 ->
  off_value (Proofs.C12.off_sign off =? 45) (48 + off_h off / 10) (48 + off_h off mod 10) (48 + off_m off / 10) (48 + off_m off mod 10) = off.
Proof.
  intros Ho Hm. destruct (off_hm off Ho Hm) as (HH & HM & HV & _). unfold off_value.
  replace ((48 + off_h off / 10 - 48) * 10 + (48 + off_h off mod 10 - 48)) with (off_h off) by lia.
  replace ((48 + off_m off / 10 - 48) * 10 + (48 + off_m off mod 10 - 48)) with (off_m off) by lia.
  rewrite HV. destruct (off_sign_cases off) as [[-> H]|[-> H]]; cbn [Z.eqb Pos.eqb]; lia.
Qed.

Lemma renders_offsets yu ou z : valid_dtz yu ou z ->
  renders (dtz_fa yu ou z) (IFixed F_TimezoneOffsetDoubleColon) (offset_text (Model.DateTime.dz_off z) true 1) /\
  renders (dtz_fa yu ou z) (IFixed F_TimezoneOffsetTripleColon) (offset_text (Model.DateTime.dz_off z) false 2) /\
  renders (dtz_fa yu ou z) (IFixed F_TimezoneName) (offset_text (Model.DateTime.dz_off z) true 0).
Proof.
  intros (_ & _ & Ho & _). destruct (Proofs.C12.offset_items_spec _ Ho) as (_ & _ & F3 & F4).
  unfold renders, dtz_fa. cbn [Model.Format.format_item Model.Format.format_fixed Model.Format.fa_date Model.Format.fa_time Model.Format.fa_off].
  split; [exact F3|split; [exact F4|reflexivity]].
Qed.

(** * 2. the field record of the date-time part and its resolutions *)
Definition ndt_texts (yu ou : Z) (z : Model.DateTime.dtz) : list bytes :=
  ymd_texts (wall_y yu ou z) (wall_o yu ou z) ++ [84] :: hms_texts (Model.DateTime.nd_time (wall_clock yu ou z)).
Definition ndt_ws (yu ou : Z) (z : Model.DateTime.dtz) : list write :=
  ymd_ws (wall_y yu ou z) (wall_o yu ou z) ++ W_none :: hms_ws (Model.DateTime.nd_time (wall_clock yu ou z)).

Lemma dtz_ndt_seg yu ou z tail : valid_dtz yu ou z -> utf8_valid tail = true ->
  seg_ok (dtz_fa yu ou z) NDT_T_FMT (ndt_texts yu ou z) (ndt_ws yu ou z) tail.
Proof.
  intros Hv Ht. destruct (dtz_fa_ok yu ou z Hv) as (_ & Hlr & Hvl).
  exact (ndt_seg (dtz_fa yu ou z) _ _ _ _ (Literal [84]) tail eq_refl eq_refl Hlr Hvl (or_introl eq_refl) Ht).
Qed.

(* the wall clock truncated to whole seconds *)
Definition wall_trunc yu ou z : Model.DateTime.ndt :=
  Model.DateTime.mk_ndt (Model.DateTime.nd_date (wall_clock yu ou z)) (trunc_secs (Model.DateTime.nd_time (wall_clock yu ou z))).

Lemma dtz_resolve_c yu ou du su fu off :
  Proofs.C08Sweeps.repr yu ou du -> valid_time (Model.Time.mk_time su fu) -> -86400 < off < 86400 -> off mod 60 = 0 ->
  dn_in_range (dn_of_yo yu ou + (su + off) / 86400) = true ->
  exists p,
    run_writes (ymd_ws (fst (yo_of_dn (dn_of_yo yu ou + (su + off) / 86400))) (snd (yo_of_dn (dn_of_yo yu ou + (su + off) / 86400)))
                  ++ W_none :: hms_ws (Model.Time.mk_time ((su + off) mod 86400) fu)) parsed_new = pok p /\
    to_datetime p = Val (Err NotEnough) /\
    to_naive_datetime_with_offset p 0 =
      Val (Ok (Model.DateTime.mk_ndt (Proofs.C08AddDays.date_of_dn (dn_of_yo yu ou + (su + off) / 86400))
                                     (trunc_secs (Model.Time.mk_time ((su + off) mod 86400) fu)))) /\
    set_by_code 21 p off = pok (pput F_offset (Some off) p) /\
    to_datetime (pput F_offset (Some off) p) =
      Val (Ok (Model.DateTime.mk_dtz (Model.DateTime.mk_ndt du (trunc_secs (Model.Time.mk_time su fu))) off)).
Proof.
  intros Hr Hvt Ho Hm Hw.
  set (n := dn_of_yo yu ou + (su + off) / 86400) in *.
  set (yl := fst (yo_of_dn n)). set (ol := snd (yo_of_dn n)). set (dl := Proofs.C08AddDays.date_of_dn n).
  set (sl := (su + off) mod 86400).
  pose proof (Proofs.C09Zoned.local_repr yu ou su off Hw) as Hlr. fold n yl ol dl in Hlr.
  assert (Hvl : valid_time (Model.Time.mk_time sl fu)).
  { destruct Hvt as [Hs Hf]. cbn [Model.Time.tsecs Model.Time.tfrac] in *. split; cbn [Model.Time.tsecs Model.Time.tfrac].
    - unfold sl. lia.
    - destruct Hf as [Hf|[H59 Hf]]; [left; exact Hf|right]. split; [unfold sl; lia|exact Hf]. }
  set (tl := Model.Time.mk_time sl fu) in *.
  destruct (ndt_resolution yl ol dl tl Hlr Hvl) as (p & Hrun & Ed & Et & Ets & Eoff & _).
  exists p. split; [exact Hrun|].
  assert (Hsl : 0 <= sl < 86400) by (unfold sl; lia).
  split; [unfold to_datetime; rewrite Eoff, Ets; reflexivity|].
  split; [exact (resolve_ndt yl ol dl (trunc_secs tl) p 0 Hlr Hsl ltac:(lia) Ed Et Ets)|].
  split.
  { unfold set_by_code. cbn [Z.eqb Pos.eqb]. unfold set_offset.
    rewrite Proofs.C14.set_checked_in by (unfold i32_min, i32_max; lia).
    unfold set_if_consistent. change (pget F_offset p) with (p_offset p). rewrite Eoff. reflexivity. }
  set (p2 := pput F_offset (Some off) p).
  unfold to_datetime. change (p_offset p2) with (Some off). cbn [ebind bind].
  assert (Ed2 : to_naive_date p2 = Val (Ok dl)) by (unfold p2; rewrite tnd_offset; exact Ed).
  assert (Et2 : to_naive_time p2 = Val (Ok (trunc_secs tl))) by (unfold p2; rewrite tnt_offset; exact Et).
  assert (Ets2 : p_timestamp p2 = None) by exact Ets.
  rewrite (resolve_ndt yl ol dl (trunc_secs tl) p2 off Hlr Hsl Ho Ed2 Et2 Ets2).
  cbn [ebind bind].
  assert (Ee : Model.DateTime.east_opt off = Some off) by (apply Proofs.C04.east_opt_some_iff; split; [reflexivity|exact Ho]).
  rewrite Ee. cbn [ok_or ebind bind].
  set (fu' := if fu >=? 1000000000 then 1000000000 else 0).
  assert (Htd' : Proofs.C09Time.time_dom (Model.Time.mk_time su fu')).
  { apply valid_time_dom. destruct Hvt as [Hs Hf]. cbn [Model.Time.tsecs Model.Time.tfrac] in *.
    split; cbn [Model.Time.tsecs Model.Time.tfrac]; [exact Hs|]. unfold fu'.
    destruct (fu >=? 1000000000) eqn:E; rewrite Z.geb_leb in E; [right|left; lia].
    split; [|lia]. destruct Hf as [Hf|[H59 _]]; [lia|exact H59]. }
  pose proof (Proofs.C09Zoned.back yu ou du su fu' off Hr Htd' Ho Hm Hw) as Hback. fold n dl sl in Hback.
  assert (Etr : trunc_secs tl = Model.Time.mk_time sl fu') by reflexivity.
  rewrite Etr, Hback. reflexivity.
Qed.

Lemma dtz_resolve yu ou z : valid_dtz yu ou z ->
  exists p, run_writes (ndt_ws yu ou z) parsed_new = pok p /\
    to_datetime p = Val (Err NotEnough) /\
    to_naive_datetime_with_offset p 0 = Val (Ok (wall_trunc yu ou z)) /\
    set_by_code 21 p (Model.DateTime.dz_off z) = pok (pput F_offset (Some (Model.DateTime.dz_off z)) p) /\
    to_datetime (pput F_offset (Some (Model.DateTime.dz_off z)) p) = Val (Ok (trunc_dtz z)).
Proof.
  destruct z as [[du [su fu]] off]. intros (Hr & Hvt & Ho & Hm & Hw).
  exact (dtz_resolve_c yu ou du su fu off Hr Hvt Ho Hm Hw).
Qed.

(** * 3. "%s" for DateTime<FixedOffset>: the instant is preserved (at whole seconds), the offset is lost *)
Theorem dtz_stamp_roundtrip yu ou z : valid_dtz yu ou z ->
  exists a text,
    Model.Format.fa_of_dtz z = Val a /\
    Model.Format.write_items a STAMP_FMT [] = Model.Format.fok text /\
    (let+ p := parse parsed_new text STAMP_FMT in pr_of (to_datetime p)) =
      pok (Model.DateTime.mk_dtz (floor_ndt (Model.DateTime.dz_utc z)) 0).
Proof.
  intros Hv. destruct (dtz_fa_ok yu ou z Hv) as (Ha & Hlr & Hvl). destruct Hv as (Hr & Hvt & Ho & Hm & Hw).
  exists (dtz_fa yu ou z).
  destruct (floor_facts yu ou (Model.DateTime.dz_utc z) Hr Hvt) as (Hr' & Hto & Hl & Hts & Hsec & Hnano).
  destruct (stamp_seg (dtz_fa yu ou z) _ _ _ _ (Model.DateTime.dz_off z) eq_refl eq_refl eq_refl Hlr (proj1 Hvl) Ho) as [Hwi Hp].
  assert (E : Proofs.C14Stamp.secs_at (wall_y yu ou z) (wall_o yu ou z) (Model.Time.tsecs (Model.DateTime.nd_time (wall_clock yu ou z)))
              - Model.DateTime.dz_off z =
              Proofs.C14Stamp.secs_at yu ou (Model.Time.tsecs (Model.DateTime.nd_time (Model.DateTime.dz_utc z)))).
  { unfold Proofs.C14Stamp.secs_at, wall_y, wall_o, wall_dn.
    rewrite (Proofs.C09Zoned.local_dn yu ou (Model.Time.tsecs (Model.DateTime.nd_time (Model.DateTime.dz_utc z))) (Model.DateTime.dz_off z)).
    unfold wall_clock. cbn [Model.DateTime.nd_time Model.Time.tsecs]. lia. }
  rewrite E in Hwi, Hp. eexists. split; [exact Ha|]. split; [exact Hwi|].
  rewrite Hp. cbn [pbind bind pok].
  destruct (Proofs.C14Stamp.utc_datetime_of_stamp yu ou (floor_ndt (Model.DateTime.dz_utc z)) _ None None None Hr' Hto Hl Hts Hsec Hnano
              (or_introl eq_refl)) as [E2 _].
  rewrite E2. reflexivity.
Qed.

Theorem dtz_stamp_parse_from_str yu ou z : valid_dtz yu ou z ->
  exists a text,
    Model.Format.fa_of_dtz z = Val a /\
    Model.Format.delayed_display a (Model.Strftime.sf_new stamp_format) = Model.Format.fok text /\
    dt_parse_from_str text stamp_format = pok (Model.DateTime.mk_dtz (floor_ndt (Model.DateTime.dz_utc z)) 0).
Proof.
  intros Hv. destruct (dtz_stamp_roundtrip yu ou z Hv) as (a & text & Ha & Hw & Hp).
  destruct stamp_format_items as [Htake Hlen].
  destruct (sf_lift stamp_format STAMP_FMT _ text Htake Hlen Hw) as [Hd Hps].
  exists a, text. split; [exact Ha|]. split; [exact Hd|]. unfold dt_parse_from_str. rewrite Hps. exact Hp.
Qed.

(** * 4. "%Y-%m-%dT%H:%M:%S%::z": TooLong for every value; the value and ":00" through parse_and_remainder *)
Definition DTZ_CC_FMT : list Item := NDT_T_FMT ++ [IFixed F_TimezoneOffsetDoubleColon].
Definition DTZ_CCC_FMT : list Item := NDT_T_FMT ++ [IFixed F_TimezoneOffsetTripleColon].

Lemma dtz_cc_scan yu ou z : valid_dtz yu ou z ->
  Model.Format.write_items (dtz_fa yu ou z) DTZ_CC_FMT [] =
    Model.Format.fok (concat (ndt_texts yu ou z) ++ offset_text (Model.DateTime.dz_off z) true 1) /\
  exists p, to_datetime p = Val (Ok (trunc_dtz z)) /\
    parse_and_remainder parsed_new (concat (ndt_texts yu ou z) ++ offset_text (Model.DateTime.dz_off z) true 1) DTZ_CC_FMT =
      pok (p, [58; 48; 48]).
Proof.
  intros Hv. pose proof Hv as (_ & _ & Ho & Hm & _).
  destruct (offset_text_bytes _ Ho Hm) as (_ & Eb & _).
  destruct (off_hm _ Ho Hm) as (HH & HM & _).
  assert (Hvt : utf8_valid (offset_text (Model.DateTime.dz_off z) true 1) = true).
  { rewrite Eb. destruct (off_sign_cases (Model.DateTime.dz_off z)) as [[-> _]|[-> _]]; rewrite !utf8_valid_ascii by lia; reflexivity. }
  pose proof (dtz_ndt_seg yu ou z _ Hv Hvt) as S. destruct (renders_offsets yu ou z Hv) as (R1 & _ & _).
  split.
  - unfold DTZ_CC_FMT. rewrite (write_items_app _ _ _ [_] [_] (proj1 S) (Forall2_cons _ _ R1 (Forall2_nil _))).
    cbn [concat]. rewrite app_nil_r. reflexivity.
  - destruct (dtz_resolve yu ou z Hv) as (p & Hrun & _ & _ & Hset & Hres).
    exists (pput F_offset (Some (Model.DateTime.dz_off z)) p). split; [exact Hres|].
    unfold parse_and_remainder, parse_internal, DTZ_CC_FMT. rewrite parse_items_app.
    rewrite (seg_parse_tail _ _ _ _ _ parse_rfc3339_relaxed parsed_new S). rewrite Hrun. cbn [pbind bind pok].
    cbn [parse_items parse_item parse_fixed]. rewrite Eb.
    change [Proofs.C12.off_sign (Model.DateTime.dz_off z); 48 + off_h (Model.DateTime.dz_off z) / 10; 48 + off_h (Model.DateTime.dz_off z) mod 10; 58;
            48 + off_m (Model.DateTime.dz_off z) / 10; 48 + off_m (Model.DateTime.dz_off z) mod 10; 58; 48; 48]
      with ([Proofs.C12.off_sign (Model.DateTime.dz_off z); 48 + off_h (Model.DateTime.dz_off z) / 10; 48 + off_h (Model.DateTime.dz_off z) mod 10; 58;
            48 + off_m (Model.DateTime.dz_off z) / 10; 48 + off_m (Model.DateTime.dz_off z) mod 10; 58; 48; 48] ++ []).
    rewrite double_colon_offset_leaves_seconds; try reflexivity; unfold is_ascii_digit; try lia.
    2:{ destruct (off_sign_cases (Model.DateTime.dz_off z)) as [[-> _]|[-> _]]; [left|right]; reflexivity. }
    rewrite (off_value_printed _ Ho Hm).
    change (setq (set_offset p (Model.DateTime.dz_off z))) with (set_by_code 21 p (Model.DateTime.dz_off z)).
    rewrite Hset. reflexivity.
Qed.

Theorem dtz_double_colon_refused yu ou z : valid_dtz yu ou z ->
  exists a text,
    Model.Format.fa_of_dtz z = Val a /\
    Model.Format.write_items a DTZ_CC_FMT [] = Model.Format.fok text /\
    parse parsed_new text DTZ_CC_FMT = perr_ Scan.TooLong /\
    (let+ '(p, r) := parse_and_remainder parsed_new text DTZ_CC_FMT in
     let+ d := pr_of (to_datetime p) in pok (d, r)) = pok (trunc_dtz z, [58; 48; 48]).
Proof.
  intros Hv. destruct (dtz_fa_ok yu ou z Hv) as (Ha & _). destruct (dtz_cc_scan yu ou z Hv) as (Hw & p & Hres & Hp).
  exists (dtz_fa yu ou z). eexists. split; [exact Ha|]. split; [exact Hw|]. split.
  - rewrite (parse_of_remainder _ _ _ _ Hp). reflexivity.
  - rewrite Hp. cbn [pbind bind pok]. unfold pr_of. rewrite Hres. reflexivity.
Qed.

(** "%Y-%m-%dT%H:%M:%S%:::z": TooShort for every value, also through parse_and_remainder *)
Theorem dtz_triple_colon_refused yu ou z : valid_dtz yu ou z ->
  exists a text,
    Model.Format.fa_of_dtz z = Val a /\
    Model.Format.write_items a DTZ_CCC_FMT [] = Model.Format.fok text /\
    parse parsed_new text DTZ_CCC_FMT = perr_ Scan.TooShort /\
    parse_and_remainder parsed_new text DTZ_CCC_FMT = perr_ Scan.TooShort.
Proof.
  intros Hv. destruct (dtz_fa_ok yu ou z Hv) as (Ha & _). pose proof Hv as (_ & _ & Ho & Hm & _).
  destruct (offset_text_bytes _ Ho Hm) as (_ & _ & Eb).
  destruct (off_hm _ Ho Hm) as (HH & HM & _).
  assert (Hvt : utf8_valid (offset_text (Model.DateTime.dz_off z) false 2) = true).
  { rewrite Eb. destruct (off_sign_cases (Model.DateTime.dz_off z)) as [[-> _]|[-> _]]; rewrite !utf8_valid_ascii by lia; reflexivity. }
  pose proof (dtz_ndt_seg yu ou z _ Hv Hvt) as S. destruct (renders_offsets yu ou z Hv) as (_ & R2 & _).
  destruct (dtz_resolve yu ou z Hv) as (p & Hrun & _).
  assert (Hp : parse_and_remainder parsed_new (concat (ndt_texts yu ou z) ++ offset_text (Model.DateTime.dz_off z) false 2) DTZ_CCC_FMT
               = perr_ Scan.TooShort).
  { unfold parse_and_remainder, parse_internal, DTZ_CCC_FMT. rewrite parse_items_app.
    rewrite (seg_parse_tail _ _ _ _ _ parse_rfc3339_relaxed parsed_new S). rewrite Hrun. cbn [pbind bind pok].
    cbn [parse_items parse_item parse_fixed]. rewrite Eb.
    rewrite triple_colon_offset_refused; try reflexivity; unfold is_ascii_digit; try lia.
    destruct (off_sign_cases (Model.DateTime.dz_off z)) as [[-> _]|[-> _]]; [left|right]; reflexivity. }
  exists (dtz_fa yu ou z). eexists. split; [exact Ha|]. split.
  - unfold DTZ_CCC_FMT. rewrite (write_items_app _ _ _ [_] [_] (proj1 S) (Forall2_cons _ _ R2 (Forall2_nil _))).
    cbn [concat]. rewrite app_nil_r. reflexivity.
  - split; [|exact Hp]. rewrite (parse_of_remainder _ _ _ _ Hp). reflexivity.
Qed.

(** * 5. "%Z": the offset's name is printed, the reader skips it *)
Definition NAME_TAIL : list Item := [Space [32]; IFixed F_TimezoneName].
Definition DTZ_NAME_FMT (colon : bool) : list Item := DTZ_FMT colon ++ NAME_TAIL.
Definition NDT_NAME_FMT : list Item := NDT_T_FMT ++ NAME_TAIL.

Lemma name_word off : -86400 < off < 86400 -> off mod 60 = 0 ->
  Forall (fun c => 0 <= c <= 127 /\ is_whitespace c = false) (offset_text off true 0).
Proof.
  intros Ho Hm. destruct (offset_text_bytes _ Ho Hm) as (Eb & _). destruct (off_hm _ Ho Hm) as (HH & HM & _).
  rewrite Eb. destruct (off_sign_cases off) as [[-> _]|[-> _]]; repeat constructor; unfold is_whitespace; lia.
Qed.

Lemma name_tail_skipped relaxed p off : -86400 < off < 86400 -> off mod 60 = 0 ->
  parse_items relaxed p (32 :: offset_text off true 0) NAME_TAIL = pok (p, []).
Proof.
  intros Ho Hm. pose proof (name_word off Ho Hm) as Hw. unfold NAME_TAIL. cbn [parse_items].
  assert (Hsp : parse_item relaxed p ([32] ++ offset_text off true 0) (Space [32]) = pok (p, offset_text off true 0)).
  { apply parse_space_inverse.
    - constructor; [|constructor]. split; [lia|reflexivity].
    - destruct (offset_text_bytes _ Ho Hm) as (Eb & _). rewrite Eb. apply first_cp_byte_not_ws.
      destruct (off_sign_cases off) as [[-> _]|[-> _]]; lia. }
  cbn [app] in Hsp. rewrite Hsp. cbn [pbind bind pok].
  pose proof (timezone_name_skips relaxed p (offset_text off true 0) [] Hw I) as Hn. rewrite app_nil_r in Hn.
  rewrite Hn. reflexivity.
Qed.

Lemma name_tail_valid off : -86400 < off < 86400 -> off mod 60 = 0 -> utf8_valid (32 :: offset_text off true 0) = true.
Proof.
  intros Ho Hm. rewrite <- (app_nil_r (32 :: offset_text off true 0)).
  rewrite utf8_valid_app_ascii; [reflexivity|]. change (32 :: offset_text off true 0) with ([32] ++ offset_text off true 0).
  apply ascii_app; [apply ascii1; lia|].
  pose proof (name_word off Ho Hm) as Hw. induction Hw as [|c r [Hc _] _ IH]; constructor; assumption.
Qed.

Lemma renders_name_tail yu ou z : valid_dtz yu ou z ->
  Forall2 (renders (dtz_fa yu ou z)) NAME_TAIL [[32]; offset_text (Model.DateTime.dz_off z) true 0].
Proof.
  intros Hv. destruct (renders_offsets yu ou z Hv) as (_ & _ & R3).
  constructor; [reflexivity|]. constructor; [exact R3|constructor].
Qed.

(* next to %z / %:z the value comes back *)
Theorem dtz_name_roundtrip yu ou z colon : valid_dtz yu ou z ->
  exists a text,
    Model.Format.fa_of_dtz z = Val a /\
    Model.Format.write_items a (DTZ_NAME_FMT colon) [] = Model.Format.fok text /\
    (let+ p := parse parsed_new text (DTZ_NAME_FMT colon) in pr_of (to_datetime p)) = pok (trunc_dtz z).
Proof.
  intros Hv. destruct (dtz_fa_ok yu ou z Hv) as (Ha & _). pose proof Hv as (_ & _ & Ho & Hm & _).
  set (off := Model.DateTime.dz_off z) in *. set (a := dtz_fa yu ou z).
  pose proof (name_tail_valid off Ho Hm) as Hvt.
  assert (S2 : seg_ok a [IFixed (off_item colon)] [offset_text off colon 0] [W_code 21 off] (32 :: offset_text off true 0)).
  { apply (seg_cons _ _ _ _ _ _ _ _ (seg_nil a _ Hvt)).
    apply (item_offset a colon (offset_text off true 0) off _); [reflexivity|exact Ho|exact Hm|exact Hvt]. }
  pose proof (dtz_ndt_seg yu ou z _ Hv (seg_valid _ _ _ _ _ S2)) as S1.
  pose proof (seg_app a _ _ _ _ _ _ _ S2 S1) as S.
  destruct (dtz_resolve yu ou z Hv) as (p & Hrun & _ & _ & Hset & Hres).
  exists a. eexists. split; [exact Ha|]. split.
  - unfold DTZ_NAME_FMT. change (DTZ_FMT colon) with (NDT_T_FMT ++ [IFixed (off_item colon)]).
    exact (write_items_app _ _ _ _ _ (proj1 S) (renders_name_tail yu ou z Hv)).
  - unfold parse, parse_internal, DTZ_NAME_FMT. change (DTZ_FMT colon) with (NDT_T_FMT ++ [IFixed (off_item colon)]).
    rewrite parse_items_app. cbn [concat]. rewrite app_nil_r. fold off.
    change ([32] ++ offset_text off true 0) with (32 :: offset_text off true 0).
    rewrite (seg_parse_tail _ _ _ _ _ parse_rfc3339_relaxed parsed_new S).
    rewrite run_writes_app. rewrite Hrun. cbn [pbind bind pok run_writes eff_of].
    fold off in Hset, Hres. rewrite Hset. cbn [pbind bind pok].
    rewrite (name_tail_skipped _ _ off Ho Hm). cbn [parse_end pbind bind pok is_empty].
    unfold pr_of. rewrite Hres. reflexivity.
Qed.

(* alone the offset is lost: DateTime::parse_from_str fails with NotEnough for every value, the fields
   read are those of the wall clock (NaiveDateTime::parse_from_str on the same text returns it) *)
Theorem dtz_name_alone yu ou z : valid_dtz yu ou z ->
  exists a text,
    Model.Format.fa_of_dtz z = Val a /\
    Model.Format.write_items a NDT_NAME_FMT [] = Model.Format.fok text /\
    (let+ p := parse parsed_new text NDT_NAME_FMT in pr_of (to_datetime p)) = perr_ Scan.NotEnough /\
    (let+ p := parse parsed_new text NDT_NAME_FMT in pr_of (to_naive_datetime_with_offset p 0)) = pok (wall_trunc yu ou z).
Proof.
  intros Hv. destruct (dtz_fa_ok yu ou z Hv) as (Ha & _). pose proof Hv as (_ & _ & Ho & Hm & _).
  set (off := Model.DateTime.dz_off z) in *. set (a := dtz_fa yu ou z).
  pose proof (name_tail_valid off Ho Hm) as Hvt.
  pose proof (dtz_ndt_seg yu ou z _ Hv Hvt) as S.
  destruct (dtz_resolve yu ou z Hv) as (p & Hrun & Hne & Hnd & _).
  assert (Hp : parse parsed_new (concat (ndt_texts yu ou z) ++ concat [[32]; offset_text off true 0]) NDT_NAME_FMT = pok p).
  { unfold parse, parse_internal, NDT_NAME_FMT. rewrite parse_items_app.
    cbn [concat]. rewrite app_nil_r. fold off. change ([32] ++ offset_text off true 0) with (32 :: offset_text off true 0).
    rewrite (seg_parse_tail _ _ _ _ _ parse_rfc3339_relaxed parsed_new S). rewrite Hrun. cbn [pbind bind pok].
    rewrite (name_tail_skipped _ _ off Ho Hm). reflexivity. }
  exists a. eexists. split; [exact Ha|]. split.
  - unfold NDT_NAME_FMT. exact (write_items_app _ _ _ _ _ (proj1 S) (renders_name_tail yu ou z Hv)).
  - fold off. rewrite Hp. cbn [pbind bind pok]. unfold pr_of. rewrite Hne, Hnd. split; reflexivity.
Qed.

(** * 6. over the format strings, as DateTime::parse_from_str / parse_and_remainder drive them *)
Definition dtz_cc_format : bytes := [37; 89; 45; 37; 109; 45; 37; 100; 84; 37; 72; 58; 37; 77; 58; 37; 83; 37; 58; 58; 122].
Definition dtz_ccc_format : bytes := [37; 89; 45; 37; 109; 45; 37; 100; 84; 37; 72; 58; 37; 77; 58; 37; 83; 37; 58; 58; 58; 122].
Definition dtz_name_format (colon : bool) : bytes := dtz_format colon ++ [32; 37; 90].
Definition ndt_name_format : bytes := [37; 89; 45; 37; 109; 45; 37; 100; 84; 37; 72; 58; 37; 77; 58; 37; 83; 32; 37; 90].

Lemma offsets_format_items :
  (Model.Strftime.sf_take (S (Model.Strftime.sf_bound dtz_cc_format)) (Model.Strftime.sf_new dtz_cc_format) [] = Val (Some DTZ_CC_FMT) /\
   (List.length DTZ_CC_FMT < S (Model.Strftime.sf_bound dtz_cc_format))%nat) /\
  (Model.Strftime.sf_take (S (Model.Strftime.sf_bound dtz_ccc_format)) (Model.Strftime.sf_new dtz_ccc_format) [] = Val (Some DTZ_CCC_FMT) /\
   (List.length DTZ_CCC_FMT < S (Model.Strftime.sf_bound dtz_ccc_format))%nat) /\
  (forall colon, Model.Strftime.sf_take (S (Model.Strftime.sf_bound (dtz_name_format colon))) (Model.Strftime.sf_new (dtz_name_format colon)) []
                 = Val (Some (DTZ_NAME_FMT colon)) /\
   (List.length (DTZ_NAME_FMT colon) < S (Model.Strftime.sf_bound (dtz_name_format colon)))%nat) /\
  (Model.Strftime.sf_take (S (Model.Strftime.sf_bound ndt_name_format)) (Model.Strftime.sf_new ndt_name_format) [] = Val (Some NDT_NAME_FMT) /\
   (List.length NDT_NAME_FMT < S (Model.Strftime.sf_bound ndt_name_format))%nat).
Proof.
  split; [split; [vm_compute; reflexivity|cbn; lia]|].
  split; [split; [vm_compute; reflexivity|cbn; lia]|].
  split; [intros [|]; (split; [vm_compute; reflexivity|cbn; lia])|].
  split; [vm_compute; reflexivity|cbn; lia].
Qed.

Theorem dtz_double_colon_parse_from_str yu ou z : valid_dtz yu ou z ->
  exists a text,
    Model.Format.fa_of_dtz z = Val a /\
    Model.Format.delayed_display a (Model.Strftime.sf_new dtz_cc_format) = Model.Format.fok text /\
    dt_parse_from_str text dtz_cc_format = perr_ Scan.TooLong /\
    dt_parse_and_remainder text dtz_cc_format = pok (trunc_dtz z, [58; 48; 48]).
Proof.
  intros Hv. destruct (dtz_double_colon_refused yu ou z Hv) as (a & text & Ha & Hw & Hp & Hr).
  destruct offsets_format_items as ((Ht & Hl) & _).
  destruct (sf_lift _ _ a text Ht Hl Hw) as [Hd Hps].
  exists a, text. split; [exact Ha|]. split; [exact Hd|]. split.
  - unfold dt_parse_from_str. rewrite Hps, Hp. reflexivity.
  - unfold dt_parse_and_remainder. rewrite (sf_lift_rem _ _ _ _ Ht Hl). exact Hr.
Qed.

Theorem dtz_triple_colon_parse_from_str yu ou z : valid_dtz yu ou z ->
  exists a text,
    Model.Format.fa_of_dtz z = Val a /\
    Model.Format.delayed_display a (Model.Strftime.sf_new dtz_ccc_format) = Model.Format.fok text /\
    dt_parse_from_str text dtz_ccc_format = perr_ Scan.TooShort /\
    dt_parse_and_remainder text dtz_ccc_format = perr_ Scan.TooShort.
Proof.
  intros Hv. destruct (dtz_triple_colon_refused yu ou z Hv) as (a & text & Ha & Hw & Hp & Hr).
  destruct offsets_format_items as (_ & (Ht & Hl) & _).
  destruct (sf_lift _ _ a text Ht Hl Hw) as [Hd Hps].
  exists a, text. split; [exact Ha|]. split; [exact Hd|]. split.
  - unfold dt_parse_from_str. rewrite Hps, Hp. reflexivity.
  - unfold dt_parse_and_remainder. rewrite (sf_lift_rem _ _ _ _ Ht Hl). rewrite Hr. reflexivity.
Qed.

Theorem dtz_name_parse_from_str yu ou z colon : valid_dtz yu ou z ->
  exists a text,
    Model.Format.fa_of_dtz z = Val a /\
    Model.Format.delayed_display a (Model.Strftime.sf_new (dtz_name_format colon)) = Model.Format.fok text /\
    dt_parse_from_str text (dtz_name_format colon) = pok (trunc_dtz z).
Proof.
  intros Hv. destruct (dtz_name_roundtrip yu ou z colon Hv) as (a & text & Ha & Hw & Hp).
  destruct offsets_format_items as (_ & _ & H3 & _). destruct (H3 colon) as [Ht Hl].
  destruct (sf_lift _ _ a text Ht Hl Hw) as [Hd Hps].
  exists a, text. split; [exact Ha|]. split; [exact Hd|]. unfold dt_parse_from_str. rewrite Hps. exact Hp.
Qed.

Theorem dtz_name_alone_parse_from_str yu ou z : valid_dtz yu ou z ->
  exists a text,
    Model.Format.fa_of_dtz z = Val a /\
    Model.Format.delayed_display a (Model.Strftime.sf_new ndt_name_format) = Model.Format.fok text /\
    dt_parse_from_str text ndt_name_format = perr_ Scan.NotEnough /\
    ndt_parse_from_str text ndt_name_format = pok (wall_trunc yu ou z).
Proof.
  intros Hv. destruct (dtz_name_alone yu ou z Hv) as (a & text & Ha & Hw & Hp & Hn).
  destruct offsets_format_items as (_ & _ & _ & (Ht & Hl)).
  destruct (sf_lift _ _ a text Ht Hl Hw) as [Hd Hps].
  exists a, text. split; [exact Ha|]. split; [exact Hd|]. split.
  - unfold dt_parse_from_str. rewrite Hps. exact Hp.
  - unfold ndt_parse_from_str. rewrite Hps. exact Hn.
Qed.

(** * 7. inhabited; and an offset with seconds: "%::z" prints them, the reader drops them -- the text of
    12:00:00+01:01:01 read back through parse_and_remainder is 12:00:01+01:01 with ":01" left over *)
Definition ex_z : Model.DateTime.dtz :=
  Model.DateTime.mk_dtz (Model.DateTime.mk_ndt (Proofs.C08Sweeps.mkdate 2016 366) (Model.Time.mk_time 86399 1500000000)) (-34200).
Definition ex_zs : Model.DateTime.dtz :=
  Model.DateTime.mk_dtz (Model.DateTime.mk_ndt (Proofs.C08Sweeps.mkdate 2015 181) (Model.Time.mk_time 43200 0)) 3661.
Definition ex_zs_text : bytes :=
  Eval vm_compute in
    match Model.Format.fa_of_dtz ex_zs with
    | Val a => match Model.Format.write_items a DTZ_CC_FMT [] with Val (Some t) => t | _ => [] end
    | _ => []
    end.

Example offsets_inhabited :
  valid_dtz 2016 366 ex_z /\
  Model.DateTime.dz_off ex_zs mod 60 <> 0 /\
  ex_zs_text = [50;48;49;53;45;48;54;45;51;48;84;49;51;58;48;49;58;48;49;43;48;49;58;48;49;58;48;49] /\
  dt_parse_from_str ex_zs_text dtz_cc_format = perr_ Scan.TooLong /\
  dt_parse_and_remainder ex_zs_text dtz_cc_format =
    pok (Model.DateTime.mk_dtz (Model.DateTime.mk_ndt (Proofs.C08Sweeps.mkdate 2015 181) (Model.Time.mk_time 43201 0)) 3660, [58; 48; 49]).
Proof.
  split; [exact dtz_roundtrip_inhabited|]. split; [vm_compute; discriminate|].
  split; [vm_compute; reflexivity|]. split; vm_compute; reflexivity.
Qed.
