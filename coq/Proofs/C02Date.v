(** C02 — the C01 facts assumed by Proofs/C02.v ([date_facts]) and Proofs/C02Holds.v ([C01_fields])
    are discharged here from the shared calendar lemma library (Proofs/Date.v and the C08 date-word
    lemmas it re-exports), which makes every C02 theorem unconditional. *)
From Coq Require Import String ZArith List Bool Lia ZifyBool.
From V Require Import Base.Int Base.IO Base.IntLemmas Spec.Gregorian Model.TimeDelta.
From V Require Model.Date Model.Time Judge.C02.
From V Require Import Model.DateTime Model.C02 Proofs.C02 Proofs.C02Holds.
From V Require Proofs.Date.
Import ListNotations.
Open Scope Z_scope.

(** a valid date of C02 is a represented (year, ordinal) pair of the library *)
Lemma valid_date_repr d : valid_date d -> exists y o, C08Sweeps.repr y o d.
Proof.
  intros (y & o & Hy & Ho & H). rewrite (C08Date.from_yo_opt_spec y o Hy Ho) in H.
  unfold C08Date.date_if in H. destruct (year_in_range y && valid_yo y o) eqn:E; [|discriminate].
  apply andb_prop in E. destruct E as [E1 E2]. injection H as <-. exists y, o. repeat split; assumption.
Qed.
Lemma repr_fields y o d : C08Sweeps.repr y o d ->
  Date.d_year d = y /\ Date.d_ordinal d = o /\ in_i32 y = true /\ in_u32 o = true /\
  Date.from_yo_opt y o = Val (Some d).
Proof.
  intros H. pose proof (C08Date.repr_acc y o d H) as A.
  destruct (md_of_ordinal (is_leap y) o) as [m dd]. destruct A as (A1 & A2 & _).
  destruct H as (Hy & Ho & Hd).
  pose proof (C08Date.year_range_bounds y Hy) as By.
  assert (Bo : 1 <= o <= 366) by (rewrite C08Date.valid_yo_iff in Ho; destruct (is_leap y); lia).
  assert (Iy : in_i32 y = true) by (unfold in_i32, in_range, i32_min, i32_max; lia).
  assert (Io : in_u32 o = true) by (unfold in_u32, in_range, u32_max; lia).
  repeat split; try assumption.
  rewrite (C08Date.from_yo_opt_spec y o Iy Io), Hy, Ho, Hd. reflexivity.
Qed.
Lemma repr_valid y o d : C08Sweeps.repr y o d -> valid_date d /\ date_dn d = dn_of_yo y o.
Proof.
  intros H. destruct (repr_fields y o d H) as (E1 & E2 & Iy & Io & Hf). split.
  - exists y, o. auto.
  - unfold date_dn. rewrite E1, E2. reflexivity.
Qed.

Theorem date_facts_hold : date_facts.
Proof.
  split; [|split].
  - intros n Hn. eexists. split; [apply Date.from_num_days_from_ce_opt_spec; exact Hn|].
    unfold C08Date.date_if. destruct (dn_in_range n) eqn:E.
    + pose proof (Date.date_of_dn_repr n E) as Hr. destruct (repr_valid _ _ _ Hr) as [Hv Hd].
      split; [exact Hv|]. rewrite Hd. exact (proj2 (C08Days.yo_of_dn_valid n)).
    + unfold dn_in_range in E. lia.
  - intros d Hv. destruct (valid_date_repr d Hv) as (y & o & Hr).
    destruct (repr_valid _ _ _ Hr) as [_ Hd]. rewrite Hd. split.
    + apply Date.num_days_from_ce_spec. exact Hr.
    + pose proof (Date.repr_dn_in_range y o d Hr) as E. unfold dn_in_range in E. lia.
  - intros d Hv. destruct (valid_date_repr d Hv) as (y & o & Hr).
    destruct (repr_valid _ _ _ Hr) as [_ Hd]. rewrite Hd. apply (Date.from_num_days_from_ce_opt_dn y o d Hr).
Qed.
Theorem fields_hold : C01_fields.
Proof.
  intros d Hv. destruct (valid_date_repr d Hv) as (y & o & Hr).
  destruct (repr_fields y o d Hr) as (E1 & E2 & Iy & Io & Hf). rewrite E1, E2.
  destruct Hr as (Hy & Ho & _). auto.
Qed.

Lemma calendar_facts : date_facts /\ C01_fields.
Proof. exact (conj date_facts_hold fields_hold). Qed.

(** ** the unconditional forms *)
Definition u_from_timestamp_spec := from_timestamp_spec date_facts_hold.
Definition u_from_timestamp_millis_spec := from_timestamp_millis_spec date_facts_hold.
Definition u_from_timestamp_micros_spec := from_timestamp_micros_spec date_facts_hold.
Definition u_from_timestamp_nanos_spec := from_timestamp_nanos_spec date_facts_hold.
Definition u_timestamp_spec := timestamp_spec date_facts_hold.
Definition u_timestamp_millis_val := timestamp_millis_val date_facts_hold.
Definition u_timestamp_micros_val := timestamp_micros_val date_facts_hold.
Definition u_timestamp_floor := timestamp_floor date_facts_hold.
Definition u_timestamp_millis_floor := timestamp_millis_floor date_facts_hold.
Definition u_timestamp_micros_floor := timestamp_micros_floor date_facts_hold.
Definition u_timestamp_nanos_opt_spec := timestamp_nanos_opt_spec date_facts_hold.
Definition u_timestamp_nanos_opt_leap59 := timestamp_nanos_opt_leap59 date_facts_hold.
Definition u_timestamp_nanos_spec := timestamp_nanos_spec date_facts_hold.
Definition u_roundtrip_secs := roundtrip_secs date_facts_hold.
Definition u_roundtrip_millis := roundtrip_millis date_facts_hold.
Definition u_roundtrip_micros := roundtrip_micros date_facts_hold.
Definition u_roundtrip_nanos := roundtrip_nanos date_facts_hold.
Definition u_back_secs := back_secs date_facts_hold.
Definition u_back_millis := back_millis date_facts_hold.
Definition u_back_micros := back_micros date_facts_hold.
Definition u_back_nanos := back_nanos date_facts_hold.
Definition u_instant_inj := instant_inj date_facts_hold.
Definition u_from_systime_spec := from_systime_spec date_facts_hold.
Definition u_systime_from_dt_spec := systime_from_dt_spec date_facts_hold.
Definition u_holds_from := holds_from date_facts_hold fields_hold.
Definition u_holds_fromms := holds_fromms date_facts_hold fields_hold.
Definition u_holds_fromus := holds_fromus date_facts_hold fields_hold.
Definition u_holds_fromns := holds_fromns date_facts_hold fields_hold.
Definition u_holds_of := holds_of date_facts_hold fields_hold.
