(** C17 — op-level facts used by the op->theorem table and by the judge-acceptance theorem:
    A. which model function answers each dispatcher op ([dispatch], [subsec_dispatch]);
    B. the two SubsecRound methods unfolded over ANY carrier whose nanosecond field is readable:
       the code moves by at most one span, by one + or one - of a duration below one second;
    C. nine or more digits (all of u16 from 9 up) return the value unchanged, for every carrier
       (NaiveTime, NaiveDateTime, DateTime<FixedOffset>), leap-second readings included, without any
       range condition, at the level of the model functions and of the dispatcher ops;
    D. one + / - of a duration below one second on NaiveTime / NaiveDateTime / DateTime<FixedOffset>,
       for every well-formed value INCLUDING leap-second readings (the theorems of C03 used by
       Proofs/C17Links.v exclude them). *)
From Coq Require Import ZArith List Bool Lia ZifyBool String.
From V Require Import Base.Int Base.IntLemmas Base.IO Spec.Gregorian Gen.Round Model.TimeDelta Model.DateTime Model.C17.
From V Require Model.Date Model.Time.
From V Require Proofs.C06 Proofs.C08Date Proofs.C03 Proofs.C17 Proofs.C17Links Judge.C17.
Import ListNotations.
Open Scope Z_scope.
Ltac Zify.zify_post_hook ::= Z.to_euclidean_division_equations.

Module P3 := V.Proofs.C03.
Module P17 := V.Proofs.C17.
Module L17 := V.Proofs.C17Links.
Notation sub_span := V.Judge.C17.sub_span.
Notation vdate := V.Proofs.C03.vdate.
Notation dnum := V.Proofs.C03.dn.
Notation time_ok := V.Proofs.C17.time_ok.
Notation valid := V.Proofs.C06.valid.
Notation ns := V.Proofs.C06.ns.

Ltac in_solve := unfold in_i32, in_u32, in_i64, in_u64, in_u16, in_range, i32_min, i32_max, u32_max, u16_max, i64_min, i64_max, u64_max in *; lia.

(** * A. dispatch *)
Definition sh_n_td (f : ndt -> td -> R (ndt + rerr)) (args : list val) : val :=
  match args with
  | [a; b] => match dec_ndt a, dec_td b with
              | Some x, Some d => val_of_R (enc_res enc_ndt) (f x d) | _, _ => VBad end
  | _ => VBad end.
Definition sh_z_td (f : dtz -> td -> R (dtz + rerr)) (args : list val) : val :=
  match args with
  | [a; b] => match dec_dtz a, dec_td b with
              | Some x, Some d => val_of_R (enc_res enc_dtz) (f x d) | _, _ => VBad end
  | _ => VBad end.

Theorem dispatch args :
  run (B"rd.trunc") args = sh_n_td ndt_duration_trunc args /\
  run (B"rd.round") args = sh_n_td ndt_duration_round args /\
  run (B"rd.up") args = sh_n_td ndt_duration_round_up args /\
  run (B"rd.ztrunc") args = sh_z_td dz_duration_trunc args /\
  run (B"rd.zround") args = sh_z_td dz_duration_round args /\
  run (B"rd.zup") args = sh_z_td dz_duration_round_up args /\
  run (B"rd.rsub") args = subsec_op (@round_subsecs) args /\
  run (B"rd.tsub") args = subsec_op (@trunc_subsecs) args.
Proof. repeat match goal with |- _ /\ _ => split end; reflexivity. Qed.

(* the three kinds of the sub-second ops; any other kind, a digit count outside u16 or another
   argument shape is BADARGS *)
Theorem subsec_dispatch (f : forall T, tl T -> T -> Z -> R T) v digits : in_u16 digits = true ->
  subsec_op f [VInt 1; v; VInt digits] =
    match Time.dec_time v with Some t => val_of_R Time.enc_time (f _ time_ops t digits) | None => VBad end /\
  subsec_op f [VInt 2; v; VInt digits] =
    match dec_ndt v with Some a => val_of_R enc_ndt (f _ ndt_ops a digits) | None => VBad end /\
  subsec_op f [VInt 3; v; VInt digits] =
    match dec_dtz v with Some a => val_of_R enc_dtz (f _ dz_ops a digits) | None => VBad end /\
  (forall kind, kind <> 1 -> kind <> 2 -> kind <> 3 -> subsec_op f [VInt kind; v; VInt digits] = VBad).
Proof.
  intros H. unfold subsec_op, arg_u16. rewrite H. repeat split; try reflexivity.
  intros kind H1 H2 H3. destruct (kind =? 1) eqn:E1; [lia|]. destruct (kind =? 2) eqn:E2; [lia|].
  destruct (kind =? 3) eqn:E3; [lia|]. reflexivity.
Qed.
Lemma subsec_bad_digits (f : forall T, tl T -> T -> Z -> R T) kind v digits : in_u16 digits = false ->
  subsec_op f [VInt kind; v; VInt digits] = VBad.
Proof. intros H. unfold subsec_op, arg_u16. rewrite H. reflexivity. Qed.

(** * B. the SubsecRound methods, unfolded *)
Lemma sub_span_bounds digits : 0 <= digits -> 0 < sub_span digits <= 1000000000.
Proof.
  intros Hd. destruct (P17.sub_span_divides digits Hd) as [Hp Hdiv]. split; [exact Hp|].
  apply Z.divide_pos_le; [unfold P17.GG; lia|exact Hdiv].
Qed.
Lemma nano_rem frac digits : 0 <= digits -> 0 <= frac <= u32_max ->
  rem_u32 frac (span_for_digits digits) = Val (frac mod sub_span digits).
Proof.
  intros Hd Hf. rewrite (P17.span_for_digits_spec digits Hd).
  apply P17.rem_u32_nonneg; [exact Hf|]. pose proof (sub_span_bounds digits Hd). lia.
Qed.

Lemma round_subsecs_unfold {T} (ops : tl T) x digits frac :
  0 <= digits -> tl_nanosecond ops x = Val frac -> 0 <= frac <= u32_max ->
  round_subsecs ops x digits =
    (if frac mod sub_span digits >? 0 then
       (if sub_span digits - frac mod sub_span digits <=? frac mod sub_span digits
        then tl_add ops x (mk_td 0 (sub_span digits - frac mod sub_span digits))
        else tl_sub ops x (mk_td 0 (frac mod sub_span digits)))
     else Val x).
Proof.
  intros Hd Hn Hf. unfold round_subsecs. rewrite Hn. cbn [bind]. rewrite (nano_rem frac digits Hd Hf). cbn [bind].
  rewrite (P17.span_for_digits_spec digits Hd).
  pose proof (sub_span_bounds digits Hd) as Hb.
  pose proof (Z.mod_pos_bound frac (sub_span digits) ltac:(lia)) as Hm.
  set (sp := sub_span digits) in *. set (d := frac mod sp) in *. clearbody d. clearbody sp.
  destruct (d >? 0) eqn:E; [|reflexivity].
  unfold sub_u32. rewrite chk_in by in_solve. cbn [bind].
  destruct (sp - d <=? d) eqn:E2.
  - rewrite P17.nanoseconds_lt_G by (unfold P17.GG; lia). reflexivity.
  - rewrite P17.nanoseconds_lt_G by (unfold P17.GG; lia). reflexivity.
Qed.
Lemma trunc_subsecs_unfold {T} (ops : tl T) x digits frac :
  0 <= digits -> tl_nanosecond ops x = Val frac -> 0 <= frac <= u32_max ->
  trunc_subsecs ops x digits =
    (if frac mod sub_span digits >? 0 then tl_sub ops x (mk_td 0 (frac mod sub_span digits)) else Val x).
Proof.
  intros Hd Hn Hf. unfold trunc_subsecs. rewrite Hn. cbn [bind]. rewrite (nano_rem frac digits Hd Hf). cbn [bind].
  pose proof (sub_span_bounds digits Hd) as Hb.
  pose proof (Z.mod_pos_bound frac (sub_span digits) ltac:(lia)) as Hm.
  set (sp := sub_span digits) in *. set (d := frac mod sp) in *. clearbody d. clearbody sp.
  destruct (d >? 0) eqn:E; [|reflexivity].
  rewrite P17.nanoseconds_lt_G by (unfold P17.GG; lia). reflexivity.
Qed.

(** * C. nine or more digits: unchanged *)
(* any carrier at all: only the nanosecond reader is consulted, + and - are never called *)
Theorem subsecs_ge9_generic {T} (ops : tl T) x digits frac :
  9 <= digits -> tl_nanosecond ops x = Val frac -> 0 <= frac <= u32_max ->
  round_subsecs ops x digits = Val x /\ trunc_subsecs ops x digits = Val x.
Proof.
  intros Hd Hn Hf. rewrite (round_subsecs_unfold ops x digits frac), (trunc_subsecs_unfold ops x digits frac) by (lia || assumption).
  rewrite P17.sub_span_ge9 by lia. rewrite Z.mod_1_r. split; reflexivity.
Qed.

(* well-formedness of the three carriers, leap-second readings allowed *)
Definition ndt_ok (a : ndt) : Prop := vdate (nd_date a) /\ time_ok (nd_time a).
Definition dtz_ok (z : dtz) : Prop := ndt_ok (dz_utc z) /\ L17.off_ok (dz_off z).

Lemma time_field_u32 t : time_ok t -> 0 <= Time.tfrac t <= u32_max.
Proof. intros [_ H]. unfold u32_max. lia. Qed.

(* DateTime<FixedOffset>::nanosecond reads the wall clock; an offset is whole seconds, the field is
   the one of the UTC reading, also inside a leap second and when the wall clock leaves the range *)
Lemma oao_any t off : time_ok t -> -86400 < off < 86400 ->
  exists t' k, Time.overflowing_add_offset t off = Val (t', k) /\ Time.tfrac t' = Time.tfrac t /\ -1 <= k <= 1.
Proof.
  intros [Hs Hf] Ho. unfold Time.overflowing_add_offset.
  rewrite as_i32_id by in_solve. unfold add_i32, chk.
  replace (in_i32 (Time.tsecs t + off)) with true by (symmetry; in_solve). cbn [bind].
  rewrite div_euclid_pos, rem_euclid_pos by lia. unfold chk.
  replace (in_i32 ((Time.tsecs t + off) / 86400)) with true by (symmetry; in_solve). cbn [bind].
  do 2 eexists. split; [reflexivity|]. cbn [Time.tfrac]. split; [reflexivity|lia].
Qed.
Lemma shift_total d k : vdate d -> exists d', shift_date_overflowing d k = Val d'.
Proof.
  intros Hd. unfold shift_date_overflowing. destruct (k =? -1) eqn:E1.
  - destruct (P3.pred_holds d Hd) as (r & -> & _). cbn [bind]. eexists; reflexivity.
  - destruct (k =? 1) eqn:E2.
    + destruct (P3.succ_holds d Hd) as (r & -> & _). cbn [bind]. eexists; reflexivity.
    + eexists; reflexivity.
Qed.
Lemma dz_nano_any z : dtz_ok z -> dz_nanosecond z = Val (Time.tfrac (nd_time (dz_utc z))).
Proof.
  intros [[Hd Ht] Ho]. unfold dz_nanosecond, overflowing_naive_local, ndt_overflowing_add_offset.
  destruct (oao_any _ _ Ht Ho) as (t' & k & E & Ef & _). rewrite E. cbn [bind].
  destruct (shift_total (nd_date (dz_utc z)) k Hd) as (d' & E2). rewrite E2. cbn [bind nd_time].
  unfold Time.nanosecond. rewrite Ef. reflexivity.
Qed.

Theorem subsecs_ge9_unchanged_all_kinds digits : 9 <= digits ->
  (forall t, time_ok t ->
     round_subsecs time_ops t digits = Val t /\ trunc_subsecs time_ops t digits = Val t) /\
  (forall a, time_ok (nd_time a) ->
     round_subsecs ndt_ops a digits = Val a /\ trunc_subsecs ndt_ops a digits = Val a) /\
  (forall z, dtz_ok z ->
     round_subsecs dz_ops z digits = Val z /\ trunc_subsecs dz_ops z digits = Val z).
Proof.
  intros Hd. split; [|split].
  - intros t Ht. apply (subsecs_ge9_generic time_ops t digits (Time.tfrac t) Hd); [reflexivity|exact (time_field_u32 t Ht)].
  - intros a Ht. apply (subsecs_ge9_generic ndt_ops a digits (Time.tfrac (nd_time a)) Hd); [reflexivity|exact (time_field_u32 _ Ht)].
  - intros z Hz. apply (subsecs_ge9_generic dz_ops z digits (Time.tfrac (nd_time (dz_utc z))) Hd);
      [exact (dz_nano_any z Hz)|]. destruct Hz as [[_ Ht] _]. exact (time_field_u32 _ Ht).
Qed.

(** decoded arguments are well-formed and encode back to the argument *)
Lemma dec_time_ok v t : Time.dec_time v = Some t -> time_ok t /\ Time.enc_time t = v.
Proof.
  unfold Time.dec_time. destruct v as [| | | |l| | | |]; try discriminate.
  destruct l as [|[s| | | | | | | |] l]; try discriminate.
  destruct l as [|[f| | | | | | | |] l]; try discriminate.
  destruct l; try discriminate.
  destruct ((0 <=? s) && (s <? 86400) && (0 <=? f) && (f <? 2000000000)) eqn:E; [|discriminate].
  intros [= <-]. split; [|reflexivity]. unfold P17.time_ok. cbn [Time.tsecs Time.tfrac]. lia.
Qed.
Lemma dec_date_some y o d : dec_date (VTup [VInt y; VInt o]) = Some d ->
  vdate d /\ Date.d_year d = y /\ Date.d_ordinal d = o.
Proof.
  unfold dec_date. destruct (in_i32 y && in_u32 o) eqn:E; [|discriminate].
  apply andb_prop in E. destruct E as [Ey Eo].
  destruct (Date.from_yo_opt y o) as [[d'|]| |] eqn:F; try discriminate. intros [= <-].
  pose proof (V.Proofs.C08Date.from_yo_opt_spec y o Ey Eo) as S. rewrite F in S.
  destruct (year_in_range y && valid_yo y o) eqn:R; cbn [V.Proofs.C08Date.date_if] in S; [|discriminate].
  apply andb_prop in R. destruct R as [Ry Ro].
  pose proof (V.Proofs.C08Date.repr_mk y o Ry Ro) as Rp. injection S as S. rewrite <- S in Rp.
  destruct (P3.repr_vdate _ _ _ Rp) as [V D].
  pose proof (V.Proofs.C08Date.repr_acc y o _ Rp) as A. destruct (md_of_ordinal (is_leap y) o).
  destruct A as (A1 & A2 & _). split; [exact V|]. split; assumption.
Qed.

(** * D. one + / - of a duration below one second, leap-second readings included *)
Definition GG := 1000000000.
(* the end of the second a nanosecond field lies in: 10^9, or 2*10^9 inside a leap second *)
Definition lim_of (field : Z) : Z := if GG <=? field then 2 * GG else GG.

Ltac casts := repeat first
  [ rewrite as_i32_id by in_solve | rewrite as_u32_id by in_solve
  | rewrite as_i64_id by in_solve | rewrite as_u64_id by in_solve ].
Ltac dif := match goal with |- context [if ?c then _ else _] => destruct c eqn:? end.
Ltac crunch :=
  cbv beta iota zeta delta [bind fst snd Time.tsecs Time.tfrac secs nanos rmap chk
    num_seconds subsec_nanos rem_euclid sub_i32 add_i32 add_i64 sub_i64 neg_i64 NPS Gen.TimeDelta.TD_NANOS_PER_SEC];
  repeat (dif; cbv beta iota zeta delta [bind fst snd Time.tsecs Time.tfrac secs nanos]; try in_solve).

(* NaiveTime::overflowing_add_signed, 0 < n < 10^9: within the second, or into the next one (out of
   a leap second: into the next ordinary second), with the whole-day remainder *)
Lemma oas_small t n : time_ok t -> 0 < n < GG ->
  Time.overflowing_add_signed t (mk_td 0 n) = Val (
    if lim_of (Time.tfrac t) <=? Time.tfrac t + n
    then (Time.mk_time ((Time.tsecs t + 1) mod 86400) (Time.tfrac t + n - lim_of (Time.tfrac t)),
          if Time.tsecs t + 1 =? 86400 then 86400 else 0)
    else (Time.mk_time (Time.tsecs t) (Time.tfrac t + n), 0)).
Proof.
  intros [Hs Hf] Hn. unfold lim_of, GG in *. destruct t as [ts tf]. cbn [Time.tsecs Time.tfrac] in *.
  unfold Time.overflowing_add_signed. cbn [Time.tsecs Time.tfrac secs nanos]. casts.
  destruct (1000000000 <=? tf) eqn:EL;
  crunch; casts; try in_solve.
  all: change (Z.abs 86400) with 86400 in *.
  all: try (f_equal; f_equal; [f_equal; lia|lia]).
  all: try (f_equal; f_equal; lia).
  all: change (0 <? 86400) with true in *; cbv iota in *; try in_solve.
Qed.

(* NaiveTime::overflowing_sub_signed, 0 < n <= the fraction within the second: stays in the second *)
Lemma osub_small t n : time_ok t -> 0 < n < GG -> n <= Time.tfrac t mod GG ->
  Time.overflowing_sub_signed t (mk_td 0 n) = Val (Time.mk_time (Time.tsecs t) (Time.tfrac t - n), 0).
Proof.
  intros [Hs Hf] Hn Hle. unfold Time.overflowing_sub_signed. rewrite P17.td_neg_small by exact Hn.
  unfold GG, P17.GG in *. destruct t as [ts tf]. cbn [Time.tsecs Time.tfrac bind] in *.
  unfold Time.overflowing_add_signed. cbn [Time.tsecs Time.tfrac secs nanos]. casts.
  crunch; casts; try in_solve.
  all: change (Z.abs 86400) with 86400 in *.
  all: try (f_equal; f_equal; [f_equal; lia|lia]).
  all: try (f_equal; f_equal; lia).
  all: try (f_equal; f_equal; f_equal; lia).
  all: change (0 <? 86400) with true in *; cbv iota in *; try in_solve.
Qed.

(* the date part of NaiveDateTime +- : a remainder of 0 or 1 whole day *)
Lemma date_step_add d t' k : vdate d -> 0 <= k <= 1 ->
  exists r, (match try_seconds (86400 * k) with
             | None => Val None
             | Some rem => let? date := Date.checked_add_signed d rem in Val (Some (mk_ndt date t'))
             end) = Val r /\
    match r with
    | Some b => nd_time b = t' /\ vdate (nd_date b) /\ dnum (nd_date b) = dnum d + k
    | None => dn_in_range (dnum d + k) = false
    end.
Proof.
  intros Hd Hk. pose proof (V.Proofs.C06.try_seconds_spec (86400 * k) ltac:(in_solve)) as TS.
  destruct (try_seconds (86400 * k)) as [rem|].
  - destruct TS as [N V]. destruct (P3.date_add_signed_trunc_u d rem Hd V) as (r & E & R).
    unfold obind. rewrite E. cbn [bind]. rewrite N in R.
    replace (Z.quot (86400 * k * V.Proofs.C06.G) P3.DAYNS) with k in R by (unfold V.Proofs.C06.G, P3.DAYNS; lia).
    destruct r as [date|]; cbn [P3.date_res] in R; eexists; (split; [reflexivity|]).
    + cbn [nd_time nd_date]. tauto.
    + exact R.
  - exfalso. apply TS. unfold V.Proofs.C06.in_rng, V.Proofs.C06.RMIN, V.Proofs.C06.RMAX, V.Proofs.C06.G. lia.
Qed.
Lemma date_step_sub0 d t' : vdate d ->
  exists b, (match try_seconds 0 with
             | None => Val None
             | Some rem => let? date := Date.checked_sub_signed d rem in Val (Some (mk_ndt date t'))
             end) = Val (Some b) /\ nd_time b = t' /\ vdate (nd_date b) /\ dnum (nd_date b) = dnum d.
Proof.
  intros Hd. pose proof (V.Proofs.C06.try_seconds_spec 0 ltac:(in_solve)) as TS.
  pose proof (P3.vdate_range d Hd) as Rg.
  destruct (try_seconds 0) as [rem|].
  - destruct TS as [N V]. destruct (P3.date_sub_signed_trunc_u d rem Hd V) as (r & E & R).
    unfold obind. rewrite E. cbn [bind]. rewrite N in R. change (Z.quot (0 * V.Proofs.C06.G) P3.DAYNS) with 0 in R.
    destruct r as [date|]; cbn [P3.date_res] in R.
    + eexists. split; [reflexivity|]. cbn [nd_time nd_date]. split; [reflexivity|]. split; [tauto|lia].
    + exfalso. unfold dn_in_range in R. lia.
  - exfalso. apply TS. unfold V.Proofs.C06.in_rng, V.Proofs.C06.RMIN, V.Proofs.C06.RMAX, V.Proofs.C06.G. lia.
Qed.

(* NaiveDateTime + n ns, 0 < n < 10^9 *)
Lemma ndt_add_small a n : ndt_ok a -> 0 < n < GG ->
  let t := nd_time a in
  let carry := lim_of (Time.tfrac t) <=? Time.tfrac t + n in
  let k := if carry && (Time.tsecs t + 1 =? 86400) then 1 else 0 in
  exists r, ndt_checked_add_signed a (mk_td 0 n) = Val r /\
    match r with
    | Some b =>
        nd_time b = (if carry then Time.mk_time ((Time.tsecs t + 1) mod 86400) (Time.tfrac t + n - lim_of (Time.tfrac t))
                     else Time.mk_time (Time.tsecs t) (Time.tfrac t + n)) /\
        vdate (nd_date b) /\ dnum (nd_date b) = dnum (nd_date a) + k
    | None => dn_in_range (dnum (nd_date a) + k) = false
    end.
Proof.
  intros [Hd Ht] Hn. cbv zeta. unfold ndt_checked_add_signed. rewrite (oas_small _ n Ht Hn).
  destruct (lim_of (Time.tfrac (nd_time a)) <=? Time.tfrac (nd_time a) + n) eqn:EC; cbn [bind andb].
  - destruct (Time.tsecs (nd_time a) + 1 =? 86400) eqn:E86.
    + exact (date_step_add (nd_date a) _ 1 Hd ltac:(lia)).
    + exact (date_step_add (nd_date a) _ 0 Hd ltac:(lia)).
  - exact (date_step_add (nd_date a) _ 0 Hd ltac:(lia)).
Qed.
(* NaiveDateTime - n ns, 0 < n <= the fraction within the second *)
Lemma ndt_sub_small a n : ndt_ok a -> 0 < n < GG -> n <= Time.tfrac (nd_time a) mod GG ->
  exists b, ndt_checked_sub_signed a (mk_td 0 n) = Val (Some b) /\
    nd_time b = Time.mk_time (Time.tsecs (nd_time a)) (Time.tfrac (nd_time a) - n) /\
    vdate (nd_date b) /\ dnum (nd_date b) = dnum (nd_date a).
Proof.
  intros [Hd Ht] Hn Hle. unfold ndt_checked_sub_signed. rewrite (osub_small _ n Ht Hn Hle). cbn [bind].
  exact (date_step_sub0 (nd_date a) _ Hd).
Qed.
