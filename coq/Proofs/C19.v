(** C19 — proofs about the model of Weekday, Month and WeekdaySet (Model/C19.v, Model/ScanNames.v).
    Finite parts are complete enumerations under [vm_compute] lifted with Base.Lift; the integer
    conversions are proved for every integer by case analysis on the comparisons of the generated
    tables + [lia]; text parsing is proved for every UTF-8 byte string by generic lemmas about the
    two-stage scanner whose table side conditions are discharged by computation. *)
From Coq Require Import ZArith List Bool Lia ZifyBool String.
From V Require Import Base.Int Base.IntLemmas Base.IO Base.Lift Gen.NameTables Gen.WdMo Model.ScanNames Model.C19.
Import ListNotations.
Open Scope Z_scope.
Ltac Zify.zify_post_hook ::= Z.to_euclidean_division_equations.

(** * Values *)
Definition wd (w : Z) : Prop := 0 <= w < 7.      (* a Weekday (discriminant, Mon = 0) *)
Definition mo (m : Z) : Prop := 0 <= m < 12.     (* a Month (discriminant, January = 0) *)

Lemma is_weekday_iff w : is_weekday w = true <-> wd w.
Proof.
  unfold wd, is_weekday. cbn [existsb WD_ALL]. lia.
Qed.
Lemma is_month_iff m : is_month m = true <-> mo m.
Proof.
  unfold mo, is_month. cbn [existsb MO_ALL]. lia.
Qed.

(* R-valued function iteration *)
Fixpoint iterR (n : nat) (f : Z -> R Z) (x : Z) : R Z :=
  match n with O => Val x | S k => let* y := f x in iterR k f y end.

Definition R_eqb (a : R Z) (b : Z) : bool := match a with Val x => x =? b | _ => false end.
Lemma R_eqb_spec a b : R_eqb a b = true -> a = Val b.
Proof. destruct a; cbn; try discriminate. intros H. f_equal. lia. Qed.

Ltac sweep1 H := (* goal: forall w, lo <= w < hi -> P w, where H : forall_range f lo n = true *)
  let w := fresh "w" in let Hw := fresh "Hw" in
  intros w Hw; pose proof (forall_range_spec _ _ _ H w ltac:(lia)) as HH; cbv beta in HH.

(** * Weekday: 7-cycle and numbering *)
Definition wd_laws_b (w : Z) : bool :=
  R_eqb (wd_succ w) ((w + 1) mod 7) && R_eqb (wd_pred w) ((w - 1) mod 7)
  && R_eqb (wd_number_from_monday w) (w + 1) && R_eqb (wd_num_days_from_monday w) w
  && R_eqb (wd_number_from_sunday w) ((w + 1) mod 7 + 1) && R_eqb (wd_num_days_from_sunday w) ((w + 1) mod 7).
Lemma wd_laws_sweep : forall_range wd_laws_b 0 7 = true.
Proof. vm_compute. reflexivity. Qed.

Lemma wd_succ_spec w : wd w -> wd_succ w = Val ((w + 1) mod 7).
Proof.
  intros Hw. pose proof (forall_range_spec _ _ _ wd_laws_sweep w ltac:(unfold wd in Hw; lia)) as H.
  unfold wd_laws_b in H. repeat (apply andb_prop in H; destruct H as [H ?]). now apply R_eqb_spec.
Qed.
Lemma wd_pred_spec w : wd w -> wd_pred w = Val ((w - 1) mod 7).
Proof.
  intros Hw. pose proof (forall_range_spec _ _ _ wd_laws_sweep w ltac:(unfold wd in Hw; lia)) as H.
  unfold wd_laws_b in H. repeat (apply andb_prop in H; destruct H as [H ?]). now apply R_eqb_spec.
Qed.
Lemma wd_numbering_spec w : wd w ->
  wd_number_from_monday w = Val (w + 1) /\ wd_num_days_from_monday w = Val w /\
  wd_number_from_sunday w = Val ((w + 1) mod 7 + 1) /\ wd_num_days_from_sunday w = Val ((w + 1) mod 7).
Proof.
  intros Hw. pose proof (forall_range_spec _ _ _ wd_laws_sweep w ltac:(unfold wd in Hw; lia)) as H.
  unfold wd_laws_b in H. repeat (apply andb_prop in H; destruct H as [H ?]).
  repeat split; now apply R_eqb_spec.
Qed.

Lemma wd_mod w k : wd ((w + k) mod 7).
Proof. unfold wd. pose proof (Z.mod_pos_bound (w + k) 7 ltac:(lia)). lia. Qed.

(* succ^k is +k: the orbit of every weekday under succ is the whole 7-cycle *)
Lemma wd_succ_iter : forall k w, wd w -> iterR k wd_succ w = Val ((w + Z.of_nat k) mod 7).
Proof.
  induction k as [|k IH]; intros w Hw.
  - cbn [iterR]. f_equal. unfold wd in Hw. lia.
  - cbn [iterR]. rewrite (wd_succ_spec w Hw). cbv [bind]. rewrite IH by apply wd_mod.
    f_equal. lia.
Qed.
Lemma wd_pred_iter : forall k w, wd w -> iterR k wd_pred w = Val ((w - Z.of_nat k) mod 7).
Proof.
  induction k as [|k IH]; intros w Hw.
  - cbn [iterR]. f_equal. unfold wd in Hw. lia.
  - cbn [iterR]. rewrite (wd_pred_spec w Hw). cbv [bind].
    replace (w - 1) with (w + (-1)) by lia. rewrite IH by apply wd_mod.
    f_equal. lia.
Qed.
Lemma wd_cycle7 w : wd w ->
  iterR 7 wd_succ w = Val w /\ iterR 7 wd_pred w = Val w /\
  (forall k, (0 < k < 7)%nat -> iterR k wd_succ w <> Val w /\ iterR k wd_pred w <> Val w) /\
  (let* s := wd_succ w in wd_pred s) = Val w /\ (let* p := wd_pred w in wd_succ p) = Val w.
Proof.
  intros Hw. unfold wd in Hw. repeat split.
  - rewrite wd_succ_iter by exact Hw. f_equal. lia.
  - rewrite wd_pred_iter by exact Hw. f_equal. lia.
  - rewrite wd_succ_iter by exact Hw. intros E. injection E as E. lia.
  - rewrite wd_pred_iter by exact Hw. intros E. injection E as E. lia.
  - rewrite (wd_succ_spec w) by exact Hw. cbv [bind]. rewrite wd_pred_spec by apply wd_mod. f_equal. lia.
  - rewrite (wd_pred_spec w) by exact Hw. cbv [bind]. replace (w - 1) with (w + -1) by lia.
    rewrite wd_succ_spec by apply wd_mod. f_equal. lia.
Qed.

Definition wd_since_b (a b : Z) : bool := R_eqb (wd_days_since a b) ((a - b) mod 7).
Lemma wd_since_sweep : forall_range2 wd_since_b 0 7 0 7 = true.
Proof. vm_compute. reflexivity. Qed.
Lemma wd_days_since_spec a b : wd a -> wd b -> wd_days_since a b = Val ((a - b) mod 7).
Proof.
  unfold wd. intros Ha Hb. apply R_eqb_spec.
  exact (forall_range2_spec _ _ _ _ _ wd_since_sweep a b ltac:(lia) ltac:(lia)).
Qed.
(* days_since is the inverse of repeated succ: a = succ^(a since b) b, and (succ^k b) since b = k *)
Lemma wd_since_succ a b : wd a -> wd b ->
  exists d, wd_days_since a b = Val d /\ 0 <= d < 7 /\ iterR (Z.to_nat d) wd_succ b = Val a.
Proof.
  intros Ha Hb. exists ((a - b) mod 7). split; [apply wd_days_since_spec; assumption|].
  pose proof (Z.mod_pos_bound (a - b) 7 ltac:(lia)) as Hd. split; [lia|].
  rewrite wd_succ_iter by exact Hb. f_equal. rewrite Z2Nat.id by lia. unfold wd in Ha, Hb. lia.
Qed.
Lemma wd_succ_since b k : wd b -> (k < 7)%nat ->
  (let* a := iterR k wd_succ b in wd_days_since a b) = Val (Z.of_nat k).
Proof.
  intros Hb Hk. rewrite wd_succ_iter by exact Hb. cbv [bind].
  rewrite wd_days_since_spec by (try apply wd_mod; assumption).
  f_equal. unfold wd in Hb. lia.
Qed.

(** * Month: 12-cycle and numbering *)
Definition mo_laws_b (m : Z) : bool :=
  R_eqb (mo_succ m) ((m + 1) mod 12) && R_eqb (mo_pred m) ((m - 1) mod 12)
  && R_eqb (mo_number_from_month m) (m + 1).
Lemma mo_laws_sweep : forall_range mo_laws_b 0 12 = true.
Proof. vm_compute. reflexivity. Qed.
Lemma mo_succ_spec m : mo m -> mo_succ m = Val ((m + 1) mod 12).
Proof.
  intros Hw. pose proof (forall_range_spec _ _ _ mo_laws_sweep m ltac:(unfold mo in Hw; lia)) as H.
  unfold mo_laws_b in H. repeat (apply andb_prop in H; destruct H as [H ?]). now apply R_eqb_spec.
Qed.
Lemma mo_pred_spec m : mo m -> mo_pred m = Val ((m - 1) mod 12).
Proof.
  intros Hw. pose proof (forall_range_spec _ _ _ mo_laws_sweep m ltac:(unfold mo in Hw; lia)) as H.
  unfold mo_laws_b in H. repeat (apply andb_prop in H; destruct H as [H ?]). now apply R_eqb_spec.
Qed.
Lemma mo_number_spec m : mo m -> mo_number_from_month m = Val (m + 1).
Proof.
  intros Hw. pose proof (forall_range_spec _ _ _ mo_laws_sweep m ltac:(unfold mo in Hw; lia)) as H.
  unfold mo_laws_b in H. repeat (apply andb_prop in H; destruct H as [H ?]). now apply R_eqb_spec.
Qed.
Lemma mo_mod m k : mo ((m + k) mod 12).
Proof. unfold mo. pose proof (Z.mod_pos_bound (m + k) 12 ltac:(lia)). lia. Qed.
Lemma mo_succ_iter : forall k m, mo m -> iterR k mo_succ m = Val ((m + Z.of_nat k) mod 12).
Proof.
  induction k as [|k IH]; intros m Hm.
  - cbn [iterR]. f_equal. unfold mo in Hm. lia.
  - cbn [iterR]. rewrite (mo_succ_spec m Hm). cbv [bind]. rewrite IH by apply mo_mod.
    f_equal. lia.
Qed.
Lemma mo_pred_iter : forall k m, mo m -> iterR k mo_pred m = Val ((m - Z.of_nat k) mod 12).
Proof.
  induction k as [|k IH]; intros m Hm.
  - cbn [iterR]. f_equal. unfold mo in Hm. lia.
  - cbn [iterR]. rewrite (mo_pred_spec m Hm). cbv [bind].
    replace (m - 1) with (m + (-1)) by lia. rewrite IH by apply mo_mod.
    f_equal. lia.
Qed.
Lemma mo_cycle12 m : mo m ->
  iterR 12 mo_succ m = Val m /\ iterR 12 mo_pred m = Val m /\
  (forall k, (0 < k < 12)%nat -> iterR k mo_succ m <> Val m /\ iterR k mo_pred m <> Val m) /\
  (let* s := mo_succ m in mo_pred s) = Val m /\ (let* p := mo_pred m in mo_succ p) = Val m.
Proof.
  intros Hm. unfold mo in Hm. repeat split.
  - rewrite mo_succ_iter by exact Hm. f_equal. lia.
  - rewrite mo_pred_iter by exact Hm. f_equal. lia.
  - rewrite mo_succ_iter by exact Hm. intros E. injection E as E. lia.
  - rewrite mo_pred_iter by exact Hm. intros E. injection E as E. lia.
  - rewrite (mo_succ_spec m) by exact Hm. cbv [bind]. rewrite mo_pred_spec by apply mo_mod. f_equal. lia.
  - rewrite (mo_pred_spec m) by exact Hm. cbv [bind]. replace (m - 1) with (m + -1) by lia.
    rewrite mo_succ_spec by apply mo_mod. f_equal. lia.
Qed.
Lemma mo_cmp_spec a b : mo_cmp a b = cmpZ (a + 1) (b + 1).
Proof.
  unfold mo_cmp, cmpZ. destruct (a ?= b) eqn:E; destruct (a + 1 ?= b + 1) eqn:E2; try reflexivity;
  rewrite ?Z.compare_eq_iff, ?Z.compare_lt_iff, ?Z.compare_gt_iff in *; lia.
Qed.

(** * Numeric conversions — for every integer, not a sweep *)
Ltac eqb_cases n :=
  repeat match goal with |- context [n =? ?k] => destruct (Z.eqb_spec n k); [subst n; try reflexivity|] end.
Ltac fin_cond := match goal with |- context [if ?c then _ else _] => destruct c eqn:?; try reflexivity; try lia end.

Definition wd_num (n : Z) : option Z := if (0 <=? n) && (n <=? 6) then Some n else None.
Definition mo_num (n : Z) : option Z := if (1 <=? n) && (n <=? 12) then Some (n - 1) else None.

Lemma wd_try_from_u8_eq n : wd_try_from_u8 n = wd_num n.
Proof. unfold wd_try_from_u8, WD_TRY_FROM_U8, wd_num. cbn [lookup]. eqb_cases n. fin_cond. Qed.
Lemma wd_from_i64_eq n : wd_from_i64 n = wd_num n.
Proof. unfold wd_from_i64, WD_FROM_I64, wd_num. cbn [lookup]. eqb_cases n. fin_cond. Qed.
Lemma wd_from_u64_eq n : wd_from_u64 n = wd_num n.
Proof. unfold wd_from_u64, WD_FROM_U64, wd_num. cbn [lookup]. eqb_cases n. fin_cond. Qed.
Lemma mo_try_from_u8_eq n : mo_try_from_u8 n = mo_num n.
Proof. unfold mo_try_from_u8, MO_TRY_FROM_U8, mo_num. cbn [lookup]. eqb_cases n. fin_cond. Qed.
Lemma mo_from_u32_eq n : mo_from_u32 n = mo_num n.
Proof. unfold mo_from_u32, MO_FROM_U32, mo_num. cbn [lookup]. eqb_cases n. fin_cond. Qed.
Lemma mo_from_u64_eq n : mo_from_u64 n = mo_num n.
Proof.
  unfold mo_from_u64, chko. destruct (in_u32 n) eqn:E; [apply mo_from_u32_eq|].
  unfold mo_num. unfold in_u32, in_range, u32_max in E. fin_cond.
Qed.
Lemma mo_from_i64_eq n : mo_from_i64 n = mo_num n.
Proof. exact (mo_from_u64_eq n). Qed.

(* the num-traits defaults preserve exactness when the range test they apply contains the valid numbers *)
Lemma via_chko (inr : Z -> bool) (f num : Z -> option Z) n :
  (forall k, f k = num k) -> (inr n = false -> num n = None) ->
  match chko inr n with Some m => f m | None => None end = num n.
Proof. intros Hf Hout. unfold chko. destruct (inr n) eqn:E; [apply Hf|]. symmetry. apply Hout. reflexivity. Qed.
Lemma wd_num_out_i64 n : in_i64 n = false -> wd_num n = None.
Proof. unfold in_i64, in_range, i64_min, i64_max, wd_num. intros H. fin_cond. Qed.
Lemma wd_num_out_u64 n : in_u64 n = false -> wd_num n = None.
Proof. unfold in_u64, in_range, u64_max, wd_num. intros H. fin_cond. Qed.
Lemma mo_num_out_i64 n : in_i64 n = false -> mo_num n = None.
Proof. unfold in_i64, in_range, i64_min, i64_max, mo_num. intros H. fin_cond. Qed.
Lemma mo_num_out_u64 n : in_u64 n = false -> mo_num n = None.
Proof. unfold in_u64, in_range, u64_max, mo_num. intros H. fin_cond. Qed.

(* all twelve integer entry points of FromPrimitive, Weekday *)
Definition wd_from_all (n : Z) : list (option Z) :=
  [wd_from_i64 n; wd_from_u64 n; wd_from_u32 n;
   dflt_from_i8 wd_from_i64 n; dflt_from_i16 wd_from_i64 n; dflt_from_i32 wd_from_i64 n;
   dflt_from_isize wd_from_i64 n; dflt_from_i128 wd_from_i64 n;
   dflt_from_u8 wd_from_u64 n; dflt_from_u16 wd_from_u64 n; dflt_from_usize wd_from_u64 n;
   dflt_from_u128 wd_from_u64 n; wd_try_from_u8 n].
Lemma wd_from_all_eq n : forall r, In r (wd_from_all n) -> r = wd_num n.
Proof.
  intros r Hr. unfold wd_from_all in Hr. cbn [In] in Hr.
  unfold wd_from_u32, dflt_from_u32, dflt_from_i8, dflt_from_i16, dflt_from_i32, dflt_from_u8, dflt_from_u16,
    dflt_from_isize, dflt_from_i128, dflt_from_usize, dflt_from_u128, in_usize, in_isize in Hr.
  repeat (destruct Hr as [<-|Hr]); try apply wd_from_i64_eq; try apply wd_from_u64_eq; try apply wd_try_from_u8_eq;
    try (apply via_chko; [apply wd_from_i64_eq|apply wd_num_out_i64]);
    try (apply via_chko; [apply wd_from_u64_eq|apply wd_num_out_u64]).
  contradiction.
Qed.
Definition mo_from_all (n : Z) : list (option Z) :=
  [mo_from_i64 n; mo_from_u64 n; mo_from_u32 n;
   dflt_from_i8 mo_from_i64 n; dflt_from_i16 mo_from_i64 n; dflt_from_i32 mo_from_i64 n;
   dflt_from_isize mo_from_i64 n; dflt_from_i128 mo_from_i64 n;
   dflt_from_u8 mo_from_u64 n; dflt_from_u16 mo_from_u64 n; dflt_from_usize mo_from_u64 n;
   dflt_from_u128 mo_from_u64 n; mo_try_from_u8 n].
Lemma mo_from_all_eq n : forall r, In r (mo_from_all n) -> r = mo_num n.
Proof.
  intros r Hr. unfold mo_from_all in Hr. cbn [In] in Hr.
  unfold dflt_from_u32, dflt_from_i8, dflt_from_i16, dflt_from_i32, dflt_from_u8, dflt_from_u16,
    dflt_from_isize, dflt_from_i128, dflt_from_usize, dflt_from_u128, in_usize, in_isize in Hr.
  repeat (destruct Hr as [<-|Hr]); try apply mo_from_i64_eq; try apply mo_from_u64_eq; try apply mo_from_u32_eq;
    try apply mo_try_from_u8_eq;
    try (apply via_chko; [apply mo_from_i64_eq|apply mo_num_out_i64]);
    try (apply via_chko; [apply mo_from_u64_eq|apply mo_num_out_u64]).
  contradiction.
Qed.

(* the statement of the property for one conversion function at one integer *)
Definition wd_conv_exact (r : option Z) (n : Z) : Prop :=
  match r with
  | Some w => 0 <= n <= 6 /\ wd w /\ wd_num_days_from_monday w = Val n
  | None => ~ (0 <= n <= 6)
  end.
Definition mo_conv_exact (r : option Z) (n : Z) : Prop :=
  match r with
  | Some m => 1 <= n <= 12 /\ mo m /\ mo_number_from_month m = Val n
  | None => ~ (1 <= n <= 12)
  end.
Lemma wd_num_exact n : wd_conv_exact (wd_num n) n.
Proof.
  unfold wd_num. destruct ((0 <=? n) && (n <=? 6)) eqn:E; cbn [wd_conv_exact]; [|lia].
  assert (Hw : wd n) by (unfold wd; lia). split; [lia|]. split; [exact Hw|].
  apply (wd_numbering_spec n Hw).
Qed.
Lemma mo_num_exact n : mo_conv_exact (mo_num n) n.
Proof.
  unfold mo_num. destruct ((1 <=? n) && (n <=? 12)) eqn:E; cbn [mo_conv_exact]; [|lia].
  assert (Hm : mo (n - 1)) by (unfold mo; lia). split; [lia|]. split; [exact Hm|].
  rewrite (mo_number_spec _ Hm). f_equal. lia.
Qed.
Theorem wd_from_int_exact n : forall r, In r (wd_from_all n) -> wd_conv_exact r n.
Proof. intros r Hr. rewrite (wd_from_all_eq n r Hr). apply wd_num_exact. Qed.
Theorem mo_from_int_exact n : forall r, In r (mo_from_all n) -> mo_conv_exact r n.
Proof. intros r Hr. rewrite (mo_from_all_eq n r Hr). apply mo_num_exact. Qed.

(* and the other way round: every conversion inverts the numbering *)
Theorem wd_from_number w : wd w ->
  exists n, wd_num_days_from_monday w = Val n /\ forall r, In r (wd_from_all n) -> r = Some w.
Proof.
  intros Hw. exists w. split; [apply (wd_numbering_spec w Hw)|]. intros r Hr.
  rewrite (wd_from_all_eq w r Hr). unfold wd_num, wd in *. fin_cond.
Qed.
Theorem mo_from_number m : mo m ->
  exists n, mo_number_from_month m = Val n /\ forall r, In r (mo_from_all n) -> r = Some m.
Proof.
  intros Hm. exists (m + 1). split; [apply (mo_number_spec m Hm)|]. intros r Hr.
  rewrite (mo_from_all_eq _ r Hr). unfold mo_num, mo in *. fin_cond. f_equal. lia.
Qed.

(* the code as found (narrowing cast) violates the statement: 2^32 + 1 is not a month number *)
Theorem mo_from_int_exact_refuted :
  in_u64 4294967297 = true /\ ~ mo_conv_exact (mo_from_u64_unrepaired 4294967297) 4294967297 /\
  in_i64 (-4294967295) = true /\ ~ mo_conv_exact (mo_from_i64_unrepaired (-4294967295)) (-4294967295).
Proof.
  assert (E1 : mo_from_u64_unrepaired 4294967297 = Some 0) by (vm_compute; reflexivity).
  assert (E2 : mo_from_i64_unrepaired (-4294967295) = Some 0) by (vm_compute; reflexivity).
  rewrite E1, E2. cbn [mo_conv_exact]. repeat split; lia.
Qed.
